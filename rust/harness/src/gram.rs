//! Grammar-level helpers shared by the C01/C02/C05/C06/C07 harnesses: an AST mirroring
//! pest_meta::ast (coq/Peg/Ast.v), printers (pest concrete syntax and the s-expression exchange
//! format read by the OCaml runners), converters from pest_meta's Expr / OptimizedExpr, and generators.
use crate::prog::hex;
use crate::Rng;
use pest_meta::ast::{Expr, Rule as MRule, RuleType};
use pest_meta::optimizer::{OptimizedExpr, OptimizedRule};

#[derive(Clone, Debug, PartialEq)]
pub enum GE {
    Str(String), Ins(String), Range(char, char), Id(String), Slice(i32, Option<i32>),
    Pos(Box<GE>), Neg(Box<GE>), Seq(Box<GE>, Box<GE>), Cho(Box<GE>, Box<GE>), Opt(Box<GE>), Rep(Box<GE>), Rep1(Box<GE>),
    RepX(Box<GE>, u32), RepMin(Box<GE>, u32), RepMax(Box<GE>, u32), RepMM(Box<GE>, u32, u32),
    Skip(Vec<String>), Push(Box<GE>), PushLit(String), Tag(String, Box<GE>), Roe(Box<GE>),
}
#[derive(Clone, Copy, Debug, PartialEq)]
pub enum Ty { Normal, Silent, Atomic, Compound, NonAtomic }
#[derive(Clone, Debug, PartialEq)]
pub struct GRule { pub name: String, pub ty: Ty, pub e: GE }

pub fn ty_char(t: Ty) -> &'static str { match t { Ty::Normal => "n", Ty::Silent => "s", Ty::Atomic => "a", Ty::Compound => "c", Ty::NonAtomic => "x" } }
pub fn ty_mod(t: Ty) -> &'static str { match t { Ty::Normal => "", Ty::Silent => "_", Ty::Atomic => "@", Ty::Compound => "$", Ty::NonAtomic => "!" } }
pub fn ty_of(t: RuleType) -> Ty { match t { RuleType::Normal => Ty::Normal, RuleType::Silent => Ty::Silent, RuleType::Atomic => Ty::Atomic, RuleType::CompoundAtomic => Ty::Compound, RuleType::NonAtomic => Ty::NonAtomic } }

fn first_char(s: &str) -> char { s.chars().next().unwrap_or('\0') }

pub fn from_expr(e: &Expr) -> GE {
    let b = |x: &Expr| Box::new(from_expr(x));
    match e {
        Expr::Str(s) => GE::Str(s.clone()), Expr::Insens(s) => GE::Ins(s.clone()),
        Expr::Range(a, z) => GE::Range(first_char(a), first_char(z)), Expr::Ident(n) => GE::Id(n.clone()),
        Expr::PeekSlice(i, j) => GE::Slice(*i, *j), Expr::PosPred(x) => GE::Pos(b(x)), Expr::NegPred(x) => GE::Neg(b(x)),
        Expr::Seq(l, r) => GE::Seq(b(l), b(r)), Expr::Choice(l, r) => GE::Cho(b(l), b(r)), Expr::Opt(x) => GE::Opt(b(x)),
        Expr::Rep(x) => GE::Rep(b(x)), Expr::RepOnce(x) => GE::Rep1(b(x)), Expr::RepExact(x, n) => GE::RepX(b(x), *n),
        Expr::RepMin(x, n) => GE::RepMin(b(x), *n), Expr::RepMax(x, n) => GE::RepMax(b(x), *n), Expr::RepMinMax(x, m, n) => GE::RepMM(b(x), *m, *n),
        Expr::Skip(ss) => GE::Skip(ss.clone()), Expr::Push(x) => GE::Push(b(x)),
        #[cfg(feature = "extras")]
        Expr::PushLiteral(s) => GE::PushLit(s.clone()),
        #[cfg(feature = "extras")]
        Expr::NodeTag(x, t) => GE::Tag(t.clone(), b(x)),
    }
}
pub fn from_oexpr(e: &OptimizedExpr) -> GE {
    let b = |x: &OptimizedExpr| Box::new(from_oexpr(x));
    match e {
        OptimizedExpr::Str(s) => GE::Str(s.clone()), OptimizedExpr::Insens(s) => GE::Ins(s.clone()),
        OptimizedExpr::Range(a, z) => GE::Range(first_char(a), first_char(z)), OptimizedExpr::Ident(n) => GE::Id(n.clone()),
        OptimizedExpr::PeekSlice(i, j) => GE::Slice(*i, *j), OptimizedExpr::PosPred(x) => GE::Pos(b(x)), OptimizedExpr::NegPred(x) => GE::Neg(b(x)),
        OptimizedExpr::Seq(l, r) => GE::Seq(b(l), b(r)), OptimizedExpr::Choice(l, r) => GE::Cho(b(l), b(r)), OptimizedExpr::Opt(x) => GE::Opt(b(x)),
        OptimizedExpr::Rep(x) => GE::Rep(b(x)),
        #[cfg(feature = "extras")]
        OptimizedExpr::RepOnce(x) => GE::Rep1(b(x)),
        OptimizedExpr::Skip(ss) => GE::Skip(ss.clone()), OptimizedExpr::Push(x) => GE::Push(b(x)),
        #[cfg(feature = "extras")]
        OptimizedExpr::PushLiteral(s) => GE::PushLit(s.clone()),
        #[cfg(feature = "extras")]
        OptimizedExpr::NodeTag(x, t) => GE::Tag(t.clone(), b(x)),
        OptimizedExpr::RestoreOnErr(x) => GE::Roe(b(x)),
    }
}
pub fn from_rules(rs: &[MRule]) -> Vec<GRule> { rs.iter().map(|r| GRule { name: r.name.clone(), ty: ty_of(r.ty), e: from_expr(&r.expr) }).collect() }
pub fn from_orules(rs: &[OptimizedRule]) -> Vec<GRule> { rs.iter().map(|r| GRule { name: r.name.clone(), ty: ty_of(r.ty), e: from_oexpr(&r.expr) }).collect() }

/// s-expression exchange format
pub fn sexp(e: &GE) -> String {
    use GE::*;
    match e {
        Str(s) => format!("(str {})", hex(s)), Ins(s) => format!("(ins {})", hex(s)),
        Range(a, b) => format!("(range {} {})", *a as u32, *b as u32), Id(n) => format!("(id {})", n),
        Slice(i, j) => format!("(slice {} {})", i, j.map(|x| x.to_string()).unwrap_or("-".into())),
        Pos(x) => format!("(pos {})", sexp(x)), Neg(x) => format!("(neg {})", sexp(x)),
        Seq(l, r) => format!("(seq {} {})", sexp(l), sexp(r)), Cho(l, r) => format!("(cho {} {})", sexp(l), sexp(r)),
        Opt(x) => format!("(opt {})", sexp(x)), Rep(x) => format!("(rep {})", sexp(x)), Rep1(x) => format!("(rep1 {})", sexp(x)),
        RepX(x, n) => format!("(repx {} {})", n, sexp(x)), RepMin(x, n) => format!("(repmin {} {})", n, sexp(x)),
        RepMax(x, n) => format!("(repmax {} {})", n, sexp(x)), RepMM(x, m, n) => format!("(repmm {} {} {})", m, n, sexp(x)),
        Skip(ss) => format!("(skip{})", ss.iter().map(|s| format!(" {}", hex(s))).collect::<String>()),
        Push(x) => format!("(push {})", sexp(x)), PushLit(s) => format!("(pushlit {})", hex(s)),
        Tag(t, x) => format!("(tag {} {})", t, sexp(x)), Roe(x) => format!("(roe {})", sexp(x)),
    }
}
pub fn sexp_grammar(g: &[GRule]) -> String { g.iter().map(|r| format!("({} {} {})", r.name, ty_char(r.ty), sexp(&r.e))).collect::<Vec<_>>().join(";") }

fn lit(s: &str) -> String {
    let mut o = String::from("\"");
    for c in s.chars() {
        match c { '"' => o.push_str("\\\""), '\\' => o.push_str("\\\\"), '\n' => o.push_str("\\n"), '\r' => o.push_str("\\r"), '\t' => o.push_str("\\t"),
            c if (c as u32) < 0x20 => o.push_str(&format!("\\x{:02X}", c as u32)), c => o.push(c) }
    }
    o.push('"');
    o
}
fn chr(c: char) -> String {
    match c { '\'' => "'\\''".into(), '\\' => "'\\\\'".into(), '\n' => "'\\n'".into(), '\r' => "'\\r'".into(), '\t' => "'\\t'".into(),
        c if (c as u32) < 0x20 => format!("'\\x{:02X}'", c as u32), c => format!("'{}'", c) }
}
/// pest concrete syntax, fully parenthesised
pub fn pest(e: &GE) -> String {
    use GE::*;
    match e {
        Str(s) => lit(s), Ins(s) => format!("^{}", lit(s)), Range(a, b) => format!("{}..{}", chr(*a), chr(*b)), Id(n) => n.clone(),
        Slice(i, j) => format!("PEEK[{}..{}]", i, j.map(|x| x.to_string()).unwrap_or_default()),
        Pos(x) => format!("&({})", pest(x)), Neg(x) => format!("!({})", pest(x)),
        Seq(l, r) => format!("({} ~ {})", pest(l), pest(r)), Cho(l, r) => format!("({} | {})", pest(l), pest(r)),
        Opt(x) => format!("({})?", pest(x)), Rep(x) => format!("({})*", pest(x)), Rep1(x) => format!("({})+", pest(x)),
        RepX(x, n) => format!("({}){{{}}}", pest(x), n), RepMin(x, n) => format!("({}){{{},}}", pest(x), n),
        RepMax(x, n) => format!("({}){{,{}}}", pest(x), n), RepMM(x, m, n) => format!("({}){{{},{}}}", pest(x), m, n),
        Skip(_) => "SKIP_NOT_WRITABLE".into(), Push(x) => format!("PUSH({})", pest(x)), PushLit(s) => format!("PUSH_LITERAL({})", lit(s)),
        Tag(t, x) => format!("(#{} = {})", t, pest(x)), Roe(x) => pest(x),
    }
}
pub fn pest_grammar(g: &[GRule]) -> String { g.iter().map(|r| format!("{} = {}{{ {} }}\n", r.name, ty_mod(r.ty), pest(&r.e))).collect() }

// ------------------------------------------------------------------------------------------------
// generators
// ------------------------------------------------------------------------------------------------
pub struct GenCfg { pub stack: bool, pub extras: bool, pub counts: bool, pub builtins: bool }

pub fn gen_expr(r: &mut Rng, d: u32, i: usize, n: usize, c: &GenCfg) -> GE {
    use GE::*;
    let s = |r: &mut Rng| ["x", "y", "xy", "é", "", "yx"][r.weighted(&[6, 5, 3, 2, 1, 1])].to_string();
    if d == 0 || r.chance(1, 4) {
        let k = r.weighted(&[10, 3, 3, 3, 2, 6, if c.builtins { 3 } else { 0 }, if c.stack { 8 } else { 0 }, if c.stack && c.extras { 2 } else { 0 }]);
        return match k {
            0 => Str(s(r)), 1 => Ins(["X", "y", "xY"][r.below(3) as usize].into()),
            2 => { let rs = [('x', 'y'), ('x', 'x'), ('a', 'z'), ('é', 'é'), ('y', 'x')]; let (a, b) = rs[r.weighted(&[4, 2, 2, 1, 1])]; Range(a, b) }
            3 => Id("ANY".into()), 4 => Id(["SOI", "EOI"][r.below(2) as usize].into()),
            5 => if i + 1 < n { Id(format!("r{}", i + 1 + r.below((n - i - 1) as u64) as usize)) } else { Str(s(r)) },
            6 => Id(["ASCII_DIGIT", "ASCII_ALPHA", "NEWLINE", "ASCII_ALPHANUMERIC", "ASCII_HEX_DIGIT", "ASCII"][r.below(6) as usize].into()),
            7 => match r.below(7) {
                0 => Id("POP".into()), 1 => Id("PEEK".into()), 2 => Id("DROP".into()), 3 => Id("PEEK_ALL".into()), 4 => Id("POP_ALL".into()),
                _ => Slice(r.below(4) as i32 - 1, if r.chance(1, 2) { None } else { Some(r.below(4) as i32 - 1) }),
            },
            _ => PushLit(s(r)),
        };
    }
    let mut sub = |r: &mut Rng| Box::new(gen_expr(r, d - 1, i, n, c));
    match r.weighted(&[8, 8, 4, 4, 3, 3, 3, if c.stack { 4 } else { 0 }, if c.counts { 3 } else { 0 }, if c.extras { 2 } else { 0 }]) {
        0 => Seq(sub(r), sub(r)), 1 => Cho(sub(r), sub(r)), 2 => Rep(sub(r)), 3 => Opt(sub(r)), 4 => Neg(sub(r)), 5 => Pos(sub(r)), 6 => Rep1(sub(r)),
        7 => Push(sub(r)),
        8 => match r.below(4) { 0 => RepX(sub(r), r.range(1, 3) as u32), 1 => RepMin(sub(r), r.range(0, 2) as u32), 2 => RepMax(sub(r), r.range(1, 3) as u32),
            _ => { let m = r.range(0, 2) as u32; RepMM(sub(r), m, m + r.range(0, 2) as u32 + if m == 0 { 1 } else { 0 }) } },
        _ => Tag(["t", "u"][r.below(2) as usize].into(), sub(r)),
    }
}

/// a random grammar r0..r{n-1} (calls go to higher-numbered rules only) plus optional WHITESPACE / COMMENT
pub fn gen_grammar(r: &mut Rng, c: &GenCfg) -> Vec<GRule> {
    let n = 2 + r.below(3) as usize;
    let tys = [Ty::Normal, Ty::Normal, Ty::Silent, Ty::Atomic, Ty::Compound, Ty::NonAtomic];
    let mut rules: Vec<GRule> = (0..n).map(|i| GRule { name: format!("r{}", i), ty: tys[r.below(6) as usize], e: gen_expr(r, 3, i, n, c) }).collect();
    match r.below(5) {
        0 => rules.push(GRule { name: "WHITESPACE".into(), ty: Ty::Silent, e: GE::Str(" ".into()) }),
        1 => rules.push(GRule { name: "WHITESPACE".into(), ty: [Ty::Normal, Ty::Atomic, Ty::Compound][r.below(3) as usize], e: GE::Str(" ".into()) }),
        2 => { rules.push(GRule { name: "WHITESPACE".into(), ty: Ty::Silent, e: GE::Str(" ".into()) });
               rules.push(GRule { name: "COMMENT".into(), ty: [Ty::Silent, Ty::Normal][r.below(2) as usize], e: GE::Str("y".into()) }); }
        3 => rules.push(GRule { name: "COMMENT".into(), ty: Ty::Silent, e: GE::Seq(Box::new(GE::Str("y".into())), Box::new(GE::Str(" ".into()))) }),
        _ => {}
    }
    rules
}

/// stack-heavy expressions: several PUSHes of different literals followed by alternatives / optionals /
/// repetitions whose bodies pop, drop and peek (whole stack and slices) and often fail half-way, so that
/// "an expression may change the stack only if it matches" and "a failing expression consumes nothing"
/// are exercised with at least two stack entries and partial matches
pub fn gen_stack_expr(r: &mut Rng, d: u32, extras: bool) -> GE {
    use GE::*;
    let lit = |r: &mut Rng| ["x", "y", "xy", "yx"][r.weighted(&[4, 4, 2, 1])].to_string();
    if d == 0 || r.chance(1, 5) {
        if r.chance(1, 8) { return Id(["r2", "r3", "r2"][r.below(3) as usize].into()); }   // helper rules of gen_stack_grammar (rule calls are not rotated)
        return match r.weighted(&[8, 5, 3, 3, 3, 2, 4, 4, if extras { 2 } else { 0 }]) {
            0 => Push(Box::new(Str(lit(r)))), 1 => Str(lit(r)), 2 => Id("DROP".into()), 3 => Id("POP".into()), 4 => Id("PEEK".into()),
            5 => Id(["PEEK_ALL", "POP_ALL"][r.below(2) as usize].into()),
            6 => Slice(r.below(4) as i32 - 1, if r.chance(1, 2) { None } else { Some(r.below(4) as i32 - 1) }),
            7 => Push(Box::new(Range('x', 'y'))),
            _ => PushLit(lit(r)),
        };
    }
    if r.chance(1, 6) {
        // a failing alternative that pushed, then (in an inner sequence that succeeds) popped across the
        // outer snapshot line, followed by an alternative that reads the whole stack
        let popper = |r: &mut Rng| Box::new(Id(["DROP", "DROP", "POP"][r.below(3) as usize].into()));
        let inner = Seq(popper(r), popper(r));
        let inner = if r.chance(1, 2) { Seq(Box::new(inner), popper(r)) } else { inner };
        let failing = Seq(Box::new(Push(Box::new(Str(lit(r))))), Box::new(Seq(Box::new(inner), Box::new(Str("q".into())))));
        let reader = match r.below(4) { 0 => Id("PEEK_ALL".into()), 1 => Slice(0, None), 2 => Id("POP_ALL".into()), _ => Seq(Box::new(Id("PEEK".into())), Box::new(Slice(0, Some(-1)))) };
        return Cho(Box::new(failing), Box::new(reader));
    }
    let mut sub = |r: &mut Rng| Box::new(gen_stack_expr(r, d - 1, extras));
    match r.weighted(&[12, 8, 3, 3, 2, 2, 2]) {
        0 => Seq(sub(r), sub(r)), 1 => Cho(sub(r), sub(r)), 2 => Opt(sub(r)),
        3 => { let b = sub(r); Rep(Box::new(Seq(Box::new(Range('x', 'y')), b))) }      // progressing repetition
        4 => Neg(sub(r)), 5 => Pos(sub(r)), _ => Push(sub(r)),
    }
}
pub fn gen_stack_grammar(r: &mut Rng, extras: bool) -> Vec<GRule> {
    use GE::*;
    let tys = [Ty::Normal, Ty::Normal, Ty::Atomic, Ty::Compound, Ty::NonAtomic, Ty::Silent];
    // r0 = PUSH(a) ~ PUSH(b) ~ body ~ (r1)?   r1 = second body
    let d = r.range(2, 4) as u32;
    let body0 = gen_stack_expr(r, d, extras);
    let body1 = gen_stack_expr(r, d, extras);
    let first = Seq(Box::new(Push(Box::new(Str(["x", "y"][r.below(2) as usize].into())))),
        Box::new(Seq(Box::new(Push(Box::new(Str(["y", "xy", "x"][r.below(3) as usize].into())))), Box::new(Seq(Box::new(body0), Box::new(Opt(Box::new(Id("r1".into())))))))));
    let mut rules = vec![GRule { name: "r0".into(), ty: tys[r.below(5) as usize], e: first }, GRule { name: "r1".into(), ty: tys[r.below(6) as usize], e: body1 }];
    // r2 = PUSH(lit) ~ r3 ; r3 = popper ~ popper (~ popper): an inner sequence that pops the value just pushed AND older ones and
    // succeeds, i.e. is cleared into the enclosing snapshot with pops on both sides of that snapshot's line
    let popper = |r: &mut Rng| Box::new(Id(["DROP", "DROP", "POP"][r.below(3) as usize].into()));
    let mut pops = Seq(popper(r), popper(r));
    if r.chance(1, 3) { pops = Seq(Box::new(pops), popper(r)); }
    let sil = [Ty::Silent, Ty::Silent, Ty::Normal, Ty::Atomic];
    rules.push(GRule { name: "r2".into(), ty: sil[r.below(4) as usize], e: Seq(Box::new(Push(Box::new(Str(["x", "y", "xy"][r.below(3) as usize].into())))), Box::new(Id("r3".into()))) });
    rules.push(GRule { name: "r3".into(), ty: sil[r.below(4) as usize], e: pops });
    if r.chance(1, 3) { rules.push(GRule { name: "WHITESPACE".into(), ty: Ty::Silent, e: Str(" ".into()) }); }
    rules
}

/// the skip-until idiom `(!(a | b | ..) ~ ANY)*` the optimizer turns into one scan when the rule is atomic: stop sets of one to four
/// literals that share first bytes and prefixes, in every order, with rule references (inlined by the optimizer) in any place of
/// the choice; the same expression in non-atomic rules (left alone); the scan followed by one of the terminators or by anything
pub fn gen_skip_grammar(r: &mut Rng) -> Vec<GRule> {
    use GE::*;
    let pool = ["x", "y", "xy", "yx", "xx", "yy", "xyy", "xyx", "yxy"];
    let lit = |r: &mut Rng| pool[r.weighted(&[4, 4, 4, 3, 2, 2, 2, 2, 1])].to_string();
    let nalt = r.weighted(&[0, 2, 5, 3, 2]);
    let mut helpers: Vec<GRule> = vec![];
    let mut alts: Vec<GE> = (0..nalt).map(|_| Str(lit(r))).collect();
    // rule references inside the stop set
    let nref = r.weighted(&[5, 4, 1]);
    for k in 0..nref {
        let name = format!("r{}", 2 + k);
        let body = match r.below(4) { 0 => Str(lit(r)), 1 => Cho(Box::new(Str(lit(r))), Box::new(Str(lit(r)))),
            2 => if k + 1 < nref { Cho(Box::new(Str(lit(r))), Box::new(Id(format!("r{}", 3 + k)))) } else { Str(lit(r)) },
            _ => Cho(Box::new(Str(lit(r))), Box::new(Cho(Box::new(Str(lit(r))), Box::new(Str(lit(r)))))) };
        helpers.push(GRule { name: name.clone(), ty: [Ty::Silent, Ty::Silent, Ty::Normal, Ty::Atomic][r.below(4) as usize], e: body });
        let at = r.below(alts.len() as u64 + 1) as usize;
        let at = if r.chance(1, 2) { alts.len() } else { at };
        alts.insert(at, Id(name));
    }
    let mut stop = alts.pop().unwrap();
    while let Some(a) = alts.pop() { stop = Cho(Box::new(a), Box::new(stop)); }
    let scan = Rep(Box::new(Seq(Box::new(Neg(Box::new(stop))), Box::new(Id("ANY".into())))));
    let tail = match r.below(5) { 0 => Str(lit(r)), 1 => Seq(Box::new(Str(lit(r))), Box::new(Rep(Box::new(Id("ANY".into()))))), 2 => Id("EOI".into()),
        3 => Opt(Box::new(Id("ANY".into()))), _ => Cho(Box::new(Str(lit(r))), Box::new(Str(lit(r)))) };
    let e1 = match r.below(4) { 0 => scan.clone(), 1 => Seq(Box::new(Str(lit(r))), Box::new(scan.clone())), _ => Seq(Box::new(scan.clone()), Box::new(tail.clone())) };
    let ty1 = [Ty::Atomic, Ty::Atomic, Ty::Atomic, Ty::Atomic, Ty::Compound, Ty::Normal, Ty::Silent][r.below(7) as usize];
    let e0 = match r.below(4) { 0 => Id("r1".into()), 1 => Seq(Box::new(Id("r1".into())), Box::new(tail)), 2 => Rep(Box::new(Seq(Box::new(Id("r1".into())), Box::new(Id("ANY".into()))))),
        _ => Seq(Box::new(Opt(Box::new(Str(lit(r))))), Box::new(Id("r1".into()))) };
    let mut rules = vec![GRule { name: "r0".into(), ty: [Ty::Normal, Ty::Atomic, Ty::Compound, Ty::Silent, Ty::NonAtomic][r.below(5) as usize], e: e0 },
                         GRule { name: "r1".into(), ty: ty1, e: e1 }];
    rules.extend(helpers);
    if r.chance(1, 5) { rules.push(GRule { name: "WHITESPACE".into(), ty: Ty::Silent, e: Str(" ".into()) }); }
    rules
}

/// grammars made of the shapes the optimizer passes look for (rotation chains, literal concatenation, common prefixes of a
/// choice, `(x ~ y)* ~ x`), in rules of EVERY modifier - so that a pass applied to a rule type it must leave alone, or with the
/// wrong idea about implicit whitespace, changes spans or acceptance - called from non-atomic and atomic rules, with trivia defined
pub fn gen_opt_grammar(r: &mut Rng) -> Vec<GRule> {
    use GE::*;
    let lit = |r: &mut Rng| ["x", "y", "xy", "yx", "xx"][r.weighted(&[5, 5, 2, 1, 1])].to_string();
    let atom = |r: &mut Rng| match r.below(6) { 0 => Ins(["X", "y"][r.below(2) as usize].into()), 1 => Id("ANY".into()), 2 => Range('x', 'y'), _ => Str(lit(r)) };
    let b = |e: GE| Box::new(e);
    let shape = |r: &mut Rng| -> GE {
        let e = atom(r); let t1 = atom(r); let t2 = atom(r);
        match r.below(10) {
            0 => Cho(b(Seq(b(e.clone()), b(t1))), b(e)),                                   // (e ~ r) | e
            1 => Cho(b(e.clone()), b(Seq(b(e), b(t1)))),                                   // e | (e ~ r)
            2 => Cho(b(Seq(b(e.clone()), b(t1))), b(Seq(b(e), b(t2)))),                    // (e ~ r1) | (e ~ r2)
            3 => Cho(b(Seq(b(t1), b(e.clone()))), b(Seq(b(t2), b(e)))),                    // common tail
            4 => Seq(b(Rep(b(Seq(b(e.clone()), b(t1))))), b(e)),                           // (x ~ y)* ~ x
            5 => Seq(b(Seq(b(Rep(b(Seq(b(e.clone()), b(t1))))), b(e))), b(Opt(b(t2)))),    // (x ~ y)* ~ x ~ tail?
            6 => Seq(b(Seq(b(e), b(t1))), b(t2)),                                          // left-nested sequence
            7 => Cho(b(Cho(b(e), b(t1))), b(t2)),                                          // left-nested choice
            8 => Seq(b(Str(lit(r))), b(Seq(b(Ins(["X", "y"][r.below(2) as usize].into())), b(Str(lit(r)))))),   // literal runs
            _ => Cho(b(Seq(b(e.clone()), b(Opt(b(t1))))), b(Seq(b(e), b(Rep(b(t2)))))),
        }
    };
    let tys = [Ty::Normal, Ty::Silent, Ty::Silent, Ty::Atomic, Ty::Compound, Ty::NonAtomic];
    let body1 = shape(r);
    let body2 = if r.chance(1, 2) { shape(r) } else { Str(lit(r)) };
    let tail = match r.below(4) { 0 => Str(lit(r)), 1 => Id("EOI".into()), 2 => Seq(b(Str(" ".into())), b(Str(lit(r)))), _ => Opt(b(Str(lit(r)))) };
    let e0 = match r.below(4) { 0 => Id("r1".into()), 1 => Seq(b(Id("r1".into())), b(tail)), 2 => Seq(b(Id("r1".into())), b(Id("r2".into()))), _ => Rep(b(Id("r1".into()))) };
    let mut rules = vec![
        GRule { name: "r0".into(), ty: [Ty::Normal, Ty::Normal, Ty::Compound, Ty::Atomic, Ty::NonAtomic][r.below(5) as usize], e: e0 },
        GRule { name: "r1".into(), ty: tys[r.below(6) as usize], e: body1 },
        GRule { name: "r2".into(), ty: tys[r.below(6) as usize], e: body2 }];
    match r.below(6) {
        0 => {}
        1 => rules.push(GRule { name: "COMMENT".into(), ty: Ty::Silent, e: Str("#".into()) }),
        2 => { rules.push(GRule { name: "WHITESPACE".into(), ty: Ty::Silent, e: Str(" ".into()) }); rules.push(GRule { name: "COMMENT".into(), ty: Ty::Silent, e: Str("#".into()) }); }
        _ => rules.push(GRule { name: "WHITESPACE".into(), ty: Ty::Silent, e: Str(" ".into()) }),
    }
    rules
}

/// all strings of length <= n over the alphabet
pub fn all_strings(alpha: &[&str], n: usize) -> Vec<String> {
    let mut out = vec![String::new()];
    let mut layer = vec![String::new()];
    for _ in 0..n {
        let mut next = vec![];
        for w in &layer { for a in alpha { next.push(format!("{}{}", w, a)); } }
        out.extend(next.iter().cloned());
        layer = next;
    }
    out
}

/// token forest of a successful parse:  name#tag(start,end)[children]
pub fn forest<R: pest::RuleType>(pairs: pest::iterators::Pairs<'_, R>, name: &dyn Fn(R) -> String) -> String {
    let mut o = String::new();
    for p in pairs {
        let sp = p.as_span();
        let tag = p.as_node_tag().map(|t| format!("#{}", t)).unwrap_or_default();
        let r = p.as_rule();
        o.push_str(&format!("{}{}({},{})[{}]", name(r), tag, sp.start(), sp.end(), forest(p.into_inner(), name)));
    }
    o
}
