// ---- C14, the two process-wide switches of pest (pest::set_error_detail, pest::set_call_limit): the legs must agree on acceptance, token
// tree and error under every setting of them.  This file is included textually by bin/c14.rs (checked-in parser, pest_vm) AND written
// into the source of the compiled fresh parsers (c14_fresh_main.rs.in), so that every leg is observed by the same code.  It uses the
// `forest` and `obs_err` of the including program.
//   detail_obs : the result of a parse made with error detail ON: the token forest, or the error + what Error::parse_attempts() carries
//                (farthest position, expected / unexpected tokens, rule call stacks: sorted, as sets) + the message that
//                Error::parse_attempts_error renders from it (its lines sorted: the order of the help lines follows the order of the
//                rule type, which is alphabetical for pest_vm and the enum order for a generated parser).
//   budget_obs : `run` = one parse under the call limit in force, as an observation.  The smallest limit under which the answer is not
//                `call limit reached` (doubling, then bisection), the answer under that limit and under the limit below it.
// ----
fn sw_esc(s: &str) -> String { s.replace('\\', "\\\\").replace('\t', "\\t").replace('\n', "\\n").replace('\r', "\\r") }

fn sw_set<T: std::fmt::Debug>(v: Vec<T>) -> String {
    let mut s: Vec<String> = v.iter().map(|x| format!("{:?}", x)).collect();
    s.sort(); s.dedup();
    s.join(",")
}

fn detail_obs<R: pest::RuleType>(res: Result<pest::iterators::Pairs<'_, R>, pest::error::Error<R>>, t: &str, name: &dyn Fn(R) -> String,
                                 r2m: &pest::error::RuleToMessageFn<R>) -> String {
    match res {
        Ok(p) => format!("Ok {}", forest(p, name)),
        Err(e) => {
            let head = obs_err(e.clone());
            match e.parse_attempts() {
                None => format!("{} attempts=None", head),
                Some(a) => {
                    let mut st: Vec<String> = a.call_stacks().iter().map(|c| format!("{}<{}", c.deepest.get_rule().map(|r| name(*r)).unwrap_or_else(|| "TOKEN".to_string()),
                        c.parent.map(|p| name(p)).unwrap_or_default())).collect();
                    st.sort(); st.dedup();
                    let isw: pest::error::IsWhitespaceFn = Box::new(|s: String| s.chars().all(|c| c.is_whitespace()));
                    let rendered = match e.parse_attempts_error(t, r2m, &isw) {
                        None => "None".to_string(),
                        Some(e2) => { let mut ls: Vec<String> = e2.variant.message().lines().map(|l| l.trim().to_string()).collect(); ls.sort(); format!("{:?} {}", e2.location, ls.join(" / ")) }
                    };
                    format!("{} attempts: farthest={} expected=[{}] unexpected=[{}] stacks=[{}] rendered={}", head, a.max_position, sw_set(a.expected_tokens()),
                        sw_set(a.unexpected_tokens()), st.join(","), sw_esc(&rendered))
                }
            }
        }
    }
}

/// no budget is looked for above this limit (the text is then reported as `need>..` by every leg alike)
const SW_MAX: usize = 1 << 22;
const SW_LIMITED: &str = "Custom call limit reached";

fn sw_under(n: usize, run: &dyn Fn() -> String) -> String {
    pest::set_call_limit(std::num::NonZeroUsize::new(n));
    run()
}

/// (the smallest limit under which `run` does not answer `call limit reached`, the observation); leaves the call limit at `restore`
fn budget_obs(run: &dyn Fn() -> String, restore: usize) -> (Option<usize>, String) {
    let mut hi = 32usize;
    let mut lo = 0usize;            // limits <= lo are refused (0: no parse is tried under it, `0` means no limit)
    let mut at = sw_under(hi, run);
    while at == SW_LIMITED && hi < SW_MAX { lo = hi; hi *= 2; at = sw_under(hi, run); }
    if at == SW_LIMITED { pest::set_call_limit(std::num::NonZeroUsize::new(restore)); return (None, format!("need>{}", SW_MAX)); }
    while hi - lo > 1 {
        let mid = lo + (hi - lo) / 2;
        let o = sw_under(mid, run);
        if o == SW_LIMITED { lo = mid; } else { hi = mid; at = o; }
    }
    let below = if hi > 1 { sw_under(hi - 1, run) } else { "-".to_string() };
    pest::set_call_limit(std::num::NonZeroUsize::new(restore));
    (Some(hi), format!("need={} below=`{}` at=`{}`", hi, below, at))
}
