//! Shared helpers for the correspondence harness (one binary per property under src/bin).
pub mod prog;
#[cfg(feature = "meta")]
pub mod gram;
use std::panic;

/// splitmix64: the single PRNG every random choice derives from (seeded by VERIF_SEED).
#[derive(Clone)]
pub struct Rng(pub u64);
impl Rng {
    pub fn new(seed: u64) -> Self { Rng(seed.wrapping_add(0x9E3779B97F4A7C15)) }
    pub fn next(&mut self) -> u64 {
        self.0 = self.0.wrapping_add(0x9E3779B97F4A7C15);
        let mut z = self.0;
        z = (z ^ (z >> 30)).wrapping_mul(0xBF58476D1CE4E5B9);
        z = (z ^ (z >> 27)).wrapping_mul(0x94D049BB133111EB);
        z ^ (z >> 31)
    }
    pub fn below(&mut self, n: u64) -> u64 { if n == 0 { 0 } else { self.next() % n } }
    pub fn range(&mut self, lo: u64, hi: u64) -> u64 { lo + self.below(hi - lo + 1) }
    pub fn chance(&mut self, num: u64, den: u64) -> bool { self.below(den) < num }
    pub fn pick<'a, T>(&mut self, xs: &'a [T]) -> &'a T { &xs[self.below(xs.len() as u64) as usize] }
    /// weighted choice: returns index
    pub fn weighted(&mut self, ws: &[u64]) -> usize {
        let tot: u64 = ws.iter().sum();
        let mut r = self.below(tot);
        for (i, w) in ws.iter().enumerate() { if r < *w { return i; } r -= *w; }
        ws.len() - 1
    }
}

/// Run `f`, mapping a panic to Err(message); the default panic hook is silenced once.
pub fn quiet_panics() { panic::set_hook(Box::new(|_| {})); }
pub fn catch<R>(f: impl FnOnce() -> R) -> Result<R, String> {
    panic::catch_unwind(panic::AssertUnwindSafe(f)).map_err(|e| {
        if let Some(s) = e.downcast_ref::<&str>() { s.to_string() }
        else if let Some(s) = e.downcast_ref::<String>() { s.clone() } else { "panic".to_string() }
    })
}

pub fn arg(n: usize) -> String { std::env::args().nth(n).unwrap_or_default() }
pub fn arg_u64(n: usize, d: u64) -> u64 { std::env::args().nth(n).and_then(|s| s.parse().ok()).unwrap_or(d) }

/// Escape a string for the tab/line-separated exchange format.
pub fn esc(s: &str) -> String {
    let mut o = String::new();
    for c in s.chars() {
        match c { '\\' => o.push_str("\\\\"), '\t' => o.push_str("\\t"), '\n' => o.push_str("\\n"), '\r' => o.push_str("\\r"), c => o.push(c) }
    }
    o
}
