//! Reader of the Rust code pest_generator emits (and of the checked-in meta/src/grammar.rs): a
//! `syn`-based translation of the dozen expression shapes of generator.rs back into the Layer-C
//! `Prog` of prog.rs.  Strict: any shape it does not know is an error (never a default).
//! Shared by the c02 and c14 binaries through `#[path]`.
//!
//! Numbering (the convention of coq/Gen/GenCompile.v): with n = number of user rules,
//!   Rule::<k-th rule> = k, Rule::EOI = n;
//!   closures: user rule k = k; hidden::skip = n+2; fixed built-in i = n+3+i; Unicode built-in j = n+22+j.
use pvharness::prog::Prog;
use std::collections::HashMap;
use syn::ext::IdentExt;
use syn::{Expr, Item, Lit, Stmt};

pub const FIXED_BUILTINS: [&str; 19] = [
    "ANY", "EOI", "SOI", "PEEK", "PEEK_ALL", "POP", "POP_ALL", "DROP", "ASCII_DIGIT", "ASCII_NONZERO_DIGIT", "ASCII_BIN_DIGIT",
    "ASCII_OCT_DIGIT", "ASCII_HEX_DIGIT", "ASCII_ALPHA_LOWER", "ASCII_ALPHA_UPPER", "ASCII_ALPHA", "ASCII_ALPHANUMERIC", "ASCII", "NEWLINE",
];

/// What the reader extracts from one generated parser.
#[derive(Debug, Default)]
pub struct Parsed {
    pub variants: Vec<String>,          // enum Rule, in order (EOI first when present)
    pub all_rules: Vec<String>,         // Rule::all_rules()
    pub skip: Option<Prog>,             // hidden::skip
    pub fns: Vec<(String, Prog)>,       // visible::*, in order
    pub start: Vec<(String, String)>,   // match rule { Rule::a => rules::b(state) }
}

pub struct Ctx<'a> {
    pub rules: Vec<String>,                     // user rules in enum order (EOI removed)
    pub fn_names: Vec<String>,                  // every fn of `mod visible`
    pub unicode: &'a [String],                  // the Unicode built-in table of the run (names, in order)
    pub ranges: &'a dyn Fn(&str) -> Option<Vec<(char, char)>>,
}

fn err<T>(msg: impl Into<String>) -> Result<T, String> { Err(msg.into()) }

pub fn tag_id(t: &str) -> usize { t.bytes().fold(0usize, |a, b| a.wrapping_mul(256).wrapping_add(b as usize)) }

fn path_segments(p: &syn::Path) -> Vec<String> { p.segments.iter().map(|s| s.ident.unraw().to_string()).collect() }
fn expr_path(e: &Expr) -> Option<Vec<String>> {
    match e { Expr::Path(p) if p.qself.is_none() => Some(path_segments(&p.path)), Expr::Group(g) => expr_path(&g.expr), Expr::Paren(g) => expr_path(&g.expr), _ => None }
}
fn is_state(e: &Expr) -> bool { expr_path(e).map(|p| p == ["state"]).unwrap_or(false) }

impl<'a> Ctx<'a> {
    fn n(&self) -> usize { self.rules.len() }
    fn rule_id(&self, name: &str) -> Result<u32, String> {
        if let Some(k) = self.rules.iter().position(|r| r == name) { return Ok(k as u32); }
        if name == "EOI" { return Ok(self.n() as u32); }
        err(format!("Rule::{} is not a variant", name))
    }
    /// a path to a function of `mod visible`
    fn call_id(&self, name: &str) -> Result<usize, String> {
        if !self.fn_names.iter().any(|f| f == name) { return err(format!("call of `{}` which is not a function of mod visible", name)); }
        if let Some(k) = self.rules.iter().position(|r| r == name) { return Ok(k); }
        if let Some(i) = FIXED_BUILTINS.iter().position(|b| *b == name) { return Ok(self.n() + 3 + i); }
        if let Some(j) = self.unicode.iter().position(|b| b == name) { return Ok(self.n() + 22 + j); }
        err(format!("function `{}` is neither a rule nor a known built-in", name))
    }

    fn lit_str(&self, e: &Expr) -> Result<String, String> {
        match e {
            Expr::Lit(l) => match &l.lit { Lit::Str(s) => Ok(s.value()), _ => err("expected a string literal") },
            Expr::Group(g) => self.lit_str(&g.expr),
            Expr::MethodCall(m) if m.method == "to_owned" || m.method == "to_string" => self.lit_str(&m.receiver),
            _ => err("expected a string literal"),
        }
    }
    fn lit_char(&self, e: &Expr) -> Result<char, String> {
        match e { Expr::Lit(l) => match &l.lit { Lit::Char(c) => Ok(c.value()), _ => err("expected a char literal") }, Expr::Group(g) => self.lit_char(&g.expr), _ => err("expected a char literal") }
    }
    fn lit_int(&self, e: &Expr) -> Result<i64, String> {
        match e {
            Expr::Lit(l) => match &l.lit { Lit::Int(i) => i.base10_parse::<i64>().map_err(|x| x.to_string()), _ => err("expected an integer literal") },
            Expr::Unary(u) if matches!(u.op, syn::UnOp::Neg(_)) => Ok(-self.lit_int(&u.expr)?),
            Expr::Group(g) => self.lit_int(&g.expr), Expr::Paren(g) => self.lit_int(&g.expr),
            _ => err("expected an integer literal"),
        }
    }
    fn lit_bool(&self, e: &Expr) -> Result<bool, String> {
        match e { Expr::Lit(l) => match &l.lit { Lit::Bool(b) => Ok(b.value), _ => err("expected a bool") }, _ => err("expected a bool") }
    }
    fn opt_int(&self, e: &Expr) -> Result<Option<i32>, String> {
        match e {
            Expr::Call(c) => {
                let p = expr_path(&c.func).ok_or("Option constructor expected")?;
                if p.last().map(|s| s.as_str()) == Some("Some") && c.args.len() == 1 { Ok(Some(self.lit_int(&c.args[0])? as i32)) } else { err("Option::Some expected") }
            }
            _ => { let p = expr_path(e).ok_or("Option expected")?; if p.last().map(|s| s.as_str()) == Some("None") { Ok(None) } else { err("Option::None expected") } }
        }
    }
    /// `|state| body`
    fn closure(&self, e: &Expr, lets: &HashMap<String, Vec<String>>) -> Result<Prog, String> {
        match e {
            Expr::Closure(c) => {
                if c.inputs.len() != 1 { return err("closure with one parameter expected"); }
                match &c.inputs[0] { syn::Pat::Ident(p) if p.ident == "state" => {}, _ => return err("closure parameter must be `state`") }
                self.expr(&c.body, lets)
            }
            Expr::Group(g) => self.closure(&g.expr, lets),
            _ => err("closure expected"),
        }
    }
    fn block(&self, b: &syn::Block, lets: &HashMap<String, Vec<String>>) -> Result<Prog, String> {
        let mut lets = lets.clone();
        let mut result = None;
        for (i, st) in b.stmts.iter().enumerate() {
            match st {
                Stmt::Local(l) => {
                    let name = match &l.pat { syn::Pat::Ident(p) => p.ident.to_string(), _ => return err("let pattern") };
                    let init = l.init.as_ref().ok_or("let without initialiser")?;
                    let arr = match &*init.expr { Expr::Array(a) => a, _ => return err("let initialiser must be an array of strings") };
                    let mut v = vec![];
                    for x in arr.elems.iter() { v.push(self.lit_str(x)?); }
                    lets.insert(name, v);
                }
                Stmt::Expr(e, None) if i + 1 == b.stmts.len() => result = Some(self.expr(e, &lets)?),
                _ => return err("unexpected statement in generated block"),
            }
        }
        result.ok_or_else(|| "block without a tail expression".to_string())
    }

    pub fn expr(&self, e: &Expr, lets: &HashMap<String, Vec<String>>) -> Result<Prog, String> {
        use Prog::{Str, Ins, Range, Cls, Skip, Until, Soi, Eoi, PushLit, Peek, Pop, Drop, MPeek, MPop, Slice, Tag, Rule, Seq, Rep, Opt, Look, Atomic, Push, Roe, Then, Else, IfNa, Call};
        let bx = |p: Prog| Box::new(p);
        match e {
            Expr::Group(g) => self.expr(&g.expr, lets),
            Expr::Paren(g) => self.expr(&g.expr, lets),
            Expr::Block(b) => self.block(&b.block, lets),
            Expr::If(i) => {
                // if state.atomicity() == ::pest::Atomicity::NonAtomic { .. } else { .. }
                let ok = match &*i.cond {
                    Expr::Binary(b) if matches!(b.op, syn::BinOp::Eq(_)) => {
                        let l = match &*b.left { Expr::MethodCall(m) => is_state(&m.receiver) && m.method == "atomicity" && m.args.is_empty(), _ => false };
                        let r = expr_path(&b.right).map(|p| p == ["pest", "Atomicity", "NonAtomic"]).unwrap_or(false);
                        l && r
                    }
                    _ => false,
                };
                if !ok { return err("unknown `if` condition"); }
                let els = match &i.else_branch { Some((_, e)) => self.expr(e, lets)?, None => return err("if without else") };
                Ok(IfNa(bx(self.block(&i.then_branch, lets)?), bx(els)))
            }
            Expr::Call(c) => {
                let p = expr_path(&c.func).ok_or("call of a non-path")?;
                if c.args.len() != 1 || !is_state(&c.args[0]) { return err("call must pass `state`"); }
                let ps: Vec<&str> = p.iter().map(|s| s.as_str()).collect();
                match ps.as_slice() {
                    ["Ok"] => Ok(Prog::Ok),
                    ["super", "hidden", "skip"] => Ok(Call(self.n() + 2)),
                    ["self", f] | ["super", "visible", f] | ["rules", f] => Ok(Call(self.call_id(f)?)),
                    _ => err(format!("unknown call path {}", p.join("::"))),
                }
            }
            Expr::MethodCall(m) => {
                let name = m.method.to_string();
                let args: Vec<&Expr> = m.args.iter().collect();
                if !is_state(&m.receiver) {
                    let recv = self.expr(&m.receiver, lets)?;
                    if args.len() != 1 { return err("and_then/or_else take one closure"); }
                    return match name.as_str() {
                        "and_then" => Ok(Then(bx(recv), bx(self.closure(args[0], lets)?))),
                        "or_else" => Ok(Else(bx(recv), bx(self.closure(args[0], lets)?))),
                        x => err(format!("unknown method `{}` on a result", x)),
                    };
                }
                let want = |k: usize| if args.len() == k { Result::<(), String>::Ok(()) } else { Err(format!("state.{}: {} arguments expected", name, k)) };
                match name.as_str() {
                    "match_string" => { want(1)?; Ok(Str(self.lit_str(args[0])?)) }
                    "match_insensitive" => { want(1)?; Ok(Ins(self.lit_str(args[0])?)) }
                    "match_range" => {
                        want(1)?;
                        match args[0] {
                            Expr::Range(r) if matches!(r.limits, syn::RangeLimits::HalfOpen(_)) => {
                                let a = self.lit_char(r.start.as_ref().ok_or("range start")?)?;
                                let b = self.lit_char(r.end.as_ref().ok_or("range end")?)?;
                                Ok(Range(a, b))
                            }
                            _ => err("match_range argument"),
                        }
                    }
                    "match_char_by" => {
                        want(1)?;
                        let p = expr_path(args[0]).ok_or("match_char_by argument")?;
                        if p.len() == 3 && p[0] == "pest" && p[1] == "unicode" {
                            match (self.ranges)(&p[2]) { Some(rs) => Ok(Cls(rs)), None => err(format!("unknown Unicode property {}", p[2])) }
                        } else { err("match_char_by argument path") }
                    }
                    "skip" => { want(1)?; Ok(Skip(self.lit_int(args[0])? as usize)) }
                    "skip_until" => {
                        want(1)?;
                        match args[0] {
                            Expr::Reference(r) => {
                                let v = expr_path(&r.expr).ok_or("skip_until argument")?;
                                match lets.get(&v.join("::")) { Some(ss) => Ok(Until(ss.clone())), None => err("skip_until of an unbound array") }
                            }
                            _ => err("skip_until argument"),
                        }
                    }
                    "start_of_input" => { want(0)?; Ok(Soi) } "end_of_input" => { want(0)?; Ok(Eoi) }
                    "stack_peek" => { want(0)?; Ok(Peek) } "stack_pop" => { want(0)?; Ok(Pop) } "stack_drop" => { want(0)?; Ok(Drop) }
                    "stack_match_peek" => { want(0)?; Ok(MPeek) } "stack_match_pop" => { want(0)?; Ok(MPop) }
                    "stack_match_peek_slice" => {
                        want(3)?;
                        let d = expr_path(args[2]).ok_or("MatchDir")?;
                        let b2t = match d.last().map(|s| s.as_str()) { Some("BottomToTop") => true, Some("TopToBottom") => false, _ => return err("MatchDir") };
                        Ok(Slice(self.lit_int(args[0])? as i32, self.opt_int(args[1])?, b2t))
                    }
                    "stack_push_literal" => { want(1)?; Ok(PushLit(self.lit_str(args[0])?)) }
                    "tag_node" => { want(1)?; Ok(Tag(tag_id(&self.lit_str(args[0])?))) }
                    "rule" => {
                        want(2)?;
                        let p = expr_path(args[0]).ok_or("rule id")?;
                        if p.len() != 2 || p[0] != "Rule" { return err("rule id path"); }
                        Ok(Rule(self.rule_id(&p[1])?, bx(self.closure(args[1], lets)?)))
                    }
                    "sequence" => { want(1)?; Ok(Seq(bx(self.closure(args[0], lets)?))) }
                    "repeat" => { want(1)?; Ok(Rep(bx(self.closure(args[0], lets)?))) }
                    "optional" => { want(1)?; Ok(Opt(bx(self.closure(args[0], lets)?))) }
                    "stack_push" => { want(1)?; Ok(Push(bx(self.closure(args[0], lets)?))) }
                    "restore_on_err" => { want(1)?; Ok(Roe(bx(self.closure(args[0], lets)?))) }
                    "lookahead" => { want(2)?; Ok(Look(self.lit_bool(args[0])?, bx(self.closure(args[1], lets)?))) }
                    "atomic" => {
                        want(2)?;
                        let p = expr_path(args[0]).ok_or("atomicity")?;
                        let a = match p.last().map(|s| s.as_str()) { Some("Atomic") => 0u8, Some("CompoundAtomic") => 1, Some("NonAtomic") => 2, _ => return err("atomicity") };
                        if p.len() != 3 || p[0] != "pest" || p[1] != "Atomicity" { return err("atomicity path"); }
                        Ok(Atomic(a, bx(self.closure(args[1], lets)?)))
                    }
                    x => err(format!("unknown ParserState method `{}`", x)),
                }
            }
            _ => err("unknown expression shape"),
        }
    }
}

// ------------------------------------------------------------------------------------------------
// file level: enum Rule, impl Rule { all_rules }, impl Parser { fn parse { mod rules { hidden, visible }, state(..) } }
// ------------------------------------------------------------------------------------------------
fn fn_check(f: &syn::ItemFn) -> Result<(), String> {
    // fn name(state: Box<ParserState<'_, Rule>>) -> ParseResult<Box<ParserState<'_, Rule>>>
    if f.sig.inputs.len() != 1 { return err("rule function with one parameter expected"); }
    match &f.sig.inputs[0] {
        syn::FnArg::Typed(t) => match &*t.pat { syn::Pat::Ident(p) if p.ident == "state" => Result::Ok(()), _ => err("parameter must be `state`") },
        _ => err("parameter must be `state`"),
    }
}

pub fn read_parser(file: &syn::File, unicode: &[String], ranges: &dyn Fn(&str) -> Option<Vec<(char, char)>>) -> Result<Parsed, String> {
    let mut out = Parsed::default();
    let mut hidden: Vec<&syn::ItemFn> = vec![];
    let mut visible: Vec<&syn::ItemFn> = vec![];
    let mut state_call: Option<&Expr> = None;
    let mut seen_enum = false;
    for it in &file.items {
        match it {
            Item::Struct(_) | Item::Const(_) => {}
            Item::Enum(e) if e.ident == "Rule" => {
                seen_enum = true;
                for v in &e.variants {
                    if !matches!(v.fields, syn::Fields::Unit) { return err("Rule variant with fields"); }
                    out.variants.push(v.ident.unraw().to_string());
                }
            }
            Item::Impl(im) if im.trait_.is_none() => {
                // impl Rule { pub fn all_rules() -> &'static [Rule] { &[Rule::a, ...] } }
                for ii in &im.items {
                    if let syn::ImplItem::Fn(f) = ii {
                        if f.sig.ident != "all_rules" { return err("unexpected inherent method"); }
                        let tail = match f.block.stmts.last() { Some(Stmt::Expr(e, None)) => e, _ => return err("all_rules body") };
                        let arr = match tail { Expr::Reference(r) => match &*r.expr { Expr::Array(a) => a, _ => return err("all_rules body") }, _ => return err("all_rules body") };
                        for x in &arr.elems {
                            let p = expr_path(x).ok_or("all_rules element")?;
                            if p.len() != 2 || p[0] != "Rule" { return err("all_rules element"); }
                            out.all_rules.push(p[1].clone());
                        }
                    }
                }
            }
            Item::Impl(im) => {
                let tp = path_segments(&im.trait_.as_ref().unwrap().1);
                if tp != ["pest", "Parser"] { return err(format!("impl of unknown trait {}", tp.join("::"))); }
                for ii in &im.items {
                    let f = match ii { syn::ImplItem::Fn(f) if f.sig.ident == "parse" => f, _ => return err("unexpected item in impl Parser") };
                    for st in &f.block.stmts {
                        match st {
                            Stmt::Item(Item::Mod(m)) if m.ident == "rules" => {
                                let (_, items) = m.content.as_ref().ok_or("mod rules without body")?;
                                for mi in items {
                                    match mi {
                                        Item::Mod(sub) => {
                                            let (_, sitems) = sub.content.as_ref().ok_or("mod without body")?;
                                            let which = sub.ident.to_string();
                                            for si in sitems {
                                                match si {
                                                    Item::Use(_) => {}
                                                    Item::Fn(g) => { fn_check(g)?; if which == "hidden" { hidden.push(g) } else if which == "visible" { visible.push(g) } else { return err("unknown sub-module"); } }
                                                    _ => return err("unexpected item in rules::*"),
                                                }
                                            }
                                        }
                                        Item::Use(_) => {}
                                        _ => return err("unexpected item in mod rules"),
                                    }
                                }
                            }
                            Stmt::Expr(e, None) => state_call = Some(e),
                            _ => return err("unexpected statement in fn parse"),
                        }
                    }
                }
            }
            _ => return err("unexpected top-level item"),
        }
    }
    if !seen_enum { return err("no enum Rule"); }
    let rules: Vec<String> = out.variants.iter().filter(|v| *v != "EOI").cloned().collect();
    let fn_names: Vec<String> = visible.iter().map(|f| f.sig.ident.unraw().to_string()).collect();
    for (i, a) in fn_names.iter().enumerate() { if fn_names[..i].contains(a) { return err(format!("duplicate function {}", a)); } }
    let cx = Ctx { rules, fn_names, unicode, ranges };
    let none = HashMap::new();
    if hidden.len() != 1 || hidden[0].sig.ident != "skip" { return err("mod hidden must contain exactly fn skip"); }
    out.skip = Some(cx.block(&hidden[0].block, &none).map_err(|e| format!("hidden::skip: {}", e))?);
    for f in &visible {
        let name = f.sig.ident.unraw().to_string();
        let p = cx.block(&f.block, &none).map_err(|e| format!("fn {}: {}", name, e))?;
        out.fns.push((name, p));
    }
    // ::pest::state(input, |state| { match rule { Rule::a => rules::a(state), .. } })
    let sc = state_call.ok_or("no ::pest::state call")?;
    let call = match sc { Expr::Call(c) => c, _ => return err("tail of fn parse") };
    if expr_path(&call.func).map(|p| p != ["pest", "state"]).unwrap_or(true) || call.args.len() != 2 { return err("::pest::state(input, closure) expected"); }
    let body = match &call.args[1] { Expr::Closure(c) => &*c.body, _ => return err("state closure") };
    let mut body = body;
    loop {
        match body {
            Expr::Block(b) if b.block.stmts.len() == 1 => match &b.block.stmts[0] { Stmt::Expr(e, None) => body = e, _ => return err("state closure body") },
            Expr::Group(g) => body = &g.expr,
            _ => break,
        }
    }
    let m = match body { Expr::Match(m) => m, _ => return err("match rule expected") };
    if !expr_path(&m.expr).map(|p| p == ["rule"]).unwrap_or(false) { return err("match scrutinee"); }
    for arm in &m.arms {
        if arm.guard.is_some() { return err("guarded arm"); }
        let pat = match &arm.pat { syn::Pat::Path(p) => path_segments(&p.path), _ => return err("arm pattern") };
        if pat.len() != 2 || pat[0] != "Rule" { return err("arm pattern path"); }
        let c = match &*arm.body { Expr::Call(c) => c, _ => return err("arm body") };
        let f = expr_path(&c.func).ok_or("arm body path")?;
        if f.len() != 2 || f[0] != "rules" || c.args.len() != 1 || !is_state(&c.args[0]) { return err("arm body shape"); }
        cx.call_id(&f[1])?;
        out.start.push((pat[1].clone(), f[1].clone()));
    }
    Result::Ok(out)
}

/// canonical text of a read parser: `enum=..|all=..|skip=<prog>|fn:<name>=<prog>|...|start=a>b,..`
pub fn show(p: &Parsed) -> String {
    let mut o = vec![format!("enum={}", p.variants.join(",")), format!("all={}", p.all_rules.join(","))];
    o.push(format!("skip={}", p.skip.as_ref().map(|x| x.show()).unwrap_or_default()));
    for (n, b) in &p.fns { o.push(format!("fn:{}={}", n, b.show())); }
    o.push(format!("start={}", p.start.iter().map(|(a, b)| format!("{}>{}", a, b)).collect::<Vec<_>>().join(",")));
    o.join("|")
}
