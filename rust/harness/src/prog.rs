//! Deep embedding of ParserState closure trees (mirror of coq/Comb/Prog.v), an interpreter that
//! drives the REAL `pest::ParserState` with them, a printer/parser for the exchange format and
//! random/exhaustive generators.
use crate::Rng;
use pest::{Atomicity, Lookahead, MatchDir, ParseResult, ParserState};
use std::cell::{Cell, RefCell};

pub type R = u32;
pub type St<'i> = Box<ParserState<'i, R>>;

#[derive(Clone, Debug, PartialEq)]
pub enum Prog {
    Ok, Err,
    Str(String), Ins(String), Range(char, char), Cls(Vec<(char, char)>),
    Skip(usize), Until(Vec<String>), Soi, Eoi,
    PushLit(String), Peek, Pop, Drop, MPeek, MPop, Slice(i32, Option<i32>, bool /*b2t*/), Tag(usize),
    Rule(R, Box<Prog>), Seq(Box<Prog>), Rep(Box<Prog>), Opt(Box<Prog>), Look(bool, Box<Prog>),
    Atomic(u8 /*0 A,1 C,2 N*/, Box<Prog>), Push(Box<Prog>), Roe(Box<Prog>),
    Then(Box<Prog>, Box<Prog>), Else(Box<Prog>, Box<Prog>), IfNa(Box<Prog>, Box<Prog>), Call(usize),
}

pub const TAGS: [&str; 4] = ["0", "1", "2", "3"];

pub fn hex(s: &str) -> String { if s.is_empty() { "-".into() } else { s.bytes().map(|b| format!("{:02x}", b)).collect() } }
pub fn unhex(h: &str) -> String {
    if h == "-" { return String::new(); }
    let b: Vec<u8> = (0..h.len() / 2).map(|i| u8::from_str_radix(&h[2 * i..2 * i + 2], 16).unwrap()).collect();
    String::from_utf8(b).expect("hex string must be UTF-8")
}

impl Prog {
    pub fn show(&self) -> String {
        use Prog::*;
        match self {
            Ok => "ok".into(), Err => "err".into(),
            Str(s) => format!("(str {})", hex(s)), Ins(s) => format!("(ins {})", hex(s)),
            Range(a, b) => format!("(range {} {})", *a as u32, *b as u32),
            Cls(rs) => format!("(cls{})", rs.iter().map(|(a, b)| format!(" {} {}", *a as u32, *b as u32)).collect::<String>()),
            Skip(n) => format!("(skip {})", n),
            Until(ss) => format!("(until{})", ss.iter().map(|s| format!(" {}", hex(s))).collect::<String>()),
            Soi => "soi".into(), Eoi => "eoi".into(),
            PushLit(s) => format!("(pushlit {})", hex(s)), Peek => "peek".into(), Pop => "pop".into(), Drop => "drop".into(),
            MPeek => "mpeek".into(), MPop => "mpop".into(),
            Slice(i, j, d) => format!("(slice {} {} {})", i, j.map(|x| x.to_string()).unwrap_or("-".into()), if *d { "b2t" } else { "t2b" }),
            Tag(t) => format!("(tag {})", t),
            Rule(r, p) => format!("(rule {} {})", r, p.show()), Seq(p) => format!("(seq {})", p.show()),
            Rep(p) => format!("(rep {})", p.show()), Opt(p) => format!("(opt {})", p.show()),
            Look(b, p) => format!("(look {} {})", if *b { "+" } else { "!" }, p.show()),
            Atomic(a, p) => format!("(atomic {} {})", ["A", "C", "N"][*a as usize], p.show()),
            Push(p) => format!("(push {})", p.show()), Roe(p) => format!("(roe {})", p.show()),
            Then(p, q) => format!("(then {} {})", p.show(), q.show()), Else(p, q) => format!("(else {} {})", p.show(), q.show()),
            IfNa(p, q) => format!("(ifna {} {})", p.show(), q.show()), Call(f) => format!("(call {})", f),
        }
    }
    pub fn size(&self) -> usize {
        use Prog::*;
        match self {
            Rule(_, p) | Seq(p) | Rep(p) | Opt(p) | Look(_, p) | Atomic(_, p) | Push(p) | Roe(p) => 1 + p.size(),
            Then(p, q) | Else(p, q) | IfNa(p, q) => 1 + p.size() + q.size(),
            _ => 1,
        }
    }
    pub fn parse(src: &str) -> Prog {
        let toks: Vec<String> = src.replace('(', " ( ").replace(')', " ) ").split_whitespace().map(|s| s.to_string()).collect();
        let mut i = 0;
        let p = parse_p(&toks, &mut i);
        assert!(i == toks.len(), "trailing tokens in prog");
        p
    }
}

fn parse_p(t: &[String], i: &mut usize) -> Prog {
    use Prog::*;
    let tok = t[*i].clone();
    *i += 1;
    if tok != "(" {
        return match tok.as_str() {
            "ok" => Ok, "err" => Err, "soi" => Soi, "eoi" => Eoi, "peek" => Peek, "pop" => Pop, "drop" => Drop,
            "mpeek" => MPeek, "mpop" => MPop, x => panic!("bad atom {}", x),
        };
    }
    let head = t[*i].clone();
    *i += 1;
    let mut atoms = |i: &mut usize| -> Vec<String> { let mut v = vec![]; while t[*i] != ")" && t[*i] != "(" { v.push(t[*i].clone()); *i += 1; } v };
    let take1 = |i: &mut usize| -> Vec<String> { let v = vec![t[*i].clone()]; *i += 1; v };
    let ch = |s: &str| char::from_u32(s.parse::<u32>().unwrap()).unwrap();
    let r = match head.as_str() {
        "str" => Str(unhex(&atoms(i)[0])), "ins" => Ins(unhex(&atoms(i)[0])),
        "range" => { let a = atoms(i); Range(ch(&a[0]), ch(&a[1])) }
        "cls" => { let a = atoms(i); Cls((0..a.len() / 2).map(|k| (ch(&a[2 * k]), ch(&a[2 * k + 1]))).collect()) }
        "skip" => Skip(atoms(i)[0].parse().unwrap()),
        "until" => Until(atoms(i).iter().map(|s| unhex(s)).collect()),
        "pushlit" => PushLit(unhex(&atoms(i)[0])),
        "slice" => { let a = atoms(i); Slice(a[0].parse().unwrap(), if a[1] == "-" { None } else { Some(a[1].parse().unwrap()) }, a[2] == "b2t") }
        "tag" => Tag(atoms(i)[0].parse().unwrap()),
        "call" => Call(atoms(i)[0].parse().unwrap()),
        "rule" => { let a = take1(i); Rule(a[0].parse().unwrap(), Box::new(parse_p(t, i))) }
        "seq" => Seq(Box::new(parse_p(t, i))), "rep" => Rep(Box::new(parse_p(t, i))), "opt" => Opt(Box::new(parse_p(t, i))),
        "look" => { let a = take1(i); Look(a[0] == "+", Box::new(parse_p(t, i))) }
        "atomic" => { let a = take1(i); Atomic(match a[0].as_str() { "A" => 0, "C" => 1, _ => 2 }, Box::new(parse_p(t, i))) }
        "push" => Push(Box::new(parse_p(t, i))), "roe" => Roe(Box::new(parse_p(t, i))),
        "then" => { let p = parse_p(t, i); let q = parse_p(t, i); Then(Box::new(p), Box::new(q)) }
        "else" => { let p = parse_p(t, i); let q = parse_p(t, i); Else(Box::new(p), Box::new(q)) }
        "ifna" => { let p = parse_p(t, i); let q = parse_p(t, i); IfNa(Box::new(p), Box::new(q)) }
        x => panic!("bad head {}", x),
    };
    assert!(t[*i] == ")");
    *i += 1;
    r
}

/// What the interpreter records besides running the program.
pub struct Ctx<'e> {
    pub env: &'e [Prog],
    pub input: RefCell<Option<String>>, // the input text, for the direct primitive oracle (None = oracle off)
    pub budget: Cell<u64>,         // remaining closure invocations; 0 => diverged
    pub diverged: Cell<bool>,
    pub contract: RefCell<Vec<String>>, // violations of the documented combinator contracts (C03 oracle)
    pub nontrivial: Cell<bool>,    // a failing sequence / any look-ahead whose body had changed pos, queue or stack
}
impl<'e> Ctx<'e> {
    pub fn new(env: &'e [Prog], budget: u64) -> Self {
        Ctx { env, input: RefCell::new(None), budget: Cell::new(budget), diverged: Cell::new(false), contract: RefCell::new(vec![]), nontrivial: Cell::new(false) }
    }
}

/// projection of a dump to (pos, queue, stack contents)
pub fn proj_pqs(d: &str) -> String {
    let mut o = String::new();
    for f in d.split(';') { if f.starts_with("pos=") || f.starts_with("q=") || f.starts_with("st=") { o.push_str(f); o.push(';'); } }
    o
}
fn field<'a>(d: &'a str, name: &str) -> &'a str {
    for f in d.split(';') { if let Some(r) = f.strip_prefix(name) { return r; } }
    ""
}

pub fn run<'i>(p: &Prog, s: St<'i>, cx: &Ctx) -> ParseResult<St<'i>> {
    use Prog::*;
    if cx.budget.get() == 0 { cx.diverged.set(true); return Result::Err(s); }
    cx.budget.set(cx.budget.get() - 1);
    match p {
        Ok => Result::Ok(s), Err => Result::Err(s),
        Str(x) => matcher_checked(cx, p, s, |s| s.match_string(x)), Ins(x) => matcher_checked(cx, p, s, |s| s.match_insensitive(x)),
        Range(a, b) => matcher_checked(cx, p, s, |s| s.match_range(*a..*b)),
        Cls(rs) => matcher_checked(cx, p, s, |s| s.match_char_by(|c| rs.iter().any(|(a, b)| *a <= c && c <= *b))),
        Skip(n) => matcher_checked(cx, p, s, |s| s.skip(*n)),
        Until(ss) => { let v: Vec<&str> = ss.iter().map(|x| x.as_str()).collect(); matcher_checked(cx, p, s, |s| s.skip_until(&v)) }
        Soi => s.start_of_input(), Eoi => s.end_of_input(),
        PushLit(x) => s.stack_push_literal(x.clone()),
        Peek => s.stack_peek(), Pop => s.stack_pop(), Drop => s.stack_drop(),
        MPeek => prim_checked(cx, "stack_match_peek", s, |s| s.stack_match_peek()),
        MPop => prim_checked(cx, "stack_match_pop", s, |s| s.stack_match_pop()),
        Slice(i, j, d) => prim_checked(cx, "stack_match_peek_slice", s, |s| s.stack_match_peek_slice(*i, *j, if *d { MatchDir::BottomToTop } else { MatchDir::TopToBottom })),
        Tag(t) => s.tag_node(TAGS[*t % 4]),
        Rule(r, q) => {
            let before = s.verif_dump();
            let res = s.rule(*r, |s| run(q, s, cx));
            check_rule(cx, *r, &before, &res);
            res
        }
        Seq(q) => {
            let before = s.verif_dump();
            let mid = RefCell::new(String::new());
            let res = s.sequence(|s| { let r = run(q, s, cx); if let Result::Err(ref e) = r { *mid.borrow_mut() = e.verif_dump(); } r });
            if let Result::Err(ref e) = res {
                let after = e.verif_dump();
                let m = mid.borrow();
                if !m.is_empty() {
                    if proj_pqs(&m) != proj_pqs(&before) { cx.nontrivial.set(true); }
                    if !cx.diverged.get() && proj_pqs(&after) != proj_pqs(&before) {
                        cx.contract.borrow_mut().push(format!("failed sequence changed state: before[{}] after[{}]", proj_pqs(&before), proj_pqs(&after)));
                    }
                }
            }
            res
        }
        Rep(q) => s.repeat(|s| run(q, s, cx)),
        Opt(q) => s.optional(|s| run(q, s, cx)),
        Look(b, q) => {
            let before = s.verif_dump();
            let mid = RefCell::new(String::new());
            let res = s.lookahead(*b, |s| { let r = run(q, s, cx); *mid.borrow_mut() = match &r { Result::Ok(e) | Result::Err(e) => e.verif_dump() }; r });
            let after = match &res { Result::Ok(e) | Result::Err(e) => e.verif_dump() };
            let m = mid.borrow();
            if !m.is_empty() {
                if proj_pqs(&m) != proj_pqs(&before) { cx.nontrivial.set(true); }
                if !cx.diverged.get() && proj_pqs(&after) != proj_pqs(&before) {
                    cx.contract.borrow_mut().push(format!("look-ahead changed state: before[{}] after[{}]", proj_pqs(&before), proj_pqs(&after)));
                }
            }
            res
        }
        Atomic(a, q) => s.atomic([Atomicity::Atomic, Atomicity::CompoundAtomic, Atomicity::NonAtomic][*a as usize], |s| run(q, s, cx)),
        Push(q) => s.stack_push(|s| run(q, s, cx)),
        Roe(q) => s.restore_on_err(|s| run(q, s, cx)),
        Then(a, b) => run(a, s, cx).and_then(|s| run(b, s, cx)),
        Else(a, b) => run(a, s, cx).or_else(|s| run(b, s, cx)),
        IfNa(a, b) => if s.atomicity() == Atomicity::NonAtomic { run(a, s, cx) } else { run(b, s, cx) },
        Call(f) => match cx.env.get(*f) { Some(q) => run(q, s, cx), None => panic!("undefined closure") },
    }
}

/// primitive contract (C03), evaluated directly on the input text (independent of the Coq model): the matcher succeeds
/// exactly when the documented condition holds, advances over exactly the matched text, always to a char boundary,
/// and does not move on failure
fn matcher_checked<'i>(cx: &Ctx, p: &Prog, s: St<'i>, f: impl FnOnce(St<'i>) -> ParseResult<St<'i>>) -> ParseResult<St<'i>> {
    let before = s.position().pos();
    let r = f(s);
    if cx.diverged.get() { return r; }
    let guard = cx.input.borrow();
    let input: &str = match guard.as_ref() { Some(i) => i.as_str(), None => return r };   // oracle not enabled by this harness
    if before > input.len() || !input.is_char_boundary(before) { return r; }
    let rest = &input[before..];
    // expected outcome: Some(new position) / None = failure
    let expected: Option<usize> = match p {
        Prog::Str(x) => if rest.starts_with(x.as_str()) { Some(before + x.len()) } else { None },
        Prog::Ins(x) => match rest.get(0..x.len()) { Some(t) if t.eq_ignore_ascii_case(x) => Some(before + x.len()), _ => None },
        Prog::Range(a, b) => match rest.chars().next() { Some(c) if *a <= c && c <= *b => Some(before + c.len_utf8()), _ => None },
        Prog::Cls(rs) => match rest.chars().next() { Some(c) if rs.iter().any(|(a, b)| *a <= c && c <= *b) => Some(before + c.len_utf8()), _ => None },
        Prog::Skip(n) => { let mut it = rest.char_indices(); let mut end = Some(0); for _ in 0..*n { end = it.next().map(|(i, c)| i + c.len_utf8()); if end.is_none() { break; } } end.map(|e| before + e) }
        Prog::Until(ss) => { let mut found = input.len(); for (i, _) in rest.char_indices() { if ss.iter().any(|x| rest[i..].starts_with(x.as_str())) { found = before + i; break; } } Some(found) }
        _ => return r,
    };
    let (ok, after) = match &r { Result::Ok(e) => (true, e.position().pos()), Result::Err(e) => (false, e.position().pos()) };
    let bad = match (expected, ok) {
        (Some(e), true) if e == after => None,
        (Some(e), true) => Some(format!("advanced to {} instead of {}", after, e)),
        (Some(e), false) => Some(format!("failed although the text matches (expected position {})", e)),
        (None, true) => Some(format!("succeeded (position {}) although the text does not match", after)),
        (None, false) if after == before => None,
        (None, false) => Some(format!("failed but moved to {}", after)),
    };
    let bad = bad.or_else(|| if !input.is_char_boundary(after) { Some(format!("left the position {} inside a character", after)) } else { None });
    if let Some(b) = bad { cx.contract.borrow_mut().push(format!("primitive {} at {} {}", p.show(), before, b)); }
    r
}

/// primitive contract (C03): a primitive that fails does not move
fn prim_checked<'i>(cx: &Ctx, name: &str, s: St<'i>, f: impl FnOnce(St<'i>) -> ParseResult<St<'i>>) -> ParseResult<St<'i>> {
    let before = s.position().pos();
    let r = f(s);
    if let Result::Err(ref e) = r {
        if e.position().pos() != before && !cx.diverged.get() {
            cx.contract.borrow_mut().push(format!("failing primitive {} moved the position from {} to {}", name, before, e.position().pos()));
        }
    }
    r
}

/// rule contract (C03): one balanced Start/End pair around exactly the body's tokens, spanning
/// [pos, pos'], iff the body succeeds outside look-ahead and atomic mode; nothing otherwise.
fn check_rule(cx: &Ctx, r: R, before: &str, res: &ParseResult<St>) {
    if cx.diverged.get() { return; }
    let (ok, after) = match res { Result::Ok(e) => (true, e.verif_dump()), Result::Err(e) => (false, e.verif_dump()) };
    // a refusal by the call limit is not a body failure; skip the contract then
    if field(&after, "cl=").starts_with("Some") {
        let cl = field(&after, "cl=");
        let nums: Vec<u64> = cl.replace("Some((", "").replace("))", "").split(", ").filter_map(|x| x.parse().ok()).collect();
        if nums.len() == 2 && nums[0] >= nums[1] { return; }
    }
    let qb: Vec<&str> = field(before, "q=").split(',').filter(|x| !x.is_empty()).collect();
    let qa: Vec<&str> = field(&after, "q=").split(',').filter(|x| !x.is_empty()).collect();
    let emits = field(before, "la=") == "None" && field(before, "at=") != "Atomic";
    let mut bad = None;
    if ok && emits {
        if qa.len() < qb.len() + 2 { bad = Some("successful rule did not add a Start/End pair".to_string()); }
        else {
            let start = qa[qb.len()];
            let end = qa[qa.len() - 1];
            let want_start = format!("S:{}:{}", qa.len() - 1, field(before, "pos="));
            let ef: Vec<&str> = end.split(':').collect();
            if start != want_start { bad = Some(format!("Start token {} != {}", start, want_start)); }
            else if ef.len() != 5 || ef[0] != "E" || ef[1] != qb.len().to_string() || ef[2] != r.to_string() || ef[4] != field(&after, "pos=") {
                bad = Some(format!("End token {} does not close rule {} at {}..{}", end, r, field(before, "pos="), field(&after, "pos=")));
            }
            if qa[..qb.len()] != qb[..] { bad = Some("rule modified earlier tokens".to_string()); }
        }
    } else if ok {
        // inside look-ahead or atomic: the rule itself adds no token (the body may, e.g. NonAtomic inside)
        if field(before, "la=") != "None" && qa != qb { bad = Some("rule emitted tokens under look-ahead".to_string()); }
    } else if emits && qa != qb {
        bad = Some(format!("failed rule left tokens: before[{}] after[{}]", field(before, "q="), field(&after, "q=")));
    }
    if let Some(b) = bad { cx.contract.borrow_mut().push(b); }
}

// ------------------------------------------------------------------------------------------
// generators
// ------------------------------------------------------------------------------------------
pub const STRS: [&str; 9] = ["a", "b", "ab", "", "é", "aé", "B", "ba", "aa"];
pub const INPUT_ALPHA: [&str; 4] = ["a", "b", "é", "B"];

pub fn leaf(rng: &mut Rng, nfun: usize, depth_calls: Option<usize>) -> Prog {
    use Prog::*;
    let s = |rng: &mut Rng| STRS[rng.weighted(&[6, 5, 3, 2, 2, 1, 1, 1, 1])].to_string();
    match rng.weighted(&[2, 2, 14, 4, 4, 3, 2, 3, 1, 2, 3, 3, 3, 2, 2, 2, 3, 2, 2]) {
        0 => Ok, 1 => Err, 2 => Str(s(rng)), 3 => Ins(s(rng)),
        4 => { let rs = [('a', 'a'), ('a', 'b'), ('a', 'z'), ('é', 'é'), ('\0', '\u{10ffff}'), ('b', 'a'), ('a', 'é'), ('a', 'ÿ'), ('B', 'è')]; let (a, b) = rs[rng.below(9) as usize]; Range(a, b) }
        5 => { let sets: [&[(char, char)]; 4] = [&[('\0', '\u{10ffff}')], &[('a', 'a'), ('é', 'é')], &[('A', 'Z')], &[]]; Cls(sets[rng.below(4) as usize].to_vec()) }
        6 => Skip(rng.below(3) as usize),
        7 => { let n = rng.weighted(&[1, 4, 4, 4, 2]); Until((0..n).map(|_| s(rng)).collect()) }
        8 => Soi, 9 => Eoi,
        10 => PushLit(s(rng)), 11 => Peek, 12 => Pop, 13 => Drop, 14 => MPeek, 15 => MPop,
        16 => { let i = rng.range(0, 5) as i32 - 2; let j = if rng.chance(1, 3) { None } else { Some(rng.range(0, 5) as i32 - 2) }; Slice(i, j, rng.chance(1, 2)) }
        17 => Tag(rng.below(3) as usize),
        _ => match depth_calls { Some(from) if from < nfun => Call(rng.range(from as u64, nfun as u64 - 1) as usize), _ => Str(s(rng)) },
    }
}

/// random program of bounded depth; calls go only to functions with index >= `from` (no recursion)
pub fn gen(rng: &mut Rng, depth: u32, nfun: usize, from: Option<usize>) -> Prog {
    use Prog::*;
    if depth == 0 || rng.chance(1, 5) { return leaf(rng, nfun, from); }
    let sub = |rng: &mut Rng| Box::new(gen(rng, depth - 1, nfun, from));
    match rng.weighted(&[8, 8, 5, 5, 6, 3, 4, 3, 12, 6, 1]) {
        0 => Rule(rng.below(3) as R, sub(rng)),
        1 => Seq(sub(rng)),
        2 => { // repetitions mostly around something that can consume
            let b = sub(rng);
            if rng.chance(4, 5) { Rep(Box::new(Seq(Box::new(Then(Box::new(Str(STRS[rng.below(3) as usize].to_string())), b))))) } else { Rep(b) }
        }
        3 => Opt(sub(rng)),
        4 => Look(rng.chance(1, 2), sub(rng)),
        5 => Atomic(rng.below(3) as u8, sub(rng)),
        6 => Push(sub(rng)),
        7 => Roe(sub(rng)),
        8 => { let a = sub(rng); let b = sub(rng); Then(a, b) }
        9 => { let a = sub(rng); let b = sub(rng); Else(a, b) }
        _ => { let a = sub(rng); let b = sub(rng); IfNa(a, b) }
    }
}

/// stack-heavy programs: distinct literals pushed and dropped across nested sequence / restore_on_err /
/// optional / look-ahead scopes that succeed or are forced to fail, so that elements are popped below
/// one or several snapshot lines before a clear_snapshot or restore (the input plays no role)
pub fn gen_stack(rng: &mut Rng, depth: u32) -> Prog {
    use Prog::*;
    const LITS: [&str; 5] = ["a", "b", "c", "ab", "é"];
    if depth == 0 || rng.chance(1, 6) {
        return match rng.weighted(&[8, 9, 1, 1, 1, 1]) {
            0 => PushLit(LITS[rng.below(5) as usize].to_string()),
            1 => Drop, 2 => Ok, 3 => Err, 4 => MPeek, _ => Slice(rng.range(0, 3) as i32 - 1, None, rng.chance(1, 2)),
        };
    }
    let sub = |rng: &mut Rng| Box::new(gen_stack(rng, depth - 1));
    match rng.weighted(&[16, 7, 4, 3, 3, 2, 2]) {
        0 => { let a = sub(rng); let b = sub(rng); Then(a, b) }
        1 => Seq(sub(rng)),
        2 => Roe(sub(rng)),
        3 => Opt(sub(rng)),
        4 => Look(rng.chance(1, 2), sub(rng)),
        5 => { let a = sub(rng); Seq(Box::new(Then(a, Box::new(Err)))) }          // a scope forced to fail at its end
        _ => { let a = sub(rng); let b = sub(rng); Else(a, b) }
    }
}

/// characters of every UTF-8 width and lead-byte class (3 bytes: E2, ED, EF; 4 bytes: F0, F1, F4)
pub const WIDE_ALPHA: [&str; 6] = ["€", "\u{d7ff}", "\u{ffff}", "😀", "\u{40000}", "\u{10ffff}"];
pub fn gen_input(rng: &mut Rng, maxlen: u64) -> String {
    let n = rng.range(0, maxlen);
    (0..n).map(|_| INPUT_ALPHA[rng.weighted(&[5, 4, 2, 1])]).collect()
}
/// as gen_input, but one input in six also draws from the wide characters (only for streams that do not compare `{:?}` output:
/// Rust's Debug escapes unassigned code points and non-characters, which the printers of the models do not reproduce)
pub fn gen_input_wide(rng: &mut Rng, maxlen: u64) -> String {
    let n = rng.range(0, maxlen);
    let wide = rng.chance(1, 6);
    (0..n).map(|_| if wide && rng.chance(1, 3) { WIDE_ALPHA[rng.below(6) as usize] } else { INPUT_ALPHA[rng.weighted(&[5, 4, 2, 1])] }).collect()
}
/// short inputs made of wide characters next to the ordinary ones (for the exhaustive streams)
pub fn wide_inputs() -> Vec<String> {
    let mut out = vec![];
    for w in WIDE_ALPHA.iter() { for pre in ["", "a", "é"] { for post in ["", "b", "a"] { out.push(format!("{}{}{}", pre, w, post)); } } }
    out.push("😀€".into()); out.push("€😀a".into()); out.push("\u{10ffff}\u{40000}".into());
    out
}

/// all inputs of length <= n over INPUT_ALPHA
pub fn all_inputs(n: usize) -> Vec<String> {
    let mut out = vec![String::new()];
    let mut layer = vec![String::new()];
    for _ in 0..n {
        let mut next = vec![];
        for w in &layer { for a in INPUT_ALPHA.iter() { next.push(format!("{}{}", w, a)); } }
        out.extend(next.iter().cloned());
        layer = next;
    }
    out
}
