//! Text generators for C14's targeted failing-input search (included by bin/c14.rs).
//! Everything is derived from the rules of the grammar file under test (the AST pest_meta reads and the optimized rules), nothing is
//! specific to one rule: `spell` enumerates spellings of an expression that take every alternative, every endpoint of every range,
//! every count of every bounded repetition from one below the minimum to one above the maximum, 0-3 iterations of unbounded ones;
//! `hole` embeds such a spelling into a shortest text of any rule that reaches the rule in question; `insert_everywhere` puts the
//! grammar's own trivia (spellings of WHITESPACE / COMMENT) at every position of a text.
use pvharness::gram::{GRule, Ty, GE};
use pvharness::Rng;
use std::collections::{HashMap, HashSet};

pub struct G {
    pub order: Vec<String>,
    pub rules: HashMap<String, (Ty, GE)>,
    pub short: HashMap<String, String>,
}

fn builtin(n: &str) -> Vec<&'static str> {
    match n {
        "ANY" => vec!["a", " ", "é", "0"],
        "SOI" | "EOI" | "PEEK" | "PEEK_ALL" | "POP" | "POP_ALL" | "DROP" => vec![""],
        "ASCII_DIGIT" => vec!["0", "9"], "ASCII_NONZERO_DIGIT" => vec!["1", "9"], "ASCII_BIN_DIGIT" => vec!["0", "1"], "ASCII_OCT_DIGIT" => vec!["0", "7"],
        "ASCII_HEX_DIGIT" => vec!["0", "f", "F"], "ASCII_ALPHA_LOWER" => vec!["a", "z"], "ASCII_ALPHA_UPPER" => vec!["A", "Z"], "ASCII_ALPHA" => vec!["a", "Z"],
        "ASCII_ALPHANUMERIC" => vec!["a", "0"], "NEWLINE" => vec!["\n", "\r\n", "\r"],
        _ => vec!["a"],
    }
}

/// shorter first; among equally long texts the one with fewer non-alphanumeric characters
fn better(a: &str, b: &str) -> bool {
    let k = |s: &str| (s.len(), s.chars().filter(|c| !c.is_alphanumeric()).count());
    k(a) < k(b)
}

fn dedup_cap(v: Vec<String>, cap: usize) -> Vec<String> {
    let mut seen: HashSet<String> = HashSet::new();
    let mut out = vec![];
    for s in v { if out.len() >= cap { break; } if s.len() <= 600 && seen.insert(s.clone()) { out.push(s); } }
    out
}

pub fn calls(e: &GE, under_pred: bool, with_preds: bool, out: &mut Vec<String>) {
    use GE::*;
    match e {
        Id(n) => if !under_pred || with_preds { if !out.contains(n) { out.push(n.clone()); } },
        Pos(x) | Neg(x) => calls(x, true, with_preds, out),
        Seq(a, b) | Cho(a, b) => { calls(a, under_pred, with_preds, out); calls(b, under_pred, with_preds, out); }
        Opt(x) | Rep(x) | Rep1(x) | RepX(x, _) | RepMin(x, _) | RepMax(x, _) | RepMM(x, _, _) | Push(x) | Roe(x) | Tag(_, x) => calls(x, under_pred, with_preds, out),
        _ => {}
    }
}

impl G {
    pub fn new(rs: &[GRule]) -> G {
        let mut g = G { order: rs.iter().map(|r| r.name.clone()).collect(), rules: rs.iter().map(|r| (r.name.clone(), (r.ty, r.e.clone()))).collect(), short: HashMap::new() };
        for _ in 0..rs.len() + 2 {
            let mut changed = false;
            for r in rs {
                if let Some(s) = g.sh(&r.e) {
                    let upd = match g.short.get(&r.name) { Some(old) => better(&s, old), None => true };
                    if upd { g.short.insert(r.name.clone(), s); changed = true; }
                }
            }
            if !changed { break; }
        }
        g
    }
    pub fn has(&self, n: &str) -> bool { self.rules.contains_key(n) }

    /// a shortest spelling (predicates ignored); None while a called rule has none yet
    pub fn sh(&self, e: &GE) -> Option<String> {
        use GE::*;
        match e {
            Str(s) | Ins(s) => Some(s.clone()), Range(a, _) => Some(a.to_string()),
            Id(n) => if self.rules.contains_key(n) { self.short.get(n).cloned() } else { Some(builtin(n)[0].to_string()) },
            Pos(_) | Neg(_) | Opt(_) | Rep(_) | RepMax(_, _) | Skip(_) | PushLit(_) | Slice(_, _) => Some(String::new()),
            Seq(a, b) => { let x = self.sh(a)?; let y = self.sh(b)?; Some(x + &y) }
            Cho(a, b) => match (self.sh(a), self.sh(b)) { (Some(x), Some(y)) => Some(if better(&y, &x) { y } else { x }), (x, y) => x.or(y) },
            Rep1(x) | Push(x) | Roe(x) | Tag(_, x) => self.sh(x),
            RepX(x, n) | RepMin(x, n) | RepMM(x, n, _) => self.sh(x).map(|s| s.repeat(*n as usize)),
        }
    }
    fn sh0(&self, e: &GE) -> String { self.sh(e).unwrap_or_default() }

    fn counts(&self, xs: &[String], lo: u32, hi: u32, r: &mut Rng) -> Vec<String> {
        let mut out = vec![];
        if xs.is_empty() { return out; }
        let hi = hi.min(lo + 14);
        for k in lo..=hi {
            out.push(xs[0].repeat(k as usize));
            if xs.len() > 1 && k > 0 {
                out.push((0..k as usize).map(|i| xs[(k as usize + i) % xs.len()].as_str()).collect::<String>());
                out.push((0..k).map(|_| xs[r.below(xs.len() as u64) as usize].as_str()).collect::<String>());
            }
        }
        out
    }

    /// spellings of e: see the module comment.  `depth` bounds the expansion of rule calls (a shortest spelling below it).
    pub fn spell(&self, e: &GE, depth: u32, cap: usize, r: &mut Rng) -> Vec<String> {
        use GE::*;
        let out: Vec<String> = match e {
            Str(s) => vec![s.clone()],
            Ins(s) => vec![s.clone(), s.to_uppercase(), s.to_lowercase()],
            Range(a, b) => {
                let (x, y) = (*a as u32, *b as u32);
                let mut v = vec![*a, *b];
                for c in [x + (y.saturating_sub(x)) / 2, x + 1, y.saturating_sub(1)] { if c >= x && c <= y { if let Some(ch) = char::from_u32(c) { v.push(ch); } } }
                v.into_iter().map(|c| c.to_string()).collect()
            }
            Id(n) => match self.rules.get(n) {
                Some((_, x)) => if depth == 0 { vec![self.short.get(n).cloned().unwrap_or_default()] } else { self.spell(x, depth - 1, cap, r) },
                None => builtin(n).into_iter().map(|s| s.to_string()).collect(),
            },
            Pos(_) | Neg(_) | PushLit(_) | Slice(_, _) => vec![String::new()],
            Seq(a, b) => {
                let xs = self.spell(a, depth, cap, r);
                let ys = self.spell(b, depth, cap, r);
                let mut v = vec![];
                if !xs.is_empty() && !ys.is_empty() {
                    v.push(format!("{}{}", xs[0], ys[0]));
                    for i in 1..xs.len().max(ys.len()) {
                        if i < ys.len() { v.push(format!("{}{}", xs[0], ys[i])); }
                        if i < xs.len() { v.push(format!("{}{}", xs[i], ys[0])); }
                    }
                    if xs.len() > 1 && ys.len() > 1 {
                        for _ in 0..(xs.len() + ys.len()).min(cap) { v.push(format!("{}{}", xs[r.below(xs.len() as u64) as usize], ys[r.below(ys.len() as u64) as usize])); }
                    }
                }
                v
            }
            Cho(_, _) => {
                let mut alts: Vec<&GE> = vec![];
                fn flat<'a>(e: &'a GE, out: &mut Vec<&'a GE>) { if let GE::Cho(a, b) = e { flat(a, out); flat(b, out); } else { out.push(e); } }
                flat(e, &mut alts);
                let sets: Vec<Vec<String>> = alts.iter().map(|a| self.spell(a, depth, cap, r)).collect();
                let mut v = vec![];
                let longest = sets.iter().map(|s| s.len()).max().unwrap_or(0);
                for i in 0..longest { for s in &sets { if i < s.len() { v.push(s[i].clone()); } } }
                v
            }
            Opt(x) => { let mut v = vec![String::new()]; v.extend(self.spell(x, depth, cap, r)); v }
            Rep(x) | Rep1(x) => {
                let xs = self.spell(x, depth, cap, r);
                let lo = if matches!(e, Rep(_)) { 0 } else { 1 };
                let mut v = vec![];
                if lo == 0 { v.push(String::new()); }
                v.extend(xs.iter().cloned());
                v.extend(self.counts(&xs, 2, 3, r));
                v
            }
            RepX(x, n) => { let xs = self.spell(x, depth, cap, r); let mut v = self.counts(&xs, *n, *n, r); v.extend(self.counts(&xs, n.saturating_sub(1), n + 1, r)); v }
            RepMin(x, n) => { let xs = self.spell(x, depth, cap, r); self.counts(&xs, n.saturating_sub(1), n + 2, r) }
            RepMax(x, n) => { let xs = self.spell(x, depth, cap, r); self.counts(&xs, 0, n + 1, r) }
            RepMM(x, m, n) => { let xs = self.spell(x, depth, cap, r); self.counts(&xs, m.saturating_sub(1), n + 1, r) }
            Skip(ss) => {
                let mut v: Vec<String> = vec!["".into(), "a".into(), "a b".into(), "é".into()];
                for s in ss { let cs: Vec<char> = s.chars().collect(); if cs.len() > 1 { v.push(cs[..cs.len() - 1].iter().collect()); v.push(cs[1..].iter().collect()); } }
                v
            }
            Push(x) | Roe(x) | Tag(_, x) => self.spell(x, depth, cap, r),
        };
        dedup_cap(out, cap)
    }

    /// distance (in rule calls outside predicates) from every rule that reaches `target` to it
    pub fn dist_to(&self, target: &str, with_preds: bool) -> HashMap<String, u32> {
        let mut dist: HashMap<String, u32> = HashMap::new();
        dist.insert(target.to_string(), 0);
        let mut frontier = vec![target.to_string()];
        let mut d = 0;
        while !frontier.is_empty() {
            d += 1;
            let mut next = vec![];
            for n in &self.order {
                if dist.contains_key(n) { continue; }
                let mut cs = vec![];
                if let Some((_, e)) = self.rules.get(n) { calls(e, false, with_preds, &mut cs); }
                if cs.iter().any(|c| frontier.contains(c)) { dist.insert(n.clone(), d); next.push(n.clone()); }
            }
            frontier = next;
        }
        dist
    }

    /// rules called (transitively, predicates included) from `from`
    pub fn callees(&self, from: &[&str]) -> Vec<String> {
        let mut seen: Vec<String> = from.iter().filter(|n| self.has(n)).map(|s| s.to_string()).collect();
        let mut i = 0;
        while i < seen.len() {
            let mut cs = vec![];
            if let Some((_, e)) = self.rules.get(&seen[i]) { calls(e, false, true, &mut cs); }
            for c in cs { if self.has(&c) && !seen.contains(&c) { seen.push(c); } }
            i += 1;
        }
        seen
    }

    /// rules no other rule calls
    pub fn roots(&self) -> Vec<String> {
        let mut called: Vec<String> = vec![];
        for n in &self.order { let mut cs = vec![]; calls(&self.rules[n].1, false, true, &mut cs); for c in cs { if &c != n && !called.contains(&c) { called.push(c); } } }
        self.order.iter().filter(|n| !called.contains(n) && *n != "WHITESPACE" && *n != "COMMENT").cloned().collect()
    }

    /// a shortest text of rule `from` with a hole where `target` is derived: (before, after)
    pub fn hole(&self, from: &str, target: &str, dist: &HashMap<String, u32>) -> Option<(String, String)> {
        if from == target { return Some((String::new(), String::new())); }
        let d = *dist.get(from)?;
        self.hole_e(&self.rules.get(from)?.1, target, d, dist)
    }
    fn hole_e(&self, e: &GE, target: &str, d: u32, dist: &HashMap<String, u32>) -> Option<(String, String)> {
        use GE::*;
        match e {
            Id(n) if n == target => Some((String::new(), String::new())),
            Id(n) => match dist.get(n) { Some(k) if *k < d => self.hole_e(&self.rules.get(n)?.1, target, *k, dist), _ => None },
            Seq(a, b) => {
                if let Some((pre, post)) = self.hole_e(a, target, d, dist) { Some((pre, post + &self.sh0(b))) }
                else if let Some((pre, post)) = self.hole_e(b, target, d, dist) { Some((self.sh0(a) + &pre, post)) } else { None }
            }
            Cho(a, b) => self.hole_e(a, target, d, dist).or_else(|| self.hole_e(b, target, d, dist)),
            Opt(x) | Rep(x) | Rep1(x) | RepMax(x, _) | Push(x) | Roe(x) | Tag(_, x) => self.hole_e(x, target, d, dist),
            RepX(x, n) | RepMin(x, n) | RepMM(x, n, _) => self.hole_e(x, target, d, dist).map(|(pre, post)| (pre, post + &self.sh0(x).repeat((*n as usize).saturating_sub(1)))),
            _ => None,
        }
    }

    /// literal characters of a rule and its callees
    pub fn literals(&self, name: &str, depth: u32, seen: &mut Vec<String>, out: &mut Vec<char>) {
        if seen.iter().any(|s| s == name) { return; }
        seen.push(name.to_string());
        let e = match self.rules.get(name) { Some((_, e)) => e, None => return };
        fn go(e: &GE, out: &mut Vec<char>, ids: &mut Vec<String>) {
            use GE::*;
            let mut add = |s: &str, out: &mut Vec<char>| for c in s.chars() { if !out.contains(&c) { out.push(c); } };
            match e {
                Str(s) | Ins(s) | PushLit(s) => add(s, out), Range(a, b) => { add(&a.to_string(), out); add(&b.to_string(), out); }
                Skip(ss) => for s in ss { add(s, out) }, Id(n) => ids.push(n.clone()),
                Pos(x) | Neg(x) | Opt(x) | Rep(x) | Rep1(x) | RepX(x, _) | RepMin(x, _) | RepMax(x, _) | RepMM(x, _, _) | Push(x) | Roe(x) | Tag(_, x) => go(x, out, ids),
                Seq(a, b) | Cho(a, b) => { go(a, out, ids); go(b, out, ids); }
                Slice(_, _) => {}
            }
        }
        let mut ids = vec![];
        go(e, out, &mut ids);
        if depth > 0 { for c in ids { self.literals(&c, depth - 1, seen, out); } }
    }
}

/// `w` inserted at every character position of `t`
pub fn insert_everywhere(t: &str, ws: &[String], out: &mut Vec<String>) {
    let mut pos: Vec<usize> = t.char_indices().map(|(i, _)| i).collect();
    pos.push(t.len());
    for p in pos { for w in ws { if !w.is_empty() { out.push(format!("{}{}{}", &t[..p], w, &t[p..])); } } }
}
