//! Large texts for C14 (included by bin/c14.rs): the legs of the property share one process and pest has process-wide settings (call
//! limit, error detail), so a text of a few hundred kB fed AFTER other texts (rejected ones in particular) is where a setting that one
//! of the public entries leaves behind shows as a disagreement of the legs.  All texts are built from material that is not specific to
//! any rule: random grammars of gram.rs printed in concrete syntax with their rules renamed per copy, the grammar files shipped in the
//! repository read into ASTs and printed with renamed rules, the meta-grammar's own file repeated verbatim (comments and docs kept),
//! one long `expression`, and cut / damaged versions of these.
use pvharness::gram::{gen_grammar, pest, pest_grammar, GRule, GenCfg, GE};
use pvharness::Rng;
use std::collections::HashSet;

fn rename(e: &GE, defined: &HashSet<String>, prefix: &str) -> GE {
    use GE::*;
    let b = |x: &GE| Box::new(rename(x, defined, prefix));
    match e {
        Id(n) => if defined.contains(n) { Id(format!("{}{}", prefix, n)) } else { Id(n.clone()) },
        Pos(x) => Pos(b(x)), Neg(x) => Neg(b(x)), Seq(l, r) => Seq(b(l), b(r)), Cho(l, r) => Cho(b(l), b(r)), Opt(x) => Opt(b(x)), Rep(x) => Rep(b(x)), Rep1(x) => Rep1(b(x)),
        RepX(x, n) => RepX(b(x), *n), RepMin(x, n) => RepMin(b(x), *n), RepMax(x, n) => RepMax(b(x), *n), RepMM(x, m, n) => RepMM(b(x), *m, *n),
        Push(x) => Push(b(x)), Tag(t, x) => Tag(t.clone(), b(x)), Roe(x) => Roe(b(x)),
        other => other.clone(),
    }
}

/// the rules with every name defined here prefixed; WHITESPACE / COMMENT keep their names and are kept in the first copy only
pub fn renamed_copy(rules: &[GRule], prefix: &str, keep_trivia: bool) -> Vec<GRule> {
    let trivia = |n: &str| n == "WHITESPACE" || n == "COMMENT";
    let defined: HashSet<String> = rules.iter().map(|r| r.name.clone()).filter(|n| !trivia(n)).collect();
    rules.iter().filter(|r| keep_trivia || !trivia(&r.name))
        .map(|r| GRule { name: if trivia(&r.name) { r.name.clone() } else { format!("{}{}", prefix, r.name) }, ty: r.ty, e: rename(&r.e, &defined, prefix) }).collect()
}

/// random grammars, one block after the other, with line comments, block comments and rule docs in between
pub fn generated(rng: &mut Rng, extras: bool, bytes: usize) -> String {
    let mut out = String::from("//! a generated grammar\n");
    let mut k = 0;
    while out.len() < bytes {
        let g = gen_grammar(rng, &GenCfg { stack: true, extras, counts: true, builtins: true });
        let g = renamed_copy(&g, &format!("g{}_", k), k == 0);
        match k % 4 { 0 => out.push_str(&format!("// block {}\n", k)), 1 => out.push_str(&format!("/* block {} */\n", k)), 2 => out.push_str(&format!("/// rules of block {}\n", k)), _ => out.push('\n') }
        out.push_str(&pest_grammar(&g));
        k += 1;
    }
    out
}

/// the shipped grammars (as ASTs: `files` = rules of each file that pest_meta reads), printed again and again with renamed rules
pub fn shipped_renamed(files: &[Vec<GRule>], bytes: usize) -> String {
    let mut out = String::new();
    if files.is_empty() { return out; }
    let mut k = 0;
    while out.len() < bytes {
        let g = renamed_copy(&files[k % files.len()], &format!("s{}_", k), k == 0);
        let t = pest_grammar(&g);
        if t.contains("SKIP_NOT_WRITABLE") { k += 1; if k > 100000 { break; } continue; }
        out.push_str(&format!("// copy {}\n", k));
        out.push_str(&t);
        k += 1;
    }
    out
}

/// the text again and again (comments kept; grammar docs `//!` are allowed at the start only: line comments in the later copies)
pub fn repeated(text: &str, bytes: usize) -> String {
    let mut out = String::new();
    if text.is_empty() { return out; }
    let later: String = text.lines().map(|l| if l.trim_start().starts_with("//!") { l.replacen("//!", "// ", 1) } else { l.to_string() }).collect::<Vec<_>>().join("\n");
    while out.len() < bytes { out.push_str(if out.is_empty() { text } else { &later }); if !out.ends_with('\n') { out.push('\n'); } }
    out
}

/// one long text of the rule `expression`: the bodies of generated rules joined by the infix operators
pub fn long_expression(rng: &mut Rng, extras: bool, bytes: usize) -> String {
    let mut out = String::new();
    while out.len() < bytes {
        let g = gen_grammar(rng, &GenCfg { stack: true, extras, counts: true, builtins: true });
        for r in g.iter() {
            if !out.is_empty() { out.push_str(if rng.chance(1, 2) { " ~ " } else { " | " }); }
            if rng.chance(1, 6) { out.push_str("/* c */ "); }
            out.push_str(&pest(&r.e));
        }
    }
    out
}

/// cut at a character boundary at or below `at`
pub fn cut(t: &str, at: usize) -> String {
    let mut k = at.min(t.len());
    while k > 0 && !t.is_char_boundary(k) { k -= 1; }
    t[..k].to_string()
}

/// `ins` inserted as a line of its own after the line that contains byte `at`
pub fn damaged(t: &str, at: usize, ins: &str) -> String {
    let mut k = at.min(t.len());
    while k > 0 && !t.is_char_boundary(k) { k -= 1; }
    let k = t[k..].find('\n').map(|j| k + j + 1).unwrap_or(t.len());
    format!("{}{}\n{}", &t[..k], ins, &t[k..])
}

/// a valid grammar of `n` simple rules cut out of the generated material: the first `n` lines that are rule definitions (used by the
/// search for the text size at which a call limit left behind starts to bite)
pub fn first_rules(lines: &[&str], n: usize) -> String {
    let mut out = String::new();
    for l in lines.iter().take(n) { out.push_str(l); out.push('\n'); }
    out
}
