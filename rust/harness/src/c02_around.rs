//! C02, escalated search: grammars built AROUND a construct on which the emitted parser differs structurally from the model.
//!
//! The translation validation pinpoints a sub-expression (or a whole rule, the implicit skip, a built-in) whose emitted code is not
//! what coq/Gen/GenCompile.v says.  Such a difference is only observable in a context: stack readers need several unequal stack
//! entries, skipping constructs need trivia in the input, predicates need both outcomes, repetitions need partial iterations.  This
//! module embeds the construct in those contexts (fresh literals, every rule modifier class, called through helper rules, with the
//! WHITESPACE / COMMENT rules of the grammar in which it was found and with added ones), keeps the rules the real pest_meta accepts
//! and on which the real VM terminates, and returns grammars for the compiled batch (real derive parser vs real pest_vm).
use pvharness::gram::*;
use pvharness::*;
use std::collections::BTreeSet;

pub struct Spec { pub ty: Ty, pub kind: String, pub what: String, pub culprit: String, pub grammar: String }

pub fn unesc(l: &str) -> String {
    let mut o = String::new();
    let mut it = l.chars();
    while let Some(c) = it.next() {
        if c != '\\' { o.push(c); continue; }
        match it.next() { Some('n') => o.push('\n'), Some('t') => o.push('\t'), Some('r') => o.push('\r'), Some('\\') => o.push('\\'), Some(x) => { o.push('\\'); o.push(x) } None => o.push('\\') }
    }
    o
}

pub fn parse_spec(line: &str) -> Option<Spec> {
    let p: Vec<&str> = line.split('\t').collect();
    if p.len() < 5 { return None; }
    let ty = match p[0] { "n" => Ty::Normal, "s" => Ty::Silent, "a" => Ty::Atomic, "c" => Ty::Compound, _ => Ty::NonAtomic };
    Some(Spec { ty, kind: p[1].to_string(), what: p[2].to_string(), culprit: unesc(p[3]), grammar: unesc(p[4]) })
}

fn parse_rules(text: &str) -> Option<Vec<GRule>> {
    pest::set_call_limit(None);
    catch(|| {
        let pairs = pest_meta::parser::parse(pest_meta::parser::Rule::grammar_rules, text).ok()?;
        let ast = pest_meta::parser::consume_rules(pairs).ok()?;
        Some(from_rules(&ast))
    }).ok().flatten()
}

fn walk(e: &GE, f: &mut dyn FnMut(&GE)) {
    use GE::*;
    f(e);
    match e {
        Pos(x) | Neg(x) | Opt(x) | Rep(x) | Rep1(x) | Push(x) | Roe(x) | RepX(x, _) | RepMin(x, _) | RepMax(x, _) | RepMM(x, _, _) | Tag(_, x) => walk(x, f),
        Seq(l, r) | Cho(l, r) => { walk(l, f); walk(r, f); }
        _ => {}
    }
}
fn idents(e: &GE) -> Vec<String> { let mut v = vec![]; walk(e, &mut |x| if let GE::Id(n) = x { if !v.contains(n) { v.push(n.clone()); } }); v }
fn lit_chars(e: &GE, out: &mut BTreeSet<char>) {
    walk(e, &mut |x| match x {
        GE::Str(s) | GE::Ins(s) | GE::PushLit(s) => out.extend(s.chars().flat_map(|c| c.to_lowercase().chain(c.to_uppercase()))),
        GE::Range(a, b) => { out.insert(*a); out.insert(*b); }
        GE::Skip(ss) => for s in ss { out.extend(s.chars()); },
        _ => {}
    });
}

/// the rules of `all` reachable from `roots` (plus WHITESPACE / COMMENT and what they reach), in the original order
fn reachable(all: &[GRule], roots: &[String]) -> Vec<GRule> {
    let mut seen: Vec<String> = vec![];
    let mut todo: Vec<String> = roots.to_vec();
    todo.push("WHITESPACE".into());
    todo.push("COMMENT".into());
    while let Some(n) = todo.pop() {
        if seen.contains(&n) { continue; }
        if let Some(r) = all.iter().find(|r| r.name == n) { seen.push(n); todo.extend(idents(&r.e)); }
    }
    all.iter().filter(|r| seen.contains(&r.name)).cloned().collect()
}

fn s(l: &str) -> GE { GE::Str(l.to_string()) }
fn id(n: &str) -> GE { GE::Id(n.to_string()) }
fn bx(e: GE) -> Box<GE> { Box::new(e) }
fn seq(v: Vec<GE>) -> GE { let mut it = v.into_iter().rev(); let mut acc = it.next().expect("non-empty sequence"); for x in it { acc = GE::Seq(bx(x), bx(acc)); } acc }
fn cho(a: GE, b: GE) -> GE { GE::Cho(bx(a), bx(b)) }
fn push(e: GE) -> GE { GE::Push(bx(e)) }
fn any_star() -> GE { GE::Rep(bx(id("ANY"))) }

/// contexts in which a sub-expression `c` becomes observable; `l` = three fresh one-character literals
fn expr_contexts(c: &GE, l: &[String; 3]) -> Vec<GE> {
    let (a, b, d) = (l[0].as_str(), l[1].as_str(), l[2].as_str());
    let pushes = |k: usize| -> Vec<GE> { [a, b, d, a].iter().take(k).map(|x| push(s(x))).collect() };
    let after = |k: usize, tail: Vec<GE>| -> GE { let mut v = pushes(k); v.extend(tail); seq(v) };
    let c = || c.clone();
    vec![
        c(),
        // stack depth 1 .. 4 with pairwise different neighbours (no contiguous part of a, b, d, a reads the same in both directions)
        after(1, vec![c()]), after(2, vec![c()]), after(3, vec![c()]), after(4, vec![c()]),
        // both outcomes of both predicates
        after(2, vec![GE::Pos(bx(c())), any_star()]), after(2, vec![GE::Neg(bx(c())), any_star()]),
        // alternatives, optional, repetitions (progressing head), followed / preceded by literals, twice, pushed
        after(2, vec![cho(c(), s(a))]), after(2, vec![cho(seq(vec![s(d), s(d)]), c())]),
        after(2, vec![GE::Opt(bx(c())), s(a)]),
        after(2, vec![GE::Rep(bx(seq(vec![s(d), c()])))]), after(2, vec![GE::Rep1(bx(seq(vec![c(), s(d)]))), s(a)]),
        GE::Rep(bx(c())), GE::Rep1(bx(c())),
        after(2, vec![c(), s(a)]), after(2, vec![s(d), c(), s(a)]), seq(vec![s(a), c(), s(b)]),
        after(2, vec![c(), c()]), after(2, vec![push(c()), id("PEEK")]),
        after(3, vec![id("DROP"), c()]), after(2, vec![c(), id("POP"), id("POP")]),
    ]
}

/// contexts in which it matters whether the stack is put back when `c` FAILS: `c` as the whole operand of `?`, `*`, of either
/// alternative of `|` (where the optimizer asks for restore_on_err) and of a predicate, below 1 - 3 unequal stack entries, followed by
/// a literal and by stack readers that notice a missing / extra entry (pops of every entry, the whole stack, slices)
fn restore_contexts(c: &GE, l: &[String; 3]) -> Vec<GE> {
    let (a, b, d) = (l[0].as_str(), l[1].as_str(), l[2].as_str());
    let pushes = |k: usize| -> Vec<GE> { [a, b, d, a].iter().take(k).map(|x| push(s(x))).collect() };
    let after = |k: usize, tail: Vec<GE>| -> GE { let mut v = pushes(k); v.extend(tail); seq(v) };
    let c = || c.clone();
    vec![
        after(2, vec![GE::Opt(bx(c())), s(d), id("POP"), id("POP"), id("EOI")]),
        after(2, vec![cho(c(), s(d)), id("PEEK_ALL")]),
        after(2, vec![cho(s(d), c()), GE::Opt(bx(s(d))), id("POP"), id("POP")]),
        after(2, vec![GE::Rep(bx(c())), s(d), id("POP_ALL"), id("EOI")]),
        after(1, vec![GE::Opt(bx(c())), GE::Opt(bx(s(d))), id("POP")]),
        after(3, vec![GE::Opt(bx(c())), GE::Slice(0, None)]),
        after(2, vec![GE::Opt(bx(c())), GE::Opt(bx(c())), s(d), id("PEEK"), id("DROP"), id("PEEK")]),
        after(2, vec![GE::Neg(bx(c())), s(d), id("POP"), id("POP")]),
        after(3, vec![GE::Rep1(bx(cho(c(), s(d)))), GE::Slice(-2, None)]),
    ]
}

fn is_leaf(e: &GE) -> bool { matches!(e, GE::Str(_) | GE::Ins(_) | GE::Range(_, _) | GE::Id(_) | GE::Slice(_, _) | GE::PushLit(_)) }
fn count_leaves(e: &GE) -> usize { let mut n = 0; walk(e, &mut |x| if is_leaf(x) { n += 1; }); n }
fn replace_leaf(e: &GE, at: usize, with: &GE, k: &mut usize) -> GE {
    use GE::*;
    if is_leaf(e) { let me = *k; *k += 1; return if me == at { with.clone() } else { e.clone() }; }
    let mut b = |x: &GE, k: &mut usize| Box::new(replace_leaf(x, at, with, k));
    match e {
        Pos(x) => Pos(b(x, k)), Neg(x) => Neg(b(x, k)), Opt(x) => Opt(b(x, k)), Rep(x) => Rep(b(x, k)), Rep1(x) => Rep1(b(x, k)), Push(x) => Push(b(x, k)), Roe(x) => Roe(b(x, k)),
        Seq(l, r) => { let l = b(l, k); Seq(l, b(r, k)) } Cho(l, r) => { let l = b(l, k); Cho(l, b(r, k)) }
        RepX(x, n) => RepX(b(x, k), *n), RepMin(x, n) => RepMin(b(x, k), *n), RepMax(x, n) => RepMax(b(x, k), *n), RepMM(x, m, n) => RepMM(b(x, k), *m, *n),
        Tag(t, x) => Tag(t.clone(), b(x, k)), x => x.clone(),
    }
}

/// variants of the construct in which one of its leaves is an operation that changes the stack BEFORE it can fail (a pop compares
/// after it has taken the entry; directly and behind a rule call) or only when it succeeds (DROP, PEEK as the neighbours): the
/// construct itself often only carries literals, with which no failure ever leaves a trace on the stack
fn stack_mutants(c: &GE) -> Vec<(Vec<GRule>, GE)> {
    let hp = GRule { name: "aroundh_pop".into(), ty: Ty::Normal, e: id("POP") };
    let hq = GRule { name: "aroundh_popall".into(), ty: Ty::Silent, e: id("POP_ALL") };
    let subs: Vec<(Vec<GRule>, GE)> = vec![(vec![], id("POP")), (vec![hp.clone()], id("aroundh_pop")), (vec![], id("POP_ALL")), (vec![hq.clone()], id("aroundh_popall")),
        (vec![], id("DROP")), (vec![], id("PEEK"))];
    let n = count_leaves(c).min(2);
    let mut out: Vec<(Vec<GRule>, GE)> = vec![];
    for at in 0..n {
        for (h, with) in &subs {
            let m = replace_leaf(c, at, with, &mut 0);
            if m != *c && !out.iter().any(|(_, x)| *x == m) { out.push((h.clone(), m)); }
        }
    }
    out
}

/// contexts that exercise the implicit skip between the parts of sequences and repetitions
fn skip_contexts(l: &[String; 3]) -> Vec<GE> {
    let (a, b, d) = (l[0].as_str(), l[1].as_str(), l[2].as_str());
    vec![
        seq(vec![s(a), s(b)]), seq(vec![s(a), s(b), s(a)]), GE::Rep(bx(seq(vec![s(a), s(b)]))), seq(vec![GE::Rep1(bx(s(a))), s(b)]),
        GE::Rep(bx(s(a))), seq(vec![s(a), GE::Opt(bx(s(b))), s(a)]), seq(vec![s(a), GE::Neg(bx(s(b))), id("ANY")]),
        seq(vec![s(a), GE::Pos(bx(s(b))), id("ANY")]), seq(vec![push(s(a)), s(b), id("POP")]), seq(vec![s(a), cho(s(b), seq(vec![s(a), s(a)]))]),
        seq(vec![id("SOI"), s(a), id("EOI")]), seq(vec![s(a), s(d), id("EOI")]), seq(vec![s(a), any_star()]),
    ]
}

fn accepted(text: &str) -> bool {
    pest::set_call_limit(None);
    matches!(catch(|| pest_meta::parse_and_optimize(text)), Ok(Ok(_))) && crate::derive_tokens(text).ok().and_then(|ts| syn::parse2::<syn::File>(ts).ok()).is_some()
}

/// the real VM returns on every short input over the alphabet without touching the call limit (a generated parser has loops that no
/// call limit stops, so a rule that can iterate without progress would hang the compiled batch)
fn rule_terminates(text: &str, rule: &str, alpha: &[String]) -> bool {
    pest::set_call_limit(None);
    let opt = match catch(|| pest_meta::parse_and_optimize(text)) { Ok(Ok((_, o))) => o, _ => return false };
    let vm = pest_vm::Vm::new(opt);
    let al: Vec<&str> = alpha.iter().map(|x| x.as_str()).collect();
    let inputs = all_strings(&al, if al.len() <= 4 { 5 } else { 4 });
    pest::set_call_limit(std::num::NonZeroUsize::new(3000));
    let mut ok = true;
    for i in &inputs {
        let r = catch(|| vm.parse(rule, i).map(|_| ()).map_err(|e| matches!(e.variant, pest::error::ErrorVariant::CustomError { .. })));
        if !matches!(r, Ok(Ok(())) | Ok(Err(false))) { ok = false; break; }
    }
    pest::set_call_limit(None);
    ok
}

/// grammars around one pinpointed construct; every rule to run is called `around_<n>` (helpers: `aroundh_<n>`)
pub fn around(spec: &Spec, extras: bool, out: &mut Vec<String>, max_grammars: usize) {
    let orig = match parse_rules(&spec.grammar) { Some(r) => r, None => return };
    let culprit: Option<GE> = if spec.kind == "skip" { None } else {
        match parse_rules(&format!("aroundc = {{ {} }}\n", spec.culprit)) { Some(r) if r.len() == 1 => Some(r[0].e.clone()), _ => return }
    };
    let trivia = spec.kind == "trivia" || spec.kind == "skip";
    let roots = culprit.as_ref().map(idents).unwrap_or_default();
    let base0 = reachable(&orig, &roots);
    let has = |b: &[GRule], n: &str| b.iter().any(|r| r.name == n);
    // fresh one-character literals: no character of a literal of the construct, of the rules it calls, or of the trivia rules
    let mut used = BTreeSet::new();
    if let Some(c) = &culprit { lit_chars(c, &mut used); }
    for r in &base0 { lit_chars(&r.e, &mut used); }
    let fresh: Vec<String> = "abcdefghijklmnopqrstuvw".chars().filter(|c| !used.contains(c)).take(3).map(|c| c.to_string()).collect();
    if fresh.len() < 3 { return; }
    let l = [fresh[0].clone(), fresh[1].clone(), fresh[2].clone()];

    // base variants: the rules as found; with a silent WHITESPACE added when there is none; for a trivia rule whose wrappers differ,
    // the same rule with its body moved into a non-silent helper (tokens and attempts made inside trivia become visible)
    let mut bases: Vec<Vec<GRule>> = vec![base0.clone()];
    if !trivia && !has(&base0, "WHITESPACE") && !used.contains(&' ') {
        let mut b = base0.clone(); b.push(GRule { name: "WHITESPACE".into(), ty: Ty::Silent, e: s(" ") }); bases.push(b);
    }
    if spec.kind == "trivia" {
        for name in ["WHITESPACE", "COMMENT"] {
            if let Some(k) = base0.iter().position(|r| r.name == name) {
                if spec.what != format!("fn {}", name) { continue; }
                for hty in [Ty::Normal, Ty::Compound] {
                    let mut b = base0.clone();
                    let hname = format!("aroundh_t{}", ty_char(hty));
                    b.push(GRule { name: hname.clone(), ty: hty, e: b[k].e.clone() });
                    b[k].e = id(&hname);
                    bases.push(b);
                }
            }
        }
    }
    let tys: Vec<Ty> = { let mut v = vec![spec.ty]; for t in [Ty::Normal, Ty::Atomic, Ty::Compound, Ty::NonAtomic] { if !v.contains(&t) { v.push(t); } } v };
    let mut made = 0usize;
    for (bi, base) in bases.iter().enumerate() {
        // candidate rules: (helpers, body, modifier)
        let mut cands: Vec<(Vec<GRule>, GE, Ty)> = vec![];
        if trivia {
            for t in [Ty::Normal, Ty::NonAtomic, Ty::Compound, Ty::Silent] { for e in skip_contexts(&l) { cands.push((vec![], e, t)); } }
            // a non-atomic rule entered from an atomic one switches the skip back on
            for (k, e) in skip_contexts(&l).into_iter().take(4).enumerate() {
                let h = format!("aroundh_s{}", k);
                cands.push((vec![GRule { name: h.clone(), ty: Ty::NonAtomic, e }], seq(vec![s(&l[2]), id(&h)]), Ty::Atomic));
            }
        } else if let Some(c) = &culprit {
            let mut ctx = expr_contexts(c, &l);
            let main = ctx.len().min(11);
            // the construct as found in the contexts in which a failure must leave the stack alone, then its variants whose leaves
            // change the stack before failing, in the same contexts
            let rctx = restore_contexts(c, &l);
            ctx.splice(main..main, rctx.into_iter());
            let mutants = if spec.kind == "expr" { stack_mutants(c) } else { vec![] };
            // in the second base (added WHITESPACE) only the rules in which the skip can run
            for (ti, t) in tys.iter().enumerate() {
                if bi > 0 && matches!(t, Ty::Atomic | Ty::Compound) { continue; }
                if spec.kind == "rule" && ti > 0 { continue; }
                for (k, e) in ctx.iter().enumerate() {
                    if ti >= 2 && k > 10 { continue; }          // the modifiers further from the one found: the main contexts only
                    cands.push((vec![], e.clone(), *t));
                }
                if ti < 2 && bi == 0 {
                    for (h, m) in &mutants {
                        for (k, e) in restore_contexts(m, &l).into_iter().enumerate() {
                            if ti == 1 && k > 4 { continue; }
                            cands.push((h.clone(), e, *t));
                        }
                    }
                }
            }
            // the construct behind a rule call: helper of the modifier found, silent / normal, called from atomic and non-atomic rules
            for (k, hty) in [spec.ty, Ty::Silent, Ty::NonAtomic].iter().enumerate() {
                if k > 0 && *hty == spec.ty { continue; }
                let h = format!("aroundh_c{}", k);
                for t in [Ty::Normal, Ty::Atomic] {
                    for depth in [2usize, 3] {
                        let mut v: Vec<GE> = [l[0].as_str(), l[1].as_str(), l[2].as_str()].iter().take(depth).map(|x| push(s(x))).collect();
                        v.push(id(&h));
                        cands.push((vec![GRule { name: h.clone(), ty: *hty, e: c.clone() }], seq(v), t));
                    }
                }
            }
        }
        // keep what pest_meta accepts and what terminates; alphabet of the termination probe: the fresh literals and the construct's own
        let mut alpha: Vec<String> = l.to_vec();
        for ch in used.iter().take(2) { alpha.push(ch.to_string()); }
        let mut kept: Vec<(Vec<GRule>, GRule)> = vec![];
        for (n, (helpers, e, t)) in cands.into_iter().enumerate() {
            let rule = GRule { name: format!("around_{}", n), ty: t, e };
            let mut g = base.clone();
            for h in &helpers { if !has(&g, &h.name) { g.push(h.clone()); } }
            g.push(rule.clone());
            let text = pest_grammar(&g);
            if !accepted(&text) || !rule_terminates(&text, &rule.name, &alpha) { continue; }
            kept.push((helpers, rule));
        }
        for chunk in kept.chunks(12) {
            if made >= max_grammars { return; }
            let mut g = base.clone();
            for (helpers, _) in chunk { for h in helpers { if !has(&g, &h.name) { g.push(h.clone()); } } }
            for (_, r) in chunk { g.push(r.clone()); }
            let text = pest_grammar(&g);
            if accepted(&text) { out.push(text); made += 1; }
        }
    }
    let _ = extras;
}
