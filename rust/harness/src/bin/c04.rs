//! C04: drive the REAL pest iterators (Pairs, Pair, FlatPairs, Tokens, PairsBuilder) and print, per case,
//! every observation the public API offers.  One line per case:
//!     <case>\t<label>=<value>;<label>=<value>;...
//! case = kind|D|H|scripts|input|payload
//!   kind B : payload = forest `r.t.s.e[children]...`, built with PairsBuilder (rule ids 0..2 = enum R {a,b,c}, t = tag id or -)
//!   kind X : payload = PairsBuilder call sequence `R r s e` / `W r s e ( .. )` / `T t` (may panic)
//!   kind P : payload = src#names#rawtokens ; src = `vm:<grammar idx>` | `vg:<hex of a generated grammar>` | `st:<prog>` |
//!            `pp:<pvharness::prog program>`; the real parse result is observed, rawtokens = what its Tokens iterator
//!            yields (+ tags from flatten), from which the runner rebuilds the queue; for `pp:` the REAL queue with its
//!            cross-links (ParserState::verif_dump at the end of the parse) as s<end>.<pos> / e<start>.<rule>.<tag>.<pos>
//! D = depth of the exhaustive next/next_back DFS, H = cap of the canonical heavy states,
//! scripts = comma separated op strings over n b l p (random interleavings).
//! The OCaml runner recomputes every label with the extracted model of the code and with the specification.
//! Two observations are judged on the implementation alone: `l,c!POSl2,c2` in the line_col field of V<k> (Pair::line_col
//! differs from as_span().start_pos().line_col()) and the `.alt` label (a pair reached by flatten / rev / peek / find_tagged
//! shows other rule/tag/span/as_str/line_col than the same pair reached by next + into_inner); both sides expect none.
//! Mode `neighbors CASE COUNT SEED` generates cases around one case (the driver's search after a correspondence break).
use pest::iterators::{FlatPairs, Pair, Pairs, PairsBuilder, Tokens};
use pest::{ParseResult, ParserState, RuleType, Token};
use pvharness::gram::{pest_grammar, GRule, Ty, GE};
use pvharness::prog as pp;
use pvharness::*;
use std::cell::RefCell;
use std::collections::HashSet;
use std::io::{self, BufWriter, Write};

#[allow(non_camel_case_types)]
#[derive(Clone, Copy, Debug, Eq, Hash, Ord, PartialEq, PartialOrd)]
enum R { a, b, c }
const RS: [R; 3] = [R::a, R::b, R::c];
const TAGS: [&str; 3] = ["t0", "t1", "t2"];
const NUMTAGS: [&str; 3] = ["0", "1", "2"];   // the tag strings of pvharness::prog

#[derive(Clone, Debug)]
struct T { rule: usize, tag: Option<usize>, s: usize, e: usize, ch: Vec<T> }

fn forest_str(f: &[T]) -> String {
    let mut o = String::new();
    for t in f {
        o.push_str(&format!("{}.{}.{}.{}[", t.rule, t.tag.map(|x| x.to_string()).unwrap_or("-".into()), t.s, t.e));
        o.push_str(&forest_str(&t.ch));
        o.push(']');
    }
    o
}
fn parse_forest(s: &[u8], i: &mut usize) -> Vec<T> {
    let mut out = vec![];
    while *i < s.len() && s[*i] != b']' {
        let j = *i + s[*i..].iter().position(|&c| c == b'[').unwrap();
        let head = std::str::from_utf8(&s[*i..j]).unwrap();
        let p: Vec<&str> = head.split('.').collect();
        *i = j + 1;
        let ch = parse_forest(s, i);
        *i += 1; // ]
        out.push(T { rule: p[0].parse().unwrap(), tag: if p[1] == "-" { None } else { Some(p[1].parse().unwrap()) },
                     s: p[2].parse().unwrap(), e: p[3].parse().unwrap(), ch });
    }
    out
}
fn nodes(f: &[T]) -> usize { f.iter().map(|t| 1 + nodes(&t.ch)).sum() }
fn depth(f: &[T]) -> usize { f.iter().map(|t| 1 + depth(&t.ch)).max().unwrap_or(0) }
fn max_width(f: &[T]) -> usize { f.iter().map(|t| max_width(&t.ch)).max().unwrap_or(0).max(f.len()) }

fn add<'i>(mut b: PairsBuilder<'i, R>, f: &[T], use_rule: bool) -> PairsBuilder<'i, R> {
    for t in f {
        if t.ch.is_empty() && use_rule { b = b.rule(RS[t.rule], t.s, t.e); }
        else { let ch = t.ch.clone(); b = b.rule_with(RS[t.rule], t.s, t.e, move |inner| add(inner, &ch, use_rule)); }
        if let Some(tg) = t.tag { b = b.tag(TAGS[tg]); }
    }
    b
}

// ------------------------------------------------------------------------------------------
// PairsBuilder call sequences (kind X)
#[derive(Clone, Debug)]
enum Bop { Rule(usize, usize, usize), With(usize, usize, usize, Vec<Bop>), Tag(usize) }
fn bops_str(l: &[Bop]) -> String {
    l.iter().map(|o| match o {
        Bop::Rule(r, s, e) => format!("R {} {} {}", r, s, e),
        Bop::With(r, s, e, inner) => format!("W {} {} {} ( {} )", r, s, e, bops_str(inner)),
        Bop::Tag(t) => format!("T {}", t),
    }).collect::<Vec<_>>().join(" ")
}
fn parse_bops(w: &[&str], i: &mut usize) -> Vec<Bop> {
    let mut out = vec![];
    while *i < w.len() && w[*i] != ")" {
        match w[*i] {
            "R" => { out.push(Bop::Rule(w[*i + 1].parse().unwrap(), w[*i + 2].parse().unwrap(), w[*i + 3].parse().unwrap())); *i += 4; }
            "W" => { let (r, s, e) = (w[*i + 1].parse().unwrap(), w[*i + 2].parse().unwrap(), w[*i + 3].parse().unwrap()); *i += 5;
                     let inner = parse_bops(w, i); *i += 1; out.push(Bop::With(r, s, e, inner)); }
            "T" => { out.push(Bop::Tag(w[*i + 1].parse().unwrap())); *i += 2; }
            _ => { *i += 1; }
        }
    }
    out
}
fn run_bops<'i>(mut b: PairsBuilder<'i, R>, l: &[Bop]) -> PairsBuilder<'i, R> {
    for o in l {
        b = match o {
            Bop::Rule(r, s, e) => b.rule(RS[*r], *s, *e),
            Bop::With(r, s, e, inner) => { let inner = inner.clone(); b.rule_with(RS[*r], *s, *e, move |x| run_bops(x, &inner)) }
            Bop::Tag(t) => b.tag(TAGS[*t]),
        };
    }
    b
}

// ------------------------------------------------------------------------------------------
// a small deep embedding of ParserState closures, to obtain token queues from the real parser state
#[derive(Clone, Debug)]
enum Pg { M(String), Any, Rl(usize, Box<Pg>), Seq(Vec<Pg>), Alt(Vec<Pg>), Opt(Box<Pg>), Rep(Box<Pg>), Tag(usize, Box<Pg>), Look(bool, Box<Pg>) }
fn pg_str(p: &Pg) -> String {
    match p {
        Pg::M(s) => format!("(M {})", s.bytes().map(|b| format!("{:02x}", b)).collect::<String>()),
        Pg::Any => "(Y)".into(),
        Pg::Rl(r, p) => format!("(R {} {})", r, pg_str(p)),
        Pg::Seq(v) => format!("(S {})", v.iter().map(pg_str).collect::<Vec<_>>().join(" ")),
        Pg::Alt(v) => format!("(A {})", v.iter().map(pg_str).collect::<Vec<_>>().join(" ")),
        Pg::Opt(p) => format!("(O {})", pg_str(p)),
        Pg::Rep(p) => format!("(* {})", pg_str(p)),
        Pg::Tag(t, p) => format!("(T {} {})", t, pg_str(p)),
        Pg::Look(b, p) => format!("(L {} {})", if *b { 1 } else { 0 }, pg_str(p)),
    }
}
fn pg_parse(w: &[String], i: &mut usize) -> Pg {
    // w[*i] == "(" ; tokens are "(", ")", words
    *i += 1;
    let head = w[*i].clone(); *i += 1;
    let mut args: Vec<Pg> = vec![]; let mut words: Vec<String> = vec![];
    while w[*i] != ")" { if w[*i] == "(" { args.push(pg_parse(w, i)); } else { words.push(w[*i].clone()); *i += 1; } }
    *i += 1;
    match head.as_str() {
        "M" => { let h = words.get(0).cloned().unwrap_or_default();
                 let b: Vec<u8> = (0..h.len() / 2).map(|k| u8::from_str_radix(&h[2 * k..2 * k + 2], 16).unwrap()).collect();
                 Pg::M(String::from_utf8(b).unwrap()) }
        "Y" => Pg::Any,
        "R" => Pg::Rl(words[0].parse().unwrap(), Box::new(args.remove(0))),
        "S" => Pg::Seq(args), "A" => Pg::Alt(args),
        "O" => Pg::Opt(Box::new(args.remove(0))), "*" => Pg::Rep(Box::new(args.remove(0))),
        "T" => Pg::Tag(words[0].parse().unwrap(), Box::new(args.remove(0))),
        "L" => Pg::Look(words[0] == "1", Box::new(args.remove(0))),
        _ => panic!("bad prog"),
    }
}
fn pg_lex(s: &str) -> Vec<String> { s.replace('(', " ( ").replace(')', " ) ").split_whitespace().map(|x| x.to_string()).collect() }
type St<'i> = Box<ParserState<'i, R>>;
fn exec<'i>(p: &Pg, s: St<'i>) -> ParseResult<St<'i>> {
    match p {
        Pg::M(m) => s.match_string(m),
        Pg::Any => s.skip(1),
        Pg::Rl(r, body) => s.rule(RS[*r], |s| exec(body, s)),
        Pg::Seq(v) => s.sequence(|s| { let mut cur = Ok(s); for x in v { cur = cur.and_then(|s| exec(x, s)); } cur }),
        Pg::Alt(v) => { let mut cur: ParseResult<St<'i>> = Err(s); for x in v { cur = cur.or_else(|s| exec(x, s)); } cur }
        Pg::Opt(body) => s.optional(|s| exec(body, s)),
        Pg::Rep(body) => s.repeat(|s| { let p0 = s.position().pos(); exec(body, s).and_then(|s| if s.position().pos() == p0 { Err(s) } else { Ok(s) }) }),
        Pg::Tag(t, body) => exec(body, s).and_then(|s| s.tag_node(TAGS[*t])),
        Pg::Look(b, body) => s.lookahead(*b, |s| exec(body, s)),
    }
}
/// input alphabet of the builder / closure-tree runs: one-, two-, three- and four-byte characters and every kind of line
/// break (`\n`, `\r\n`, a lone `\r`)
const ALPHA: [&str; 9] = ["x", "y", "\u{e9}", "\u{4f60}", "\n", "\"", "\r\n", "\r", "\u{1F388}"];
/// profile 0 = x y U+00E9 only, 1 = the whole alphabet, 2 = line-heavy (short lines, all line-break kinds, multi-byte
/// characters in front of them)
fn gen_text(rng: &mut Rng, n: u64, profile: u64) -> String {
    let ws: [u64; 9] = match profile { 0 => [1, 1, 1, 0, 0, 0, 0, 0, 0], 1 => [2, 2, 2, 2, 2, 2, 2, 2, 2], _ => [3, 2, 2, 1, 3, 0, 4, 2, 1] };
    (0..n).map(|_| ALPHA[rng.weighted(&ws)]).collect()
}
fn gen_pg(rng: &mut Rng, d: usize) -> Pg {
    let leaf = d == 0 || rng.chance(1, 7);
    if leaf { return if rng.chance(1, 4) { Pg::Any } else { Pg::M(ALPHA[rng.weighted(&[12, 12, 10, 1, 2, 0, 2, 1, 0])].to_string()) }; }
    match rng.weighted(&[9, 4, 3, 2, 4, 3, 1]) {
        0 => Pg::Rl(rng.below(3) as usize, Box::new(gen_pg(rng, d - 1))),
        1 => Pg::Seq((0..rng.range(2, 3)).map(|_| gen_pg(rng, d - 1)).collect()),
        2 => Pg::Alt((0..rng.range(2, 3)).map(|_| gen_pg(rng, d - 1)).collect()),
        3 => Pg::Opt(Box::new(gen_pg(rng, d - 1))),
        4 => Pg::Rep(Box::new(gen_pg(rng, d - 1))),
        5 => Pg::Tag(rng.below(3) as usize, Box::new(gen_pg(rng, d - 1))),
        _ => Pg::Look(rng.chance(1, 2), Box::new(gen_pg(rng, d - 1))),
    }
}

// ------------------------------------------------------------------------------------------
// observation

struct Ctx<'i, 'c, Rt: RuleType> {
    input: &'i str,
    pre: Vec<Pair<'i, Rt>>,
    rid: &'c dyn Fn(&Rt) -> usize,
    d: usize,
    h: usize,
    scripts: Vec<String>,
    tagnames: [&'static str; 3],
    /// as_rule,tag|span|as_str|line_col of pre[k], as seen on the pair reached by iteration + into_inner
    lv: Vec<String>,
    out: Vec<(String, String)>,
}

fn tagid(t: Option<&str>) -> String {
    match t { None => "-".into(), Some(s) => TAGS.iter().position(|x| *x == s).map(|i| i.to_string()).unwrap_or_else(|| if s.parse::<usize>().is_ok() { s.to_string() } else { "?".into() }) }
}
fn ps(r: Result<String, String>) -> String { r.unwrap_or_else(|_| "PANIC".into()) }

impl<'i, 'c, Rt: RuleType> Ctx<'i, 'c, Rt> {
    fn idx(&self, p: &Pair<'i, Rt>) -> String { self.pre.iter().position(|x| x == p).map(|i| i.to_string()).unwrap_or("?".into()) }
    fn item(&self, r: &Result<Option<Pair<'i, Rt>>, String>) -> String {
        match r { Err(_) => "PANIC".into(), Ok(None) => "-".into(), Ok(Some(p)) => self.idx(p) }
    }
    fn tok(&self, t: &Token<'i, Rt>) -> String {
        match t { Token::Start { rule, pos } => format!("S{}@{}", (self.rid)(rule), pos.pos()), Token::End { rule, pos } => format!("E{}@{}", (self.rid)(rule), pos.pos()) }
    }
    fn titem(&self, r: &Result<Option<Token<'i, Rt>>, String>) -> String {
        match r { Err(_) => "PANIC".into(), Ok(None) => "-".into(), Ok(Some(t)) => self.tok(t) }
    }
    fn emit(&mut self, l: String, v: String) { self.out.push((l, v)); }

    fn pair_views(&mut self, k: usize) {
        let p = self.pre[k].clone();
        let rid = self.rid;
        let head = ps(catch(|| format!("{},{}", rid(&p.as_rule()), tagid(p.as_node_tag()))));
        let span = ps(catch(|| { let s = p.as_span(); format!("{},{}", s.start(), s.end()) }));
        let st = ps(catch(|| p.as_str().to_string()));
        // line_col is served from the shared LineIndex; the same pair's start Position computes it from the text: the two
        // must agree (an oracle on the implementation alone), and both are compared with the specification's count
        let lc = ps(catch(|| { let (l, c) = p.line_col(); let (l2, c2) = p.as_span().start_pos().line_col();
                               if (l, c) == (l2, c2) { format!("{},{}", l, c) } else { format!("{},{}!POS{},{}", l, c, l2, c2) } }));
        let d0 = ps(catch(|| format!("{}", p)));
        let d1 = ps(catch(|| format!("{:#}", p)));
        let d2 = ps(catch(|| format!("{:?}", p)));
        let js = ps(catch(|| p.to_json()));
        let tk = ps(catch(|| p.clone().tokens().map(|t| self.tok(&t)).collect::<Vec<_>>().join(" ")));
        self.emit(format!("V{}", k), format!("{}|{}|{}|{}|{}|{}|{}|{}|{}", head, span, st, lc, d0, d1, d2, js, tk));
    }

    fn light(&self, p: &Pair<'i, Rt>) -> String {
        let rid = self.rid;
        let head = ps(catch(|| format!("{},{}", rid(&p.as_rule()), tagid(p.as_node_tag()))));
        let span = ps(catch(|| { let s = p.as_span(); format!("{},{}", s.start(), s.end()) }));
        let st = ps(catch(|| p.as_str().to_string()));
        let lc = ps(catch(|| { let (l, c) = p.line_col(); format!("{},{}", l, c) }));
        format!("{}|{}|{}|{}", head, span, st, lc)
    }
    /// The same pair reached on another way (flatten, backward iteration, peek, find_tagged, ...) must show the same
    /// rule/tag/span/as_str/line_col as when it is reached by next() + into_inner(): returns the ways and pairs for which
    /// it does not ("" when all agree).  A way that panics is skipped here (the DFS labels report panics).
    fn alt_paths(&self, p: &Pairs<'i, Rt>) -> String {
        let mut bad: Vec<String> = vec![];
        let mut chk = |path: &str, q: &Pair<'i, Rt>| {
            match self.pre.iter().position(|x| x == q) {
                None => bad.push(format!("{}:?", path)),
                Some(k) => { let l = self.light(q); if l != self.lv[k] { bad.push(format!("{}:{}:{}", path, k, l)); } }
            }
        };
        const CAP: usize = 20_000;
        if let Ok(v) = catch(|| p.clone().flatten().take(CAP).collect::<Vec<_>>()) { for q in &v { chk("f", q); } }
        if let Ok(v) = catch(|| p.clone().flatten().rev().take(CAP).collect::<Vec<_>>()) { for q in &v { chk("fb", q); } }
        if let Ok(v) = catch(|| p.clone().rev().take(CAP).collect::<Vec<_>>()) { for q in &v { chk("b", q); } }
        if let Ok(Some(q)) = catch(|| p.peek()) { chk("p", &q); }
        if let Ok(Some(q)) = catch(|| p.clone().flatten().next_back()) { chk("fl", &q); }
        for tg in self.tagnames.iter() {
            if let Ok(v) = catch(|| p.clone().find_tagged(tg).take(CAP).collect::<Vec<_>>()) { for q in &v { chk("t", q); } }
            if let Ok(Some(q)) = catch(|| p.find_first_tagged(tg)) { chk("t1", &q); }
        }
        bad.truncate(8);
        bad.join(" ")
    }

    fn dfs_pairs(&self, st: &Pairs<'i, Rt>, d: usize, o: &mut String) {
        let len = st.len();
        let sh = st.size_hint();
        o.push_str(&format!("{},{},{}", len, if st.is_empty() { 1 } else { 0 }, self.item(&catch(|| st.peek()))));
        if sh != (len, Some(len)) { o.push_str("!SH"); }
        if d == 0 { return; }
        for c in ['n', 'b'] {
            let mut s2 = st.clone();
            let r = catch(|| if c == 'n' { s2.next() } else { s2.next_back() });
            o.push('('); o.push(c); o.push_str(&self.item(&r));
            match r {
                Err(_) => {}
                Ok(None) => { o.push(':'); self.dfs_pairs(&s2, (d - 1).min(1), o); }
                Ok(Some(_)) => { o.push(':'); self.dfs_pairs(&s2, d - 1, o); }
            }
            o.push(')');
        }
    }
    fn dfs_flat(&self, st: &FlatPairs<'i, Rt>, d: usize, o: &mut String) {
        o.push_str(&ps(catch(|| { let len = st.len(); let sh = st.size_hint(); format!("{}{}", len, if sh != (len, Some(len)) { "!SH" } else { "" }) })));
        if d == 0 { return; }
        for c in ['n', 'b'] {
            let mut s2 = st.clone();
            let r = catch(|| if c == 'n' { s2.next() } else { s2.next_back() });
            o.push('('); o.push(c); o.push_str(&self.item(&r));
            match r {
                Err(_) => {}
                Ok(None) => { o.push(':'); self.dfs_flat(&s2, (d - 1).min(1), o); }
                Ok(Some(_)) => { o.push(':'); self.dfs_flat(&s2, d - 1, o); }
            }
            o.push(')');
        }
    }
    fn dfs_tokens(&self, st: &Tokens<'i, Rt>, d: usize, o: &mut String) {
        o.push_str(&ps(catch(|| { let len = st.len(); let sh = st.size_hint(); format!("{}{}", len, if sh != (len, Some(len)) { "!SH" } else { "" }) })));
        if d == 0 { return; }
        for c in ['n', 'b'] {
            let mut s2 = st.clone();
            let r = catch(|| if c == 'n' { s2.next() } else { s2.next_back() });
            o.push('('); o.push(c); o.push_str(&self.titem(&r));
            match r {
                Err(_) => {}
                Ok(None) => { o.push(':'); self.dfs_tokens(&s2, (d - 1).min(1), o); }
                Ok(Some(_)) => { o.push(':'); self.dfs_tokens(&s2, d - 1, o); }
            }
            o.push(')');
        }
    }

    fn heavy(&self, st: &Pairs<'i, Rt>) -> String {
        let a = ps(catch(|| st.as_str().to_string()));
        let c = ps(catch(|| st.concat()));
        let d0 = ps(catch(|| format!("{}", st)));
        let d1 = ps(catch(|| format!("{:#}", st)));
        let d2 = ps(catch(|| format!("{:?}", st)));
        let js = ps(catch(|| st.to_json()));
        format!("{}|{}|{}|{}|{}|{}", a, c, d0, d1, d2, js)
    }

    fn script_pairs(&self, st: &Pairs<'i, Rt>, ops: &str) -> String {
        let mut s = st.clone(); let mut o = String::new();
        for c in ops.chars() {
            let v = match c {
                'n' => { let r = catch(|| s.next()); let x = self.item(&r); if r.is_err() { o.push_str("PANIC"); break; } x }
                'b' => { let r = catch(|| s.next_back()); let x = self.item(&r); if r.is_err() { o.push_str("PANIC"); break; } x }
                'l' => s.len().to_string(),
                _ => self.item(&catch(|| s.peek())),
            };
            o.push_str(&v); o.push(' ');
        }
        o
    }
    fn script_flat(&self, st: &FlatPairs<'i, Rt>, ops: &str) -> String {
        let mut s = st.clone(); let mut o = String::new();
        for c in ops.chars() {
            let v = match c {
                'n' => { let r = catch(|| s.next()); let x = self.item(&r); if r.is_err() { o.push_str("PANIC"); break; } x }
                'b' => { let r = catch(|| s.next_back()); let x = self.item(&r); if r.is_err() { o.push_str("PANIC"); break; } x }
                'l' => { match catch(|| s.len()) { Ok(n) => n.to_string(), Err(_) => { o.push_str("PANIC"); break; } } }
                _ => { let r = catch(|| s.clone().next()); let x = self.item(&r); if r.is_err() { o.push_str("PANIC"); break; } x }
            };
            o.push_str(&v); o.push(' ');
        }
        o
    }
    fn script_tokens(&self, st: &Tokens<'i, Rt>, ops: &str) -> String {
        let mut s = st.clone(); let mut o = String::new();
        for c in ops.chars() {
            let v = match c {
                'n' => { let r = catch(|| s.next()); let x = self.titem(&r); if r.is_err() { o.push_str("PANIC"); break; } x }
                'b' => { let r = catch(|| s.next_back()); let x = self.titem(&r); if r.is_err() { o.push_str("PANIC"); break; } x }
                'l' => { match catch(|| s.len()) { Ok(n) => n.to_string(), Err(_) => { o.push_str("PANIC"); break; } } }
                _ => { let r = catch(|| s.clone().next()); let x = self.titem(&r); if r.is_err() { o.push_str("PANIC"); break; } x }
            };
            o.push_str(&v); o.push(' ');
        }
        o
    }

    /// everything about one Pairs value; `lab` names it (root, I<k> = into_inner of pair k, G<k> = Pairs::single(pair k))
    fn pairs_test(&mut self, lab: &str, p: Result<Pairs<'i, Rt>, String>, with_scripts: bool) {
        let p = match p { Err(_) => { self.emit(format!("{}.new", lab), "PANIC".into()); return; } Ok(p) => p };
        let mut o = String::new();
        self.dfs_pairs(&p, self.d, &mut o);
        self.emit(format!("{}.D", lab), o);
        // canonical states: i pairs taken from the front, then j from the back
        let m = p.len();
        let h = self.h;
        for i in 0..=m {
            if !(i <= h || i == m) { continue; }
            let mut si = p.clone();
            let mut bad = false;
            for _ in 0..i { if catch(|| si.next()).is_err() { bad = true; break; } }
            if bad { self.emit(format!("{}.S{}", lab, i), "PANIC".into()); continue; }
            for j in 0..=(m - i) {
                if !(j <= h || i + j == m) { continue; }
                let mut sj = si.clone();
                let mut bad = false;
                for _ in 0..j { if catch(|| sj.next_back()).is_err() { bad = true; break; } }
                let v = if bad { "PANIC".into() } else { self.heavy(&sj) };
                self.emit(format!("{}.S{}.{}", lab, i, j), v);
            }
        }
        match catch(|| p.clone().flatten()) {
            Err(_) => self.emit(format!("{}.F", lab), "PANIC".into()),
            Ok(f) => {
                let mut o = String::new(); self.dfs_flat(&f, self.d, &mut o); self.emit(format!("{}.F", lab), o);
                let ft = match catch(|| f.clone().tokens()) { Err(_) => "PANIC".into(), Ok(t) => ps(catch(|| t.map(|x| self.tok(&x)).collect::<Vec<_>>().join(" "))) };
                self.emit(format!("{}.FT", lab), ft);
                if with_scripts { for (n, sc) in self.scripts.clone().iter().enumerate() { let v = self.script_flat(&f, sc); self.emit(format!("{}.sf{}", lab, n), v); } }
            }
        }
        match catch(|| p.clone().tokens()) {
            Err(_) => self.emit(format!("{}.T", lab), "PANIC".into()),
            Ok(t) => {
                let mut o = String::new(); self.dfs_tokens(&t, self.d, &mut o); self.emit(format!("{}.T", lab), o);
                if with_scripts { for (n, sc) in self.scripts.clone().iter().enumerate() { let v = self.script_tokens(&t, sc); self.emit(format!("{}.st{}", lab, n), v); } }
            }
        }
        let tagnames = self.tagnames;
        for (ti, tg) in tagnames.iter().enumerate() {
            let all = ps(catch(|| p.clone().find_tagged(tg).map(|x| self.idx(&x)).collect::<Vec<_>>().join(" ")));
            let first = self.item(&catch(|| p.find_first_tagged(tg)));
            self.emit(format!("{}.tag{}", lab, ti), format!("{}|{}", all, first));
        }
        let alt = self.alt_paths(&p);
        self.emit(format!("{}.alt", lab), alt);
        if with_scripts { for (n, sc) in self.scripts.clone().iter().enumerate() { let v = self.script_pairs(&p, sc); self.emit(format!("{}.sp{}", lab, n), v); } }
    }
}

fn preorder<'i, Rt: RuleType>(ps: Pairs<'i, Rt>, out: &mut Vec<Pair<'i, Rt>>, budget: &mut usize, depth: usize) {
    // a token tree over a queue of n tokens has depth <= n/2; anything deeper means into_inner does not descend
    if depth > 400 { panic!("into_inner does not descend"); }
    for p in ps {
        if *budget == 0 { panic!("more pairs than tokens"); }
        *budget -= 1;
        out.push(p.clone());
        preorder(p.into_inner(), out, budget, depth + 1);
    }
}

/// Rust-side sanity check of the token stream of a Pairs value: balanced with matching rules, positions never
/// decrease and are char boundaries inside the input
fn stream_ok<'i, Rt: RuleType>(root: &Pairs<'i, Rt>, input: &str) -> bool {
    let mut stack: Vec<Rt> = vec![];
    let mut last = 0usize;
    for t in root.clone().tokens() {
        let p = match &t { Token::Start { pos, .. } | Token::End { pos, .. } => pos.pos() };
        if p < last || !input.is_char_boundary(p) { return false; }
        last = p;
        match t {
            Token::Start { rule, .. } => stack.push(rule),
            Token::End { rule, .. } => if stack.pop() != Some(rule) { return false; },
        }
    }
    stack.is_empty()
}

fn observe<'i, Rt: RuleType>(root: Pairs<'i, Rt>, input: &'i str, rid: &dyn Fn(&Rt) -> usize, d: usize, h: usize, scripts: &[String]) -> String {
    observe_t(root, input, rid, d, h, scripts, TAGS)
}
fn observe_t<'i, Rt: RuleType>(root: Pairs<'i, Rt>, input: &'i str, rid: &dyn Fn(&Rt) -> usize, d: usize, h: usize, scripts: &[String], tagnames: [&'static str; 3]) -> String {
    let wf = match catch(|| stream_ok(&root, input)) { Ok(true) => "1", Ok(false) => "0", Err(_) => "PANIC" };
    let mut pre = vec![];
    let mut budget = 10_000usize;
    if catch(|| preorder(root.clone(), &mut pre, &mut budget, 0)).is_err() { return format!("WF={};PRE=PANIC;", wf); }
    let mut cx = Ctx { input, pre, rid, d, h, scripts: scripts.to_vec(), tagnames, lv: vec![], out: vec![] };
    let _ = cx.input;
    let n = cx.pre.len();
    cx.lv = (0..n).map(|k| cx.light(&cx.pre[k])).collect();
    cx.emit("WF".into(), wf.to_string());
    cx.emit("N".into(), n.to_string());
    for k in 0..n { cx.pair_views(k); }
    cx.pairs_test("root", Ok(root.clone()), true);
    for k in 0..n {
        let p = cx.pre[k].clone();
        let inner = catch(|| p.clone().into_inner());
        cx.pairs_test(&format!("I{}", k), inner, false);
        let single = catch(|| Pairs::single(p.clone()));
        cx.pairs_test(&format!("G{}", k), single, false);
    }
    let mut o = String::new();
    for (l, v) in cx.out { o.push_str(&l); o.push('='); o.push_str(&esc(&v)); o.push(';'); }
    o
}

fn raw_tokens<'i, Rt: RuleType>(root: &Pairs<'i, Rt>, rid: &dyn Fn(&Rt) -> usize) -> String {
    // the Start/End stream as Tokens yields it; the tag of each End from the flattened pairs (k-th Start <-> k-th pair)
    let tags: Vec<String> = root.clone().flatten().map(|p| tagid(p.as_node_tag())).collect();
    let mut stack: Vec<usize> = vec![];
    let mut k = 0usize;
    let mut o: Vec<String> = vec![];
    for t in root.clone().tokens() {
        match t {
            Token::Start { pos, .. } => { stack.push(k); k += 1; o.push(format!("S{}", pos.pos())); }
            Token::End { rule, pos } => { let s = stack.pop().unwrap_or(usize::MAX); o.push(format!("E{}.{}.{}", rid(&rule), tags.get(s).cloned().unwrap_or("?".into()), pos.pos())); }
        }
    }
    o.join(",")
}

const GRAMMARS: [&str; 6] = [
    "a = { \"x\" ~ b* ~ c? } b = { \"y\" | c } c = { \"\u{e9}\" }",
    "a = _{ \"x\"? }",
    "a = { b ~ (\"\\n\" ~ b)* } b = { c+ } c = { \"x\" | \"y\" | \"\u{4f60}\" }",
    "a = { (b | c)* ~ EOI } b = { \"x\" ~ a2? } a2 = { \"(\" ~ b* ~ \")\" } c = @{ \"y\"+ }",
    "a = { &b ~ c ~ !c } b = { \"x\" ~ \"y\"? } c = { \"x\" ~ d? } d = { \"y\" }",
    // lines of words separated by every kind of line break; empty lines give pairs with empty spans at a line start
    "a = { b ~ (nl ~ b)* } b = { c* } c = { \"x\" | \"\u{e9}\" } nl = _{ \"\\r\\n\" | \"\\n\" | \"\\r\" }",
];
/// input alphabet per grammar (all inputs up to the length bound K, +1 for the alphabets of four symbols)
const VM_ALPHA_STD: [&str; 7] = ["x", "y", "\u{e9}", "\u{4f60}", "\n", "(", ")"];
const VM_ALPHA_LINES: [&str; 4] = ["x", "\u{e9}", "\n", "\r"];

struct Out<'w> { w: BufWriter<io::StdoutLock<'w>>, n: u64, nontriv: u64, seen: HashSet<String> }
impl<'w> Out<'w> {
    fn line(&mut self, case: &str, obs: &str, nontrivial: bool) {
        self.n += 1;
        if nontrivial && self.seen.insert(case.to_string()) { self.nontriv += 1; }
        writeln!(self.w, "{}\t{}", case, obs).unwrap();
    }
}

fn run_builder_case(out: &mut Out, d: usize, h: usize, scripts: &[String], input: &str, f: &[T], use_rule: bool) {
    let case = format!("B|{}|{}|{}|{}|{}", d, h, scripts.join(","), esc(input), forest_str(f));
    let built = catch(|| add(PairsBuilder::new(input), f, use_rule).build());
    let obs = match built { Err(_) => "BUILD=PANIC;".to_string(), Ok(root) => observe(root, input, &|r: &R| *r as usize, d, h, scripts) };
    let nt = depth(f) >= 2 && max_width(f) >= 2;
    out.line(&case, &obs, nt);
}

fn run_x_case(out: &mut Out, input: &str, ops: &[Bop]) {
    let case = format!("X|1|1||{}|{}", esc(input), bops_str(ops));
    let built = catch(|| run_bops(PairsBuilder::new(input), ops).build());
    let obs = match built { Err(_) => "BUILD=PANIC;".to_string(), Ok(root) => observe(root, input, &|r: &R| *r as usize, 1, 1, &[]) };
    out.line(&case, &obs, ops.len() >= 2);
}

fn run_vm_case(out: &mut Out, vms: &[(pest_vm::Vm, Vec<String>)], gi: usize, d: usize, h: usize, scripts: &[String], input: &str) -> bool {
    let (vm, names) = &vms[gi];
    let rid = |r: &&str| names.iter().position(|n| n == r).unwrap_or(99);
    match vm.parse("a", input) {
        Err(_) => false,
        Ok(root) => {
            let raw = raw_tokens(&root, &rid);
            let case = format!("P|{}|{}|{}|{}|vm:{}#{}#{}", d, h, scripts.join(","), esc(input), gi, names.join(","), raw);
            let obs = observe(root, input, &rid, d, h, scripts);
            out.line(&case, &obs, raw.matches('S').count() >= 3);
            true
        }
    }
}

fn run_st_case(out: &mut Out, d: usize, h: usize, scripts: &[String], input: &str, pg: &Pg) -> bool {
    match catch(|| pest::state::<R, _>(input, |s| exec(pg, s))) {
        Err(_) | Ok(Err(_)) => false,
        Ok(Ok(root)) => {
            let rid = |r: &R| *r as usize;
            let raw = raw_tokens(&root, &rid);
            let case = format!("P|{}|{}|{}|{}|st:{}##{}", d, h, scripts.join(","), esc(input), pg_str(pg), raw);
            let obs = observe(root, input, &rid, d, h, scripts);
            out.line(&case, &obs, raw.matches('S').count() >= 3);
            true
        }
    }
}


// ------------------------------------------------------------------------------------------
// generated grammars for pest_vm: nested look-aheads around rule references, sequences that fail after a sub-rule
// matched (repetition with a trailing mismatch, choice whose first alternative fails late), all five rule types calling
// each other (`!{}` / `${}` inside `@{}`), WHITESPACE rules that emit tokens
fn gen_c04_expr(r: &mut Rng, d: u32, i: usize, n: usize) -> GE {
    use GE::*;
    let lit = |r: &mut Rng| Str(["x", "y", "xy", "yx"][r.weighted(&[6, 5, 2, 1])].to_string());
    let id = |r: &mut Rng| if i + 1 < n { Id(format!("r{}", i + 1 + r.below((n - i - 1) as u64) as usize)) } else { Str(["x", "y"][r.below(2) as usize].to_string()) };
    if d == 0 || r.chance(1, 5) {
        return match r.weighted(&[6, 9, 1, 1]) { 0 => lit(r), 1 => id(r), 2 => Id("ANY".into()), _ => Id("EOI".into()) };
    }
    let bx = |e: GE| Box::new(e);
    match r.weighted(&[8, 6, 3, 3, 4, 4, 2, 3, 3, 3, 2, 2]) {
        0 => { let a = gen_c04_expr(r, d - 1, i, n); let b = gen_c04_expr(r, d - 1, i, n); Seq(bx(a), bx(b)) }
        1 => { let a = gen_c04_expr(r, d - 1, i, n); let b = gen_c04_expr(r, d - 1, i, n); Cho(bx(a), bx(b)) }
        2 => { let a = gen_c04_expr(r, d - 1, i, n); let l = lit(r); Rep(bx(Seq(bx(l), bx(a)))) }
        3 => Opt(bx(gen_c04_expr(r, d - 1, i, n))),
        4 => Neg(bx(gen_c04_expr(r, d - 1, i, n))),
        5 => Pos(bx(gen_c04_expr(r, d - 1, i, n))),
        6 => { let a = gen_c04_expr(r, d - 1, i, n); let l = lit(r); Rep1(bx(Seq(bx(a), bx(l)))) }
        // &(!A ~ B) ~ B : a look-ahead nested in a successful positive look-ahead, followed by rule references
        7 => { let a = id(r); let b = id(r); let inner = if r.chance(1, 2) { Neg(bx(a)) } else { Pos(bx(a)) };
               Seq(bx(Pos(bx(Seq(bx(inner), bx(b.clone()))))), bx(b)) }
        // (A ~ lit)* ~ B : the last iteration matches A and then fails
        8 => { let a = id(r); let b = if r.chance(1, 2) { a.clone() } else { id(r) }; let l = lit(r); Seq(bx(Rep(bx(Seq(bx(a), bx(l))))), bx(b)) }
        // (A ~ lit1 | A ~ lit2) : the first alternative fails late
        9 => { let a = id(r); let l1 = lit(r); let l2 = lit(r); let t = gen_c04_expr(r, d - 1, i, n);
               Cho(bx(Seq(bx(a.clone()), bx(l1))), bx(Seq(bx(a), bx(if r.chance(1, 2) { l2 } else { t })))) }
        // three levels: !( &A ~ !B ) ~ A,  &( &( !A ~ B ) ~ B ) ~ B
        10 => { let a = id(r); let b = id(r);
                if r.chance(1, 2) { Seq(bx(Neg(bx(Seq(bx(Pos(bx(a.clone()))), bx(Neg(bx(b))))))), bx(a)) }
                else { Seq(bx(Pos(bx(Seq(bx(Pos(bx(Seq(bx(Neg(bx(a))), bx(b.clone()))))), bx(b.clone()))))), bx(b)) } }
        // A? ~ lit | A : optional sub-rule, then a mismatch
        _ => { let a = id(r); let l = lit(r); Cho(bx(Seq(bx(Opt(bx(a.clone()))), bx(l))), bx(a)) }
    }
}
const SEPS: [&str; 4] = [" ", "\r\n", "\n", "\r"];
/// the grammar and the two separators its inputs are made of besides x and y (a space and one line break kind, or two
/// line break kinds; WHITESPACE then accepts both)
fn gen_c04_grammar(r: &mut Rng) -> (Vec<GRule>, [&'static str; 2]) {
    let lines = r.chance(1, 3);
    let seps: [&'static str; 2] = if lines { let a = r.below(4) as usize; let b = (a + 1 + r.below(3) as usize) % 4; [SEPS[a], SEPS[b]] } else { [" ", " "] };
    let ws = || if lines { GE::Cho(Box::new(GE::Str(seps[0].into())), Box::new(GE::Str(seps[1].into()))) } else { GE::Str(" ".into()) };
    let n = 3 + r.below(3) as usize;
    let tys = [Ty::Normal, Ty::Silent, Ty::Atomic, Ty::Compound, Ty::NonAtomic];
    let profile = r.below(3);
    let mut rules: Vec<GRule> = (0..n).map(|i| {
        let ty = match profile {
            // an atomic rule on top of non-atomic / compound / normal ones
            0 => if i == 0 { Ty::Atomic } else { tys[r.weighted(&[2, 1, 1, 2, 4])] },
            1 => if i == 0 { tys[r.weighted(&[3, 1, 0, 2, 0])] } else { tys[r.weighted(&[3, 1, 3, 2, 3])] },
            _ => tys[r.weighted(&[3, 1, 3, 2, 3])],
        };
        GRule { name: format!("r{}", i), ty, e: gen_c04_expr(r, 3, i, n) }
    }).collect();
    // leaves of the call order are plain so that something matches
    let last = n - 1;
    rules[last].e = GE::Str(["x", "y"][r.below(2) as usize].to_string());
    if r.chance(1, 2) { rules[last - 1].e = GE::Seq(Box::new(GE::Str("x".into())), Box::new(GE::Opt(Box::new(GE::Id(format!("r{}", last)))))); }
    match if lines { r.below(4) } else { r.below(6) } {
        0 => rules.push(GRule { name: "WHITESPACE".into(), ty: Ty::Silent, e: ws() }),
        1 | 2 => rules.push(GRule { name: "WHITESPACE".into(), ty: [Ty::Normal, Ty::Atomic, Ty::Compound][r.below(3) as usize], e: ws() }),
        3 => { rules.push(GRule { name: "WHITESPACE".into(), ty: Ty::Normal, e: ws() });
               rules.push(GRule { name: "COMMENT".into(), ty: Ty::Normal, e: GE::Str("yy".into()) }); }
        _ => {}
    }
    (rules, seps)
}


/// token-oriented ParserState programs: rules under nested look-aheads, atomicity switches and sequences that fail after
/// a rule matched; sub-trees come from pvharness::prog::gen (the Layer-C generator) now and then
fn gen_pp(rng: &mut Rng, d: u32) -> pp::Prog {
    use pp::Prog::*;
    let lit = |rng: &mut Rng| Str(["a", "b", "ab", "é", "\r\n", "\n"][rng.weighted(&[12, 10, 4, 2, 1, 1])].to_string());
    if d == 0 || rng.chance(1, 7) {
        return match rng.weighted(&[8, 3, 1, 1, 2, 1]) { 0 => lit(rng), 1 => Skip(1), 2 => Ok, 3 => Err, 4 => Rule(rng.below(3) as u32, Box::new(lit(rng))), _ => Tag(rng.below(3) as usize) };
    }
    if rng.chance(1, 6) { return pp::gen(rng, d.min(4), 0, None); }
    let sub = |rng: &mut Rng| Box::new(gen_pp(rng, d - 1));
    match rng.weighted(&[10, 6, 5, 4, 3, 5, 4, 10, 6, 1, 5, 6, 3]) {
        // a look-ahead nested in a positive look-ahead, something after it inside, something after both
        10 => { let x = sub(rng); let y = sub(rng); let z = sub(rng); Then(Box::new(Look(true, Box::new(Then(Box::new(Look(rng.chance(1, 2), x)), y)))), z) }
        // an atomicity switch inside a sequence that may fail after it, inside another atomicity
        11 => { let x = sub(rng); let y = sub(rng); let z = sub(rng); let (a, b) = if rng.chance(1, 2) { (0u8, 1 + rng.below(2) as u8) } else { (rng.below(3) as u8, rng.below(3) as u8) };
                Atomic(a, Box::new(Else(Box::new(Seq(Box::new(Then(Box::new(Atomic(b, x)), y)))), z))) }
        // a negative look-ahead around a nested one
        12 => { let x = sub(rng); let y = sub(rng); Then(Box::new(Look(false, Box::new(Then(Box::new(Look(rng.chance(1, 2), x)), Box::new(Err))))), y) }
        0 => Rule(rng.below(3) as u32, sub(rng)),
        1 => Seq(sub(rng)),
        2 => { let l = lit(rng); let b = sub(rng); Rep(Box::new(Seq(Box::new(Then(b, Box::new(l)))))) }      // (B ~ lit)*: B matches, then a mismatch
        3 => Opt(sub(rng)),
        4 => Roe(sub(rng)),
        5 => Look(rng.chance(1, 2), sub(rng)),
        6 => Atomic(rng.below(3) as u8, sub(rng)),
        7 => { let a = sub(rng); let b = sub(rng); Then(a, b) }
        8 => { let a = sub(rng); let b = sub(rng); Else(Box::new(Seq(a)), b) }
        _ => { let a = sub(rng); let b = sub(rng); IfNa(a, b) }
    }
}

fn hexs(s: &str) -> String { s.bytes().map(|b| format!("{:02x}", b)).collect() }
fn unhexs(h: &str) -> String { String::from_utf8((0..h.len() / 2).map(|k| u8::from_str_radix(&h[2 * k..2 * k + 2], 16).unwrap()).collect()).unwrap() }

/// one parse of a generated grammar; returns the raw token stream when the parse succeeded
fn run_vg_case(out: &mut Out, vm: &pest_vm::Vm, names: &[String], gtext: &str, d: usize, h: usize, input: &str, seen: Option<&mut HashSet<String>>) -> bool {
    let rid = |r: &&str| names.iter().position(|n| n == r).unwrap_or(99);
    match catch(|| vm.parse("r0", input)) {
        Err(_) | Ok(Err(_)) => false,
        Ok(Ok(root)) => {
            let raw = catch(|| raw_tokens(&root, &rid)).unwrap_or_else(|_| "PANIC".into());
            if let Some(seen) = seen { if !seen.insert(raw.clone()) { return true; } }
            let case = format!("P|{}|{}||{}|vg:{}#{}#{}", d, h, esc(input), hexs(gtext), names.join(","), raw);
            let obs = observe(root, input, &rid, d, h, &[]);
            out.line(&case, &obs, raw.matches('S').count() >= 3);
            true
        }
    }
}

/// one run of a pvharness::prog program on the real ParserState; the real queue (with links) is dumped at the end
fn run_pp_case(out: &mut Out, d: usize, h: usize, scripts: &[String], input: &str, p: &pp::Prog, empties: &mut u64) -> bool {
    let dump: RefCell<String> = RefCell::new(String::new());
    let cx = pp::Ctx::new(&[], 1_500);
    let res = catch(|| pest::state::<pp::R, _>(input, |s| { let r = pp::run(p, s, &cx); if let Ok(ref st) = r { *dump.borrow_mut() = st.verif_dump(); } r }));
    if cx.diverged.get() { return false; }
    match res {
        Err(_) | Ok(Err(_)) => false,
        Ok(Ok(root)) => {
            let rid = |r: &pp::R| *r as usize;
            let d0 = dump.borrow();
            let q = d0.split(';').find_map(|f| f.strip_prefix("q=")).unwrap_or("");
            let raw: Vec<String> = q.split(',').filter(|x| !x.is_empty()).map(|t| {
                let f: Vec<&str> = t.split(':').collect();
                if f[0] == "S" { format!("s{}.{}", f[1], f[2]) } else { format!("e{}.{}.{}.{}", f[1], f[2], f[3], f[4]) }
            }).collect();
            let raw = raw.join(",");
            // an Ok result with an empty queue says little: keep one in sixteen
            if raw.is_empty() { *empties += 1; if *empties % 16 != 1 { return true; } }
            let case = format!("P|{}|{}|{}|{}|pp:{}#~0,1,2#{}", d, h, scripts.join(","), esc(input), p.show(), raw);
            let obs = observe_t(root, input, &rid, d, h, scripts, NUMTAGS);
            out.line(&case, &obs, raw.matches('s').count() >= 3);
            true
        }
    }
}

fn compile(gtext: &str) -> Option<(pest_vm::Vm, Vec<String>)> {
    match catch(|| pest_meta::parse_and_optimize(gtext)) {
        Ok(Ok((_, rules))) => { let mut names: Vec<String> = rules.iter().map(|r| r.name.clone()).collect(); names.push("EOI".to_string()); Some((pest_vm::Vm::new(rules), names)) }
        _ => None,
    }
}

fn unesc(s: &str) -> String {
    let mut o = String::new(); let mut it = s.chars();
    while let Some(c) = it.next() {
        if c == '\\' { match it.next() { Some('t') => o.push('\t'), Some('n') => o.push('\n'), Some('r') => o.push('\r'), Some('\\') => o.push('\\'), Some(x) => o.push(x), None => {} } } else { o.push(c); }
    }
    o
}

// all forest shapes with n nodes
fn shapes(n: usize) -> Vec<Vec<T>> {
    if n == 0 { return vec![vec![]]; }
    let mut out = vec![];
    for k in 0..n { // first tree has 1 + k nodes (k in children), the remaining siblings n-1-k
        for ch in shapes(k) { for rest in shapes(n - 1 - k) {
            let mut f = vec![T { rule: 0, tag: None, s: 0, e: 0, ch: ch.clone() }];
            f.extend(rest.clone());
            out.push(f);
        } }
    }
    out
}
fn relabel(f: &mut [T], lab: &mut dyn FnMut() -> (usize, Option<usize>)) { for t in f.iter_mut() { let (r, tg) = lab(); t.rule = r; t.tag = tg; relabel(&mut t.ch, lab); } }
/// assign non-decreasing positions in token order; adv() = number of chars to advance before each token
fn place(f: &mut [T], bounds: &[usize], cur: &mut usize, adv: &mut dyn FnMut() -> usize) {
    for t in f.iter_mut() {
        *cur = (*cur + adv()).min(bounds.len() - 1); t.s = bounds[*cur];
        place(&mut t.ch, bounds, cur, adv);
        *cur = (*cur + adv()).min(bounds.len() - 1); t.e = bounds[*cur];
    }
}
fn boundaries(s: &str) -> Vec<usize> { let mut v: Vec<usize> = s.char_indices().map(|(i, _)| i).collect(); v.push(s.len()); v }
const INPUT_A: &str = "x\u{e9}y\n\u{4f60}\"x y\u{e9}\nxy\u{4f60}x";
/// every kind of line break (also two in a row and a position between `\r` and `\n`), multi-byte characters before and after them
const INPUT_B: &str = "x\r\ny\r\u{e9}\r\n\r\n\u{4f60}\nx\r\n\u{1F388}y\r\nxy";

fn random_forest(rng: &mut Rng, n: usize) -> Vec<T> {
    // random shape by random insertion: each new node becomes the last child of a node on the rightmost path or a new root
    let mut f: Vec<T> = vec![];
    for _ in 0..n {
        let mut depth_choice = rng.below(4) as usize;
        let mut cur: &mut Vec<T> = &mut f;
        loop {
            if depth_choice == 0 || cur.is_empty() { break; }
            depth_choice -= 1;
            let l = cur.len();
            cur = &mut cur[l - 1].ch;
        }
        cur.push(T { rule: 0, tag: None, s: 0, e: 0, ch: vec![] });
    }
    f
}
fn random_scripts(rng: &mut Rng, k: usize, maxlen: u64) -> Vec<String> {
    (0..k).map(|_| { let len = rng.range(1, maxlen); let ws = [5u64, 5, 2, 2];
        (0..len).map(|_| ['n', 'b', 'l', 'p'][rng.weighted(&ws)]).collect() }).collect()
}

// ------------------------------------------------------------------------------------------
// escalated search around one case (mode `neighbors`): used by the driver after the real code differed from the model of
// the code on a case for which the specification has nothing to say (or agrees); looks for a case nearby on which the
// real code differs from the specification

/// the forest a builder call sequence describes (a tag goes to the rule before it)
fn bops_forest(l: &[Bop]) -> Vec<T> {
    let mut out: Vec<T> = vec![];
    for o in l {
        match o {
            Bop::Rule(r, s, e) => out.push(T { rule: *r, tag: None, s: *s, e: *e, ch: vec![] }),
            Bop::With(r, s, e, inner) => out.push(T { rule: *r, tag: None, s: *s, e: *e, ch: bops_forest(inner) }),
            Bop::Tag(t) => if let Some(x) = out.last_mut() { x.tag = Some(*t); },
        }
    }
    out
}
fn all_nodes<'a>(f: &'a [T], out: &mut Vec<&'a T>) { for t in f { out.push(t); all_nodes(&t.ch, out); } }
/// characters of the string literals of a grammar / program text (pest syntax: "..." with \n \r \t \\ \" escapes)
fn quoted_chars(text: &str, out: &mut Vec<String>) {
    let mut inq = false; let mut it = text.chars();
    while let Some(c) = it.next() {
        if !inq { if c == '"' { inq = true; } continue; }
        match c {
            '"' => inq = false,
            '\\' => match it.next() { Some('n') => out.push("\n".into()), Some('r') => out.push("\r".into()), Some('t') => out.push("\t".into()), Some(x) => out.push(x.to_string()), None => {} },
            c => out.push(c.to_string()),
        }
    }
}
/// hex words after `M` / `str` / `ins` in a closure-tree text
fn hex_literal_chars(text: &str, out: &mut Vec<String>) {
    let w: Vec<String> = pg_lex(text);
    for i in 0..w.len() {
        if (w[i] == "M" || w[i] == "str" || w[i] == "ins") && i + 1 < w.len() && w[i + 1].len() % 2 == 0 && w[i + 1].bytes().all(|b| b.is_ascii_hexdigit()) {
            if let Ok(b) = catch(|| unhexs(&w[i + 1])) { for c in b.chars() { out.push(c.to_string()); } }
        }
    }
}
/// one to three edits: replace / insert / delete a character, duplicate a stretch, put a line break in; characters from `alpha`
fn mutate_text(rng: &mut Rng, s: &str, alpha: &[String]) -> String {
    let mut cs: Vec<String> = s.chars().map(|c| c.to_string()).collect();
    // keep \r\n together as one symbol
    let mut i = 0; while i + 1 < cs.len() { if cs[i] == "\r" && cs[i + 1] == "\n" { cs[i] = "\r\n".into(); cs.remove(i + 1); } i += 1; }
    let edits = rng.range(1, 3);
    for _ in 0..edits {
        let a = alpha[rng.below(alpha.len() as u64) as usize].clone();
        let pos = rng.below(cs.len() as u64 + 1) as usize;
        match rng.weighted(&[4, 4, 2, 2, 3]) {
            0 => if pos < cs.len() { cs[pos] = a; } else { cs.push(a); },
            1 => cs.insert(pos, a),
            2 => if pos < cs.len() { cs.remove(pos); },
            3 => if !cs.is_empty() { let from = rng.below(cs.len() as u64) as usize; let to = (from + rng.range(1, 3) as usize).min(cs.len()); let seg: Vec<String> = cs[from..to].to_vec(); for (k, x) in seg.into_iter().enumerate() { cs.insert(to + k, x); } },
            _ => cs.insert(pos, ["\r\n", "\n", "\r"][rng.weighted(&[3, 2, 1])].to_string()),
        }
    }
    cs.concat()
}
enum PSrc { Vm(Vec<(pest_vm::Vm, Vec<String>)>, usize), Vg(pest_vm::Vm, Vec<String>, String), Pp(pp::Prog), St(Pg) }
fn psrc(src: &str) -> Option<PSrc> {
    if let Some(g) = src.strip_prefix("vm:") {
        let mut vms = vec![];
        for g in GRAMMARS.iter() { let (_, rules) = pest_meta::parse_and_optimize(g).expect("grammar"); let mut names: Vec<String> = rules.iter().map(|r| r.name.clone()).collect(); names.push("EOI".to_string()); vms.push((pest_vm::Vm::new(rules), names)); }
        let gi: usize = g.parse().unwrap_or(0);
        if gi < vms.len() { Some(PSrc::Vm(vms, gi)) } else { None }
    } else if let Some(hx) = src.strip_prefix("vg:") {
        let gtext = unhexs(hx);
        compile(&gtext).map(|(vm, names)| PSrc::Vg(vm, names, gtext))
    } else if let Some(ps) = src.strip_prefix("pp:") {
        Some(PSrc::Pp(pp::Prog::parse(ps)))
    } else if let Some(pg) = src.strip_prefix("st:") {
        let w = pg_lex(pg); let mut i = 0; Some(PSrc::St(pg_parse(&w, &mut i)))
    } else { None }
}
impl PSrc {
    fn run(&self, out: &mut Out, d: usize, h: usize, scripts: &[String], input: &str) -> bool {
        match self {
            PSrc::Vm(vms, gi) => run_vm_case(out, vms, *gi, d, h, scripts, input),
            PSrc::Vg(vm, names, gtext) => run_vg_case(out, vm, names, gtext, d, h, input, None),
            PSrc::Pp(prog) => run_pp_case(out, d, h, scripts, input, prog, &mut 0),
            PSrc::St(pg) => run_st_case(out, d, h, scripts, input, pg),
        }
    }
    fn literal_chars(&self, out: &mut Vec<String>) {
        match self {
            PSrc::Vm(_, gi) => quoted_chars(GRAMMARS[*gi], out),
            PSrc::Vg(_, _, gtext) => quoted_chars(gtext, out),
            PSrc::Pp(prog) => hex_literal_chars(&prog.show(), out),
            PSrc::St(pg) => hex_literal_chars(&pg_str(pg), out),
        }
    }
}

fn main() {
    quiet_panics();
    let mode = arg(1);
    let stdout = io::stdout();
    let mut out = Out { w: BufWriter::with_capacity(1 << 20, stdout.lock()), n: 0, nontriv: 0, seen: HashSet::new() };
    match mode.as_str() {
        // all forests with exactly N nodes; LAB = all | <k> labelings; rules a/b, tags none/t0
        "exhaustive" => {
            let n = arg_u64(2, 3) as usize;
            let lab = arg(3);
            let d = arg_u64(4, 7) as usize;
            let seed = arg_u64(5, 1);
            let mut rng = Rng::new(seed ^ (n as u64) << 8);
            let bs = [boundaries(INPUT_A), boundaries(INPUT_B)];
            for (si, shape) in shapes(n).into_iter().enumerate() {
                let labelings: u64 = if lab == "all" { 1u64 << (2 * n) } else { lab.parse().unwrap_or(1) };
                for li in 0..labelings {
                    let which = ((li / 2) as usize + si) % 2;
                    let (input, b) = ([INPUT_A, INPUT_B][which], &bs[which]);
                    let mut f = shape.clone();
                    let mut k = 0usize;
                    if lab == "all" {
                        relabel(&mut f, &mut || { let bits = (li >> (2 * k)) & 3; k += 1; ((bits & 1) as usize, if bits & 2 != 0 { Some(0) } else { None }) });
                    } else if li == 0 {
                        relabel(&mut f, &mut || { k += 1; (k % 2, None) });
                    } else if li == 1 {
                        relabel(&mut f, &mut || { k += 1; ((k / 2) % 2, Some(k % 2)) });
                    } else {
                        relabel(&mut f, &mut || (rng.below(2) as usize, if rng.chance(1, 2) { Some(rng.below(2) as usize) } else { None }));
                    }
                    let mut cur = 0usize;
                    match li % 3 {
                        0 => place(&mut f, b, &mut cur, &mut || 1),
                        1 => { let mut tgl = 0; place(&mut f, b, &mut cur, &mut || { tgl += 1; if tgl % 3 == 0 { 1 } else { 0 } }) }
                        _ => place(&mut f, b, &mut cur, &mut || rng.below(3) as usize),
                    }
                    run_builder_case(&mut out, d, 6, &[], input, &f, li % 2 == 0);
                }
            }
        }
        "random" => {
            let count = arg_u64(2, 100);
            let mut rng = Rng::new(arg_u64(3, 0));
            let maxn = arg_u64(4, 30);
            for _ in 0..count {
                let n = rng.range(5, maxn) as usize;
                let mut f = random_forest(&mut rng, n);
                relabel(&mut f, &mut || (rng.below(3) as usize, if rng.chance(1, 3) { Some(rng.below(3) as usize) } else { None }));
                // one case in three has many short lines (all line-break kinds) under the whole forest
                let lines = rng.chance(1, 3);
                let ilen = if lines { rng.range(n as u64, 3 * n as u64 + 8) } else { rng.range(0, 24) };
                let input = gen_text(&mut rng, ilen, if lines { 2 } else { 1 });
                let b = boundaries(&input);
                let mut cur = 0usize;
                let dense = rng.below(3);
                place(&mut f, &b, &mut cur, &mut || if dense == 0 { rng.below(2) as usize } else { rng.below(3) as usize });
                let scripts = random_scripts(&mut rng, 4, 40);
                run_builder_case(&mut out, 2, 1, &scripts, &input, &f, rng.chance(1, 2));
            }
        }
        // PairsBuilder call sequences incl. the documented panics (bad spans, tag before rule) and unordered-but-valid spans
        "builder" => {
            let count = arg_u64(2, 100);
            let mut rng = Rng::new(arg_u64(3, 0));
            // kind 0: any byte offsets, also beyond the input (the documented panics); kind 1: char boundaries with start <= end,
            // siblings in any order; kind 2: a well-formed tree (ordered nested boundary spans, depth up to 4, tags after rules)
            fn gen(rng: &mut Rng, d: usize, len: usize, bs: &[usize], kind: u64, cur: &mut usize) -> Vec<Bop> {
                let n = rng.range(0, 3);
                let mut v = vec![];
                for _ in 0..n {
                    if kind == 2 {
                        *cur = (*cur + rng.below(3) as usize).min(bs.len() - 1); let s = bs[*cur];
                        let r = rng.below(3) as usize;
                        let with = rng.chance(1, 2);
                        let inner = if with && d > 0 { gen(rng, d - 1, len, bs, kind, cur) } else { vec![] };
                        *cur = (*cur + rng.below(3) as usize).min(bs.len() - 1); let e = bs[*cur];
                        v.push(if with { Bop::With(r, s, e, inner) } else { Bop::Rule(r, s, e) });
                        if rng.chance(1, 4) { v.push(Bop::Tag(rng.below(3) as usize)); }
                        continue;
                    }
                    let pick = |rng: &mut Rng| if kind == 1 { bs[rng.below(bs.len() as u64) as usize] } else { rng.below(len as u64 + 1) as usize };
                    let mut s = pick(rng); let mut e = pick(rng);
                    if kind == 1 && s > e { std::mem::swap(&mut s, &mut e); }
                    if kind == 0 && rng.chance(1, 8) { e = len + 1 + rng.below(3) as usize; }
                    match rng.weighted(&[3, 3, 2]) {
                        0 => v.push(Bop::Rule(rng.below(3) as usize, s, e)),
                        1 => { let inner = if d > 0 { gen(rng, d - 1, len, bs, kind, cur) } else { vec![] }; v.push(Bop::With(rng.below(3) as usize, s, e, inner)); }
                        _ => v.push(Bop::Tag(rng.below(3) as usize)),
                    }
                }
                v
            }
            for _ in 0..count {
                let ilen = rng.range(0, 10);
                let prof = 1 + rng.below(2);
                let input = gen_text(&mut rng, ilen, prof);
                let kind = rng.below(3);
                let bs = boundaries(&input);
                let ops = gen(&mut rng, if kind == 2 { 3 } else { 2 }, input.len(), &bs, kind, &mut 0);
                run_x_case(&mut out, &input, &ops);
            }
        }
        // real parses: pest_vm on small grammars, all inputs up to length K over the grammar's alphabet
        "vm" => {
            let k = arg_u64(2, 4) as usize;
            let d = arg_u64(3, 4) as usize;
            let mut vms = vec![];
            for g in GRAMMARS.iter() {
                let (_, rules) = pest_meta::parse_and_optimize(g).expect("grammar");
                let mut names: Vec<String> = rules.iter().map(|r| r.name.clone()).collect(); names.push("EOI".to_string());
                vms.push((pest_vm::Vm::new(rules), names));
            }
            let mut ok = 0u64;
            for gi in 0..GRAMMARS.len() {
                let (alpha, k): (&[&str], usize) = if gi == 5 { (&VM_ALPHA_LINES, k + 1) } else { (&VM_ALPHA_STD, k) };
                let mut idx: Vec<usize> = vec![];
                loop {
                    let input: String = idx.iter().map(|&i| alpha[i]).collect();
                    if run_vm_case(&mut out, &vms, gi, d, 3, &[], &input) { ok += 1; }
                    // next word in length-lex order
                    let mut p = idx.len();
                    loop {
                        if p == 0 { idx = vec![0; idx.len() + 1]; break; }
                        p -= 1;
                        idx[p] += 1;
                        if idx[p] < alpha.len() { break; }
                        idx[p] = 0;
                    }
                    if idx.len() > k { break; }
                }
            }
            let _ = ok;
        }
        // real parses: random ParserState closure trees (rule / sequence / repeat / optional / lookahead / tag_node)
        "state" => {
            let count = arg_u64(2, 100);
            let mut rng = Rng::new(arg_u64(3, 0));
            let mut produced = 0u64; let mut tries = 0u64;
            while produced < count && tries < count * 30 {
                tries += 1;
                let pg = if rng.chance(1, 2) { Pg::Rep(Box::new(gen_pg(&mut rng, 4))) } else { gen_pg(&mut rng, 5) };
                let ilen = rng.range(0, 7);
                let input = match rng.below(8) { 0 | 1 => gen_text(&mut rng, ilen, 1), 2 => gen_text(&mut rng, ilen + 3, 2), _ => gen_text(&mut rng, ilen, 0) };
                let scripts = random_scripts(&mut rng, 2, 16);
                if run_st_case(&mut out, 3, 2, &scripts, &input, &pg) { produced += 1; }
            }
        }
        // real parses: pest_vm on GENERATED grammars, all inputs up to length K over {x, y, space}; one case per distinct token stream
        "vmgen" => {
            let count = arg_u64(2, 20);
            let mut rng = Rng::new(arg_u64(3, 0));
            let k = arg_u64(4, 5) as usize;
            let inputs = pvharness::gram::all_strings(&["x", "y", " "], k);
            let mut inputs_sep: std::collections::HashMap<[&'static str; 2], Vec<String>> = std::collections::HashMap::new();
            let mut made = 0u64; let mut tries = 0u64; let mut parses = 0u64; let mut oks = 0u64;
            while made < count && tries < count * 20 {
                tries += 1;
                let (g, seps) = gen_c04_grammar(&mut rng);
                let gtext = pest_grammar(&g);
                // grammars whose WHITESPACE accepts line breaks: all inputs over x, y and the two separators, one shorter
                let inputs: &Vec<String> = if seps[0] == seps[1] { &inputs } else {
                    inputs_sep.entry(seps).or_insert_with(|| pvharness::gram::all_strings(&["x", "y", seps[0], seps[1]], k.max(2) - 1)) };
                let (vm, names) = match compile(&gtext) { Some(x) => x, None => continue };
                made += 1;
                let mut seen: HashSet<String> = HashSet::new();
                for input in inputs.iter() {
                    parses += 1;
                    if run_vg_case(&mut out, &vm, &names, &gtext, 2, 1, input, Some(&mut seen)) { oks += 1; }
                }
            }
            writeln!(out.w, "#VMGEN\tgrammars={}\trejected={}\tparses={}\tok_parses={}", made, tries - made, parses, oks).unwrap();
        }
        // real parses: random ParserState closure trees from pvharness::prog::gen (the Layer-C generator), depth up to DEPTH
        "prog" => {
            let count = arg_u64(2, 1000);           // programs tried
            let mut rng = Rng::new(arg_u64(3, 0));
            let maxd = arg_u64(4, 7) as u32;
            let mut produced = 0u64; let mut tries = 0u64; let mut empties = 0u64; let mut seen: HashSet<String> = HashSet::new();
            while tries < count {
                tries += 1;
                let depth = rng.range(3, maxd as u64) as u32;
                let g = |rng: &mut Rng, d: u32| Box::new(if rng.chance(2, 3) { gen_pp(rng, d) } else { pp::gen(rng, d, 0, None) });
                // half of the programs are wrapped so that rules (tokens) surround whatever the generator builds
                let p = match rng.below(6) {
                    0 => pp::Prog::Rule(rng.below(3) as u32, g(&mut rng, depth - 1)),
                    1 => pp::Prog::Then(Box::new(pp::Prog::Rule(rng.below(3) as u32, g(&mut rng, depth - 1))), Box::new(pp::Prog::Opt(Box::new(pp::Prog::Rule(rng.below(3) as u32, g(&mut rng, depth - 1)))))),
                    2 => pp::Prog::Rep(Box::new(pp::Prog::Seq(Box::new(pp::Prog::Then(Box::new(pp::Prog::Rule(rng.below(3) as u32, Box::new(pp::Prog::Skip(1)))), g(&mut rng, depth - 1)))))),
                    _ => *g(&mut rng, depth),
                };
                // one input in four has line breaks of every kind and multi-byte characters between the letters
                let input = if rng.chance(1, 4) {
                    let n = rng.range(0, 8);
                    (0..n).map(|_| ["a", "b", "\u{e9}", "\r\n", "\n", "\r", "\u{1F388}"][rng.weighted(&[5, 4, 2, 3, 2, 1, 1])]).collect()
                } else { pp::gen_input(&mut rng, 6) };
                let key = format!("{}|{}", p.show(), input);
                if !seen.insert(key) { continue; }
                let scripts = if rng.chance(1, 4) { random_scripts(&mut rng, 1, 12) } else { vec![] };
                if run_pp_case(&mut out, 2, 1, &scripts, &input, &p, &mut empties) { produced += 1; }
            }
            writeln!(out.w, "#PROG\tprograms_tried={}\tok_runs={}", tries, produced).unwrap();
        }
        // re-run exactly one case (replay)
        "one" => {
            let case = arg(2);
            let p: Vec<&str> = case.splitn(6, '|').collect();
            if p.len() < 6 { eprintln!("bad case"); std::process::exit(2); }
            let d: usize = p[1].parse().unwrap_or(3); let h: usize = p[2].parse().unwrap_or(1);
            let scripts: Vec<String> = if p[3].is_empty() { vec![] } else { p[3].split(',').map(|s| s.to_string()).collect() };
            let input = unesc(p[4]);
            match p[0] {
                "B" => { let mut i = 0; let f = parse_forest(p[5].as_bytes(), &mut i);
                         let case2 = format!("B|{}|{}|{}|{}|{}", d, h, scripts.join(","), esc(&input), forest_str(&f));
                         let built = catch(|| add(PairsBuilder::new(&input), &f, false).build());
                         let obs = match built { Err(_) => "BUILD=PANIC;".to_string(), Ok(root) => observe(root, &input, &|r: &R| *r as usize, d, h, &scripts) };
                         out.line(&case2, &obs, true); }
                "X" => { let w: Vec<&str> = p[5].split_whitespace().collect(); let mut i = 0; let ops = parse_bops(&w, &mut i); run_x_case(&mut out, &input, &ops); }
                "P" => {
                    let src = p[5].split('#').next().unwrap_or("");
                    if let Some(ps) = psrc(src) { ps.run(&mut out, d, h, &scripts, &input); }
                }
                _ => {}
            }
        }
        // cases near one case: neighbors CASE COUNT SEED.  Builder cases: the forest, its sub-forests and deepened / widened
        // variants of it, laid out anew over the original text, edited versions of it and fresh texts with every line-break
        // kind and multi-byte characters (ordered boundary spans, i.e. always inside the specification's domain).  Parse
        // cases: the same grammar / closure tree on edited inputs (alphabet: the input's characters, the literals of the
        // grammar or program, all line-break kinds, multi-byte characters).
        "neighbors" => {
            let case = arg(2);
            let count = arg_u64(3, 200);
            let mut rng = Rng::new(arg_u64(4, 1));
            let p: Vec<&str> = case.splitn(6, '|').collect();
            if p.len() < 6 { eprintln!("bad case"); std::process::exit(2); }
            let d: usize = p[1].parse::<usize>().unwrap_or(3).clamp(2, 4); let h: usize = p[2].parse::<usize>().unwrap_or(1).clamp(1, 2);
            let scripts: Vec<String> = if p[3].is_empty() { vec![] } else { p[3].split(',').map(|s| s.to_string()).collect() };
            let input = unesc(p[4]);
            let mut alpha: Vec<String> = input.chars().map(|c| c.to_string()).collect();
            match p[0] {
                "B" | "X" => {
                    let base: Vec<T> = if p[0] == "B" { let mut i = 0; parse_forest(p[5].as_bytes(), &mut i) }
                                       else { let w: Vec<&str> = p[5].split_whitespace().collect(); let mut i = 0; bops_forest(&parse_bops(&w, &mut i)) };
                    for a in ALPHA.iter() { alpha.push(a.to_string()); }
                    let mut seen: HashSet<String> = HashSet::new();
                    for _ in 0..count {
                        let mut f: Vec<T> = base.clone();
                        let mut ns = vec![]; all_nodes(&base, &mut ns);
                        match rng.below(5) {
                            0 => if !ns.is_empty() { let t = ns[rng.below(ns.len() as u64) as usize]; f = vec![t.clone()]; },
                            1 => if !ns.is_empty() { let t = ns[rng.below(ns.len() as u64) as usize]; f = t.ch.clone(); },
                            2 => if f.len() > 1 { let k = rng.range(1, f.len() as u64 - 1) as usize; if rng.chance(1, 2) { f.truncate(k); } else { f = f[k..].to_vec(); } },
                            _ => {}
                        }
                        if f.is_empty() { let n = rng.range(1, 6) as usize; f = random_forest(&mut rng, n); relabel(&mut f, &mut || (rng.below(3) as usize, if rng.chance(1, 3) { Some(rng.below(3) as usize) } else { None })); }
                        // extend: a new level on top, a new last sibling, a new child under the last leaf of the rightmost path
                        for _ in 0..rng.below(3) {
                            let leaf = T { rule: rng.below(3) as usize, tag: if rng.chance(1, 4) { Some(rng.below(3) as usize) } else { None }, s: 0, e: 0, ch: vec![] };
                            match rng.below(3) {
                                0 => { let mut top = leaf; top.ch = f; f = vec![top]; }
                                1 => f.push(leaf),
                                _ => { let mut cur: &mut Vec<T> = &mut f; loop { if cur.is_empty() { break; } let l = cur.len(); if cur[l - 1].ch.is_empty() { cur = &mut cur[l - 1].ch; break; } cur = &mut cur[l - 1].ch; } cur.push(leaf); }
                            }
                        }
                        let n = nodes(&f) as u64;
                        let text = match rng.below(5) {
                            0 => input.clone(),
                            1 => mutate_text(&mut rng, &input, &alpha),
                            2 | 3 => { let len = rng.range(n, 3 * n + 6); gen_text(&mut rng, len, 2) }
                            _ => { let len = rng.range(0, 2 * n + 6); gen_text(&mut rng, len, 1) }
                        };
                        let b = boundaries(&text);
                        let mut cur = 0usize;
                        let dense = rng.below(3);
                        place(&mut f, &b, &mut cur, &mut || if dense == 0 { rng.below(2) as usize } else { rng.below(3) as usize });
                        let key = format!("{}|{}", text, forest_str(&f));
                        if !seen.insert(key) { continue; }
                        run_builder_case(&mut out, d, h, &scripts, &text, &f, rng.chance(1, 2));
                    }
                }
                "P" => {
                    let src = p[5].split('#').next().unwrap_or("");
                    if let Some(ps) = psrc(src) {
                        ps.literal_chars(&mut alpha);
                        for a in ["\n", "\r\n", "\r", "\u{e9}", "\u{1F388}", " "].iter() { alpha.push(a.to_string()); }
                        let mut seen: HashSet<String> = HashSet::new();
                        seen.insert(input.clone());
                        let mut pool: Vec<String> = vec![input.clone()];
                        let mut tries = 0u64; let mut oks = 0u64;
                        while tries < count {
                            tries += 1;
                            // edit the original input or an input that already parsed (walks away from the start by and by)
                            let from = pool[rng.below(pool.len() as u64) as usize].clone();
                            let text = if rng.chance(1, 8) { format!("{}{}", from, input) } else { mutate_text(&mut rng, &from, &alpha) };
                            if text.len() > 64 || !seen.insert(text.clone()) { continue; }
                            if ps.run(&mut out, d, h, &scripts, &text) { oks += 1; if pool.len() < 64 { pool.push(text); } }
                        }
                        writeln!(out.w, "#NEIGHBORS\tinputs_tried={}\tok_parses={}", tries, oks).unwrap();
                    }
                }
                _ => {}
            }
        }
        // which of the three repaired behaviours does this tree have?  (1 = repaired)
        "probe" => {
            let r = catch(|| {
                let input = "abc";
                let f = vec![T { rule: 0, tag: None, s: 0, e: 2, ch: vec![T { rule: 1, tag: None, s: 0, e: 1, ch: vec![T { rule: 2, tag: None, s: 0, e: 1, ch: vec![] }] }] },
                             T { rule: 1, tag: None, s: 2, e: 3, ch: vec![] }];
                let root = add(PairsBuilder::new(input), &f, true).build();
                let leaf = root.clone().nth(1).unwrap();
                let single = match catch(|| { let mut s = Pairs::single(leaf.clone()); let l = s.len(); let b = s.next_back(); (l, b == Some(leaf.clone()), s.next().is_none()) }) { Ok((1, true, true)) => 1, _ => 0 };
                let flat = match catch(|| { let mut fl = root.clone().flatten(); fl.next(); fl.next(); let a = fl.len(); fl.next_back(); (a, fl.len()) }) { Ok((2, 1)) => 1, _ => 0 };
                let json = match catch(|| { let mut r = root.clone(); r.next(); r.next(); r.to_json() }) { Ok(_) => 1, Err(_) => 0 };
                (single, flat, json)
            });
            match r {
                Ok((single, flat, json)) => writeln!(out.w, "#PROBE\tfix_single={}\tfix_flatlen={}\tfix_json={}", single, flat, json).unwrap(),
                Err(_) => writeln!(out.w, "#PROBE\tfailed=1").unwrap(),
            }
        }
        _ => { eprintln!("usage: c04 exhaustive N all|K D SEED | random COUNT SEED MAXN | builder COUNT SEED | vm K D | vmgen COUNT SEED K | state COUNT SEED | prog COUNT SEED DEPTH | one CASE | neighbors CASE COUNT SEED | probe"); std::process::exit(2); }
    }
    writeln!(out.w, "#SUMMARY\tevaluations={}\tdistinct_nontrivial={}", out.n, out.nontriv).unwrap();
}
