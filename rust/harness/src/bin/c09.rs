//! C09: the grammar front-end is total.  Feeds texts to the REAL `pest_meta::parse_and_optimize`.
//!
//! Every case runs in a worker child process (this binary, mode `worker`) on a large-stack thread under
//! `catch_unwind`; the parent measures wall-clock time, kills a worker that exceeds the hard limit and notices a
//! worker that died (native stack overflow / abort), so the outcome classes are
//!     rules | errors | PANIC | TIMEOUT | CRASH.
//! One output line per case:
//!     <kind>|<escaped text> \t <class> \t <errors> \t <token forest> \t <extras>
//!   errors  = `|`-joined  <loc>~<variant>~<escaped message>   loc = P<p> | S<a>-<b>, variant = meta | custom
//!   forest  = the token forest of `parser::parse(Rule::grammar_rules, text)`: rule(start,end)[children] ... or `-`
//!   extras  = `;`-joined key=value: ms (wall clock), docs (ok|PANIC|-)
//! Oracle of the property evaluated on the real run, printed as "CONTRACT\t<case>\t<message>":
//!   class PANIC / TIMEOUT (> SOFT_MS) / CRASH; an error location that is not a position / ordered span on char
//!   boundaries of the text; a rendering (`{}`, `{:?}`, with_path, renamed_rules) that panics; docs::consume panicking
//!   on an accepted grammar; an empty error list.
//! Final line: #SUMMARY evaluations=.. distinct_nontrivial=.. and per-class / per-kind counters.
//! Mode `lad`: ladders, chains of rules in which every rule mentions the next one two or three times (see `ladder_run`); a slow or killed
//! ladder is printed with the token forest taken in this process, and the runner asks the model of the unmodified front end whether the
//! text belongs to the registered exponential class.
//! Mode `cyc`: grammars around one cycle of rule references (see `cyc_grammar`).  Mode `escalate <file>`: the search that the driver
//! starts from texts on which implementation and model disagree (see `escalate_one`); same output lines, same oracle.
use pest::error::{Error, ErrorVariant, InputLocation};
use pest_meta::parser::{self, Rule};
use pvharness::gram::{gen_grammar, pest_grammar, GenCfg};
use pvharness::*;
use std::collections::{HashMap, HashSet};
use std::io::{self, BufRead, BufReader, BufWriter, Read, Write};
use std::process::{Child, ChildStdin, Command, Stdio};
use std::sync::mpsc::{channel, Receiver, RecvTimeoutError};
use std::time::{Duration, Instant};

const SOFT_MS: u128 = 2000; // a case slower than this is a finding
const HARD_MS: u64 = 20000; // the worker is killed after this
const STACK: usize = 1 << 30; // worker thread stack (virtual)

fn unesc(s: &str) -> String {
    let mut o = String::new();
    let mut it = s.chars();
    while let Some(c) = it.next() {
        if c == '\\' {
            match it.next() { Some('n') => o.push('\n'), Some('r') => o.push('\r'), Some('t') => o.push('\t'), Some('\\') => o.push('\\'),
                              Some(x) => { o.push('\\'); o.push(x) } None => o.push('\\') }
        } else { o.push(c) }
    }
    o
}

fn loc_s(l: &InputLocation) -> String {
    match l { InputLocation::Pos(p) => format!("P{}", p), InputLocation::Span((a, b)) => format!("S{}-{}", a, b) }
}
fn loc_ok(text: &str, l: &InputLocation) -> bool {
    let b = |p: usize| p <= text.len() && text.is_char_boundary(p);
    match l { InputLocation::Pos(p) => b(*p), InputLocation::Span((a, c)) => a <= c && b(*a) && b(*c) }
}

fn forest_s(pairs: pest::iterators::Pairs<'_, Rule>, o: &mut String) {
    for p in pairs {
        let sp = p.as_span();
        o.push_str(&format!("{:?}({},{})[", p.as_rule(), sp.start(), sp.end()));
        forest_s(p.into_inner(), o);
        o.push(']');
    }
}

/// One case, in the worker: class \t errors \t forest \t extras \t problems(`@@`-joined)
fn observe(text: &str) -> String {
    let mut problems: Vec<String> = vec![];
    let t0 = Instant::now();
    let r = catch(|| pest_meta::parse_and_optimize(text).map(|(d, rules)| (d.len(), rules.len())));
    let ms = t0.elapsed().as_millis();
    let mut errs_s = String::new();
    let class = match &r {
        Err(m) => { problems.push(format!("parse_and_optimize panicked: {}", esc(m))); "PANIC" }
        Ok(Ok(_)) => "rules",
        Ok(Err(errors)) => {
            if errors.is_empty() { problems.push("Err with an empty error list".into()); }
            let mut parts = vec![];
            for e in errors {
                if !loc_ok(text, &e.location) { problems.push(format!("error location {} is not a position/span of the text (len {})", loc_s(&e.location), text.len())); }
                let (variant, msg) = match &e.variant {
                    ErrorVariant::ParsingError { .. } => ("meta", String::new()),
                    ErrorVariant::CustomError { message } => ("custom", message.clone()),
                };
                let renders = [
                    catch(|| format!("{}", e).len()),
                    catch(|| format!("{:?}", e).len()),
                    catch(|| format!("{}", e.clone().with_path("x.pest")).len()),
                    catch(|| format!("{}", e.clone().renamed_rules(parser::rename_meta_rule)).len()),
                    catch(|| e.line().len()),
                ];
                for (i, x) in renders.iter().enumerate() {
                    if let Err(m) = x { problems.push(format!("rendering #{} of the error at {} panicked: {}", i, loc_s(&e.location), esc(m))); }
                }
                parts.push(format!("{}~{}~{}", loc_s(&e.location), variant, esc(&msg).replace('|', "\\p").replace('~', "\\s")));
            }
            errs_s = parts.join("|");
            "errors"
        }
    };
    // the token forest of the meta-grammar (what consume_rules / validate_pairs / docs::consume walk over)
    let mut forest = String::from("-");
    let mut docs = "-";
    if let Ok(Ok(pairs)) = catch(|| parser::parse(Rule::grammar_rules, text)) {
        let mut o = String::new();
        forest_s(pairs.clone(), &mut o);
        forest = if o.is_empty() { "()".into() } else { o };
        match catch(|| { let d = pest_generator::docs::consume(pairs); d.grammar_doc.len() + d.line_docs.len() }) {
            Ok(_) => docs = "ok",
            Err(m) => { docs = "PANIC"; problems.push(format!("docs::consume panicked: {}", esc(&m))); }
        }
    }
    if ms > SOFT_MS { problems.push(format!("took {} ms (> {} ms)", ms, SOFT_MS)); }
    let class = if class != "PANIC" && ms > SOFT_MS { "TIMEOUT" } else { class };
    format!("{}\t{}\t{}\tms={};docs={}\t{}", class, errs_s, forest, ms, docs, problems.join("@@"))
}

/// worker: reads `<byte length>\n<bytes>` requests on stdin, answers one line per request
fn worker_loop() {
    let stdin = io::stdin();
    let mut inp = BufReader::new(stdin.lock());
    let stdout = io::stdout();
    let mut out = stdout.lock();
    loop {
        let mut line = String::new();
        if inp.read_line(&mut line).unwrap_or(0) == 0 { break; }
        let n: usize = match line.trim().parse() { Ok(n) => n, Err(_) => break };
        let mut buf = vec![0u8; n];
        if inp.read_exact(&mut buf).is_err() { break; }
        let text = String::from_utf8_lossy(&buf).into_owned();
        let o = observe(&text);
        if writeln!(out, "{}", o).is_err() || out.flush().is_err() { break; }
    }
}
fn worker(stack: usize) {
    quiet_panics();
    let h = std::thread::Builder::new().stack_size(stack).spawn(worker_loop).unwrap();
    let _ = h.join();
}

struct Worker { child: Child, stdin: ChildStdin, rx: Receiver<String> }
impl Worker {
    fn spawn(small_stack: bool) -> Worker {
        let exe = std::env::current_exe().unwrap();
        // address-space cap: a runaway allocation aborts the worker instead of exhausting the machine
        let cmd = format!("ulimit -v 6000000 2>/dev/null; exec \"{}\" {}", exe.display(), if small_stack { "worker8" } else { "worker" });
        let mut child = Command::new("sh").arg("-c").arg(cmd).stdin(Stdio::piped()).stdout(Stdio::piped()).stderr(Stdio::null()).spawn().unwrap();
        let stdin = child.stdin.take().unwrap();
        let stdout = child.stdout.take().unwrap();
        let (tx, rx) = channel();
        std::thread::spawn(move || { for l in BufReader::new(stdout).lines() { match l { Ok(l) => { if tx.send(l).is_err() { break } } Err(_) => break } } });
        Worker { child, stdin, rx }
    }
    /// None = the worker died or was killed (second component says which)
    fn ask(&mut self, text: &str, hard_ms: u64) -> Result<String, &'static str> {
        let ok = write!(self.stdin, "{}\n", text.len()).is_ok() && self.stdin.write_all(text.as_bytes()).is_ok() && self.stdin.flush().is_ok();
        if !ok { return Err("CRASH"); }
        match self.rx.recv_timeout(Duration::from_millis(hard_ms)) {
            Ok(l) => Ok(l),
            Err(RecvTimeoutError::Timeout) => { let _ = self.child.kill(); let _ = self.child.wait(); Err("TIMEOUT") }
            Err(RecvTimeoutError::Disconnected) => { let _ = self.child.wait(); Err("CRASH") }
        }
    }
}
impl Drop for Worker { fn drop(&mut self) { let _ = self.child.kill(); let _ = self.child.wait(); } }

struct Out<W: Write> {
    w: W, worker: Option<Worker>, small: Option<Worker>, n: u64, seen: HashSet<u64>, nontriv: u64,
    counts: HashMap<String, u64>, contracts: u64, max_ms: u128, slowest: String, hard_ms: u64,
    /// when the worker does not answer, the token forest of the meta-parse is taken in this process, so that the runner can ask the
    /// model of the unmodified front end how much work the text is (membership in the registered exponential class)
    parent_forest: bool, last_ms: u128,
}
fn hash(s: &str) -> u64 { let mut h: u64 = 0xcbf29ce484222325; for b in s.bytes() { h ^= b as u64; h = h.wrapping_mul(0x100000001b3); } h }

/// a repetition count above 2^17 that the reader would ACCEPT (<= u32::MAX): unrolling it is astronomically large, which
/// the property leaves out ("repetition counts of bounded size"); mutation and damage can produce such counts by accident
fn has_huge_count(t: &str) -> bool {
    let b = t.as_bytes();
    let mut i = 0;
    while i < b.len() {
        if b[i].is_ascii_digit() {
            let s = i;
            while i < b.len() && b[i].is_ascii_digit() { i += 1; }
            let digits = t[s..i].trim_start_matches('0');
            let mut j = s;
            while j > 0 && (b[j - 1] == b' ' || b[j - 1] == b'\t' || b[j - 1] == b'\n' || b[j - 1] == b'\r') { j -= 1; }
            let after_brace = j > 0 && (b[j - 1] == b'{' || b[j - 1] == b',');
            if after_brace && digits.len() >= 6 && digits.len() <= 10 && digits.parse::<u64>().map(|v| v > 131072 && v <= u32::MAX as u64).unwrap_or(false) { return true; }
        } else { i += 1; }
    }
    false
}

impl<W: Write> Out<W> {
    fn run(&mut self, kind: &str, text: &str) -> String {
        if matches!(kind, "mut" | "dmg" | "gend" | "rnd" | "pre" | "gen" | "esc-mut") && has_huge_count(text) {
            *self.counts.entry("skipped_huge_count".to_string()).or_insert(0) += 1;
            return "skipped".to_string();
        }
        self.run_on(kind, text, false)
    }
    /// returns the class
    fn run_on(&mut self, kind: &str, text: &str, small_stack: bool) -> String {
        let slot = if small_stack { &mut self.small } else { &mut self.worker };
        if slot.is_none() { *slot = Some(Worker::spawn(small_stack)); }
        let t0 = Instant::now();
        let ans = slot.as_mut().unwrap().ask(text, self.hard_ms);
        let case = format!("{}|{}", kind, esc(text));
        let (class, line, problems) = match ans {
            Ok(l) => {
                let f: Vec<&str> = l.split('\t').collect();
                let problems: Vec<String> = f.get(4).map(|p| p.split("@@").filter(|x| !x.is_empty()).map(|x| x.to_string()).collect()).unwrap_or_default();
                (f[0].to_string(), f[..4.min(f.len())].join("\t"), problems)
            }
            Err(what) => {
                *slot = None; // respawned on the next case
                let ms = t0.elapsed().as_millis();
                let msg = if what == "TIMEOUT" { format!("no answer within {} ms: worker killed", self.hard_ms) } else { "worker process died (native stack overflow or abort)".to_string() };
                let forest = if self.parent_forest { forest_of(text) } else { "-".to_string() };
                (what.to_string(), format!("{}\t\t{}\tms={};docs=-", what, forest, ms), vec![msg])
            }
        };
        writeln!(self.w, "{}\t{}", case, line).unwrap();
        for p in &problems { self.contracts += 1; writeln!(self.w, "CONTRACT\t{}\t{}", case, p).unwrap(); }
        self.n += 1;
        *self.counts.entry(format!("class_{}", class)).or_insert(0) += 1;
        *self.counts.entry(format!("kind_{}", kind)).or_insert(0) += 1;
        if self.seen.insert(hash(text)) && class != "rules" { self.nontriv += 1; }
        let ms = t0.elapsed().as_millis();
        if ms > self.max_ms { self.max_ms = ms; self.slowest = case.chars().take(120).collect(); }
        self.last_ms = ms;
        class
    }
    fn summary(&mut self) {
        let mut ks: Vec<_> = self.counts.iter().collect();
        ks.sort();
        let extra: Vec<String> = ks.iter().map(|(k, v)| format!("{}={}", k, v)).collect();
        writeln!(self.w, "#SUMMARY\tevaluations={}\tdistinct_nontrivial={}\tcontracts={}\tmax_ms={}\t{}", self.n, self.nontriv, self.contracts, self.max_ms, extra.join("\t")).unwrap();
        writeln!(self.w, "#SLOWEST\t{}", self.slowest).unwrap();
        self.w.flush().unwrap();
    }
}

// ------------------------------------------------------------------------------------------------
// generators
// ------------------------------------------------------------------------------------------------
/// the shipped grammars: <repo>/grammars/src/grammars/*.pest, meta/src/grammar.pest, test and example grammars
fn shipped(root: &str) -> Vec<(String, String)> {
    let mut out = vec![];
    for d in ["grammars/src/grammars", "meta/src", "derive/tests", "derive/examples", "vm/tests", "generator/tests"] {
        let dir = format!("{}/{}", root, d);
        let mut names: Vec<String> = match std::fs::read_dir(&dir) {
            Ok(rd) => rd.filter_map(|e| e.ok()).map(|e| e.file_name().to_string_lossy().into_owned()).filter(|n| n.ends_with(".pest")).collect(),
            Err(_) => vec![],
        };
        names.sort();
        for n in names { if let Ok(t) = std::fs::read_to_string(format!("{}/{}", dir, n)) { out.push((format!("{}/{}", d, n), t)); } }
    }
    out
}

/// a rough lexer of the grammar language (only used to cut texts into mutation units)
fn lex(t: &str) -> Vec<&str> {
    let b = t.as_bytes();
    let mut out = vec![];
    let mut i = 0;
    let n = b.len();
    while i < n {
        let s = i;
        let c = b[i];
        if c == b' ' || c == b'\t' || c == b'\n' || c == b'\r' { while i < n && (b[i] == b' ' || b[i] == b'\t' || b[i] == b'\n' || b[i] == b'\r') { i += 1; } }
        else if c == b'/' && i + 1 < n && b[i + 1] == b'/' { while i < n && b[i] != b'\n' { i += 1; } }
        else if c == b'/' && i + 1 < n && b[i + 1] == b'*' { i += 2; while i + 1 < n && !(b[i] == b'*' && b[i + 1] == b'/') { i += 1; } i = (i + 2).min(n); }
        else if c == b'"' || c == b'\'' { i += 1; while i < n && b[i] != c && b[i] != b'\n' { if b[i] == b'\\' { i += 1; } i += 1; } i = (i + 1).min(n); }
        else if c.is_ascii_alphanumeric() || c == b'_' { while i < n && (b[i].is_ascii_alphanumeric() || b[i] == b'_') { i += 1; } }
        else if c == b'.' && i + 1 < n && b[i + 1] == b'.' { i += 2; }
        else { i += 1; while i < n && !t.is_char_boundary(i) { i += 1; } }
        while i < n && !t.is_char_boundary(i) { i += 1; }
        out.push(&t[s..i]);
    }
    out
}

const POOL: [&str; 64] = [
    "{", "}", "(", ")", "[", "]", "~", "|", "=", "_", "@", "$", "!", "&", "?", "*", "+", ",", "..", "^", "#", "#t", "\"", "'", "\\", "-", "/", "/*", "*/", "//", "///", "//!",
    "PUSH", "PEEK", "PUSH_LITERAL", "PEEK[", "POP", "ANY", "a", "0", "1", "00", "4294967296", "-1", "{0}", "{1,}", "{,0}", "{2,1}", "\"\"", "\"\\u{D800}\"",
    "'a'", "'\\u{110000}'", "\"\\x\"", "é", "\u{1F600}", "\0", "\n", " ", "PEEK[1..2]", "PEEK[-99999999999..]", "#t =", "^\"a\"", "( |", "\u{FEFF}",
];

fn pk<'a>(r: &mut Rng, xs: &[&'a str]) -> &'a str { xs[r.below(xs.len() as u64) as usize] }
fn is_blank(t: &str) -> bool { t.bytes().all(|c| c == b' ' || c == b'\t' || c == b'\n' || c == b'\r') }

fn mutants<W: Write>(out: &mut Out<W>, kind: &str, text: &str, rng: &mut Rng, count: u64, all: bool) {
    let toks = lex(text);
    let idx: Vec<usize> = (0..toks.len()).filter(|&i| !is_blank(toks[i])).collect();
    if idx.is_empty() { return; }
    let build = |i: usize, with: &[&str]| -> String {
        let mut s = String::with_capacity(text.len() + 16);
        for (j, t) in toks.iter().enumerate() { if j == i { for w in with { s.push_str(w); } } else { s.push_str(t); } }
        s
    };
    if all {
        for &i in &idx {
            out.run(kind, &build(i, &[]));
            out.run(kind, &build(i, &[toks[i], toks[i]]));
            let p = pk(rng, &POOL);
            out.run(kind, &build(i, &[p]));
        }
    } else {
        for _ in 0..count {
            let i = *rng.pick(&idx);
            let s = match rng.below(5) {
                0 => build(i, &[]),
                1 => build(i, &[toks[i], toks[i]]),
                2 => build(i, &[toks[*rng.pick(&idx)]]),
                3 => build(i, &[toks[i], pk(rng, &POOL)]),
                _ => build(i, &[pk(rng, &POOL)]),
            };
            out.run(kind, &s);
        }
    }
}

fn prefixes<W: Write>(out: &mut Out<W>, text: &str, rng: &mut Rng, count: u64) {
    let bs: Vec<usize> = (0..=text.len()).filter(|&i| text.is_char_boundary(i)).collect();
    if (bs.len() as u64) <= count { for &b in &bs { out.run("pre", &text[..b]); } }
    else { for _ in 0..count { let b = *rng.pick(&bs); out.run("pre", &text[..b]); } }
}

fn damage(text: &str, rng: &mut Rng) -> String {
    let bs: Vec<usize> = (0..=text.len()).filter(|&i| text.is_char_boundary(i)).collect();
    let mut s = text.to_string();
    for _ in 0..rng.range(1, 3) {
        let bs2: Vec<usize> = (0..=s.len()).filter(|&i| s.is_char_boundary(i)).collect();
        let a = *rng.pick(&bs2);
        match rng.below(3) {
            0 => { let nb = bs2.iter().find(|&&x| x > a).cloned().unwrap_or(a); s.replace_range(a..nb, ""); }
            1 => s.insert_str(a, pk(rng, &POOL)),
            _ => { let nb = bs2.iter().find(|&&x| x > a).cloned().unwrap_or(a); s.replace_range(a..nb, pk(rng, &POOL)); }
        }
    }
    let _ = bs;
    s
}

/// counts whose unrolling is small enough to run (the property bounds the counts) ...
const SMALL_COUNTS: [&str; 12] = ["0", "1", "2", "3", "00", "007", "10", "255", "256", "1000", "65535", "65536"];
/// ... and literals that must be refused with an error (never unrolled)
const HUGE_COUNTS: [&str; 6] = ["4294967296", "4294967297", "9999999999", "18446744073709551616", "99999999999999999999999999999999", "000000000004294967296"];

fn numeric<W: Write>(out: &mut Out<W>) {
    for n in SMALL_COUNTS.iter().chain(HUGE_COUNTS.iter()) {
        out.run("num", &format!("a = {{ \"x\"{{{}}} }}", n));
        out.run("num", &format!("a = {{ \"x\"{{{},}} }}", n));
        out.run("num", &format!("a = {{ \"x\"{{,{}}} }}", n));
        out.run("num", &format!("a = {{ \"x\"{{ {} , {} }} }}", n, n));
        out.run("num", &format!("a = {{ \"x\"{{1,{}}} }}", n));
        out.run("num", &format!("a = {{ \"x\"{{{},2}} }}", n));
        // nested counts multiply: kept small (the unrolled size, not the text length, drives the cost here)
        if n.len() <= 2 || n.len() > 9 { out.run("num", &format!("a = {{ (\"x\" | b){{{}}}{{2}} }} b = {{ \"y\"{{,{}}}? }}", n, n)); }
    }
    for t in ["a = { \"x\"{} }", "a = { \"x\"{,} }", "a = { \"x\"{-1} }", "a = { \"x\"{1,2,3} }", "a = { \"x\"{+1} }", "a = { \"x\"{1 2} }", "a = { \"x\"{0x10} }",
              "a = { \"x\"{١} }", "a = { \"x\"{3,1} }", "a = { \"x\"{0,0} }", "a = { \"x\"{0,1} }", "a = { \"x\"{2}{0} }", "a = { \"x\"{1", "a = { \"x\"{1,", "a = { {1} }"] {
        out.run("num", t);
    }
}

fn peeks<W: Write>(out: &mut Out<W>) {
    let idx = ["", "0", "1", "-1", "00", "-01", "-0", "2147483647", "2147483648", "-2147483648", "-2147483649", "4294967296", "99999999999", "-99999999999",
               "99999999999999999999999", "+1", "1.5", "é"];
    for a in idx { for b in idx {
        if a.len() > 3 && b.len() > 3 && a != b { continue; }
        out.run("peek", &format!("a = {{ PUSH(\"x\") ~ PEEK[{}..{}] }}", a, b));
    } }
    for t in ["a = { PEEK[] }", "a = { PEEK[..", "a = { PEEK[1.. }", "a = { PEEK[1...2] }", "a = { PEEK[1,2] }", "a = { PEEK [..] }", "a = { PEEK[ 1 .. 2 ] }", "a = { PEEK[..]? ~ PEEK_ALL }",
              "a = { PEEK }", "a = { PEEK[1] }", "a = { PEEK[\"a\"..] }"] { out.run("peek", t); }
}

const ESCAPES: [&str; 40] = [
    "\\u{D800}", "\\u{DFFF}", "\\u{D7FF}", "\\u{E000}", "\\u{110000}", "\\u{10FFFF}", "\\u{FFFFFF}", "\\u{}", "\\u{0}", "\\u{00}", "\\u{41}", "\\u{1234567}", "\\u{zz}", "\\u{é1}", "\\u{41",
    "\\u41", "\\u", "\\x", "\\xZZ", "\\x4", "\\x41", "\\x7F", "\\x80", "\\xFF", "\\xé", "\\q", "\\", "\\0", "\\'", "\\\"", "\\\\", "\\n", "\\r", "\\t", "\\ ", "\\u{d800}", "\\u{00D800}",
    "\\U{41}", "\\x41\\u{D800}", "é\\u{DC00}é",
];

fn escapes<W: Write>(out: &mut Out<W>) {
    for e in ESCAPES {
        out.run("esc", &format!("a = {{ \"{}\" }}", e));
        out.run("esc", &format!("a = {{ \"x{}y\" ~ \"z\" }}", e));
        out.run("esc", &format!("a = {{ ^\"{}\" }}", e));
        out.run("esc", &format!("a = {{ ^ \"{}\" }}", e));
        out.run("esc", &format!("a = {{ '{}'..'z' }}", e));
        out.run("esc", &format!("a = {{ '\\0'..'{}' }}", e));
        out.run("esc", &format!("a = {{ PUSH_LITERAL(\"{}\") }}", e));
        out.run("esc", &format!("a = {{ PUSH(\"{}\")* ~ (\"b\" | '{}'..'{}')+ }}", e, e, e));
    }
    for t in ["a = { '' }", "a = { 'ab'..'c' }", "a = { 'a'..'' }", "a = { 'a'.. }", "a = { 'a' }", "a = { 'z'..'a' }", "a = { 'é'..'😀' }", "a = { '\u{0}'..'\u{10FFFF}' }",
              "a = { ^\"\" }", "a = { ^ }", "a = { ^^\"a\" }", "a = { ^/*é*/\"a\" }", "a = { ^\n\"a\" }", "a = { ^//c\n\"ab\" }", "a = { \"\" }", "a = { \"\"\" }"] { out.run("esc", t); }
}

fn unterminated<W: Write>(out: &mut Out<W>) {
    for t in ["a = { \"abc", "a = { \"abc\\", "a = { \"abc\\\"", "a = { 'a", "a = { '", "a = { 'a'..", "a = { 'a'..'", "/* unterminated", "/* a /* b */", "a = { \"a\" } /* x /* y */ z */",
              "a = { \"a\" } /*/", "//", "//!", "///", "//! doc", "/// doc", "/// doc\n", "//! a\n//! b\n/// c\n/// d\na = { \"a\" }", "/// only\n\n\n", "a = { \"a\" } /// trailing",
              "a = { \"a\" } //! late grammar doc", "//!\n///\n", "a", "a =", "a = ", "a = {", "a = { ", "a = { }", "a = {}", "= { \"a\" }", "a { \"a\" }", "a = \"a\"", "a = _", "a = @@{ \"a\" }",
              "a = _ { \"a\" }", "a = {{ \"a\" }}", "a = { \"a\" }}", "a = { ( \"a\" }", "a = { \"a\" ) }", "a = { (( \"a\" ) }", "a = { [ \"a\" ] }", "a = { PUSH( }", "a = { PUSH() }", "a = { PUSH(\"a\" }",
              "a = { PUSH \"a\" }", "a = { PUSH_LITERAL( }", "a = { PUSH_LITERAL(a) }", "a = { PUSH_LITERAL(\"a\" ~ \"b\") }", "a = { PUSH_LITERAL(\"a\") }", "a = { \"a\" ~ }", "a = { ~ \"a\" }",
              "a = { | \"a\" }", "a = { || \"a\" }", "a = { \"a\" | }", "a = { \"a\" | | \"b\" }", "a = { ( | \"a\" ) }", "a = { PUSH( | \"a\" ) }", "a = { \"a\" ~ ( | \"a\" | \"b\" )* }",
              "a = { (| \"a\")? }", "a = { !( | \"a\" ) ~ ANY }", "a = { | ( | ( | \"a\" ) ) }", "a = { #t = ( | \"a\" ) }", "a = { ! }", "a = { & }", "a = { !!\"a\" }", "a = { &!&\"a\" }",
              "a = { \"a\"? ? }", "a = { \"a\"?*+ }", "a = { ?\"a\" }", "a = { * }", "a = { #t = \"a\" }", "a = { # = \"a\" }", "a = { #t \"a\" }", "a = { #t = }", "a = { #t = #u = \"a\" }",
              "a = { #é = \"a\" }", "a = { #_ = \"a\" }", "a = { #1 = \"a\" }", "a = { #t = !\"a\" ~ #u = b* } b = _{ \"b\" }", "", " ", "\n", "\u{FEFF}a = { \"a\" }", "\0", "a = { \"\0\" }", "a\0 = { \"a\" }",
              "a = { \"a\" }\0", "é = { \"a\" }", "a = { é }", "aé = { \"a\" }", "a = { \"é😀\" ~ 'é'..'😀' } // é😀\n/* 😀 */", "\u{1F600}", "a = { \"a\" } \u{2028}", "a\u{a0}= { \"a\" }",
              "ANY = { \"a\" }", "a = { \"a\" } a = { \"b\" }", "a = { b }", "a = { a }", "a = { \"a\" ~ a }", "a = { a ~ \"a\" }", "a = { b } b = { a }", "a = { \"\"* }", "a = { (\"a\"?)* }",
              "a = { (\"a\"*)+ }", "a = { \"\" | \"a\" }", "a = { \"a\" | \"\" | \"b\" }", "WHITESPACE = { \"\" }", "COMMENT = { SOI }", "WHITESPACE = { \"a\"* } COMMENT = { !\"a\" }",
              "a = { (!\"a\")* }", "a = { (&\"a\")+ }", "a = { \"a\"{0,}{1,} }", "a = { (\"\"){2,} }", "PUSH = { \"a\" }", "a = { PUSHX }", "a = { PUSH }", "PEEK = { \"a\" }", "_ = { \"a\" }",
              "EOI = { \"a\" }", "a = { EOI ~ SOI ~ b } b = { a? }", "a = { b* } b = { c? } c = { a | \"\" }", "r#a = { \"a\" }", "fn = { \"a\" } self = { fn }"] { out.run("misc", t); }
}

fn longs<W: Write>(out: &mut Out<W>, big: bool) {
    for n in [100usize, 10_000, if big { 1_000_000 } else { 100_000 }] {
        let id = "a".repeat(n);
        out.run("long", &format!("{} = {{ \"x\" }}", id));
        out.run("long", &format!("a = {{ {} }}", id));
        out.run("long", &format!("a = {{ \"{}\" }}", "é".repeat(n)));
        out.run("long", &format!("a = {{ \"{}\" }}", "\\u{10FFFF}".repeat(n / 10)));
        out.run("long", &format!("a = {{ \"x\" }} /*{}*/", "*".repeat(n)));
        // chains: the passes are cubic in the chain length (measured by mode `scale`), so they stay short here
        let c = (n / 10).min(200);
        out.run("long", &format!("a = {{ \"x\"{} }}", "?".repeat(c)));
        out.run("long", &format!("a = {{ \"x\"{} }}", " ~ \"x\"".repeat(c)));
        out.run("long", &format!("a = {{ \"x\"{} }}", " | \"x\"".repeat(c)));
        out.run("long", &format!("a = {{ \"x\" }}{}", "\n".repeat(n)));
        out.run("long", &(0..(n / 20).min(3000)).map(|i| format!("r{} = {{ \"x\" ~ r{} }}\n", i, (i + 1) % (n / 20).min(3000))).collect::<String>());
    }
}

/// deep nesting; `small` runs the worker on an 8 MiB stack (what a caller on a default main thread has)
fn deep<W: Write>(out: &mut Out<W>, depths: &[usize], small: bool) {
    for &d in depths {
        let cases = [
            format!("a = {{ {}\"x\"{} }}", "(".repeat(d), ")".repeat(d)),
            format!("a = {{ {}\"x\" }}", "!".repeat(d)),
            format!("a = {{ {}\"x\"{} }}", "&(".repeat(d), ")".repeat(d)),
            format!("a = {{ {}\"x\"{} }}", "PUSH(".repeat(d), ")".repeat(d)),
            // choices inside repetitions: the passes are cubic in the depth here (see mode `scale`), so this shape stops at 300
            format!("a = {{ {}\"x\"{} }}", "(\"y\" | ".repeat(d.min(300)), ")*".repeat(d.min(300))),
            format!("a = {{ \"x\" }} {}{}", "/*".repeat(d), "*/".repeat(d)),
            format!("a = {{ {}\"x\"", "(".repeat(d)),
            format!("a = {{ {}\"x\"{} }}", "(#t = ".repeat(d), ")".repeat(d)),
        ];
        for c in &cases { out.run_on(if small { "deep8" } else { "deep" }, c, small); }
    }
}

const WORDS: [&str; 72] = [
    "a", "b", "r1", "ANY", "SOI", "EOI", "POP", "PEEK", "DROP", "PUSH", "PUSH(", "PUSH_LITERAL(", "PEEK[", "WHITESPACE", "COMMENT", "=", "= {", "}", "{", "(", ")", "[", "]", "~", "|", "_", "@", "$",
    "!", "&", "?", "*", "+", ",", "..", "^", "#t =", "\"x\"", "\"\"", "\"é\"", "\"\\n\"", "\"\\u{D800}\"", "\"\\x41\"", "'a'", "'a'..'z'", "'\\u{110000}'", "^\"x\"", "{2}", "{0}", "{1,}", "{,3}",
    "{1,2}", "{4294967296}", "0", "1", "-1", "99999999999", " ", "\n", "\t", "\r\n", "//c\n", "/*c*/", "///d\n", "//!g\n", "é", "\u{1F600}", "\0", "\"", "'", "\\", "-",
];

fn garbage<W: Write>(out: &mut Out<W>, rng: &mut Rng, n: u64) {
    for i in 0..n {
        let mut s = String::new();
        match i % 4 {
            // word soup
            0 => for _ in 0..rng.range(1, 25) { s.push_str(pk(rng, &WORDS)); if rng.chance(1, 2) { s.push(' '); } },
            // rule-shaped soup
            1 => for _ in 0..rng.range(1, 3) {
                s.push_str(["a", "b", "r1", "é"][rng.weighted(&[5, 5, 3, 1])]); s.push_str(" = ");
                s.push_str(["", "_", "@", "$", "!", "#"][rng.weighted(&[6, 2, 2, 1, 1, 1])]); s.push_str("{ ");
                for _ in 0..rng.range(0, 12) { s.push_str(pk(rng, &WORDS[0..57])); s.push(' '); }
                if rng.chance(5, 6) { s.push_str("}\n"); }
            },
            // random unicode scalar values
            2 => for _ in 0..rng.range(0, 30) {
                let c = match rng.below(5) { 0 => rng.below(0x80) as u32, 1 => rng.range(0x80, 0x7ff) as u32, 2 => rng.range(0x800, 0xffff) as u32, 3 => rng.range(0x10000, 0x10ffff) as u32,
                                              _ => *rng.pick(&[0x22u32, 0x27, 0x5c, 0x7b, 0x7d, 0x3d, 0x61]) };
                if let Some(ch) = char::from_u32(c) { s.push(ch); }
            },
            // expression soup inside one rule, mostly well-formed
            _ => {
                s.push_str("a = { ");
                // groups with repetition sugar BELOW their top node (what a traversal that stops one level down never rewrites)
                let atoms = ["\"x\"", "b", "ANY", "'a'..'z'", "^\"y\"", "(\"x\" | b)", "PUSH(b)", "PEEK[1..]", "POP", "\"\"", "(b)", "( | b)", "\"\\u{D800}\"", "PEEK[99999999999..]", "é",
                             "(\"x\"{2} ~ b)", "(b+ ~ \"x\")", "(\"x\" | b{1,2})", "PUSH(b+ ~ \"x\")", "((b{2,}) ~ (\"x\" | b{,2}))", "(!(b{2}) ~ ANY)", "PUSH((\"x\" ~ b{3})?)"];
                let post = ["", "", "", "?", "*", "+", "{2}", "{1,}", "{,2}", "{1,3}", "{0}", "{4294967296}"];
                for k in 0..rng.range(1, 8) {
                    if k > 0 { s.push_str([" ~ ", " | ", " "][rng.weighted(&[6, 5, 1])]); }
                    if rng.chance(1, 6) { s.push_str(["!", "&", "#t = "][rng.below(3) as usize]); }
                    s.push_str(atoms[rng.weighted(&[8, 6, 3, 3, 2, 3, 2, 2, 1, 1, 1, 1, 1, 1, 1, 2, 2, 2, 2, 1, 1, 1])]);
                    s.push_str(pk(rng, &post));
                }
                s.push_str(" }\nb = { \"y\" }");
            }
        }
        out.run("rnd", &s);
    }
}

fn generated<W: Write>(out: &mut Out<W>, rng: &mut Rng, n: u64) {
    for _ in 0..n {
        let cfg = GenCfg { stack: rng.chance(1, 2), extras: cfg!(feature = "extras"), counts: true, builtins: true };
        let g = gen_grammar(rng, &cfg);
        let t = pest_grammar(&g);
        out.run("gen", &t);
        for _ in 0..3 { let d = damage(&t, rng); out.run("gend", &d); }
    }
}

/// the families on which the un-memoised traversals of the validator / skipper are exponential
fn family(kind: &str, n: usize) -> String {
    let mut s = String::new();
    match kind {
        // a_i = { a_{i+1} ~ a_{i+1} }, a_n = { "" }: is_non_failing / is_non_progressing (left_recursion)
        "seq" => { for i in 1..n { s.push_str(&format!("a{} = {{ a{} ~ a{} }}\n", i, i + 1, i + 1)); } s.push_str(&format!("a{} = {{ \"\" }}\n", n)); }
        // a_i = { a_{i+1} | a_{i+1} }, a_n = { "x" }: check_expr / is_non_failing (validate_choices)
        "cho" => { for i in 1..n { s.push_str(&format!("a{} = {{ a{} | a{} }}\n", i, i + 1, i + 1)); } s.push_str(&format!("a{} = {{ \"x\" }}\n", n)); }
        // skipper: populate_choices inlines every alternative
        "skip" => { s.push_str("s = @{ (!a1 ~ ANY)* }\n"); for i in 1..n { s.push_str(&format!("a{} = {{ a{} | a{} }}\n", i, i + 1, i + 1)); } s.push_str(&format!("a{} = {{ \"x\" }}\n", n)); }
        _ => {}
    }
    s
}

fn expo<W: Write>(out: &mut Out<W>, kinds: &[&str], from: usize, to: usize) {
    for k in kinds {
        for n in from..=to {
            let t = family(k, n);
            let t0 = Instant::now();
            let c = out.run(&format!("expo-{}-{}", k, n), &t);
            writeln!(out.w, "#EXPO\tkind={}\tn={}\tbytes={}\tms={}\tclass={}", k, n, t.len(), t0.elapsed().as_millis(), c).unwrap();
            if c == "TIMEOUT" || c == "CRASH" { break; }
        }
    }
}

/// growth of the running time with the length of chain-shaped texts (polynomial, but steep): prints #SCALE lines
fn scale<W: Write>(out: &mut Out<W>, sizes: &[usize]) {
    let kinds: [(&str, fn(usize) -> String); 5] = [
        ("opt", |n| format!("a = {{ \"x\"{} }}", "?".repeat(n))),
        ("seq", |n| format!("a = {{ \"x\"{} }}", " ~ \"x\"".repeat(n))),
        ("cho", |n| format!("a = {{ \"x\"{} }}", " | \"y\"".repeat(n))),
        ("par", |n| format!("a = {{ {}\"x\"{} }}", "(".repeat(n), ")".repeat(n))),
        ("rules", |n| (0..n).map(|i| format!("r{} = {{ \"x\" ~ r{}? }}\n", i, (i + 1) % n)).collect()),
    ];
    for (k, f) in kinds {
        for &n in sizes {
            let t = f(n);
            let t0 = Instant::now();
            let c = out.run(&format!("scale-{}-{}", k, n), &t);
            writeln!(out.w, "#SCALE\tkind={}\tn={}\tbytes={}\tms={}\tclass={}", k, n, t.len(), t0.elapsed().as_millis(), c).unwrap();
            if c == "TIMEOUT" || c == "CRASH" { break; }
        }
    }
}

// ------------------------------------------------------------------------------------------------
// rule-reference cycles: what the later stages (skipper inlining, unroller) take for granted once the validator is through
// ------------------------------------------------------------------------------------------------
/// names whose sorted order differs from every order of appearance (digits < upper case < `_` < lower case)
const CYC_NAMES: [&str; 20] = ["a", "b", "c", "d", "e", "m", "n", "x", "y", "z", "A", "B", "Z", "_a", "_z", "a1", "r2", "zz", "M0", "b_"];
/// expressions that match without consuming input (a sequence continues at the same position after them)
const NULLABLE: [&str; 10] = ["\"\"", "\"t\"?", "\"t\"*", "!\"t\"", "&\"t\"", "SOI", "(\"t\" | \"\")", "\"t\"{,2}", "PUSH(\"\")", "(!\"t\")+"];

/// `x` in a position that the validator's left-recursion walk enters (one clause per operator of check_expr)
fn first_pos(r: &mut Rng, x: &str, extras: bool) -> String {
    match r.weighted(&[8, 6, 6, 5, 5, 2, 2, 2, 2, 2, 2, 1, 1, 1, 1, 2, if extras { 3 } else { 0 }]) {
        0 => x.to_string(),
        1 => format!("{} ~ \"t\"", x),
        2 => format!("{} ~ {}", pk(r, &NULLABLE), x),
        3 => format!("{} | \"t\"", x),
        4 => format!("\"t\" | {}", x),
        5 => format!("{}*", x),
        6 => format!("{}+", x),
        7 => format!("{}?", x),
        8 => format!("&{}", x),
        9 => format!("!{}", x),
        10 => format!("PUSH({})", x),
        11 => format!("{}{{2}}", x),
        12 => format!("{}{{1,}}", x),
        13 => format!("{}{{,2}}", x),
        14 => format!("{}{{1,2}}", x),
        15 => format!("\"u\" | {} ~ {} | \"t\"", pk(r, &NULLABLE), x),
        _ => format!("#t = {}", x),
    }
}

fn shuffle<T>(r: &mut Rng, v: &mut Vec<T>) { for i in (1..v.len()).rev() { let j = r.below(i as u64 + 1) as usize; v.swap(i, j); } }

/// a small grammar around one cycle of rule references: direct or indirect (length 1..4), through every first-position operator or
/// only through references and choice alternatives (the part the skipper inlines), entered from rules outside the cycle whose names
/// sort before / between / after the members, with "skip until" rules `@{ (!x ~ ANY)* }` over members and entries, callers under
/// repetitions, WHITESPACE / COMMENT on a member; some cycles go through a consuming prefix (legal recursion, the control group)
fn cyc_grammar(r: &mut Rng, extras: bool) -> String {
    let mut names: Vec<&str> = CYC_NAMES.to_vec();
    shuffle(r, &mut names);
    let l = 1 + r.weighted(&[2, 5, 3, 1]);
    let (members, rest) = names.split_at(l);
    let plain = r.chance(1, 2);
    let legal = r.chance(1, 8);
    let mods = ["", "", "", "", "_", "@", "$", "!"];
    let mut rules: Vec<String> = vec![];
    for i in 0..l {
        let nxt = members[(i + 1) % l];
        let body = if legal && i == 0 { format!("{} ~ {}", ["\"t\"", "ANY", "\"t\"+", "'a'..'z'"][r.below(4) as usize], nxt) }
            else if plain { match r.below(5) { 0 | 1 => nxt.to_string(), 2 => format!("\"t{}\" | {}", i, nxt), 3 => format!("{} | \"t{}\"", nxt, i), _ => format!("\"u{}\" | {} | \"t{}\"", i, nxt, i) } }
            else { let f = first_pos(r, nxt, extras); if r.chance(1, 4) { first_pos(r, &format!("({})", f), extras) } else { f } };
        rules.push(format!("{} = {}{{ {} }}", members[i], pk(r, &mods), body));
    }
    let mut k = 0;
    let mut entries: Vec<&str> = vec![];
    for _ in 0..r.below(3) {
        let t = *r.pick(members);
        let body = if plain && r.chance(1, 2) { match r.below(3) { 0 => t.to_string(), 1 => format!("\"s\" | {}", t), _ => format!("{} | \"s\"", t) } }
            else if r.chance(1, 6) { format!("\"s\" ~ {}", t) } else { first_pos(r, t, extras) };
        rules.push(format!("{} = {}{{ {} }}", rest[k], pk(r, &mods), body));
        entries.push(rest[k]);
        k += 1;
    }
    if r.chance(3, 5) {
        let t = if !entries.is_empty() && r.chance(1, 3) { *r.pick(&entries) } else { *r.pick(members) };
        let body = match r.below(6) { 0 | 1 => format!("(!{} ~ ANY)*", t), 2 => format!("(!{} ~ ANY)* ~ \"t\"", t), 3 => format!("(!({}) ~ ANY)*", t),
                                      4 => format!("\"s\" ~ ((!{} ~ ANY)*)?", t), _ => format!("(!{} ~ ANY)+", t) };
        rules.push(format!("{} = {}{{ {} }}", rest[k], ["@", "@", "@", "@", "$", ""][r.below(6) as usize], body));
        k += 1;
    }
    if r.chance(1, 4) {
        let t = *r.pick(members);
        let body = match r.below(4) { 0 => format!("{}*", t), 1 => format!("{}+", t), 2 => format!("({} ~ \"t\")*", t), _ => format!("\"s\" ~ {}{{2,}}", t) };
        rules.push(format!("{} = {}{{ {} }}", rest[k], pk(r, &mods), body));
    }
    if r.chance(1, 10) { rules.push(format!("{} = _{{ {} }}", ["WHITESPACE", "COMMENT"][r.below(2) as usize], r.pick(members))); }
    shuffle(r, &mut rules);
    rules.join("\n") + "\n"
}

fn too_many_dead<W: Write>(out: &Out<W>, limit: u64) -> bool {
    out.counts.get("class_CRASH").cloned().unwrap_or(0) + out.counts.get("class_TIMEOUT").cloned().unwrap_or(0) >= limit
}

fn cycles<W: Write>(out: &mut Out<W>, rng: &mut Rng, n: u64, extras: bool) {
    out.hard_ms = ESC_HARD_MS;
    for _ in 0..n {
        let t = cyc_grammar(rng, extras);
        out.run("cyc", &t);
        // every dead or killed worker costs seconds: a handful of them is enough evidence
        if too_many_dead(out, 6) { writeln!(out.w, "#STOPPED\tcyc_stopped_after_dead_workers=1").unwrap(); break; }
    }
    out.hard_ms = HARD_MS;
}

// ------------------------------------------------------------------------------------------------
// ladders: chains of rules in which every rule mentions the next one several times
// ------------------------------------------------------------------------------------------------
/// the token forest of the meta-parse, taken in this process on a large stack (`-` when the text does not parse)
fn forest_of(text: &str) -> String {
    let t = text.to_string();
    let h = std::thread::Builder::new().stack_size(STACK).spawn(move || {
        match catch(|| parser::parse(Rule::grammar_rules, &t)) {
            Ok(Ok(pairs)) => { let mut o = String::new(); forest_s(pairs, &mut o); if o.is_empty() { "()".to_string() } else { o } }
            _ => "-".to_string(),
        }
    });
    // the meta-parse of a text of this size takes milliseconds; should it not come back, the case goes on without a forest
    let (tx, rx) = channel();
    if let Ok(h) = h { std::thread::spawn(move || { let _ = tx.send(h.join().ok()); }); }
    match rx.recv_timeout(Duration::from_millis(5000)) { Ok(Some(f)) => f, _ => "-".to_string() }
}

/// how a rule mentions the next one ({X}): the body with two mentions, and what one more mention appends.  One entry per operator
/// through which the validator's and the optimizer's questions (can it fail, does it progress, where does it start, does it touch
/// the stack) travel: sequence, choice, optional, repetitions, counts, predicates, PUSH
const LAD_LINKS: [(&str, &str); 22] = [
    ("{X} ~ {X}", " ~ {X}"),
    ("{X} ~ \";\" ~ {X}", " ~ \",\" ~ {X}"),
    ("\"(\" ~ {X} ~ \",\" ~ {X}", " ~ \",\" ~ {X}"),
    ("{X} | {X}", " | {X}"),
    ("{X} ~ \"a\" | {X} ~ \"b\"", " | {X} ~ \"c\""),
    ("\"a\" ~ {X} | \"b\" ~ {X}", " | \"c\" ~ {X}"),
    ("({X} | \"a\") ~ ({X} | \"b\")", " ~ ({X} | \"c\")"),
    ("(\"a\" | {X}) ~ (\"b\" | {X})", " ~ (\"c\" | {X})"),
    ("{X}? ~ \";\" ~ {X}", " ~ {X}?"),
    ("{X} ~ (\";\" ~ {X})?", " ~ (\",\" ~ {X})?"),
    ("{X} ~ (\"+\" ~ {X})*", " ~ (\"-\" ~ {X})*"),
    ("{X}* ~ \";\" ~ {X}", " ~ {X}*"),
    ("{X}+ ~ \";\" ~ {X}", " ~ {X}+"),
    ("({X} ~ \";\")+ ~ {X}", " ~ (\",\" ~ {X})+"),
    ("{X}{2}", " ~ {X}"),
    ("{X}{1,2} ~ \";\"", " ~ {X}{,2}"),
    ("&{X} ~ {X}", " ~ &{X}"),
    ("!({X} ~ \";\") ~ {X}", " ~ !({X} ~ \",\")"),
    ("PUSH({X}) ~ {X}", " ~ PUSH({X})"),
    ("PUSH({X}) ~ \";\" ~ {X} ~ POP", " ~ {X}"),
    ("{X} ~ \";\" ~ {X} | \"a\"", " | {X}"),
    ("\"a\" | {X} ~ \";\" ~ {X}", " ~ {X}"),
];
/// the last rule of the chain: fails and progresses / cannot fail / does not progress / touches the stack
const LAD_LEAVES: [&str; 12] = ["\"x\"", "'a'..'z'", "ANY", "^\"x\" ~ \"y\"", "\"x\" | \"y\"", "\"\"", "\"x\"?", "\"x\"*", "!\"x\"", "PUSH(\"x\")", "\"x\" ~ POP", "PEEK ~ \"x\""];
/// where the first rule of the chain is used from: the places at which a pass of the validator or the optimizer asks a question
/// about an operand (`{X}` = the first rule; `{E}` = the name of the using rule); "" = the chain alone
const LAD_ENTRIES: [&str; 20] = [
    "{E} = { {X}* }", "{E} = { {X}+ }", "{E} = { {X}? }", "{E} = { {X}{2,} }", "{E} = { {X} | \"z\" }", "{E} = { \"z\" | {X} }", "{E} = { {X} ~ \"z\" }", "{E} = { \"z\" ~ {X} }",
    "{E} = { ({X} ~ \"z\")* }", "{E} = { (\"z\" ~ {X})* }", "{E} = { (\"z\" | {X})+ }", "{E} = { !{X} ~ ANY }", "{E} = { &{X} ~ ANY }", "{E} = { PUSH({X}) ~ POP }",
    "WHITESPACE = _{ {X} }\n{E} = { \"p\" ~ \"q\" }", "COMMENT = _{ {X} }\n{E} = { \"p\" ~ \"q\" }", "{E} = @{ (!{X} ~ ANY)* }", "{E} = @{ (!({X} | \"z\") ~ ANY)* ~ \"z\" }",
    "{E} = ${ \"z\" ~ ({X} | \"z\")? }", "",
];

/// a ladder whose worker has not answered after this time is killed (twice the limit of the property)
const LAD_HARD_MS: u64 = 4000;
struct Ladder { links: Vec<usize>, k: usize, leaf: usize, entry: usize, modifier: &'static str, first: bool, descending: bool, stack_mid: bool }

fn ladder_text(l: &Ladder, depth: usize) -> String {
    let name = |i: usize| format!("s{}", i);
    let mut rules: Vec<String> = vec![];
    for i in 1..depth {
        let (two, more) = LAD_LINKS[l.links[i % l.links.len()]];
        let mut body = two.to_string();
        for _ in 2..l.k { body.push_str(more); }
        let mut body = body.replace("{X}", &name(i + 1));
        // a stack operation half-way down: a query about the stack is answered there, the other questions go on
        if l.stack_mid && i == depth / 2 { body = format!("({}) ~ DROP?", body); }
        rules.push(format!("{} = {}{{ {} }}", name(i), l.modifier, body));
    }
    rules.push(format!("{} = {{ {} }}", name(depth), LAD_LEAVES[l.leaf]));
    if l.descending { rules.reverse(); }
    let e = LAD_ENTRIES[l.entry].replace("{X}", &name(1)).replace("{E}", if l.first { "A0" } else { "zz" });
    if !e.is_empty() { if l.first { rules.insert(0, e); } else { rules.push(e); } }
    rules.join("\n") + "\n"
}

/// One ladder, deepened step by step (8, 14, 20, 28, `max_depth` rules).  When the running time starts to multiply with the depth, the
/// next depth is the one at which the extrapolated time passes the limit of the property, so that a ladder on which the front end is
/// exponential costs one slow evaluation (seconds), not one per depth.  Returns true when an evaluation was slow or the worker died.
fn ladder_run<W: Write>(out: &mut Out<W>, l: &Ladder, max_depth: usize) -> bool {
    let mut d = 8usize.min(max_depth);
    let step = |d: usize| -> usize { (if d < 20 { d + 6 } else if d < 28 { 28 } else { d + 12 }).min(max_depth) };
    let mut prev: Option<(usize, u128)> = None;
    loop {
        let t = ladder_text(l, d);
        let c = out.run("lad", &t);
        let _ = out.w.flush();   // the runner works on this case while the next one runs
        let ms = out.last_ms;
        if c == "TIMEOUT" || c == "CRASH" {
            writeln!(out.w, "#LADSLOW\tlinks={:?} k={} leaf={} entry={} depth={} ms={} class={}", l.links, l.k, l.leaf, l.entry, d, ms, c).unwrap();
            return true;
        }
        if d >= max_depth { return false; }
        let mut next = step(d);
        if let Some((pd, pms)) = prev {
            if ms >= 24 && ms >= 3 * pms.max(1) {
                // per-rule factor of the time, and the depth at which it passes 1.5 x the limit
                let r = (ms as f64 / pms.max(1) as f64).powf(1.0 / (d - pd) as f64);
                let need = ((1.3 * SOFT_MS as f64) / ms as f64).ln() / r.ln();
                next = (d + (need.ceil().max(1.0) as usize)).min(max_depth);
            }
        }
        prev = Some((d, ms));
        d = next;
    }
}

fn random_ladder(r: &mut Rng) -> Ladder {
    let nl = LAD_LINKS.len() as u64;
    // mostly one kind of link on every level (the multiplication needs every level), sometimes two kinds alternating
    let links = if r.chance(3, 4) { vec![r.below(nl) as usize] } else { vec![r.below(nl) as usize, r.below(nl) as usize] };
    Ladder { links, k: if r.chance(2, 3) { 2 } else { 3 },
             // a leaf that fails and progresses three times out of four: the others end most questions at the first operand
             leaf: if r.chance(3, 4) { r.below(5) as usize } else { r.below(LAD_LEAVES.len() as u64) as usize },
             entry: r.below(LAD_ENTRIES.len() as u64) as usize,
             modifier: ["", "", "", "", "", "_", "@", "$", "!"][r.below(9) as usize],
             first: r.chance(1, 2), descending: r.chance(1, 3), stack_mid: r.chance(1, 6) }
}

/// ladders <seed> <n> <max slow> <max depth>: `n` ladders; every link with a plain entry first (in an order drawn from the seed), then
/// random combinations.  Stops after `max slow` ladders that were slow / killed (each costs seconds).
fn ladders<W: Write>(out: &mut Out<W>, rng: &mut Rng, n: u64, max_slow: u64, max_depth: usize) {
    out.hard_ms = LAD_HARD_MS;
    out.parent_forest = true;
    let mut order: Vec<usize> = (0..LAD_LINKS.len()).collect();
    shuffle(rng, &mut order);
    let (mut slow, mut done, mut stopped) = (0u64, 0u64, 0u64);
    for i in 0..n {
        let l = if (i as usize) < order.len() {
            // the systematic part: every link, two mentions, a literal leaf, used from the places that start each kind of question
            Ladder { links: vec![order[i as usize]], k: 2, leaf: 0, entry: [0usize, 4, 6, 1, 5, 2][rng.below(6) as usize], modifier: "", first: rng.chance(1, 2), descending: false, stack_mid: false }
        } else { random_ladder(rng) };
        if ladder_run(out, &l, max_depth) { slow += 1; }
        done += 1;
        if slow >= max_slow { stopped = 1; break; }
    }
    writeln!(out.w, "#LADDERS\tladders={}\tladders_slow={}\tladders_stopped_early={}", done, slow, stopped).unwrap();
    out.hard_ms = HARD_MS;
    out.parent_forest = false;
}

// ------------------------------------------------------------------------------------------------
// escalated search: starts from texts on which the implementation and the model disagree
// ------------------------------------------------------------------------------------------------
const ESC_HARD_MS: u64 = 6000;
/// the escalated search stops after this many dead / killed workers (each costs seconds) or failing observations
const ESC_DEAD: u64 = 4;
const ESC_CONTRACTS: u64 = 12;

struct RInfo { name: String, start: usize, end: usize, refs: Vec<String>, skel: String, skel_refs: Vec<String> }

fn idents(p: pest::iterators::Pair<'_, Rule>, o: &mut Vec<String>) {
    if p.as_rule() == Rule::identifier { o.push(p.as_str().to_string()); }
    for c in p.into_inner() { idents(c, o); }
}

/// First-position skeleton of an expression: the alternatives that can stand at the position where the expression starts, as
/// string literals and references to defined rules only (a sequence contributes its first term, and the next ones while the
/// earlier are predicates / optional / starred; operators and parentheses are dropped, every other terminal becomes "x").
/// The reference graph that the left-recursion check walks is kept; what is left is exactly the sublanguage (reference, choice,
/// string) through which the optimizer's skipper inlines rules.
fn skel_expr(p: pest::iterators::Pair<'_, Rule>, defined: &HashSet<String>, o: &mut Vec<String>) {
    let mut at_first = true;
    for c in p.into_inner() {
        match c.as_rule() {
            Rule::choice_operator => at_first = true,
            Rule::term => if at_first { at_first = skel_term(c, defined, o); },
            _ => {}
        }
    }
}
fn skel_term(p: pest::iterators::Pair<'_, Rule>, defined: &HashSet<String>, o: &mut Vec<String>) -> bool {
    let mut nullable = false;
    for c in p.into_inner() {
        match c.as_rule() {
            Rule::positive_predicate_operator | Rule::negative_predicate_operator | Rule::optional_operator | Rule::repeat_operator | Rule::repeat_max => nullable = true,
            Rule::expression => skel_expr(c, defined, o),
            Rule::_push => for d in c.into_inner() { if d.as_rule() == Rule::expression { skel_expr(d, defined, o); } },
            Rule::identifier => o.push(if defined.contains(c.as_str()) { c.as_str().to_string() } else { "\"x\"".to_string() }),
            Rule::string => if c.as_str() == "\"\"" { nullable = true } else { o.push(c.as_str().to_string()) },
            Rule::insensitive_string | Rule::range | Rule::peek_slice | Rule::_push_literal => o.push("\"x\"".to_string()),
            _ => {}
        }
    }
    nullable
}

/// the rules of a text as the meta-parser sees them (name, span, referenced names, skeleton); empty when the text does not parse.
/// Runs on a large stack: the texts come from the generators, nesting included.
fn rules_of(text: &str) -> Vec<RInfo> {
    let t = text.to_string();
    let h = std::thread::Builder::new().stack_size(STACK).spawn(move || {
        let mut out = vec![];
        if let Ok(Ok(pairs)) = catch(|| parser::parse(Rule::grammar_rules, &t)) {
            let mut defined: HashSet<String> = HashSet::new();
            for p in pairs.clone() { if p.as_rule() == Rule::grammar_rule { if let Some(i) = p.into_inner().next() { if i.as_rule() == Rule::identifier { defined.insert(i.as_str().to_string()); } } } }
            for p in pairs {
                if p.as_rule() != Rule::grammar_rule { continue; }
                let sp = p.as_span();
                let mut ids = vec![];
                idents(p.clone(), &mut ids);
                if ids.is_empty() { continue; }   // a line_doc
                let name = ids.remove(0);
                let mut alts: Vec<String> = vec![];
                for c in p.into_inner() { if c.as_rule() == Rule::expression { skel_expr(c, &defined, &mut alts); } }
                let mut seen = HashSet::new();
                alts.retain(|a| seen.insert(a.clone()));
                if alts.is_empty() { alts.push("\"x\"".to_string()); }
                // right-nested: `a | (b | (c | d))` is the form the skipper walks in the rules it inlines (the reader nests `a | b | c` to the
                // left, and the rule map the skipper looks rules up in is built before the rotater runs)
                let skel_refs: Vec<String> = alts.iter().filter(|a| defined.contains(a.as_str())).cloned().collect();
                let mut body = alts.pop().unwrap();
                while let Some(a) = alts.pop() { body = if body.contains('|') { format!("{} | ({})", a, body) } else { format!("{} | {}", a, body) }; }
                out.push(RInfo { skel: format!("{} = {{ {} }}", name, body), name, start: sp.start(), end: sp.end(), refs: ids, skel_refs });
            }
        }
        out
    });
    h.ok().and_then(|h| h.join().ok()).unwrap_or_default()
}

/// only the rules that `x` reaches (in the order of the text): a shorter text with the same part of the reference graph
fn slice_of(text: &str, rules: &[RInfo], x: &str, skeleton: bool) -> String {
    let mut keep: HashSet<&str> = HashSet::new();
    let mut todo = vec![x];
    while let Some(n) = todo.pop() {
        if !keep.insert(n) { continue; }
        for r in rules.iter().filter(|r| r.name == n) { for q in if skeleton { &r.skel_refs } else { &r.refs } { todo.push(q.as_str()); } }
    }
    let mut s = String::new();
    for r in rules { if keep.contains(r.name.as_str()) { s.push_str(if skeleton { &r.skel } else { &text[r.start..r.end] }); s.push('\n'); } }
    s
}

/// callers that put `x` where a later stage walks through it: first position of every operator, repetitions, predicates
const CALLERS: [&str; 14] = ["{X} ~ \"x\"", "({X})*", "({X})+", "({X})?", "!{X} ~ ANY", "&{X} ~ ANY", "PUSH({X})", "({X}){2}", "({X}){1,}", "({X}){,2}",
                             "{X} | \"x\"", "\"x\" | {X}", "\"\" ~ {X}", "(\"x\" ~ {X})*"];
/// the shapes the optimizer's skipper rewrites (it inlines the rule references below the negative predicate)
const SKIPS: [&str; 3] = ["(!{X} ~ ANY)*", "(!({X} | \"x\") ~ ANY)*", "(!(\"x\" | {X}) ~ ANY)* ~ \"x\""];

/// Derives texts from one on which implementation and model disagree (`locs`: the error locations they disagree on) and runs the
/// real front end on them under the time / crash guard of the worker.  For every rule involved (the rules at the locations, what
/// they refer to, then others): the whole text and the slice that the rule reaches, extended by
///   * an atomic "skip until" rule over it (the skipper inlines references with no cycle guard of its own),
///   * a caller with the rule in first position / under every repetition and predicate, named to sort before and after,
///   * both, and WHITESPACE / COMMENT defined as the rule;
/// the slice also reduced to its first-position skeleton (references, choices and strings only: what the skipper inlines);
/// then token-level mutants and byte damage of the text.  Stops after a handful of failing inputs or dead workers.
fn escalate_one<W: Write>(out: &mut Out<W>, rng: &mut Rng, text: &str, locs: &[(usize, usize)], budget: u64) {
    let start_n = out.n;
    let done = |out: &Out<W>| out.n - start_n >= budget || too_many_dead(out, ESC_DEAD) || out.contracts >= ESC_CONTRACTS;
    out.run("esc-base", text);
    let rules = rules_of(text);
    let defined: HashSet<&str> = rules.iter().map(|r| r.name.as_str()).collect();
    let mut suspects: Vec<String> = vec![];
    let mut add = |s: &str, suspects: &mut Vec<String>| { if defined.contains(s) && !suspects.iter().any(|x| x == s) { suspects.push(s.to_string()); } };
    for &(a, b) in locs {
        if let Some(w) = text.get(a..b) { add(w.trim(), &mut suspects); }
        for r in &rules { if r.start <= a && b <= r.end { add(&r.name, &mut suspects); } }
    }
    for i in 0..suspects.len() { let si = suspects[i].clone(); for r in rules.iter().filter(|r| r.name == si) { for q in &r.refs { add(q, &mut suspects); } } }
    let mut others: Vec<&str> = rules.iter().map(|r| r.name.as_str()).collect();
    shuffle(rng, &mut others);
    for o in others { if suspects.len() >= 10 { break; } add(o, &mut suspects); }
    let fresh = |base: &str| -> String { let mut i = 0; loop { let n = format!("{}{}", base, i); if !defined.contains(n.as_str()) { return n; } i += 1; } };
    let (fb, fa) = (fresh("A0q"), fresh("zz9q"));
    // the rules at the disagreeing locations first; for each the slice, its skeleton, then the whole text
    for x in &suspects {
        for (kind, whole, skeleton) in [("esc-slice", false, false), ("esc-skel", false, true), ("esc-whole", true, false)] {
            if done(out) { return; }
            let base = if whole { let mut t = text.to_string(); if !t.ends_with('\n') { t.push('\n'); } t } else { slice_of(text, &rules, x, skeleton) };
            if !whole { out.run(kind, &base); }
            for s in SKIPS {
                let body = s.replace("{X}", x);
                out.run(kind, &format!("{}{} = @{{ {} }}\n", base, fb, body));
                out.run(kind, &format!("{}{} = @{{ {} }}\n", base, fa, body));
                if done(out) { return; }
            }
            for c in CALLERS {
                let body = c.replace("{X}", x);
                out.run(kind, &format!("{}{} = {{ {} }}\n", base, fb, body));
                out.run(kind, &format!("{}{} = {{ {} }}\n", base, fa, body));
                if done(out) { return; }
            }
            for (c, m) in [(CALLERS[0], ""), (CALLERS[1], "@"), (CALLERS[10], "$"), (CALLERS[2], "_")] {
                out.run(kind, &format!("{}{} = {}{{ {} }}\n{} = @{{ (!{} ~ ANY)* }}\n", base, fb, m, c.replace("{X}", x), fa, x));
                out.run(kind, &format!("{}{} = @{{ (!{} ~ ANY)* }}\n{} = {}{{ {} }}\n", base, fb, x, fa, m, c.replace("{X}", x)));
                if done(out) { return; }
            }
            for ws in ["WHITESPACE", "COMMENT"] {
                if !defined.contains(ws) { out.run(kind, &format!("{}{} = _{{ {} }}\n{} = {{ \"x\" ~ \"y\" }}\n", base, ws, x, fb)); }
            }
        }
    }
    if done(out) { return; }
    mutants(out, "esc-mut", text, rng, 80, false);
    for _ in 0..40 { let d = damage(text, rng); out.run("esc-mut", &d); if done(out) { return; } }
}

/// escalate <file> <seed> <budget per text>: one disagreeing case per line, `<escaped text> \t <a-b,a-b,...>`
fn escalate<W: Write>(out: &mut Out<W>, path: &str, seed: u64, budget: u64) {
    let content = std::fs::read_to_string(path).unwrap_or_default();
    let mut rng = Rng::new(seed);
    out.hard_ms = ESC_HARD_MS;
    out.parent_forest = true;
    let mut from = 0;
    for line in content.lines() {
        let mut f = line.split('\t');
        let text = unesc(f.next().unwrap_or(""));
        let locs: Vec<(usize, usize)> = f.next().unwrap_or("").split(',').filter_map(|s| { let mut p = s.split('-'); Some((p.next()?.parse().ok()?, p.next()?.parse().ok()?)) }).collect();
        from += 1;
        escalate_one(out, &mut rng, &text, &locs, budget);
        if too_many_dead(out, ESC_DEAD) || out.contracts >= ESC_CONTRACTS { break; }
    }
    out.hard_ms = HARD_MS;
    writeln!(out.w, "#ESCALATE\tescalated_from={}\tescalated_stopped_early={}", from, if too_many_dead(out, ESC_DEAD) || out.contracts >= ESC_CONTRACTS { 1 } else { 0 }).unwrap();
}

/// the witnesses of the defect classes: which of them still reproduce on this tree
const WITNESSES: [(&str, &str); 7] = [
    ("fix_escape_str", "a = { \"\\u{D800}\" }"),
    ("fix_escape_chr", "a = { '\\u{110000}'..'z' }"),
    ("fix_escape_ins", "a = { ^\"\\u{DFFF}\" }"),
    ("fix_peek", "a = { PEEK[99999999999..] }"),
    ("fix_peek_end", "a = { PEEK[..-99999999999] }"),
    ("fix_paren_choice", "a = { ( | \"a\" ) }"),
    ("fix_push_choice", "a = { PUSH( | \"a\" ) }"),
];
const WITNESS_UNROLL: &str = "a = { \"x\"{4294967294,} }";
/// not C09 defects: two repairs made for C06 change functions that the C09 model covers; the model follows the tree
/// (accepted = as shipped, rejected = repaired; the second one only exists with grammar-extras)
const STATE_PROBES: [(&str, &str); 2] = [("fix_lr", "a = { a? ~ \"x\" }"), ("fix_tag", "a = { #t = (\"\"*) ~ \"x\" }")];
/// the C07 repair (the ^".." literal is read from the inner string pair): before it, a comment with a backslash between
/// `^` and the literal made unescape fail on a VALID grammar (same panic site as class C09-invalid-escape)
const INSENS_PROBE: &str = "a = { ^/*\\*/\"a\" }";

fn main() {
    let mode = arg(1);
    if mode == "worker" { worker(STACK); return; }
    if mode == "worker8" { worker(8 << 20); return; }
    let stdout = io::stdout();
    let mut out = Out { w: BufWriter::with_capacity(1 << 20, stdout.lock()), worker: None, small: None, n: 0, seen: HashSet::new(), nontriv: 0,
                        counts: HashMap::new(), contracts: 0, max_ms: 0, slowest: String::new(), hard_ms: HARD_MS, parent_forest: false, last_ms: 0 };
    {
        // BUILTINS of meta/src/validator.rs (private there): the fixed names plus the Unicode property names
        let mut b: Vec<&str> = vec!["ANY", "DROP", "EOI", "PEEK", "PEEK_ALL", "POP", "POP_ALL", "SOI", "ASCII_DIGIT", "ASCII_NONZERO_DIGIT", "ASCII_BIN_DIGIT",
            "ASCII_OCT_DIGIT", "ASCII_HEX_DIGIT", "ASCII_ALPHA_LOWER", "ASCII_ALPHA_UPPER", "ASCII_ALPHA", "ASCII_ALPHANUMERIC", "ASCII", "NEWLINE"];
        b.extend(pest::unicode::unicode_property_names());
        writeln!(out.w, "#BUILTINS\t{}", b.join(",")).unwrap();
    }
    match mode.as_str() {
        "probe" => {
            let mut kv = vec![];
            for (k, t) in WITNESSES { let c = out.run(&format!("probe-{}", k), t); kv.push(format!("{}={}", k, if c == "PANIC" { 0 } else { 1 })); }
            // with the arithmetic repaired this count is merely enormous: the worker is stopped after 3 s / at its memory cap
            out.hard_ms = 3000;
            let c = out.run("probe-fix_unroll", WITNESS_UNROLL);
            out.hard_ms = HARD_MS;
            kv.push(format!("fix_unroll={}", if c == "PANIC" { 0 } else { 1 }));
            for (k, t) in STATE_PROBES { let c = out.run(&format!("probe-{}", k), t); kv.push(format!("{}={}", k, if c == "rules" { 0 } else { 1 })); }
            let c = out.run("probe-fix_insens", INSENS_PROBE); kv.push(format!("fix_insens={}", if c == "rules" { 1 } else { 0 }));
            writeln!(out.w, "#PROBE\t{}", kv.join("\t")).unwrap();
        }
        "one" => { let t = unesc(&arg(2)); out.run("one", &t); }
        // only the token forest of the meta-parse (what tools/c09_witness.py embeds in coq/Front/Witnesses.v)
        "forest" => {
            let t = unesc(&arg(2));
            let mut o = String::new();
            if let Ok(pairs) = parser::parse(Rule::grammar_rules, &t) { forest_s(pairs, &mut o); if o.is_empty() { o.push_str("()"); } } else { o.push('-'); }
            writeln!(out.w, "forest|{}\t-\t\t{}\t-", esc(&t), o).unwrap();
        }
        "file" => { let t = std::fs::read_to_string(arg(2)).unwrap_or_default(); out.run("file", &t); }
        "fixed" => { numeric(&mut out); peeks(&mut out); escapes(&mut out); unterminated(&mut out); longs(&mut out, arg(2) == "big"); }
        // ship <repo> <seed> <mutants per file> <prefixes per file> <shard k> <of m> [all]
        "ship" => {
            let root = arg(2); let seed = arg_u64(3, 1); let nm = arg_u64(4, 100); let np = arg_u64(5, 100); let k = arg_u64(6, 0); let m = arg_u64(7, 1).max(1);
            let all = arg(8) == "all";
            let files = shipped(&root);
            if files.is_empty() { writeln!(out.w, "CONTRACT\tship|{}\tno grammar files found under the repository root", esc(&root)).unwrap(); }
            for (i, (name, text)) in files.iter().enumerate() {
                if (i as u64) % m != k { continue; }
                let mut rng = Rng::new(seed ^ hash(name));
                out.run("ship", text);
                // the model side costs O(length * tokens): fewer cases for the long files (at least a handful each)
                let scale = |n: u64| -> u64 { if text.len() <= 1500 { n } else { (n * 1500 / text.len() as u64).max(6) } };
                mutants(&mut out, "mut", text, &mut rng, scale(nm), all && text.len() < 1500);
                prefixes(&mut out, text, &mut rng, scale(np));
                for _ in 0..scale(nm / 4) { let d = damage(text, &mut rng); out.run("dmg", &d); }
            }
        }
        "rnd" => { let mut rng = Rng::new(arg_u64(2, 1)); garbage(&mut out, &mut rng, arg_u64(3, 1000)); }
        "gen" => { let mut rng = Rng::new(arg_u64(2, 1)); generated(&mut out, &mut rng, arg_u64(3, 300)); }
        // deep <small: 0|1> <depth>...
        "deep" => { let small = arg(2) == "1"; let ds: Vec<usize> = std::env::args().skip(3).filter_map(|x| x.parse().ok()).collect(); deep(&mut out, &ds, small); }
        // expo <from> <to> <kind>...
        "expo" => { let ks: Vec<String> = std::env::args().skip(4).collect(); let kr: Vec<&str> = ks.iter().map(|x| x.as_str()).collect(); expo(&mut out, &kr, arg_u64(2, 10) as usize, arg_u64(3, 24) as usize); }
        "scale" => { let ds: Vec<usize> = std::env::args().skip(2).filter_map(|x| x.parse().ok()).collect(); scale(&mut out, &ds); }
        // cyc <seed> <n> [extras]: grammars around rule-reference cycles
        "cyc" => { let mut rng = Rng::new(arg_u64(2, 1)); cycles(&mut out, &mut rng, arg_u64(3, 300), arg(4) == "extras"); }
        // escalate <file> <seed> <budget per text>: the search that starts from disagreeing cases
        // lad <seed> <n> <max slow> [max depth]: ladders of rules (every rule mentions the next one two or three times)
        "lad" => { quiet_panics(); let mut rng = Rng::new(arg_u64(2, 1)); ladders(&mut out, &mut rng, arg_u64(3, 40), arg_u64(4, 4), arg_u64(5, 40) as usize); }
        "escalate" => { quiet_panics(); escalate(&mut out, &arg(2), arg_u64(3, 1), arg_u64(4, 400)); }
        _ => { eprintln!("usage: c09 probe|one|file|fixed|ship|rnd|gen|cyc|lad|deep|expo|scale|escalate ..."); }
    }
    out.summary();
}
