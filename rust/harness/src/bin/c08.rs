//! C08 - failure reports point at the furthest failure with sound expectations.
//! Drives the REAL pest::ParserState (through pest::state) with generated closure trees and the REAL
//! pest_vm::Vm with generated grammars, records its own log of rule attempts by wrapping every
//! `rule` call of the interpreter, and evaluates the property oracle directly on the real run.
//!
//! One line per case:  "<case>\t<observation>"
//!   case        = "lim=<n|-> det=<0|1> in=<hex> env=<p;p;..|-> prog=<p>"          (format of comb.rs)
//!   observation = "<Ok|Err> log=<forest> [slog=<forest>] || <state() outcome>" | "Panic" | "Diverged"
//!                 log  = sign / atomicity of each attempt as the REAL state had them at entry (model correspondence)
//!                 slog = sign / atomicity computed STRUCTURALLY by the interpreter (a negative look-ahead flips the sign, a
//!                        positive one keeps it; an atomic section sets the atomicity): what the property oracle uses, so that a
//!                        state whose look-ahead / atomicity bookkeeping is wrong is judged against the documented meaning;
//!                        printed for ParsingError outcomes
//!   forest      = node*,  node = "<rule>@<pos><M|F><n|p|g><a|->[" forest "]"
//!                 (M matched / F failed; sign None / Positive / neGative; a = atomicity at entry was Atomic)
//! Extra lines:  "CONTRACT\t<case>\t<message>"   the property oracle (a)-(d) failed on the real run; (a) is evaluated on the DELIVERED
//!                                                 error: Error::location and Error::line_col (the latter against the line / column
//!                                                 of the furthest failure computed directly from the input text)
//!               "VMDIFF\t<case>\t<vm>\t<prog>"   pest_vm::Vm::parse and its transcription to a closure tree disagree
use pest::{Atomicity, Lookahead, MatchDir, ParseResult};
use pest_meta::ast::RuleType;
use pest_meta::optimizer::{OptimizedExpr, OptimizedRule};
use pvharness::prog::*;
use pvharness::*;
use std::cell::{Cell, RefCell};
use std::collections::{HashMap, HashSet};
use std::io::{self, BufWriter, Write};
use std::num::NonZeroUsize;

// ------------------------------------------------------------------------------------------
// the attempt log
// ------------------------------------------------------------------------------------------
#[derive(Clone, Debug)]
struct Node { rule: R, pos: usize, matched: bool, sign: u8 /*0 None 1 Positive 2 Negative*/, atomic: bool,
              sneg: bool /*structurally under an odd number of negative look-aheads*/, satomic: bool /*structurally inside an Atomic section*/,
              children: Vec<Node> }

fn show_forest(f: &[Node], structural: bool, o: &mut String) {
    for n in f {
        let (sg, at) = if structural { (if n.sneg { 'g' } else { 'n' }, n.satomic) } else { (['n', 'p', 'g'][n.sign as usize], n.atomic) };
        o.push_str(&format!("{}@{}{}{}{}[", n.rule, n.pos, if n.matched { 'M' } else { 'F' }, sg, if at { 'a' } else { '-' }));
        show_forest(&n.children, structural, o);
        o.push(']');
    }
}

struct LCtx<'e> { env: &'e [Prog], budget: Cell<u64>, diverged: Cell<bool>, frames: RefCell<Vec<Vec<Node>>>,
                  negated: Cell<bool>, atom: Cell<u8> /*0 A 1 C 2 N: structural look-ahead sign and atomicity*/ }
impl<'e> LCtx<'e> {
    fn new(env: &'e [Prog], budget: u64) -> Self { LCtx { env, budget: Cell::new(budget), diverged: Cell::new(false), frames: RefCell::new(vec![vec![]]), negated: Cell::new(false), atom: Cell::new(2) } }
}

fn dfield<'a>(d: &'a str, name: &str) -> &'a str {
    for f in d.split(';') { if let Some(r) = f.strip_prefix(name) { return r; } }
    ""
}

/// The interpreter of prog.rs with one addition: every `rule` call is wrapped so that the attempt
/// (entry position, look-ahead mode and atomicity read through the verif_dump hook BEFORE the call,
/// outcome, attempts made inside) is recorded.  A call whose closure is never entered was refused
/// by the call limit and is not an attempt.
fn run_log<'i>(p: &Prog, s: St<'i>, cx: &LCtx) -> ParseResult<St<'i>> {
    use Prog::*;
    if cx.budget.get() == 0 { cx.diverged.set(true); return Result::Err(s); }
    cx.budget.set(cx.budget.get() - 1);
    match p {
        Ok => Result::Ok(s), Err => Result::Err(s),
        Str(x) => s.match_string(x), Ins(x) => s.match_insensitive(x),
        Range(a, b) => s.match_range(*a..*b),
        Cls(rs) => s.match_char_by(|c| rs.iter().any(|(a, b)| *a <= c && c <= *b)),
        Skip(n) => s.skip(*n),
        Until(ss) => { let v: Vec<&str> = ss.iter().map(|x| x.as_str()).collect(); s.skip_until(&v) }
        Soi => s.start_of_input(), Eoi => s.end_of_input(),
        PushLit(x) => s.stack_push_literal(x.clone()),
        Peek => s.stack_peek(), Pop => s.stack_pop(), Drop => s.stack_drop(),
        MPeek => s.stack_match_peek(), MPop => s.stack_match_pop(),
        Slice(i, j, d) => s.stack_match_peek_slice(*i, *j, if *d { MatchDir::BottomToTop } else { MatchDir::TopToBottom }),
        Tag(t) => s.tag_node(TAGS[*t % 4]),
        Rule(r, q) => {
            let d = s.verif_dump();
            let pos: usize = dfield(&d, "pos=").parse().unwrap();
            let sign = match dfield(&d, "la=") { "None" => 0u8, "Positive" => 1, _ => 2 };
            let atomic = dfield(&d, "at=") == "Atomic";
            let (sneg, satomic) = (cx.negated.get(), cx.atom.get() == 0);
            let entered = Cell::new(false);
            let res = s.rule(*r, |s| { entered.set(true); cx.frames.borrow_mut().push(vec![]); run_log(q, s, cx) });
            if entered.get() {
                let children = cx.frames.borrow_mut().pop().unwrap();
                let node = Node { rule: *r, pos, matched: res.is_ok(), sign, atomic, sneg, satomic, children };
                cx.frames.borrow_mut().last_mut().unwrap().push(node);
            }
            res
        }
        Seq(q) => s.sequence(|s| run_log(q, s, cx)),
        Rep(q) => s.repeat(|s| run_log(q, s, cx)),
        Opt(q) => s.optional(|s| run_log(q, s, cx)),
        Look(b, q) => {
            // documented meaning of predicates: `!e` succeeds iff e fails (the sign flips), `&e` iff e succeeds (the sign stays)
            let old = cx.negated.get();
            if !*b { cx.negated.set(!old); }
            let res = s.lookahead(*b, |s| run_log(q, s, cx));
            cx.negated.set(old);
            res
        }
        Atomic(a, q) => {
            let old = cx.atom.get();
            cx.atom.set(*a);
            let res = s.atomic([Atomicity::Atomic, Atomicity::CompoundAtomic, Atomicity::NonAtomic][*a as usize], |s| run_log(q, s, cx));
            cx.atom.set(old);
            res
        }
        Push(q) => s.stack_push(|s| run_log(q, s, cx)),
        Roe(q) => s.restore_on_err(|s| run_log(q, s, cx)),
        Then(a, b) => run_log(a, s, cx).and_then(|s| run_log(b, s, cx)),
        Else(a, b) => run_log(a, s, cx).or_else(|s| run_log(b, s, cx)),
        IfNa(a, b) => if s.atomicity() == Atomicity::NonAtomic { run_log(a, s, cx) } else { run_log(b, s, cx) },
        Call(f) => match cx.env.get(*f) { Some(q) => run_log(q, s, cx), None => panic!("undefined closure") },
    }
}

// ------------------------------------------------------------------------------------------
// the property oracle, evaluated on the real log against the real error
// ------------------------------------------------------------------------------------------
fn counts(n: &Node) -> bool { !n.satomic && (if n.sneg { n.matched } else { !n.matched }) }
fn flatten<'a>(f: &'a [Node], out: &mut Vec<&'a Node>) { for n in f { out.push(n); flatten(&n.children, out); } }

/// report of an attempt under the counted reading ("only one attempt has been made during the children rules")
fn rep_cnt(p: usize, n: &Node) -> Vec<(bool, R)> {
    let c: Vec<(bool, R)> = n.children.iter().flat_map(|k| rep_cnt(p, k)).collect();
    if counts(n) && n.pos == p { if c.len() == 1 { c } else { vec![(n.sneg, n.rule)] } } else { c }
}
/// report under the literal set reading ("exactly one such RULE was tried")
fn rep_set(p: usize, n: &Node) -> Vec<(bool, R)> {
    let c: Vec<(bool, R)> = n.children.iter().flat_map(|k| rep_set(p, k)).collect();
    if counts(n) && n.pos == p { if !c.is_empty() && c.iter().all(|x| *x == c[0]) { c } else { vec![(n.sneg, n.rule)] } } else { c }
}
fn present(c: &[(bool, R)]) -> (Vec<R>, Vec<R>) {
    let mut ps: Vec<R> = c.iter().filter(|e| !e.0).map(|e| e.1).collect();
    let mut ns: Vec<R> = c.iter().filter(|e| e.0).map(|e| e.1).collect();
    ps.sort(); ps.dedup(); ns.sort(); ns.dedup();
    (ps, ns)
}

struct Verdict { problems: Vec<String>, nontrivial: bool, set_reading_differs: bool, on_line_end: bool }

/// line and column (both from 1, columns in characters) of byte offset `p`, straight from the text: a line ends with "\n"
/// (a "\r" in front of it belongs to the line it ends, a lone "\r" is an ordinary character)
fn direct_line_col(input: &str, p: usize) -> Option<(usize, usize)> {
    if !input.is_char_boundary(p) { return None; }
    let pre = &input[..p];
    let line = 1 + pre.bytes().filter(|b| *b == b'\n').count();
    let col = 1 + pre[pre.rfind('\n').map(|i| i + 1).unwrap_or(0)..].chars().count();
    Some((line, col))
}

/// the delivered error's account of where it is: (is a Pos (not a Span), line, column)
type Delivered = (bool, usize, usize);

fn oracle(log: &[Node], positives: &[R], negatives: &[R], at: usize, input: &str, delivered: Option<Delivered>) -> Verdict {
    let mut all = vec![];
    flatten(log, &mut all);
    let mut problems = vec![];
    let maxpos = all.iter().filter(|n| counts(n)).map(|n| n.pos).max().unwrap_or(0);
    if at != maxpos { problems.push(format!("(a) reported position {} but the furthest failed reportable attempt is at {}", at, maxpos)); }
    if let Some((is_pos, l, c)) = delivered {
        if !is_pos { problems.push("(a) the delivered error carries a span, not a position".to_string()); }
        if let Some(want) = direct_line_col(input, maxpos) {
            if (l, c) != want {
                problems.push(format!("(a) the delivered error's line_col is {:?} but the furthest failed reportable attempt (byte {}) is at line/column {:?} of the input", (l, c), maxpos, want));
            }
        }
    }
    let on_line_end = input.as_bytes().get(maxpos).map_or(false, |b| *b == b'\n' || *b == b'\r');
    for r in positives {
        if !all.iter().any(|n| n.rule == *r && n.pos == at && !n.matched && !n.sneg && !n.satomic) {
            problems.push(format!("(b) expected rule {} has no reportable failed attempt at {}", r, at));
        }
    }
    for r in negatives {
        if !all.iter().any(|n| n.rule == *r && n.pos == at && n.matched && n.sneg && !n.satomic) {
            problems.push(format!("(b) unexpected rule {} has no reportable negated match at {}", r, at));
        }
    }
    if !positives.windows(2).all(|w| w[0] < w[1]) { problems.push(format!("(c) positives not strictly increasing: {:?}", positives)); }
    if !negatives.windows(2).all(|w| w[0] < w[1]) { problems.push(format!("(c) negatives not strictly increasing: {:?}", negatives)); }
    let c: Vec<(bool, R)> = log.iter().flat_map(|n| rep_cnt(maxpos, n)).collect();
    let (ps, ns) = present(&c);
    let mut sp = positives.to_vec(); sp.sort(); sp.dedup();
    let mut sn = negatives.to_vec(); sn.sort(); sn.dedup();
    if ps != sp || ns != sn { problems.push(format!("(d) reported {:?}/{:?} but the attempt forest reads {:?}/{:?}", positives, negatives, ps, ns)); }
    let cs: Vec<(bool, R)> = log.iter().flat_map(|n| rep_set(maxpos, n)).collect();
    let (ps2, ns2) = present(&cs);
    let at_final = all.iter().filter(|n| counts(n) && n.pos == maxpos).count();
    let negated = all.iter().any(|n| n.sneg && !n.satomic);
    Verdict { problems, nontrivial: at_final >= 2 || negated, set_reading_differs: ps2 != sp || ns2 != sn, on_line_end }
}

// ------------------------------------------------------------------------------------------
// cases
// ------------------------------------------------------------------------------------------
#[derive(Clone)]
struct Case { lim: Option<usize>, det: bool, input: String, env: Vec<Prog>, prog: Prog }

impl Case {
    fn show(&self) -> String {
        format!("lim={} det={} in={} env={} prog={}", self.lim.map(|x| x.to_string()).unwrap_or("-".into()), self.det as u8, hex(&self.input),
            if self.env.is_empty() { "-".to_string() } else { self.env.iter().map(|p| p.show()).collect::<Vec<_>>().join(";") }, self.prog.show())
    }
    fn parse(s: &str) -> Case {
        let mut lim = None; let mut det = false;
        let ki = s.find(" in=").unwrap(); let ke = s.find(" env=").unwrap(); let kp = s.find(" prog=").unwrap();
        for f in s[..ki].split(' ') {
            if let Some(v) = f.strip_prefix("lim=") { lim = v.parse().ok(); }
            if let Some(v) = f.strip_prefix("det=") { det = v == "1"; }
        }
        let input = unhex(&s[ki + 4..ke]);
        let e = &s[ke + 5..kp];
        let env = if e != "-" { e.split(';').map(Prog::parse).collect() } else { vec![] };
        let prog = Prog::parse(&s[kp + 6..]);
        Case { lim, det, input, env, prog }
    }
}

/// what state() returned, in the notation of comb.rs, plus the parsed error
#[derive(Clone, PartialEq, Debug)]
enum Outcome { Pairs(String), Parsing(Vec<R>, Vec<R>, usize), Custom(String, usize), Panic }
impl Outcome {
    fn show(&self) -> String {
        match self {
            Outcome::Pairs(t) => format!("OK:{}", t),
            Outcome::Parsing(p, n, at) => format!("PE:{:?}:{:?}@{}", p, n, at),
            Outcome::Custom(m, at) => format!("CE:{}@{}", m, at),
            Outcome::Panic => "Panic".into(),
        }
    }
}

fn tokens_of<'i, T: pest::RuleType>(pairs: pest::iterators::Pairs<'i, T>, name: &dyn Fn(&T) -> String) -> String {
    let mut o = String::new();
    for t in pairs.tokens() {
        match t { pest::Token::Start { rule, pos } => o.push_str(&format!("S{}@{},", name(&rule), pos.pos())), pest::Token::End { rule, pos } => o.push_str(&format!("E{}@{},", name(&rule), pos.pos())) }
    }
    o
}

fn loc(e: &pest::error::InputLocation) -> usize { match e { pest::error::InputLocation::Pos(p) => *p, pest::error::InputLocation::Span((a, _)) => *a } }

fn delivered_of<T: pest::RuleType>(e: &pest::error::Error<T>) -> Delivered {
    let is_pos = matches!(e.location, pest::error::InputLocation::Pos(_));
    match e.line_col { pest::error::LineColLocation::Pos((l, c)) => (is_pos, l, c), pest::error::LineColLocation::Span((l, c), _) => (false, l, c) }
}

struct Obs { text: String, outcome: Outcome, log: Vec<Node>, verdict: Option<Verdict> }

fn observe(c: &Case) -> Obs {
    pest::set_call_limit(c.lim.and_then(NonZeroUsize::new));
    pest::set_error_detail(c.det);
    let cx = LCtx::new(&c.env, 3000);
    let st = catch(|| pest::state::<R, _>(&c.input, |s| run_log(&c.prog, s, &cx)));
    let log = { let f = cx.frames.borrow(); if f.len() == 1 { f[0].clone() } else { vec![] } };
    let mut obs = Obs { text: String::new(), outcome: Outcome::Panic, log: vec![], verdict: None };
    match st {
        Err(_) => { obs.text = "Panic".into(); }
        Ok(_) if cx.diverged.get() => { obs.text = "Diverged".into(); }
        Ok(r) => {
            let mut delivered: Option<Delivered> = None;
            let (ok, out) = match r {
                Ok(pairs) => (true, match catch(|| tokens_of(pairs, &|r: &R| r.to_string())) { Ok(t) => Outcome::Pairs(t), Err(_) => Outcome::Pairs("tokens-panic".into()) }),
                Err(e) => { delivered = Some(delivered_of(&e)); (false, match e.variant {
                    pest::error::ErrorVariant::ParsingError { positives, negatives } => Outcome::Parsing(positives, negatives, loc(&e.location)),
                    pest::error::ErrorVariant::CustomError { message } => Outcome::Custom(message, loc(&e.location)),
                }) }
            };
            let mut f = String::new();
            show_forest(&log, false, &mut f);
            if let Outcome::Parsing(..) = out { f.push_str(" slog="); show_forest(&log, true, &mut f); }
            obs.text = format!("{} log={} || {}", if ok { "Ok" } else { "Err" }, f, out.show());
            if let Outcome::Parsing(ref p, ref n, at) = out { obs.verdict = Some(oracle(&log, p, n, at, &c.input, delivered)); }
            obs.outcome = out;
            obs.log = log;
        }
    }
    obs
}

// ------------------------------------------------------------------------------------------
// pest_vm::Vm transcribed to closure trees (vm/src/lib.rs: parse_rule, parse_expr, skip)
// ------------------------------------------------------------------------------------------
struct VmComp<'a> { idx: HashMap<&'a str, usize>, eoi: R }

impl<'a> VmComp<'a> {
    fn rule_ref(&self, name: &str) -> Option<Prog> {
        use Prog::*;
        let r = |a: char, b: char| Range(a, b);
        Some(match name {
            "ANY" => Skip(1), "EOI" => Rule(self.eoi, Box::new(Eoi)), "SOI" => Soi, "PEEK" => Peek, "PEEK_ALL" => MPeek, "POP" => Pop,
            "POP_ALL" => MPop, "DROP" => Drop, "ASCII_DIGIT" => r('0', '9'), "ASCII_NONZERO_DIGIT" => r('1', '9'), "ASCII_BIN_DIGIT" => r('0', '1'),
            "ASCII_OCT_DIGIT" => r('0', '7'),
            "ASCII_HEX_DIGIT" => Else(Box::new(Else(Box::new(r('0', '9')), Box::new(r('a', 'f')))), Box::new(r('A', 'F'))),
            "ASCII_ALPHA_LOWER" => r('a', 'z'), "ASCII_ALPHA_UPPER" => r('A', 'Z'),
            "ASCII_ALPHA" => Else(Box::new(r('a', 'z')), Box::new(r('A', 'Z'))),
            "ASCII_ALPHANUMERIC" => Else(Box::new(Else(Box::new(r('a', 'z')), Box::new(r('A', 'Z')))), Box::new(r('0', '9'))),
            "ASCII" => r('\x00', '\x7f'),
            "NEWLINE" => Else(Box::new(Else(Box::new(Str("\n".into())), Box::new(Str("\r\n".into())))), Box::new(Str("\r".into()))),
            n => Call(*self.idx.get(n)?),
        })
    }
    fn skip(&self) -> Prog {
        use Prog::*;
        let ws = || Box::new(self.rule_ref("WHITESPACE").unwrap());
        let cm = || Box::new(self.rule_ref("COMMENT").unwrap());
        match (self.idx.contains_key("WHITESPACE"), self.idx.contains_key("COMMENT")) {
            (false, false) => Ok,
            (true, false) => IfNa(Box::new(Rep(ws())), Box::new(Ok)),
            (false, true) => IfNa(Box::new(Rep(cm())), Box::new(Ok)),
            (true, true) => {
                let inner = Seq(bx(Then(cm(), bx(Rep(ws())))));
                IfNa(bx(Seq(bx(Then(bx(Rep(ws())), bx(Rep(bx(inner))))))), bx(Ok))
            }
        }
    }
    fn expr(&self, e: &OptimizedExpr) -> Option<Prog> {
        use Prog::*;
        let b = |e: &OptimizedExpr| -> Option<Box<Prog>> { Some(Box::new(self.expr(e)?)) };
        Some(match e {
            OptimizedExpr::Str(s) => Str(s.clone()),
            OptimizedExpr::Insens(s) => Ins(s.clone()),
            OptimizedExpr::Range(a, z) => Range(a.chars().next()?, z.chars().next()?),
            OptimizedExpr::Ident(n) => self.rule_ref(n)?,
            OptimizedExpr::PeekSlice(s, e) => Slice(*s, *e, true),
            OptimizedExpr::PosPred(e) => Look(true, b(e)?),
            OptimizedExpr::NegPred(e) => Look(false, b(e)?),
            OptimizedExpr::Seq(l, r) => Seq(Box::new(Then(Box::new(Then(b(l)?, Box::new(self.skip()))), b(r)?))),
            OptimizedExpr::Choice(l, r) => Else(b(l)?, b(r)?),
            OptimizedExpr::Opt(e) => Opt(b(e)?),
            OptimizedExpr::Rep(e) => Seq(Box::new(Opt(Box::new(Then(b(e)?, Box::new(Rep(Box::new(Seq(Box::new(Then(Box::new(self.skip()), b(e)?))))))))))),
            OptimizedExpr::Push(e) => Push(b(e)?),
            OptimizedExpr::Skip(ss) => Until(ss.clone()),
            OptimizedExpr::RestoreOnErr(e) => Roe(b(e)?),
            #[allow(unreachable_patterns)]
            _ => return None,
        })
    }
    fn rule(&self, r: &OptimizedRule, id: R) -> Option<Prog> {
        use Prog::*;
        let e = Box::new(self.expr(&r.expr)?);
        let special = r.name == "WHITESPACE" || r.name == "COMMENT";
        Some(match (special, r.ty) {
            (true, RuleType::Normal) | (true, RuleType::Atomic) | (false, RuleType::Atomic) => Rule(id, Box::new(Atomic(0, e))),
            (true, RuleType::Silent) => Atomic(0, e),
            (_, RuleType::CompoundAtomic) => Atomic(1, Box::new(Rule(id, e))),
            (true, RuleType::NonAtomic) => Atomic(0, Box::new(Rule(id, e))),
            (false, RuleType::Normal) => Rule(id, e),
            (false, RuleType::Silent) => *e,
            (false, RuleType::NonAtomic) => Atomic(2, Box::new(Rule(id, e))),
        })
    }
}

/// (env, name of rule i) for an optimized grammar, or None when a construct has no closure-tree counterpart here
fn compile_vm(rules: &[OptimizedRule]) -> Option<Vec<Prog>> {
    let idx: HashMap<&str, usize> = rules.iter().enumerate().map(|(i, r)| (r.name.as_str(), i)).collect();
    let c = VmComp { idx, eoi: rules.len() as R };
    rules.iter().enumerate().map(|(i, r)| c.rule(r, i as R)).collect()
}

// ------------------------------------------------------------------------------------------
// generators
// ------------------------------------------------------------------------------------------
fn bx(p: Prog) -> Box<Prog> { Box::new(p) }

/// "grammar-like" closure trees: env[i] is rule i (normal / silent / atomic / compound / non-atomic wrapper as the
/// back-ends emit them) around sequences, choices, repeats, optionals, predicates, atomic sections and inline
/// nested rules; references go to higher indices only, so several rules start at the same position.
fn g_expr(rng: &mut Rng, depth: u32, i: usize, n: usize, ids: u64) -> Prog {
    use Prog::*;
    let lit = |rng: &mut Rng| Str(["a", "b", "ab", "", "ba"][rng.weighted(&[6, 5, 2, 1, 1])].to_string());
    if depth == 0 || rng.chance(1, 4) {
        return match rng.weighted(&[6, 9, 1, 1, 1]) {
            0 => lit(rng),
            1 => if i + 1 < n { Call(rng.range(i as u64 + 1, n as u64 - 1) as usize) } else { lit(rng) },
            2 => Err,
            3 => Rule(ids as R, bx(Eoi)),
            _ => Range('a', 'b'),
        };
    }
    let sub = |rng: &mut Rng| bx(g_expr(rng, depth - 1, i, n, ids));
    match rng.weighted(&[10, 10, 4, 3, 6, 3, 2, 4, 2, 1, 6]) {
        10 => {
            // predicates nested 2-3 levels (positive inside negative and vice versa), mostly directly around a rule
            let inner = if rng.chance(2, 3) && i + 1 < n { bx(Call(rng.range(i as u64 + 1, n as u64 - 1) as usize)) } else { sub(rng) };
            match rng.below(7) {
                0 => { let t = sub(rng); Look(false, bx(Seq(bx(Then(bx(Look(true, inner)), t))))) }   // !(&a ~ ..)
                1 => Look(false, bx(Look(false, inner))),                                           // !(!a)
                2 => Look(true, bx(Look(false, inner))),                                            // &(!a)
                3 => Look(false, bx(Look(true, inner))),                                            // !(&a)
                4 => Look(false, bx(Look(true, bx(Look(false, inner))))),                           // !(&(!a))
                5 => Look(false, bx(Look(false, bx(Look(true, inner))))),                           // !(!(&a))
                _ => { let t = sub(rng); Look(true, bx(Seq(bx(Then(bx(Look(false, bx(Look(true, inner)))), t))))) }   // &(!(&a) ~ ..)
            }
        }
        0 => { let a = sub(rng); let b = sub(rng); Seq(bx(Then(a, b))) }
        1 => { let a = sub(rng); let b = sub(rng); Else(a, b) }
        2 => { let ne = bx(Str(["a", "b", "ab"][rng.weighted(&[3, 3, 1])].to_string())); let x = sub(rng);
               Seq(bx(Opt(bx(Then(bx(Then(ne.clone(), x.clone())), bx(Rep(bx(Seq(bx(Then(ne, x))))))))))) }
        3 => Opt(sub(rng)),
        4 => Look(false, sub(rng)),
        5 => Look(true, sub(rng)),
        6 => Atomic(rng.weighted(&[3, 1, 2]) as u8, sub(rng)),
        7 => Rule(rng.below(ids + 1) as R, sub(rng)),
        8 => { let a = sub(rng); let b = sub(rng); Then(a, b) }
        _ => Rep(bx(Seq(bx(Then(bx(Str(["a", "b"][rng.below(2) as usize].to_string())), sub(rng)))))),
    }
}

fn g_case(rng: &mut Rng) -> (Vec<Prog>, Prog) {
    use Prog::*;
    let n = rng.range(2, 6) as usize;
    let ids = n as u64;
    let env: Vec<Prog> = (0..n).map(|i| {
        let depth = rng.range(1, 3) as u32;
        let e = bx(g_expr(rng, depth, i, n, ids));
        // rule ids are mostly the index; now and then two functions share an id
        let id = if rng.chance(1, 8) { rng.below(ids) as R } else { i as R };
        match rng.weighted(&[10, 3, 3, 1, 2]) {
            0 => Rule(id, e),
            1 => *e,
            2 => Rule(id, bx(Atomic(0, e))),
            3 => Atomic(1, bx(Rule(id, e))),
            _ => Atomic(2, bx(Rule(id, e))),
        }
    }).collect();
    let top = match rng.weighted(&[5, 4, 1, 1]) {
        0 => Call(0),
        1 => Seq(bx(Then(bx(Call(0)), bx(Rule(ids as R, bx(Eoi)))))),
        2 => Look(false, bx(Call(0))),
        _ => Else(bx(Call(0)), bx(Call(1))),
    };
    (env, top)
}

fn ab_inputs(maxlen: usize, alpha: &[char]) -> Vec<String> {
    let mut out = vec![String::new()];
    let mut layer = vec![String::new()];
    for _ in 0..maxlen {
        let mut next = vec![];
        for w in &layer { for a in alpha { let mut t = w.clone(); t.push(*a); next.push(t); } }
        out.extend(next.iter().cloned());
        layer = next;
    }
    out
}

/// Line terminators and a multi-byte character at and around the position where the parse failed: the text `input` with one of
/// "\n", "\r", "\r\n", "é" inserted at / put in place of the character at / put in front of the character before byte `at`.
const LINE_TOKENS: [&str; 5] = ["\n", "\r", "\r\n", "\u{e9}", "\n\n"];
fn line_variant(rng: &mut Rng, input: &str, at: usize) -> String {
    let at = if input.is_char_boundary(at) { at.min(input.len()) } else { 0 };
    let t = LINE_TOKENS[rng.weighted(&[4, 3, 2, 1, 1])];
    let next = input[at..].chars().next().map_or(at, |c| at + c.len_utf8());
    let prev = input[..at].chars().next_back().map_or(at, |c| at - c.len_utf8());
    match rng.weighted(&[4, 3, 1, 1]) {
        0 => format!("{}{}{}", &input[..at], t, &input[at..]),        // in front of what was looked at
        1 => format!("{}{}{}", &input[..at], t, &input[next..]),      // in place of it
        2 => format!("{}{}{}", &input[..prev], t, &input[prev..]),    // one character earlier
        _ => format!("{}{}{}{}", &input[..prev], t, &input[prev..at], t),   // a terminated line in front, then the text cut at the failure
    }
}
/// where a follow-up input is derived from: the reported position of a failed parse, else any position
fn pivot(rng: &mut Rng, o: &Obs, input: &str) -> usize {
    match o.outcome { Outcome::Parsing(_, _, at) => at, _ => { let k = rng.below(input.len() as u64 + 1) as usize; (0..=k).rev().find(|i| input.is_char_boundary(*i)).unwrap_or(0) } }
}

/// small grammars in pest syntax (references to later rules only: no recursion)
fn gr_expr(rng: &mut Rng, depth: u32, i: usize, n: usize) -> String {
    if depth == 0 || rng.chance(1, 4) {
        return match rng.weighted(&[5, 4, 2, 12, 1, 1, 1, 1, 1, 1, 1]) {
            0 => "\"a\"".into(), 1 => "\"b\"".into(), 2 => "\"ab\"".into(),
            3 => if i + 1 < n { format!("r{}", rng.range(i as u64 + 1, n as u64 - 1)) } else { "\"a\"".into() },
            4 => "EOI".into(), 5 => "ANY".into(), 6 => "^\"a\"".into(), 7 => "'a'..'b'".into(), 8 => "ASCII_DIGIT".into(), 9 => "NEWLINE".into(), _ => "\"\\n\"".into(),
        };
    }
    let a = gr_expr(rng, depth - 1, i, n);
    match rng.weighted(&[10, 10, 3, 2, 2, 6, 3, 1, 1, 6]) {
        9 => {
            // nested predicates, mostly directly around a rule reference
            let a = if rng.chance(2, 3) && i + 1 < n { format!("r{}", rng.range(i as u64 + 1, n as u64 - 1)) } else { a };
            match rng.below(7) {
                0 => format!("!(&{} ~ {})", a, gr_expr(rng, depth - 1, i, n)),
                1 => format!("!(!({}))", a), 2 => format!("&(!{})", a), 3 => format!("!(&{})", a),
                4 => format!("!(&(!{}))", a), 5 => format!("!(!(&{}))", a),
                _ => format!("&(!(&{}) ~ {})", a, gr_expr(rng, depth - 1, i, n)),
            }
        }
        0 => format!("({} ~ {})", a, gr_expr(rng, depth - 1, i, n)),
        1 => format!("({} | {})", a, gr_expr(rng, depth - 1, i, n)),
        2 => format!("({})*", a), 3 => format!("({})+", a), 4 => format!("({})?", a),
        5 => format!("!({})", a), 6 => format!("&({})", a), 7 => format!("({}){{2}}", a),
        _ => format!("(PUSH({}) ~ (PEEK | \"b\"))", a),
    }
}
fn gr_grammar(rng: &mut Rng) -> String {
    let n = rng.range(2, 5) as usize;
    let mut g = String::new();
    for i in 0..n {
        let m = ["", "_", "@", "$", "!"][rng.weighted(&[10, 3, 3, 1, 2])];
        let d = rng.range(1, 3) as u32;
        g += &format!("r{} = {}{{ {} }}\n", i, m, gr_expr(rng, d, i, n));
    }
    if rng.chance(1, 3) { g += &format!("WHITESPACE = {}{{ \" \" }}\n", ["_", "", "@", "$", "!"][rng.weighted(&[6, 2, 1, 1, 1])]); }
    if rng.chance(1, 10) { g += &format!("COMMENT = {}{{ \"#\" }}\n", ["_", "", "@"][rng.weighted(&[3, 2, 1])]); }
    g
}

// ------------------------------------------------------------------------------------------
// driver
// ------------------------------------------------------------------------------------------
struct Stats { lineend: u64, n: u64, nontriv: u64, oks: u64, failing: u64, panics: u64, diverged: u64, setdiff: u64, vm: u64, vmskipped: u64, contracts: u64, seen: HashSet<String> }

/// Watchdog: the real code is expected to return; a case that keeps it busy for 10 s is reported on stderr as
/// "HANG\t<case>" and the process is aborted (the closure-invocation budget bounds the interpreter, so the time is spent
/// inside pest itself, e.g. building Pairs from a corrupted token queue).
static PROGRESS: std::sync::atomic::AtomicU64 = std::sync::atomic::AtomicU64::new(0);   // odd while a case is running
static CURRENT: std::sync::Mutex<String> = std::sync::Mutex::new(String::new());
fn watchdog() {
    use std::sync::atomic::Ordering::SeqCst;
    std::thread::spawn(|| {
        let mut last = 0u64; let mut since = std::time::Instant::now();
        loop {
            std::thread::sleep(std::time::Duration::from_millis(250));
            let p = PROGRESS.load(SeqCst);
            if p != last { last = p; since = std::time::Instant::now(); }
            else if p % 2 == 1 && since.elapsed().as_secs() >= 10 {
                eprintln!("HANG\t{}", CURRENT.lock().map(|g| g.clone()).unwrap_or_default());
                std::process::abort();
            }
        }
    });
}
fn guarded<T>(what: &str, f: impl FnOnce() -> T) -> T {
    use std::sync::atomic::Ordering::SeqCst;
    if let Ok(mut g) = CURRENT.lock() { g.clear(); g.push_str(what); }
    PROGRESS.fetch_add(1, SeqCst);
    let r = f();
    PROGRESS.fetch_add(1, SeqCst);
    r
}

fn emit(c: &Case, st: &mut Stats, w: &mut impl Write) -> Obs {
    let cs = c.show();
    let o = guarded(&cs, || observe(c));
    st.n += 1;
    match o.outcome { Outcome::Pairs(_) => st.oks += 1, Outcome::Parsing(..) => st.failing += 1, _ => {} }
    if o.text == "Panic" { st.panics += 1; }
    if o.text == "Diverged" { st.diverged += 1; }
    writeln!(w, "{}\t{}", cs, o.text).unwrap();
    if let Some(v) = &o.verdict {
        if v.nontrivial && st.seen.insert(cs.clone()) { st.nontriv += 1; }
        if v.set_reading_differs { st.setdiff += 1; }
        if v.on_line_end { st.lineend += 1; }
        for m in &v.problems { st.contracts += 1; writeln!(w, "CONTRACT\t{}\t{}", cs, m).unwrap(); }
    }
    o
}

/// one grammar x one input through the real VM and through its transcription
fn vm_case(grammar: &str, rules: &[OptimizedRule], env: &[Prog], vm: &pest_vm::Vm, input: &str, det: bool, st: &mut Stats, w: &mut impl Write) -> Obs {
    let c = Case { lim: None, det, input: input.to_string(), env: env.to_vec(), prog: Prog::Call(0) };
    let o = emit(&c, st, w);
    if o.text == "Diverged" { return o; }      // never hand a diverging grammar to the VM
    st.vm += 1;
    let names: Vec<&str> = rules.iter().map(|r| r.name.as_str()).collect();
    let id = |n: &str| -> R { names.iter().position(|x| *x == n).unwrap_or(names.len()) as R };
    pest::set_call_limit(None);
    pest::set_error_detail(det);
    let r = guarded(&format!("{} (Vm::parse, grammar {})", c.show(), esc(grammar)), || catch(|| vm.parse(&rules[0].name, input)));
    let vo = match r {
        Err(_) => Outcome::Panic,
        Ok(Ok(pairs)) => match catch(|| tokens_of(pairs, &|r: &&str| id(r).to_string())) { Ok(t) => Outcome::Pairs(t), Err(_) => Outcome::Pairs("tokens-panic".into()) },
        Ok(Err(e)) => { let dl = delivered_of(&e); match e.variant {
            pest::error::ErrorVariant::ParsingError { positives, negatives } => {
                // (a) on the error Vm::parse delivers: a position, and its line_col is the line / column of that position in the input
                let at = loc(&e.location);
                if !dl.0 || direct_line_col(input, at).map_or(true, |w| w != (dl.1, dl.2)) {
                    st.contracts += 1;
                    writeln!(w, "CONTRACT\t{}\t(a) Vm::parse delivers location {:?} with line_col {:?}, but byte {} of the input is at line/column {:?} (grammar {})",
                        c.show(), e.location, (dl.1, dl.2), at, direct_line_col(input, at), esc(grammar)).unwrap();
                }
                // (c) on the VM's own lists: strictly increasing in the order of the rule type (&str)
                if !positives.windows(2).all(|x| x[0] < x[1]) || !negatives.windows(2).all(|x| x[0] < x[1]) {
                    st.contracts += 1;
                    writeln!(w, "CONTRACT\t{}\t(c) Vm::parse lists not strictly increasing: {:?} / {:?} (grammar {})", c.show(), positives, negatives, esc(grammar)).unwrap();
                }
                let mut p: Vec<R> = positives.iter().map(|n| id(n)).collect(); p.sort();
                let mut n: Vec<R> = negatives.iter().map(|n| id(n)).collect(); n.sort();
                Outcome::Parsing(p, n, loc(&e.location))
            }
            pest::error::ErrorVariant::CustomError { message } => Outcome::Custom(message, loc(&e.location)),
        } },
    };
    if vo != o.outcome {
        writeln!(w, "VMDIFF\t{}\t{}\t{} (grammar {})", c.show(), vo.show(), o.outcome.show(), esc(grammar)).unwrap();
    }
    o
}

fn vm_grammar(grammar: &str, inputs: &[String], det: bool, st: &mut Stats, w: &mut impl Write, mut rng: Option<&mut Rng>) -> bool {
    pest::set_call_limit(None);
    let rules = match catch(|| pest_meta::parse_and_optimize(grammar)) { Ok(Ok((_, r))) => r, _ => { st.vmskipped += 1; return false; } };
    let env = match compile_vm(&rules) { Some(e) => e, None => { st.vmskipped += 1; return false; } };
    let vm = pest_vm::Vm::new(rules.clone());
    for input in inputs {
        let o = vm_case(grammar, &rules, &env, &vm, input, det, st, w);
        // the same grammar on the text with a line terminator / multi-byte character where the parse stopped
        if let Some(rng) = rng.as_deref_mut() {
            if rng.chance(1, 3) {
                let at = pivot(rng, &o, input);
                let v = line_variant(rng, input, at);
                vm_case(grammar, &rules, &env, &vm, &v, det, st, w);
            }
        }
    }
    true
}

fn main() {
    quiet_panics();
    watchdog();
    let mode = arg(1);
    let stdout = io::stdout();
    let mut w = BufWriter::with_capacity(1 << 20, stdout.lock());
    let mut st = Stats { lineend: 0, n: 0, nontriv: 0, oks: 0, failing: 0, panics: 0, diverged: 0, setdiff: 0, vm: 0, vmskipped: 0, contracts: 0, seen: HashSet::new() };
    match mode.as_str() {
        "one" => { let c = Case::parse(&arg(2)); emit(&c, &mut st, &mut w); }
        "vmone" => { let g = unhex(&arg(2)); let i = unhex(&arg(3)); vm_grammar(&g, &[i], false, &mut st, &mut w, None); }
        // the generic closure-tree generator of prog.rs (all combinators, stack ops, tags)
        "random" => {
            let count = arg_u64(2, 1000); let mut rng = Rng::new(arg_u64(3, 0)); let maxdepth = arg_u64(4, 6);
            while st.n < count {
                let nfun = rng.below(3) as usize;
                let env: Vec<Prog> = (0..nfun).map(|k| gen(&mut rng, 3, nfun, Some(k + 1))).collect();
                let d = rng.range(2, maxdepth) as u32;
                let prog = gen(&mut rng, d, nfun, Some(0));
                let det = rng.chance(1, 8);
                let lim = if rng.chance(1, 12) { Some(rng.range(1, 12) as usize) } else { None };
                for _ in 0..3 {
                    let input = gen_input(&mut rng, 5);
                    let o = emit(&Case { lim, det, input: input.clone(), env: env.clone(), prog: prog.clone() }, &mut st, &mut w);
                    if rng.chance(1, 4) {
                        let at = pivot(&mut rng, &o, &input);
                        let input = line_variant(&mut rng, &input, at);
                        emit(&Case { lim, det, input, env: env.clone(), prog: prog.clone() }, &mut st, &mut w);
                    }
                }
            }
        }
        // grammar-like closure trees
        "glike" => {
            let count = arg_u64(2, 1000); let mut rng = Rng::new(arg_u64(3, 0));
            let inputs = ab_inputs(3, &['a', 'b']);
            while st.n < count {
                let (env, prog) = g_case(&mut rng);
                let det = rng.chance(1, 8);
                let lim = if rng.chance(1, 16) { Some(rng.range(1, 16) as usize) } else { None };
                for _ in 0..5 {
                    let input = rng.pick(&inputs).clone();
                    let o = emit(&Case { lim, det, input: input.clone(), env: env.clone(), prog: prog.clone() }, &mut st, &mut w);
                    // the same tree on the text with a line terminator / multi-byte character where it stopped
                    if rng.chance(1, 4) {
                        let at = pivot(&mut rng, &o, &input);
                        let input = line_variant(&mut rng, &input, at);
                        emit(&Case { lim, det, input, env: env.clone(), prog: prog.clone() }, &mut st, &mut w);
                    }
                }
            }
        }
        // generated grammars through pest_meta::parse_and_optimize and pest_vm::Vm::parse
        "vm" => {
            let count = arg_u64(2, 1000); let mut rng = Rng::new(arg_u64(3, 0));
            let inputs = ab_inputs(3, &['a', 'b', ' ']);
            while st.n < count {
                let g = gr_grammar(&mut rng);
                let mut ins: Vec<String> = (0..5).map(|_| rng.pick(&inputs).clone()).collect();
                ins.push(String::new());
                let det = rng.chance(1, 8);
                if !vm_grammar(&g, &ins, det, &mut st, &mut w, Some(&mut rng)) && st.vmskipped > 50 * (count + 10) { break; }
            }
        }
        // exhaustive: two or three rules under every small combination of wrappers and connectives
        "small" => {
            use Prog::*;
            let shard = arg_u64(2, 0); let shards = arg_u64(3, 1);
            let leaves = vec![Str("a".into()), Str("b".into()), Err, Str("".into())];
            let mut atoms: Vec<Prog> = vec![];
            for r in 1..3u32 { for l in &leaves { atoms.push(Rule(r, bx(l.clone()))); } }
            let wraps: Vec<fn(Prog) -> Prog> = vec![|p| p, |p| Look(false, bx(p)), |p| Look(true, bx(p)), |p| Opt(bx(p)), |p| Atomic(0, bx(p)), |p| Rule(3, bx(p)),
                |p| Look(false, bx(Look(true, bx(p)))), |p| Look(false, bx(Look(false, bx(p)))), |p| Look(true, bx(Look(false, bx(p)))),
                |p| Look(false, bx(Look(true, bx(Look(false, bx(p))))))];
            let mut xs: Vec<Prog> = vec![];
            for wf in &wraps { for a in &atoms { xs.push(wf(a.clone())); } }
            let mut bodies: Vec<Prog> = xs.clone();
            for x in &xs { for y in &xs {
                bodies.push(Else(bx(x.clone()), bx(y.clone())));
                bodies.push(Seq(bx(Then(bx(x.clone()), bx(y.clone())))));
            } }
            let tops: Vec<fn(Prog) -> Prog> = vec![|b| Rule(0, bx(b)), |b| b, |b| Look(false, bx(Rule(0, bx(b)))),
                |b| Seq(bx(Then(bx(Str("a".into())), bx(Rule(0, bx(b)))))), |b| Else(bx(Rule(0, bx(b))), bx(Rule(4, bx(Str("b".into())))))];
            let inputs = vec!["".to_string(), "a".into(), "b".into(), "ab".into(), "aa".into(), "\n".into(), "a\n".into(), "a\r\nb".into(), "\rb".into()];
            let mut k = 0u64;
            for t in &tops { for b in &bodies {
                k += 1;
                if k % shards != shard { continue; }
                let p = t(b.clone());
                for input in &inputs { emit(&Case { lim: None, det: false, input: input.clone(), env: vec![], prog: p.clone() }, &mut st, &mut w); }
            } }
        }
        _ => { eprintln!("usage: c08 one CASE | vmone GRAMMARHEX INPUTHEX | random N SEED [DEPTH] | glike N SEED | vm N SEED | small SHARD SHARDS"); std::process::exit(2); }
    }
    writeln!(w, "#SUMMARY\tevaluations={}\tdistinct_nontrivial={}\tok={}\tfailing={}\tpanics={}\tdiverged={}\tset_reading_differs={}\tvm_cases={}\tvm_skipped={}\tcontracts={}\tfailure_on_line_terminator={}",
        st.n, st.nontriv, st.oks, st.failing, st.panics, st.diverged, st.setdiff, st.vm, st.vmskipped, st.contracts, st.lineend).unwrap();
}
