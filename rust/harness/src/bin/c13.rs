//! C13: drive the REAL pest::pratt_parser::{PrattParser, ConstPrattParser, pratt_precedence!} and
//! pest::prec_climber::PrecClimber on operator tables x token sequences, with pairs built through
//! pest::iterators::PairsBuilder (R = u8, one byte per token), and print the tree each one builds
//! as an in-order S-expression whose atoms are `<rule letter><token index>`.
//!
//! case  `T;<maps>;<decl>;<tokens>`   maps  = three 0/1 flags: map_prefix, map_postfix, map_infix supplied
//!                                    decl  = levels joined by ',', a level = ops `<letter><kind>`, kind p|q|l|r
//!                                            (prefix, postfix, infix left, infix right); later level binds tighter
//!                                    tokens= rule letters; a letter that is not in the table is a primary
//!   obs `P=<r>;C=<r>;N=<r>;K=<r>`    P PrattParser::new().op(..)..; C ConstPrattParser::new_const(pratt_precedence![..])
//!                                    (31 fixed shapes: every split of <= 5 operators into levels, `-` otherwise);
//!                                    N ConstPrattParser::new_const on a runtime array (<= 8 operators);
//!                                    K PrecClimber::new on the infix operators of the declaration (`-` if none)
//! case  `N;<maps>;<entries>;<tokens>` entries joined by ',': a chain of ops followed by + (new level) or - (same level)
//!   obs `N=<r>`                       ConstPrattParser::new_const with arbitrary flags / chained operators
//! <r> = S-expression | `!KIND` for a panic (KIND from the panic message).
use pest::iterators::{Pair, Pairs, PairsBuilder};
use pest::pratt_parser::{Assoc, ConstPrattParser, Op, PrattParser};
use pest::pratt_precedence;
use pest::prec_climber::{Assoc as CAssoc, Operator, PrecClimber};
use pvharness::*;
use std::collections::HashSet;
use std::io::{self, BufWriter, Write};
use std::sync::atomic::{AtomicBool, AtomicU64, Ordering};
use std::sync::Mutex;

// Watchdog: a mutated parser may loop forever inside one API call.  While a call into pest is in
// flight IN_CALL is set; if the case counter does not move for 5 s the watchdog reports the case
// as a MISMATCH line (kind spec if the property speaks about it, else model) and ends the process.
static IN_CALL: AtomicBool = AtomicBool::new(false);
static PROGRESS: AtomicU64 = AtomicU64::new(0);
static CURRENT: Mutex<(String, bool)> = Mutex::new((String::new(), false));
fn enter_case(case: &str, property_speaks: bool) {
    { let mut c = CURRENT.lock().unwrap(); c.0.clear(); c.0.push_str(case); c.1 = property_speaks; }
    PROGRESS.fetch_add(1, Ordering::SeqCst);
    IN_CALL.store(true, Ordering::SeqCst);
}
fn leave_case() { IN_CALL.store(false, Ordering::SeqCst); }
fn start_watchdog() {
    std::thread::spawn(|| {
        let mut last = u64::MAX;
        let mut stalled = 0;
        loop {
            std::thread::sleep(std::time::Duration::from_millis(500));
            let p = PROGRESS.load(Ordering::SeqCst);
            if IN_CALL.load(Ordering::SeqCst) && p == last { stalled += 1; } else { stalled = 0; }
            last = p;
            if stalled >= 10 {
                let c = CURRENT.lock().unwrap();
                eprintln!("MISMATCH\t{}\t{}\tHANG (no return from the parser within 5 s)\ttermination", if c.1 { "spec" } else { "model" }, c.0);
                std::process::exit(3);
            }
        }
    });
}

type OpD = (u8, char);

#[allow(non_snake_case)]
mod K {
    use super::*;
    /// the two-segment constructor call that `pratt_precedence!` accepts
    pub const fn o(x: OpD) -> Op<u8> {
        match x.1 {
            'p' => Op::prefix(x.0),
            'q' => Op::postfix(x.0),
            'l' => Op::infix(x.0, Assoc::Left),
            _ => Op::infix(x.0, Assoc::Right),
        }
    }
}

fn atom(p: &Pair<u8>) -> String { format!("{}{}", p.as_rule() as char, p.as_span().start()) }

fn panic_kind(msg: &str) -> String {
    let k = if msg.starts_with("Pratt parsing expects non-empty Pairs") { "EMPTY" }
    else if msg.starts_with("precedence climbing requires a non-empty Pairs") { "EMPTY" }
    else if msg.starts_with("Expected prefix or primary expression") { "NUD" }
    else if msg.starts_with("Expected postfix or infix expression") { "LED" }
    else if msg.starts_with("Expected operator") { "LBP" }
    else if msg.starts_with("Could not map") { "NOMAP" }
    else if msg.contains("attempt to subtract with overflow") { "SUB" }
    else if msg.contains("called `Option::unwrap()` on a `None` value") { "UNWRAP" }
    else if msg.starts_with("infix operator must be followed by a primary expression") { "EXPECT" }
    else if msg.starts_with("the first operator must start a new precedence level") { "CFIRST" }
    else if msg.starts_with("chained operators") { "CCHAIN" }
    else { return format!("!OTHER:{}", esc(msg)); };
    format!("!{}", k)
}

fn pairs_of<'i>(tokens: &'i str) -> Pairs<'i, u8> {
    let mut b = PairsBuilder::new(tokens);
    for (i, c) in tokens.bytes().enumerate() { b = b.rule(c, i, i + 1); }
    b.build()
}

/// works for PrattParser and ConstPrattParser alike (map_primary is an inherent method of each)
macro_rules! run_map {
    ($pratt:expr, $m:expr, $tokens:expr) => {{
        let pratt = &$pratt;
        let m: (bool, bool, bool) = $m;
        let tokens: &str = $tokens;
        match catch(|| {
            let mut pm = pratt.map_primary(|p: Pair<u8>| atom(&p));
            if m.0 { pm = pm.map_prefix(|op: Pair<u8>, rhs: String| format!("({} {})", atom(&op), rhs)); }
            if m.1 { pm = pm.map_postfix(|lhs: String, op: Pair<u8>| format!("({} {})", lhs, atom(&op))); }
            if m.2 { pm = pm.map_infix(|lhs: String, op: Pair<u8>, rhs: String| format!("({} {} {})", lhs, atom(&op), rhs)); }
            pm.parse(pairs_of(tokens))
        }) { Ok(s) => s, Err(e) => panic_kind(&e) }
    }};
}

fn run_builder(decl: &[Vec<OpD>], m: (bool, bool, bool), tokens: &str) -> String {
    let mut pratt: PrattParser<u8> = PrattParser::new();
    for lv in decl {
        let mut it = lv.iter();
        let mut op = K::o(*it.next().unwrap());
        for o in it { op = op | K::o(*o); }
        pratt = pratt.op(op);
    }
    run_map!(pratt, m, tokens)
}

/// ConstPrattParser through pratt_precedence! - the shape of the invocation is syntactic, so a fixed family.
fn run_const_macro(decl: &[Vec<OpD>], m: (bool, bool, bool), tokens: &str) -> String {
    let shape: Vec<usize> = decl.iter().map(|l| l.len()).collect();
    let v: Vec<OpD> = decl.iter().flatten().copied().collect();
    macro_rules! with_const { ($e:expr) => {{ let c = $e; run_map!(c, m, tokens) }}; }
    match shape.as_slice() {
        [1] => with_const!(ConstPrattParser::new_const(pratt_precedence![K::o(v[0])])),
        [1, 1] => with_const!(ConstPrattParser::new_const(pratt_precedence![K::o(v[0]), K::o(v[1])])),
        [2] => with_const!(ConstPrattParser::new_const(pratt_precedence![K::o(v[0]) | K::o(v[1])])),
        [1, 1, 1] => with_const!(ConstPrattParser::new_const(pratt_precedence![K::o(v[0]), K::o(v[1]), K::o(v[2])])),
        [1, 2] => with_const!(ConstPrattParser::new_const(pratt_precedence![K::o(v[0]), K::o(v[1]) | K::o(v[2])])),
        [2, 1] => with_const!(ConstPrattParser::new_const(pratt_precedence![K::o(v[0]) | K::o(v[1]), K::o(v[2])])),
        [3] => with_const!(ConstPrattParser::new_const(pratt_precedence![K::o(v[0]) | K::o(v[1]) | K::o(v[2])])),
        [1, 1, 1, 1] => with_const!(ConstPrattParser::new_const(pratt_precedence![K::o(v[0]), K::o(v[1]), K::o(v[2]), K::o(v[3])])),
        [1, 1, 2] => with_const!(ConstPrattParser::new_const(pratt_precedence![K::o(v[0]), K::o(v[1]), K::o(v[2]) | K::o(v[3])])),
        [1, 2, 1] => with_const!(ConstPrattParser::new_const(pratt_precedence![K::o(v[0]), K::o(v[1]) | K::o(v[2]), K::o(v[3])])),
        [1, 3] => with_const!(ConstPrattParser::new_const(pratt_precedence![K::o(v[0]), K::o(v[1]) | K::o(v[2]) | K::o(v[3])])),
        [2, 1, 1] => with_const!(ConstPrattParser::new_const(pratt_precedence![K::o(v[0]) | K::o(v[1]), K::o(v[2]), K::o(v[3])])),
        [2, 2] => with_const!(ConstPrattParser::new_const(pratt_precedence![K::o(v[0]) | K::o(v[1]), K::o(v[2]) | K::o(v[3])])),
        [3, 1] => with_const!(ConstPrattParser::new_const(pratt_precedence![K::o(v[0]) | K::o(v[1]) | K::o(v[2]), K::o(v[3])])),
        [4] => with_const!(ConstPrattParser::new_const(pratt_precedence![K::o(v[0]) | K::o(v[1]) | K::o(v[2]) | K::o(v[3])])),
        [1, 1, 1, 1, 1] => with_const!(ConstPrattParser::new_const(pratt_precedence![K::o(v[0]), K::o(v[1]), K::o(v[2]), K::o(v[3]), K::o(v[4])])),
        [1, 1, 1, 2] => with_const!(ConstPrattParser::new_const(pratt_precedence![K::o(v[0]), K::o(v[1]), K::o(v[2]), K::o(v[3]) | K::o(v[4])])),
        [1, 1, 2, 1] => with_const!(ConstPrattParser::new_const(pratt_precedence![K::o(v[0]), K::o(v[1]), K::o(v[2]) | K::o(v[3]), K::o(v[4])])),
        [1, 1, 3] => with_const!(ConstPrattParser::new_const(pratt_precedence![K::o(v[0]), K::o(v[1]), K::o(v[2]) | K::o(v[3]) | K::o(v[4])])),
        [1, 2, 1, 1] => with_const!(ConstPrattParser::new_const(pratt_precedence![K::o(v[0]), K::o(v[1]) | K::o(v[2]), K::o(v[3]), K::o(v[4])])),
        [1, 2, 2] => with_const!(ConstPrattParser::new_const(pratt_precedence![K::o(v[0]), K::o(v[1]) | K::o(v[2]), K::o(v[3]) | K::o(v[4])])),
        [1, 3, 1] => with_const!(ConstPrattParser::new_const(pratt_precedence![K::o(v[0]), K::o(v[1]) | K::o(v[2]) | K::o(v[3]), K::o(v[4])])),
        [1, 4] => with_const!(ConstPrattParser::new_const(pratt_precedence![K::o(v[0]), K::o(v[1]) | K::o(v[2]) | K::o(v[3]) | K::o(v[4])])),
        [2, 1, 1, 1] => with_const!(ConstPrattParser::new_const(pratt_precedence![K::o(v[0]) | K::o(v[1]), K::o(v[2]), K::o(v[3]), K::o(v[4])])),
        [2, 1, 2] => with_const!(ConstPrattParser::new_const(pratt_precedence![K::o(v[0]) | K::o(v[1]), K::o(v[2]), K::o(v[3]) | K::o(v[4])])),
        [2, 2, 1] => with_const!(ConstPrattParser::new_const(pratt_precedence![K::o(v[0]) | K::o(v[1]), K::o(v[2]) | K::o(v[3]), K::o(v[4])])),
        [2, 3] => with_const!(ConstPrattParser::new_const(pratt_precedence![K::o(v[0]) | K::o(v[1]), K::o(v[2]) | K::o(v[3]) | K::o(v[4])])),
        [3, 1, 1] => with_const!(ConstPrattParser::new_const(pratt_precedence![K::o(v[0]) | K::o(v[1]) | K::o(v[2]), K::o(v[3]), K::o(v[4])])),
        [3, 2] => with_const!(ConstPrattParser::new_const(pratt_precedence![K::o(v[0]) | K::o(v[1]) | K::o(v[2]), K::o(v[3]) | K::o(v[4])])),
        [4, 1] => with_const!(ConstPrattParser::new_const(pratt_precedence![K::o(v[0]) | K::o(v[1]) | K::o(v[2]) | K::o(v[3]), K::o(v[4])])),
        [5] => with_const!(ConstPrattParser::new_const(pratt_precedence![K::o(v[0]) | K::o(v[1]) | K::o(v[2]) | K::o(v[3]) | K::o(v[4])])),
        _ => "-".to_string(),
    }
}

/// ConstPrattParser::new_const on a runtime array: entries = (chain, starts a new level)
fn run_const_array(entries: &[(Vec<OpD>, bool)], m: (bool, bool, bool), tokens: &str) -> String {
    fn mk(entries: &[(Vec<OpD>, bool)]) -> Vec<(Op<u8>, bool)> {
        entries.iter().map(|(ch, f)| {
            let mut it = ch.iter();
            let mut op = K::o(*it.next().unwrap());
            for o in it { op = op | K::o(*o); }
            (op, *f)
        }).collect()
    }
    macro_rules! sized { ($n:literal) => {{
        match catch(|| { let a: [(Op<u8>, bool); $n] = mk(entries).try_into().ok().unwrap(); ConstPrattParser::<u8, $n>::new_const(a) }) {
            Ok(c) => run_map!(c, m, tokens),
            Err(e) => panic_kind(&e),
        }
    }}; }
    match entries.len() {
        1 => sized!(1), 2 => sized!(2), 3 => sized!(3), 4 => sized!(4),
        5 => sized!(5), 6 => sized!(6), 7 => sized!(7), 8 => sized!(8),
        _ => "-".to_string(),
    }
}

fn run_climber(decl: &[Vec<OpD>], tokens: &str) -> String {
    let mut ops: Vec<Operator<u8>> = Vec::new();
    for lv in decl {
        let mut cur: Option<Operator<u8>> = None;
        for (r, k) in lv {
            let a = match k { 'l' => CAssoc::Left, 'r' => CAssoc::Right, _ => continue };
            let o = Operator::new(*r, a);
            cur = Some(match cur { None => o, Some(c) => c | o });
        }
        if let Some(c) = cur { ops.push(c); }
    }
    if ops.is_empty() { return "-".to_string(); }
    let climber = PrecClimber::new(ops);
    match catch(|| climber.climb(pairs_of(tokens), |p: Pair<u8>| atom(&p),
                                 |l: String, op: Pair<u8>, r: String| format!("({} {} {})", l, atom(&op), r))) {
        Ok(s) => s, Err(e) => panic_kind(&e),
    }
}

fn parse_ops(s: &str) -> Vec<OpD> {
    let b = s.as_bytes();
    let mut v = Vec::new();
    let mut i = 0;
    while i + 1 < b.len() { v.push((b[i], b[i + 1] as char)); i += 2; }
    v
}
fn parse_maps(s: &str) -> (bool, bool, bool) {
    let b = s.as_bytes();
    (b.get(0) == Some(&b'1'), b.get(1) == Some(&b'1'), b.get(2) == Some(&b'1'))
}
fn show_decl(decl: &[Vec<OpD>]) -> String {
    decl.iter().map(|l| l.iter().map(|(r, k)| format!("{}{}", *r as char, k)).collect::<String>()).collect::<Vec<_>>().join(",")
}

/// classification used only for generating well-formed sequences and counting non-trivial cases
/// (last declaration of a rule wins, as in the code)
fn kind_of(decl: &[Vec<OpD>], r: u8) -> Option<char> {
    let mut k = None;
    for lv in decl { for (r2, k2) in lv { if *r2 == r { k = Some(*k2); } } }
    k
}
fn is_wf(decl: &[Vec<OpD>], tokens: &str) -> bool {
    let mut operand = true;
    for c in tokens.bytes() {
        match (operand, kind_of(decl, c)) {
            (true, None) => operand = false,
            (true, Some('p')) => {}
            (false, Some('q')) => {}
            (false, Some('l')) | (false, Some('r')) => operand = true,
            _ => return false,
        }
    }
    !operand
}

struct Out<'a> { w: BufWriter<io::StdoutLock<'a>>, n: u64, nontriv: u64, seen: HashSet<String>, wf: u64, panics: u64, climber_class: u64, const_macro: u64 }
impl<'a> Out<'a> {
    fn table_case(&mut self, maps: &str, decl: &[Vec<OpD>], tokens: &str, dedup: bool) {
        let m = parse_maps(maps);
        let case = format!("T;{};{};{}", maps, show_decl(decl), tokens);
        enter_case(&case, m == (true, true, true) && is_wf(decl, tokens));
        let p = run_builder(decl, m, tokens);
        let c = run_const_macro(decl, m, tokens);
        let n = if decl.iter().map(|l| l.len()).sum::<usize>() <= 8 {
            let entries: Vec<(Vec<OpD>, bool)> = decl.iter().flat_map(|l| l.iter().enumerate().map(|(i, o)| (vec![*o], i == 0))).collect();
            run_const_array(&entries, m, tokens)
        } else { "-".to_string() };
        let k = run_climber(decl, tokens);
        leave_case();
        self.n += 1;
        // non-trivial: a well-formed sequence with at least two operators (so that grouping is decided
        // by the binding powers) that the real PrattParser turned into a tree
        let nops = tokens.bytes().filter(|c| kind_of(decl, *c).is_some()).count();
        let wf = is_wf(decl, tokens);
        if wf { self.wf += 1; }
        if p.starts_with('!') { self.panics += 1; }
        if c != "-" { self.const_macro += 1; }
        if wf && k != "-" && decl.iter().flatten().all(|o| o.1 == 'l' || o.1 == 'r') { self.climber_class += 1; }
        if nops >= 2 && !p.starts_with('!') && wf && (!dedup || self.seen.insert(case.clone())) { self.nontriv += 1; }
        writeln!(self.w, "{}\tP={};C={};N={};K={}", case, p, c, n, k).unwrap();
    }
    fn const_case(&mut self, maps: &str, entries: &[(Vec<OpD>, bool)], tokens: &str) {
        let m = parse_maps(maps);
        let e = entries.iter().map(|(ch, f)| format!("{}{}", show_decl(&[ch.clone()]), if *f { '+' } else { '-' })).collect::<Vec<_>>().join(",");
        let case = format!("N;{};{};{}", maps, e, tokens);
        enter_case(&case, false);
        let n = run_const_array(entries, m, tokens);
        leave_case();
        self.n += 1;
        writeln!(self.w, "{}\tN={}", case, n).unwrap();
    }
    fn one(&mut self, case: &str) {
        let f: Vec<&str> = case.split(';').collect();
        if f.len() != 4 { writeln!(self.w, "{}\tBADCASE", case).unwrap(); return; }
        match f[0] {
            "T" => {
                let decl: Vec<Vec<OpD>> = f[2].split(',').filter(|s| !s.is_empty()).map(parse_ops).collect();
                self.table_case(f[1], &decl, f[3], false);
            }
            "N" => {
                let entries: Vec<(Vec<OpD>, bool)> = f[2].split(',').filter(|s| s.len() >= 3)
                    .map(|s| (parse_ops(&s[..s.len() - 1]), s.ends_with('+'))).collect();
                self.const_case(f[1], &entries, f[3]);
            }
            _ => { writeln!(self.w, "{}\tBADCASE", case).unwrap(); }
        }
    }
}

fn compositions(n: usize) -> Vec<Vec<usize>> {
    if n == 0 { return vec![vec![]]; }
    let mut out = Vec::new();
    for k in 1..=n { for mut rest in compositions(n - k) { let mut c = vec![k]; c.append(&mut rest); out.push(c); } }
    out
}

/// all strings over `alpha` of length exactly `len`
fn all_strings(alpha: &[u8], len: usize, f: &mut dyn FnMut(&str)) {
    let mut idx = vec![0usize; len];
    loop {
        let s: String = idx.iter().map(|&i| alpha[i] as char).collect();
        f(&s);
        let mut k = len;
        loop {
            if k == 0 { return; }
            k -= 1;
            idx[k] += 1;
            if idx[k] < alpha.len() { break; }
            idx[k] = 0;
        }
    }
}
/// all well-formed strings of length exactly `len` (DFS over the two-state automaton)
fn wf_strings(decl: &[Vec<OpD>], alpha: &[u8], len: usize, cur: &mut String, operand: bool, f: &mut dyn FnMut(&str)) {
    if cur.len() == len { if !operand { f(cur); } return; }
    for &c in alpha {
        let next = match (operand, kind_of(decl, c)) {
            (true, None) => false, (true, Some('p')) => true, (false, Some('q')) => false,
            (false, Some('l')) | (false, Some('r')) => true, _ => continue,
        };
        cur.push(c as char);
        wf_strings(decl, alpha, len, cur, next, f);
        cur.pop();
    }
}

const KINDS: [char; 4] = ['p', 'q', 'l', 'r'];

fn random_wf(rng: &mut Rng, decl: &[Vec<OpD>], len_lo: usize, len_hi: usize) -> String {
    let all: Vec<OpD> = decl.iter().flatten().copied().filter(|(r, k)| kind_of(decl, *r) == Some(*k)).collect();
    let pre: Vec<u8> = all.iter().filter(|o| o.1 == 'p').map(|o| o.0).collect();
    let post: Vec<u8> = all.iter().filter(|o| o.1 == 'q').map(|o| o.0).collect();
    let inf: Vec<u8> = all.iter().filter(|o| o.1 == 'l' || o.1 == 'r').map(|o| o.0).collect();
    let target = rng.range(len_lo as u64, len_hi as u64) as usize;
    let mut s = String::new();
    let mut operand = true;
    // per-sequence bias so that long runs of prefixes / postfixes / infix chains all occur
    let bias_pre = rng.range(1, 4); let bias_post = rng.range(1, 4);
    while s.len() < target || operand {
        if operand {
            if !pre.is_empty() && s.len() + 1 < target && rng.chance(bias_pre, 6) { s.push(*rng.pick(&pre) as char); }
            else { s.push(*rng.pick(&[b'x', b'y', b'z']) as char); operand = false; }
        } else if !post.is_empty() && (inf.is_empty() || rng.chance(bias_post, 6)) { s.push(*rng.pick(&post) as char); }
        else if !inf.is_empty() { s.push(*rng.pick(&inf) as char); operand = true; }
        else { break; }
    }
    s
}

fn main() {
    quiet_panics();
    start_watchdog();
    let mode = arg(1);
    let stdout = io::stdout();
    let mut out = Out { w: BufWriter::with_capacity(1 << 20, stdout.lock()), n: 0, nontriv: 0, seen: HashSet::new(), wf: 0, panics: 0, climber_class: 0, const_macro: 0 };
    match mode.as_str() {
        // exh NOPS LEN_ALL LEN_WF SHARD NSHARDS [MINOPS] : every table with MINOPS..NOPS operators (all splits into levels, all
        // affix/assoc choices) x every string of length <= LEN_ALL over its operators + one primary, and every
        // well-formed string of length LEN_ALL+1..=LEN_WF; tables with <= 2 operators also with every maps choice.
        "exh" => {
            let nops = arg_u64(2, 3) as usize; let len_all = arg_u64(3, 4) as usize; let len_wf = arg_u64(4, 6) as usize;
            let shard = arg_u64(5, 0); let nshards = arg_u64(6, 1).max(1); let minops = arg_u64(7, 1) as usize;
            let mut tix: u64 = 0;
            for n in minops..=nops {
                for comp in compositions(n) {
                    let mut kidx = vec![0usize; n];
                    loop {
                        tix += 1;
                        if tix % nshards == shard {
                            let mut decl: Vec<Vec<OpD>> = Vec::new();
                            let mut i = 0;
                            for &k in &comp { decl.push((0..k).map(|j| (b'a' + (i + j) as u8, KINDS[kidx[i + j]])).collect()); i += k; }
                            let mut alpha: Vec<u8> = (0..n).map(|i| b'a' + i as u8).collect();
                            alpha.push(b'x');
                            for len in 0..=len_all { all_strings(&alpha, len, &mut |s| out.table_case("111", &decl, s, false)); }
                            for len in len_all + 1..=len_wf { let mut cur = String::new(); wf_strings(&decl, &alpha, len, &mut cur, true, &mut |s| out.table_case("111", &decl, s, false)); }
                            if n <= 2 {
                                for maps in ["000", "001", "010", "011", "100", "101", "110"] {
                                    for len in 1..=len_all.min(4) { all_strings(&alpha, len, &mut |s| out.table_case(maps, &decl, s, false)); }
                                }
                            }
                        }
                        let mut k = n;
                        let mut done = false;
                        loop {
                            if k == 0 { done = true; break; }
                            k -= 1;
                            kidx[k] += 1;
                            if kidx[k] < 4 { break; }
                            kidx[k] = 0;
                        }
                        if done { break; }
                    }
                }
            }
        }
        // random COUNT SEED MINLEN : larger random tables (<= 6 levels x <= 3 operators, sometimes a rule declared twice,
        // sometimes infix-only with one associativity per level) x mostly well-formed sequences of length MINLEN..40
        "random" => {
            let count = arg_u64(2, 1000);
            let mut rng = Rng::new(arg_u64(3, 0));
            let minlen = arg_u64(4, 8) as usize;
            for _ in 0..count {
                let nlev = rng.range(1, 6) as usize;
                let profile = rng.below(10);   // 0,1: infix-only uniform; 2: infix-only mixed; else anything
                let mut decl: Vec<Vec<OpD>> = Vec::new();
                let mut next = b'a';
                for _ in 0..nlev {
                    let k = rng.range(1, 3) as usize;
                    let lev_assoc = if rng.chance(1, 2) { 'l' } else { 'r' };
                    let mut lv = Vec::new();
                    for _ in 0..k {
                        let kind = match profile { 0 | 1 => lev_assoc, 2 => *rng.pick(&['l', 'r']), _ => KINDS[rng.weighted(&[3, 3, 4, 4])] };
                        let r = if next > b'a' && rng.chance(1, 25) { b'a' + rng.below((next - b'a') as u64) as u8 } else { let r = next; next += 1; r };
                        lv.push((r, kind));
                    }
                    decl.push(lv);
                }
                if rng.chance(1, 20) {
                    // direct new_const with arbitrary flags and the occasional chain
                    let flat: Vec<OpD> = decl.iter().flatten().copied().take(8).collect();
                    let mut entries: Vec<(Vec<OpD>, bool)> = Vec::new();
                    for (i, o) in flat.iter().enumerate() {
                        let flag = if i == 0 { !rng.chance(1, 6) } else { rng.chance(1, 2) };
                        let ch = if rng.chance(1, 12) { vec![*o, (b'w', 'l')] } else { vec![*o] };
                        entries.push((ch, flag));
                    }
                    let d2: Vec<Vec<OpD>> = vec![flat.clone()];
                    let toks = random_wf(&mut rng, &d2, 1, 12);
                    out.const_case("111", &entries, &toks);
                    continue;
                }
                let mut toks = random_wf(&mut rng, &decl, minlen, 40);
                if rng.chance(3, 20) {
                    // ill-formed neighbour: replace / delete / insert one token
                    let mut b: Vec<u8> = toks.bytes().collect();
                    let pos = rng.below(b.len() as u64) as usize;
                    let c = if rng.chance(1, 2) { b'x' } else { b'a' + rng.below((next - b'a').max(1) as u64) as u8 };
                    match rng.below(3) { 0 => b[pos] = c, 1 => { b.remove(pos); } _ => b.insert(pos, c) }
                    toks = String::from_utf8(b).unwrap();
                }
                let maps = if rng.chance(1, 12) { *rng.pick(&["011", "101", "110", "000"]) } else { "111" };
                out.table_case(maps, &decl, &toks, true);
            }
        }
        "one" => { let c = arg(2); out.one(&c); }
        _ => { eprintln!("usage: c13 exh NOPS LEN_ALL LEN_WF SHARD NSHARDS [MINOPS] | random COUNT SEED MINLEN | one CASE"); std::process::exit(2); }
    }
    writeln!(out.w, "#SUMMARY\tevaluations={}\tdistinct_nontrivial={}\twell_formed={}\tpratt_panics={}\tinfix_only_well_formed={}\tconst_via_macro={}",
             out.n, out.nontriv, out.wf, out.panics, out.climber_class, out.const_macro).unwrap();
}
