//! C13: drive the REAL pest::pratt_parser::{PrattParser, ConstPrattParser, pratt_precedence!} and
//! pest::prec_climber::{PrecClimber::new, PrecClimber::new_const, prec_climber!} on operator tables x token
//! sequences, with pairs built through pest::iterators::PairsBuilder (one byte of input per token), and print
//! the tree each one builds as an in-order S-expression.
//!
//! case  `T;<maps>;<decl>;<tokens>`   rules are ASCII letters (R = u16 holding the letter's code)
//!                                    maps  = three 0/1 flags: map_prefix, map_postfix, map_infix supplied
//!                                    decl  = levels joined by ',', a level = ops `<letter><kind>`, kind p|q|l|r
//!                                            (prefix, postfix, infix left, infix right); later level binds tighter
//!                                    tokens= rule letters; a letter that is not in the table is a primary
//!                                    atoms of the trees: `<letter><token index>`
//! case  `W;<maps>;<decl>;<tokens>`   the same with numeric rules (any u16): a level = ops `<number><kind>` joined by
//!                                    '.', tokens = numbers joined by '.', atoms `<number>@<token index>`.
//!                                    Any number of levels (tables with 1..300 levels are generated).
//!   obs `P=<r>;C=<r>;N=<r>;K=<r>;S=<r>;R=<r>;M=<r>`
//!        P PrattParser::new().op(..)..
//!        C ConstPrattParser::new_const(pratt_precedence![..]) - the shape of the invocation is syntactic: every split of
//!          <= 5 operators into levels, one operator per level for 6..=64, 100, 260 and 300 levels, two operators per
//!          level for 3..=40 levels; `-` otherwise
//!        N ConstPrattParser::new_const on a runtime array: exact length up to 40 operators, above that the next of
//!          48, 64, 100, 130, 260, 300, 520 with the LAST entry repeated (same rule, same affix, same level: flag false)
//!        K PrecClimber::new on the infix operators of the declaration (`-` if none); levels without an infix
//!          operator are dropped
//!        S PrecClimber::new_const on the slice PrecClimber::new would build (declaration order, level = index + 1)
//!        R PrecClimber::new_const on that slice in REVERSE order ("Entries don't have to be ordered in any way")
//!        M prec_climber![..] - syntactic, over the harness's `enum Rule`: every infix table with <= 3 operators and one
//!          associativity per level with its operators listed in every order relative to the enum's order, and a few
//!          tables with 26..46 levels; `-` otherwise (T cases only)
//! case  `N;<maps>;<entries>;<tokens>` entries joined by ',': a chain of ops followed by + (new level) or - (same level)
//!   obs `N=<r>`                       ConstPrattParser::new_const with arbitrary flags / chained operators
//! case  `L;<entries>;<tokens>`        entries joined by ',': `<number><l|r><precedence>` in any order, any u32 precedence
//!   obs `S=<r>`                       PrecClimber::new_const on exactly that slice; tokens numeric as in W
//! <r> = S-expression | `!KIND` for a panic (KIND from the panic message).
#![recursion_limit = "2048"]
use pest::iterators::{Pair, Pairs, PairsBuilder};
use pest::pratt_parser::{Assoc, ConstPrattParser, Op, PrattParser};
use pest::pratt_precedence;
use pest::prec_climber;
use pest::prec_climber::{Assoc as CAssoc, Operator, PrecClimber};
use pest::RuleType;
use pvharness::*;
use std::collections::{HashMap, HashSet};
use std::io::{self, BufWriter, Write};
use std::sync::atomic::{AtomicBool, AtomicU64, Ordering};
use std::sync::{Mutex, OnceLock};

// Watchdog: a mutated parser may loop forever inside one API call.  While a call into pest is in
// flight IN_CALL is set; if the case counter does not move for 5 s the watchdog reports the case
// as a MISMATCH line (kind spec if the property speaks about it, else model) and ends the process.
static IN_CALL: AtomicBool = AtomicBool::new(false);
static PROGRESS: AtomicU64 = AtomicU64::new(0);
static CURRENT: Mutex<(String, bool)> = Mutex::new((String::new(), false));
fn enter_case(case: &str, property_speaks: bool) {
    { let mut c = CURRENT.lock().unwrap(); c.0.clear(); c.0.push_str(case); c.1 = property_speaks; }
    PROGRESS.fetch_add(1, Ordering::SeqCst);
    IN_CALL.store(true, Ordering::SeqCst);
}
fn leave_case() { IN_CALL.store(false, Ordering::SeqCst); }
fn start_watchdog() {
    std::thread::spawn(|| {
        let mut last = u64::MAX;
        let mut stalled = 0;
        loop {
            std::thread::sleep(std::time::Duration::from_millis(500));
            let p = PROGRESS.load(Ordering::SeqCst);
            if IN_CALL.load(Ordering::SeqCst) && p == last { stalled += 1; } else { stalled = 0; }
            last = p;
            if stalled >= 10 {
                let c = CURRENT.lock().unwrap();
                eprintln!("MISMATCH\t{}\t{}\tHANG (no return from the parser within 5 s)\ttermination", if c.1 { "spec" } else { "model" }, c.0);
                std::process::exit(3);
            }
        }
    });
}

type R = u16;
type OpD = (R, char);

/// numeric atoms (W / L cases) or letter atoms (T / N cases)
static WIDE: AtomicBool = AtomicBool::new(false);

#[allow(non_snake_case)]
mod K {
    use super::*;
    /// the two-segment constructor call that `pratt_precedence!` accepts
    pub const fn o(x: OpD) -> Op<R> {
        match x.1 {
            'p' => Op::prefix(x.0),
            'q' => Op::postfix(x.0),
            'l' => Op::infix(x.0, Assoc::Left),
            _ => Op::infix(x.0, Assoc::Right),
        }
    }
}

fn atom(p: &Pair<R>) -> String {
    if WIDE.load(Ordering::Relaxed) { format!("{}@{}", p.as_rule(), p.as_span().start()) }
    else { format!("{}{}", p.as_rule() as u8 as char, p.as_span().start()) }
}

fn panic_kind(msg: &str) -> String {
    let k = if msg.starts_with("Pratt parsing expects non-empty Pairs") { "EMPTY" }
    else if msg.starts_with("precedence climbing requires a non-empty Pairs") { "EMPTY" }
    else if msg.starts_with("Expected prefix or primary expression") { "NUD" }
    else if msg.starts_with("Expected postfix or infix expression") { "LED" }
    else if msg.starts_with("Expected operator") { "LBP" }
    else if msg.starts_with("Could not map") { "NOMAP" }
    else if msg.contains("attempt to subtract with overflow") { "SUB" }
    else if msg.contains("called `Option::unwrap()` on a `None` value") { "UNWRAP" }
    else if msg.starts_with("infix operator must be followed by a primary expression") { "EXPECT" }
    else if msg.starts_with("the first operator must start a new precedence level") { "CFIRST" }
    else if msg.starts_with("chained operators") { "CCHAIN" }
    else { return format!("!OTHER:{}", esc(msg)); };
    format!("!{}", k)
}

/// one byte of `input` per token; the rule of a token is independent of the byte under it
fn pairs_of<'i, T: RuleType>(input: &'i str, toks: &[T]) -> Pairs<'i, T> {
    let mut b = PairsBuilder::new(input);
    for (i, c) in toks.iter().enumerate() { b = b.rule(*c, i, i + 1); }
    b.build()
}

/// the input text under the tokens (T: the token letters themselves, W: a run of 'x')
fn input_of(toks: &[R]) -> String {
    if WIDE.load(Ordering::Relaxed) { "x".repeat(toks.len()) } else { toks.iter().map(|c| *c as u8 as char).collect() }
}

/// works for PrattParser and ConstPrattParser alike (map_primary is an inherent method of each)
macro_rules! run_map {
    ($pratt:expr, $m:expr, $tokens:expr) => {{
        let pratt = &$pratt;
        let m: (bool, bool, bool) = $m;
        let tokens: &[R] = $tokens;
        let input = input_of(tokens);
        match catch(|| {
            let mut pm = pratt.map_primary(|p: Pair<R>| atom(&p));
            if m.0 { pm = pm.map_prefix(|op: Pair<R>, rhs: String| format!("({} {})", atom(&op), rhs)); }
            if m.1 { pm = pm.map_postfix(|lhs: String, op: Pair<R>| format!("({} {})", lhs, atom(&op))); }
            if m.2 { pm = pm.map_infix(|lhs: String, op: Pair<R>, rhs: String| format!("({} {} {})", lhs, atom(&op), rhs)); }
            pm.parse(pairs_of(&input, tokens))
        }) { Ok(s) => s, Err(e) => panic_kind(&e) }
    }};
}

#[inline(never)]
fn run_builder_from(start: PrattParser<R>, decl: &[Vec<OpD>], m: (bool, bool, bool), tokens: &[R]) -> String {
    let mut pratt = start;
    for lv in decl {
        let mut it = lv.iter();
        let mut op = K::o(*it.next().unwrap());
        for o in it { op = op | K::o(*o); }
        pratt = pratt.op(op);
    }
    run_map!(pratt, m, tokens)
}
/// both public ways of starting a table: PrattParser::new() and PrattParser::default()
fn run_builder(decl: &[Vec<OpD>], m: (bool, bool, bool), tokens: &[R]) -> String {
    let a = run_builder_from(PrattParser::new(), decl, m, tokens);
    let b = run_builder_from(PrattParser::default(), decl, m, tokens);
    if a == b { a } else { format!("!new-and-default-differ new={} default={}", a, b) }
}

/// `pratt_precedence![K::o(v[0]), K::o(v[1]), ..]` with one operator per level, for the prefix lengths marked with `!`
macro_rules! pp_singles {
    ($n:expr, $v:ident, $wc:ident; [$($d:tt)*]) => { None };
    ($n:expr, $v:ident, $wc:ident; [$($d:tt)*] ! $($rest:tt)*) => {
        if $n == [$(stringify!($d)),*].len() { Some($wc!(ConstPrattParser::new_const(pratt_precedence![$(K::o($v[$d])),*]))) }
        else { pp_singles!($n, $v, $wc; [$($d)*] $($rest)*) }
    };
    ($n:expr, $v:ident, $wc:ident; [$($d:tt)*] $next:tt $($rest:tt)*) => { pp_singles!($n, $v, $wc; [$($d)* $next] $($rest)*) };
}
/// `pratt_precedence![K::o(v[0]) | K::o(v[1]), K::o(v[2]) | K::o(v[3]), ..]` with two operators per level
macro_rules! pp_doubles {
    ($n:expr, $v:ident, $wc:ident; [$($d:tt)*]) => { None };
    ($n:expr, $v:ident, $wc:ident; [$(($a:tt $b:tt))*] ! $($rest:tt)*) => {
        if $n == [$(stringify!($a)),*].len() { Some($wc!(ConstPrattParser::new_const(pratt_precedence![$(K::o($v[$a]) | K::o($v[$b])),*]))) }
        else { pp_doubles!($n, $v, $wc; [$(($a $b))*] $($rest)*) }
    };
    ($n:expr, $v:ident, $wc:ident; [$($d:tt)*] $next:tt $($rest:tt)*) => { pp_doubles!($n, $v, $wc; [$($d)* $next] $($rest)*) };
}

/// ConstPrattParser through pratt_precedence! - the shape of the invocation is syntactic, so a fixed family.
fn run_const_macro(decl: &[Vec<OpD>], m: (bool, bool, bool), tokens: &[R]) -> String {
    let shape: Vec<usize> = decl.iter().map(|l| l.len()).collect();
    let v: Vec<OpD> = decl.iter().flatten().copied().collect();
    macro_rules! with_const { ($e:expr) => {{ let c = $e; run_map!(c, m, tokens) }}; }
    if v.len() > 5 {
        let nl = shape.len();
        if shape.iter().all(|k| *k == 1) {
            let r: Option<String> = pp_singles!(nl, v, with_const; [] 0 1 2 3 4 5 ! 6 ! 7 ! 8 ! 9 ! 10 ! 11 ! 12 ! 13 ! 14 ! 15 ! 16 ! 17 ! 18 ! 19 ! 20 ! 21 ! 22 ! 23 ! 24 ! 25 ! 26 ! 27 ! 28 ! 29 ! 30 ! 31 ! 32 ! 33 ! 34 ! 35 ! 36 ! 37 ! 38 ! 39 ! 40 ! 41 ! 42 ! 43 ! 44 ! 45 ! 46 ! 47 ! 48 ! 49 ! 50 ! 51 ! 52 ! 53 ! 54 ! 55 ! 56 ! 57 ! 58 ! 59 ! 60 ! 61 ! 62 ! 63 ! 64 65 66 67 68 69 70 71 72 73 74 75 76 77 78 79 80 81 82 83 84 85 86 87 88 89 90 91 92 93 94 95 96 97 98 99 ! 100 101 102 103 104 105 106 107 108 109 110 111 112 113 114 115 116 117 118 119 120 121 122 123 124 125 126 127 128 129 130 131 132 133 134 135 136 137 138 139 140 141 142 143 144 145 146 147 148 149 150 151 152 153 154 155 156 157 158 159 160 161 162 163 164 165 166 167 168 169 170 171 172 173 174 175 176 177 178 179 180 181 182 183 184 185 186 187 188 189 190 191 192 193 194 195 196 197 198 199 200 201 202 203 204 205 206 207 208 209 210 211 212 213 214 215 216 217 218 219 220 221 222 223 224 225 226 227 228 229 230 231 232 233 234 235 236 237 238 239 240 241 242 243 244 245 246 247 248 249 250 251 252 253 254 255 256 257 258 259 ! 260 261 262 263 264 265 266 267 268 269 270 271 272 273 274 275 276 277 278 279 280 281 282 283 284 285 286 287 288 289 290 291 292 293 294 295 296 297 298 299 !);
            return r.unwrap_or_else(|| "-".to_string());
        }
        if shape.iter().all(|k| *k == 2) {
            let r: Option<String> = pp_doubles!(nl, v, with_const; [] (0 1) (2 3) (4 5) ! (6 7) ! (8 9) ! (10 11) ! (12 13) ! (14 15) ! (16 17) ! (18 19) ! (20 21) ! (22 23) ! (24 25) ! (26 27) ! (28 29) ! (30 31) ! (32 33) ! (34 35) ! (36 37) ! (38 39) ! (40 41) ! (42 43) ! (44 45) ! (46 47) ! (48 49) ! (50 51) ! (52 53) ! (54 55) ! (56 57) ! (58 59) ! (60 61) ! (62 63) ! (64 65) ! (66 67) ! (68 69) ! (70 71) ! (72 73) ! (74 75) ! (76 77) ! (78 79) !);
            return r.unwrap_or_else(|| "-".to_string());
        }
        return "-".to_string();
    }
    match shape.as_slice() {
        [1] => with_const!(ConstPrattParser::new_const(pratt_precedence![K::o(v[0])])),
        [1, 1] => with_const!(ConstPrattParser::new_const(pratt_precedence![K::o(v[0]), K::o(v[1])])),
        [2] => with_const!(ConstPrattParser::new_const(pratt_precedence![K::o(v[0]) | K::o(v[1])])),
        [1, 1, 1] => with_const!(ConstPrattParser::new_const(pratt_precedence![K::o(v[0]), K::o(v[1]), K::o(v[2])])),
        [1, 2] => with_const!(ConstPrattParser::new_const(pratt_precedence![K::o(v[0]), K::o(v[1]) | K::o(v[2])])),
        [2, 1] => with_const!(ConstPrattParser::new_const(pratt_precedence![K::o(v[0]) | K::o(v[1]), K::o(v[2])])),
        [3] => with_const!(ConstPrattParser::new_const(pratt_precedence![K::o(v[0]) | K::o(v[1]) | K::o(v[2])])),
        [1, 1, 1, 1] => with_const!(ConstPrattParser::new_const(pratt_precedence![K::o(v[0]), K::o(v[1]), K::o(v[2]), K::o(v[3])])),
        [1, 1, 2] => with_const!(ConstPrattParser::new_const(pratt_precedence![K::o(v[0]), K::o(v[1]), K::o(v[2]) | K::o(v[3])])),
        [1, 2, 1] => with_const!(ConstPrattParser::new_const(pratt_precedence![K::o(v[0]), K::o(v[1]) | K::o(v[2]), K::o(v[3])])),
        [1, 3] => with_const!(ConstPrattParser::new_const(pratt_precedence![K::o(v[0]), K::o(v[1]) | K::o(v[2]) | K::o(v[3])])),
        [2, 1, 1] => with_const!(ConstPrattParser::new_const(pratt_precedence![K::o(v[0]) | K::o(v[1]), K::o(v[2]), K::o(v[3])])),
        [2, 2] => with_const!(ConstPrattParser::new_const(pratt_precedence![K::o(v[0]) | K::o(v[1]), K::o(v[2]) | K::o(v[3])])),
        [3, 1] => with_const!(ConstPrattParser::new_const(pratt_precedence![K::o(v[0]) | K::o(v[1]) | K::o(v[2]), K::o(v[3])])),
        [4] => with_const!(ConstPrattParser::new_const(pratt_precedence![K::o(v[0]) | K::o(v[1]) | K::o(v[2]) | K::o(v[3])])),
        [1, 1, 1, 1, 1] => with_const!(ConstPrattParser::new_const(pratt_precedence![K::o(v[0]), K::o(v[1]), K::o(v[2]), K::o(v[3]), K::o(v[4])])),
        [1, 1, 1, 2] => with_const!(ConstPrattParser::new_const(pratt_precedence![K::o(v[0]), K::o(v[1]), K::o(v[2]), K::o(v[3]) | K::o(v[4])])),
        [1, 1, 2, 1] => with_const!(ConstPrattParser::new_const(pratt_precedence![K::o(v[0]), K::o(v[1]), K::o(v[2]) | K::o(v[3]), K::o(v[4])])),
        [1, 1, 3] => with_const!(ConstPrattParser::new_const(pratt_precedence![K::o(v[0]), K::o(v[1]), K::o(v[2]) | K::o(v[3]) | K::o(v[4])])),
        [1, 2, 1, 1] => with_const!(ConstPrattParser::new_const(pratt_precedence![K::o(v[0]), K::o(v[1]) | K::o(v[2]), K::o(v[3]), K::o(v[4])])),
        [1, 2, 2] => with_const!(ConstPrattParser::new_const(pratt_precedence![K::o(v[0]), K::o(v[1]) | K::o(v[2]), K::o(v[3]) | K::o(v[4])])),
        [1, 3, 1] => with_const!(ConstPrattParser::new_const(pratt_precedence![K::o(v[0]), K::o(v[1]) | K::o(v[2]) | K::o(v[3]), K::o(v[4])])),
        [1, 4] => with_const!(ConstPrattParser::new_const(pratt_precedence![K::o(v[0]), K::o(v[1]) | K::o(v[2]) | K::o(v[3]) | K::o(v[4])])),
        [2, 1, 1, 1] => with_const!(ConstPrattParser::new_const(pratt_precedence![K::o(v[0]) | K::o(v[1]), K::o(v[2]), K::o(v[3]), K::o(v[4])])),
        [2, 1, 2] => with_const!(ConstPrattParser::new_const(pratt_precedence![K::o(v[0]) | K::o(v[1]), K::o(v[2]), K::o(v[3]) | K::o(v[4])])),
        [2, 2, 1] => with_const!(ConstPrattParser::new_const(pratt_precedence![K::o(v[0]) | K::o(v[1]), K::o(v[2]) | K::o(v[3]), K::o(v[4])])),
        [2, 3] => with_const!(ConstPrattParser::new_const(pratt_precedence![K::o(v[0]) | K::o(v[1]), K::o(v[2]) | K::o(v[3]) | K::o(v[4])])),
        [3, 1, 1] => with_const!(ConstPrattParser::new_const(pratt_precedence![K::o(v[0]) | K::o(v[1]) | K::o(v[2]), K::o(v[3]), K::o(v[4])])),
        [3, 2] => with_const!(ConstPrattParser::new_const(pratt_precedence![K::o(v[0]) | K::o(v[1]) | K::o(v[2]), K::o(v[3]) | K::o(v[4])])),
        [4, 1] => with_const!(ConstPrattParser::new_const(pratt_precedence![K::o(v[0]) | K::o(v[1]) | K::o(v[2]) | K::o(v[3]), K::o(v[4])])),
        [5] => with_const!(ConstPrattParser::new_const(pratt_precedence![K::o(v[0]) | K::o(v[1]) | K::o(v[2]) | K::o(v[3]) | K::o(v[4])])),
        _ => "-".to_string(),
    }
}

/// array length used for a runtime table with `n` entries (0 = not driven)
fn padded_len(n: usize) -> usize {
    if n <= 40 { return n; }
    for s in [48usize, 64, 100, 130, 260, 300, 520] { if n <= s { return s; } }
    0
}

/// ConstPrattParser::new_const on a runtime array: entries = (chain, starts a new level)
fn run_const_array(entries: &[(Vec<OpD>, bool)], m: (bool, bool, bool), tokens: &[R]) -> String {
    fn mk(entries: &[(Vec<OpD>, bool)], len: usize) -> Vec<(Op<R>, bool)> {
        let one = |(ch, f): &(Vec<OpD>, bool)| {
            let mut it = ch.iter();
            let mut op = K::o(*it.next().unwrap());
            for o in it { op = op | K::o(*o); }
            (op, *f)
        };
        let mut v: Vec<(Op<R>, bool)> = entries.iter().map(one).collect();
        // padding: the last entry again, on the same level
        while v.len() < len { let mut e = one(entries.last().unwrap()); e.1 = false; v.push(e); }
        v
    }
    macro_rules! sized { ($n:literal) => {{
        match catch(|| { let a: [(Op<R>, bool); $n] = mk(entries, $n).try_into().ok().unwrap(); ConstPrattParser::<R, $n>::new_const(a) }) {
            Ok(c) => run_map!(c, m, tokens),
            Err(e) => panic_kind(&e),
        }
    }}; }
    macro_rules! sized_match { ($len:expr; $($n:literal)*) => { match $len { $( $n => sized!($n), )* _ => "-".to_string() } }; }
    if entries.is_empty() { return "-".to_string(); }
    sized_match!(padded_len(entries.len());
        1 2 3 4 5 6 7 8 9 10 11 12 13 14 15 16 17 18 19 20 21 22 23 24 25 26 27 28 29 30 31 32 33 34 35 36 37 38 39 40
        48 64 100 130 260 300 520)
}

/// the vector PrecClimber::new is given: infix operators only, levels without one dropped
fn climber_levels(decl: &[Vec<OpD>]) -> Vec<Vec<(R, CAssoc)>> {
    let mut out = Vec::new();
    for lv in decl {
        let l: Vec<(R, CAssoc)> = lv.iter().filter_map(|(r, k)| match k { 'l' => Some((*r, CAssoc::Left)), 'r' => Some((*r, CAssoc::Right)), _ => None }).collect();
        if !l.is_empty() { out.push(l); }
    }
    out
}

fn climb_with<T: RuleType>(climber: &PrecClimber<T>, input: &str, toks: &[T], atom: &dyn Fn(&Pair<T>) -> String) -> String {
    match catch(|| climber.climb(pairs_of(input, toks), |p: Pair<T>| atom(&p),
                                 |l: String, op: Pair<T>, r: String| format!("({} {} {})", l, atom(&op), r))) {
        Ok(s) => s, Err(e) => panic_kind(&e),
    }
}

/// K, S, R
fn run_climbers(decl: &[Vec<OpD>], tokens: &[R]) -> (String, String, String) {
    let levels = climber_levels(decl);
    if levels.is_empty() { return ("-".to_string(), "-".to_string(), "-".to_string()); }
    let input = input_of(tokens);
    let mut ops: Vec<Operator<R>> = Vec::new();
    let mut slice: Vec<(R, u32, CAssoc)> = Vec::new();
    for (i, lv) in levels.iter().enumerate() {
        let mut cur: Option<Operator<R>> = None;
        for (r, a) in lv {
            let o = Operator::new(*r, *a);
            cur = Some(match cur { None => o, Some(c) => c | o });
            slice.push((*r, i as u32 + 1, *a));
        }
        ops.push(cur.unwrap());
    }
    let k = climb_with(&PrecClimber::new(ops), &input, tokens, &atom);
    let s = run_climber_slice(slice.clone(), &input, tokens);
    slice.reverse();
    let r = run_climber_slice(slice, &input, tokens);
    (k, s, r)
}

/// PrecClimber::new_const wants a &'static slice: the table is leaked (a few bytes per case)
fn run_climber_slice(slice: Vec<(R, u32, CAssoc)>, input: &str, tokens: &[R]) -> String {
    let st: &'static [(R, u32, CAssoc)] = Box::leak(slice.into_boxed_slice());
    let climber: PrecClimber<R> = PrecClimber::new_const(st);
    climb_with(&climber, input, tokens, &atom)
}

// ---------------------------------------------------------------------------------------------
// prec_climber! : the macro wants an enum called `Rule` and rule identifiers; the family of
// invocations is fixed text (generated: see the comment in front of the list).
// ---------------------------------------------------------------------------------------------
macro_rules! rules_enum { ($($v:ident)*) => {
    #[allow(non_camel_case_types)]
    #[derive(Clone, Copy, Debug, Eq, Hash, Ord, PartialEq, PartialOrd)]
    enum Rule { $($v),* }
    const ALL_RULES: &[Rule] = &[$(Rule::$v),*];
    const RULE_NAMES: &[&str] = &[$(stringify!($v)),*];
}; }
rules_enum!(a b c d e f g h i j k l m n o p q r s t u v w x y z A B C D E F G H I J K L M N O P Q R S T U V W X Y Z);
fn rule_letter(rule: Rule) -> u8 { RULE_NAMES[rule as usize].as_bytes()[0] }
fn rule_of_letter(c: R) -> Option<Rule> { ALL_RULES.iter().copied().find(|rule| rule_letter(*rule) as R == c) }

/// "L a | b, R c" -> "albl,cr"
fn canon_macro(src: &str) -> String {
    src.split(',').filter(|l| !l.trim().is_empty()).map(|level| {
        let mut words = level.split(|c: char| c.is_whitespace() || c == '|').filter(|w| !w.is_empty());
        let a = if words.next() == Some("L") { 'l' } else { 'r' };
        words.map(|w| format!("{}{}", w, a)).collect::<String>()
    }).collect::<Vec<_>>().join(",")
}
macro_rules! climber_family { ($( [ $($t:tt)* ] )*) => {
    fn macro_family_list() -> Vec<(String, PrecClimber<Rule>)> {
        vec![ $( (canon_macro(stringify!($($t)*)), prec_climber![$($t)*]) ),* ]
    }
}; }
// every table with <= 3 infix operators and one associativity per level x every assignment of the
// letters a, b, c to its operators (= every listing order relative to the enum), then tables with 26..46 levels
climber_family! {
    [L a]
    [R a]
    [L a, L b]
    [L b, L a]
    [L a, R b]
    [L b, R a]
    [R a, L b]
    [R b, L a]
    [R a, R b]
    [R b, R a]
    [L a | b]
    [L b | a]
    [R a | b]
    [R b | a]
    [L a, L b, L c]
    [L a, L c, L b]
    [L b, L a, L c]
    [L b, L c, L a]
    [L c, L a, L b]
    [L c, L b, L a]
    [L a, L b, R c]
    [L a, L c, R b]
    [L b, L a, R c]
    [L b, L c, R a]
    [L c, L a, R b]
    [L c, L b, R a]
    [L a, R b, L c]
    [L a, R c, L b]
    [L b, R a, L c]
    [L b, R c, L a]
    [L c, R a, L b]
    [L c, R b, L a]
    [L a, R b, R c]
    [L a, R c, R b]
    [L b, R a, R c]
    [L b, R c, R a]
    [L c, R a, R b]
    [L c, R b, R a]
    [R a, L b, L c]
    [R a, L c, L b]
    [R b, L a, L c]
    [R b, L c, L a]
    [R c, L a, L b]
    [R c, L b, L a]
    [R a, L b, R c]
    [R a, L c, R b]
    [R b, L a, R c]
    [R b, L c, R a]
    [R c, L a, R b]
    [R c, L b, R a]
    [R a, R b, L c]
    [R a, R c, L b]
    [R b, R a, L c]
    [R b, R c, L a]
    [R c, R a, L b]
    [R c, R b, L a]
    [R a, R b, R c]
    [R a, R c, R b]
    [R b, R a, R c]
    [R b, R c, R a]
    [R c, R a, R b]
    [R c, R b, R a]
    [L a, L b | c]
    [L a, L c | b]
    [L b, L a | c]
    [L b, L c | a]
    [L c, L a | b]
    [L c, L b | a]
    [L a, R b | c]
    [L a, R c | b]
    [L b, R a | c]
    [L b, R c | a]
    [L c, R a | b]
    [L c, R b | a]
    [R a, L b | c]
    [R a, L c | b]
    [R b, L a | c]
    [R b, L c | a]
    [R c, L a | b]
    [R c, L b | a]
    [R a, R b | c]
    [R a, R c | b]
    [R b, R a | c]
    [R b, R c | a]
    [R c, R a | b]
    [R c, R b | a]
    [L a | b, L c]
    [L a | c, L b]
    [L b | a, L c]
    [L b | c, L a]
    [L c | a, L b]
    [L c | b, L a]
    [L a | b, R c]
    [L a | c, R b]
    [L b | a, R c]
    [L b | c, R a]
    [L c | a, R b]
    [L c | b, R a]
    [R a | b, L c]
    [R a | c, L b]
    [R b | a, L c]
    [R b | c, L a]
    [R c | a, L b]
    [R c | b, L a]
    [R a | b, R c]
    [R a | c, R b]
    [R b | a, R c]
    [R b | c, R a]
    [R c | a, R b]
    [R c | b, R a]
    [L a | b | c]
    [L a | c | b]
    [L b | a | c]
    [L b | c | a]
    [L c | a | b]
    [L c | b | a]
    [R a | b | c]
    [R a | c | b]
    [R b | a | c]
    [R b | c | a]
    [R c | a | b]
    [R c | b | a]
    [L a, L b, L c, L d, L e, L f, L g, L h, L i, L j, L k, L l, L m, L n, L o, L p, L q, L r, L s, L t, L u, L v, L w, L A, L B, L C, L D, L E, L F, L G]
    [L G, L F, L E, L D, L C, L B, L A, L w, L v, L u, L t, L s, L r, L q, L p, L o, L n, L m, L l, L k, L j, L i, L h, L g, L f, L e, L d, L c, L b, L a]
    [L r, R m, R o, R B, L k, R q, R n, L c, R g, R a, R p, R l, R d, L C, R b, R s, R w, L t, R e, R h, L u, R f, L A, L v, R j, R i]
    [L g, R v, R U, L k, R w, L D, L j, L c, L V, L s, L d, R X, L F, R t, R l, L B, L f, L J, R E, L P, R W, R h, R b, L H, R K, R a, L M, L o, R Y, R u, L n, R e, R T, L Z, L m, R S, L p, R N, L I, L O, R i, R C, L r, R Q, R q, L G, R A]
    [R l | X | h, R i, L D | A, R I, L H, L S, L T, R t | d | J, R M, L O | v, L N, R K, R V, L q, L F, R b | k, L m | r, R Z | o, R g, L j, L B, R Y, R a, L Q | e | f, L G | C, L u, R c | W, R w | U | n]
}
fn macro_family() -> &'static (Vec<String>, HashMap<String, PrecClimber<Rule>>) {
    static F: OnceLock<(Vec<String>, HashMap<String, PrecClimber<Rule>>)> = OnceLock::new();
    F.get_or_init(|| {
        let l = macro_family_list();
        (l.iter().map(|x| x.0.clone()).collect(), l.into_iter().collect())
    })
}
fn run_climber_macro(decl: &[Vec<OpD>], tokens: &[R]) -> String {
    if WIDE.load(Ordering::Relaxed) { return "-".to_string(); }
    let Some(climber) = macro_family().1.get(&show_decl(decl, false)) else { return "-".to_string() };
    let Some(toks) = tokens.iter().map(|c| rule_of_letter(*c)).collect::<Option<Vec<Rule>>>() else { return "-".to_string() };
    let input = input_of(tokens);
    climb_with(climber, &input, &toks, &|p: &Pair<Rule>| format!("{}{}", rule_letter(p.as_rule()) as char, p.as_span().start()))
}

// ---------------------------------------------------------------------------------------------
// case syntax
// ---------------------------------------------------------------------------------------------
fn parse_ops(s: &str) -> Vec<OpD> {
    let b = s.as_bytes();
    let mut v = Vec::new();
    let mut i = 0;
    while i + 1 < b.len() { v.push((b[i] as R, b[i + 1] as char)); i += 2; }
    v
}
fn parse_wide_op(s: &str) -> Option<OpD> {
    if s.len() < 2 { return None; }
    let (n, k) = s.split_at(s.len() - 1);
    Some((n.parse().ok()?, k.chars().next()?))
}
fn parse_wide_decl(s: &str) -> Vec<Vec<OpD>> {
    s.split(',').filter(|l| !l.is_empty()).map(|l| l.split('.').filter_map(parse_wide_op).collect::<Vec<_>>()).filter(|l: &Vec<OpD>| !l.is_empty()).collect()
}
fn parse_wide_tokens(s: &str) -> Vec<R> { s.split('.').filter_map(|t| t.parse().ok()).collect() }
fn parse_maps(s: &str) -> (bool, bool, bool) {
    let b = s.as_bytes();
    (b.get(0) == Some(&b'1'), b.get(1) == Some(&b'1'), b.get(2) == Some(&b'1'))
}
fn show_decl(decl: &[Vec<OpD>], wide: bool) -> String {
    if wide { decl.iter().map(|l| l.iter().map(|(r, k)| format!("{}{}", r, k)).collect::<Vec<_>>().join(".")).collect::<Vec<_>>().join(",") }
    else { decl.iter().map(|l| l.iter().map(|(r, k)| format!("{}{}", *r as u8 as char, k)).collect::<String>()).collect::<Vec<_>>().join(",") }
}
fn show_tokens(toks: &[R], wide: bool) -> String {
    if wide { toks.iter().map(|t| t.to_string()).collect::<Vec<_>>().join(".") } else { toks.iter().map(|c| *c as u8 as char).collect() }
}
fn is_letter(r: R) -> bool { r < 128 && (r as u8).is_ascii_alphabetic() }

/// classification used only for generating well-formed sequences and counting non-trivial cases
/// (last declaration of a rule wins, as in the code)
fn kind_of(decl: &[Vec<OpD>], r: R) -> Option<char> {
    let mut k = None;
    for lv in decl { for (r2, k2) in lv { if *r2 == r { k = Some(*k2); } } }
    k
}
fn kind_map(decl: &[Vec<OpD>]) -> HashMap<R, char> {
    let mut m = HashMap::new();
    for lv in decl { for (r, k) in lv { m.insert(*r, *k); } }
    m
}
fn is_wf(decl: &[Vec<OpD>], tokens: &[R]) -> bool {
    let km = kind_map(decl);
    let mut operand = true;
    for c in tokens {
        match (operand, km.get(c).copied()) {
            (true, None) => operand = false,
            (true, Some('p')) => {}
            (false, Some('q')) => {}
            (false, Some('l')) | (false, Some('r')) => operand = true,
            _ => return false,
        }
    }
    !operand
}

struct Out<'a> { w: BufWriter<io::StdoutLock<'a>>, n: u64, nontriv: u64, seen: HashSet<String>, wf: u64, panics: u64, climber_class: u64, const_macro: u64,
                 many_levels: u64, climber_macro: u64, lv65: u64, lv256: u64 }
impl<'a> Out<'a> {
    fn table_case(&mut self, wide: bool, maps: &str, decl: &[Vec<OpD>], tokens: &[R], dedup: bool) {
        WIDE.store(wide, Ordering::Relaxed);
        let m = parse_maps(maps);
        let case = format!("{};{};{};{}", if wide { "W" } else { "T" }, maps, show_decl(decl, wide), show_tokens(tokens, wide));
        let wf = is_wf(decl, tokens);
        enter_case(&case, m == (true, true, true) && wf);
        let p = run_builder(decl, m, tokens);
        let c = run_const_macro(decl, m, tokens);
        let entries: Vec<(Vec<OpD>, bool)> = decl.iter().flat_map(|l| l.iter().enumerate().map(|(i, o)| (vec![*o], i == 0))).collect();
        let n = run_const_array(&entries, m, tokens);
        let (k, s, r) = run_climbers(decl, tokens);
        let mm = run_climber_macro(decl, tokens);
        leave_case();
        self.n += 1;
        // non-trivial: a well-formed sequence with at least two operators (so that grouping is decided
        // by the binding powers) that the real PrattParser turned into a tree
        let km = kind_map(decl);
        let nops = tokens.iter().filter(|c| km.contains_key(c)).count();
        if wf { self.wf += 1; }
        if p.starts_with('!') { self.panics += 1; }
        if c != "-" { self.const_macro += 1; }
        if mm != "-" { self.climber_macro += 1; }
        if decl.len() >= 26 && wf { self.many_levels += 1; }
        if decl.len() >= 65 { self.lv65 += 1; }
        if decl.len() > 256 { self.lv256 += 1; }
        if wf && k != "-" && decl.iter().flatten().all(|o| o.1 == 'l' || o.1 == 'r') { self.climber_class += 1; }
        if nops >= 2 && !p.starts_with('!') && wf && (!dedup || self.seen.insert(case.clone())) { self.nontriv += 1; }
        writeln!(self.w, "{}\tP={};C={};N={};K={};S={};R={};M={}", case, p, c, n, k, s, r, mm).unwrap();
    }
    /// T when every rule is an ASCII letter, W otherwise
    fn auto_case(&mut self, maps: &str, decl: &[Vec<OpD>], tokens: &[R], dedup: bool) {
        let wide = !(decl.iter().flatten().all(|o| is_letter(o.0)) && tokens.iter().all(|t| is_letter(*t)));
        self.table_case(wide, maps, decl, tokens, dedup);
    }
    fn const_case(&mut self, maps: &str, entries: &[(Vec<OpD>, bool)], tokens: &[R]) {
        WIDE.store(false, Ordering::Relaxed);
        let m = parse_maps(maps);
        let e = entries.iter().map(|(ch, f)| format!("{}{}", show_decl(&[ch.clone()], false), if *f { '+' } else { '-' })).collect::<Vec<_>>().join(",");
        let case = format!("N;{};{};{}", maps, e, show_tokens(tokens, false));
        enter_case(&case, false);
        let n = if entries.len() <= 8 { run_const_array(entries, m, tokens) } else { "-".to_string() };
        leave_case();
        self.n += 1;
        writeln!(self.w, "{}\tN={}", case, n).unwrap();
    }
    fn slice_case(&mut self, entries: &[(R, char, u32)], tokens: &[R]) {
        WIDE.store(true, Ordering::Relaxed);
        let e = entries.iter().map(|(r, a, p)| format!("{}{}{}", r, a, p)).collect::<Vec<_>>().join(",");
        let case = format!("L;{};{}", e, show_tokens(tokens, true));
        enter_case(&case, false);
        let s = if entries.is_empty() { "-".to_string() } else {
            let slice: Vec<(R, u32, CAssoc)> = entries.iter().map(|(r, a, p)| (*r, *p, if *a == 'l' { CAssoc::Left } else { CAssoc::Right })).collect();
            run_climber_slice(slice, &input_of(tokens), tokens)
        };
        leave_case();
        self.n += 1;
        writeln!(self.w, "{}\tS={}", case, s).unwrap();
    }
    fn one(&mut self, case: &str) {
        let f: Vec<&str> = case.split(';').collect();
        match (f[0], f.len()) {
            ("T", 4) => {
                let decl: Vec<Vec<OpD>> = f[2].split(',').filter(|s| !s.is_empty()).map(parse_ops).collect();
                let toks: Vec<R> = f[3].bytes().map(|b| b as R).collect();
                self.table_case(false, f[1], &decl, &toks, false);
            }
            ("W", 4) => { self.table_case(true, f[1], &parse_wide_decl(f[2]), &parse_wide_tokens(f[3]), false); }
            ("N", 4) => {
                let entries: Vec<(Vec<OpD>, bool)> = f[2].split(',').filter(|s| s.len() >= 3)
                    .map(|s| (parse_ops(&s[..s.len() - 1]), s.ends_with('+'))).collect();
                let toks: Vec<R> = f[3].bytes().map(|b| b as R).collect();
                self.const_case(f[1], &entries, &toks);
            }
            ("L", 3) => {
                let entries: Vec<(R, char, u32)> = f[1].split(',').filter_map(|s| {
                    let i = s.find(|c| c == 'l' || c == 'r')?;
                    Some((s[..i].parse().ok()?, s[i..].chars().next()?, s[i + 1..].parse().ok()?))
                }).collect();
                self.slice_case(&entries, &parse_wide_tokens(f[2]));
            }
            _ => { writeln!(self.w, "{}\tBADCASE", case).unwrap(); }
        }
    }
}

fn compositions(n: usize) -> Vec<Vec<usize>> {
    if n == 0 { return vec![vec![]]; }
    let mut out = Vec::new();
    for k in 1..=n { for mut rest in compositions(n - k) { let mut c = vec![k]; c.append(&mut rest); out.push(c); } }
    out
}

/// all strings over `alpha` of length exactly `len`
fn all_strings(alpha: &[R], len: usize, f: &mut dyn FnMut(&[R])) {
    let mut idx = vec![0usize; len];
    loop {
        let s: Vec<R> = idx.iter().map(|&i| alpha[i]).collect();
        f(&s);
        let mut k = len;
        loop {
            if k == 0 { return; }
            k -= 1;
            idx[k] += 1;
            if idx[k] < alpha.len() { break; }
            idx[k] = 0;
        }
    }
}
/// all well-formed strings of length exactly `len` (DFS over the two-state automaton)
fn wf_strings(decl: &[Vec<OpD>], alpha: &[R], len: usize, cur: &mut Vec<R>, operand: bool, f: &mut dyn FnMut(&[R])) {
    if cur.len() == len { if !operand { f(cur); } return; }
    for &c in alpha {
        let next = match (operand, kind_of(decl, c)) {
            (true, None) => false, (true, Some('p')) => true, (false, Some('q')) => false,
            (false, Some('l')) | (false, Some('r')) => true, _ => continue,
        };
        cur.push(c);
        wf_strings(decl, alpha, len, cur, next, f);
        cur.pop();
    }
}

const KINDS: [char; 4] = ['p', 'q', 'l', 'r'];

/// a random well-formed sequence; `focus` (if any) = the operators to prefer (3 times out of 4)
fn random_wf(rng: &mut Rng, decl: &[Vec<OpD>], prims: &[R], len_lo: usize, len_hi: usize, focus: &[R]) -> Vec<R> {
    let km = kind_map(decl);
    let all: Vec<OpD> = decl.iter().flatten().copied().filter(|(r, k)| km.get(r) == Some(k)).collect();
    let of = |kinds: &[char], only: &[R]| -> Vec<R> { all.iter().filter(|o| kinds.contains(&o.1) && (only.is_empty() || only.contains(&o.0))).map(|o| o.0).collect() };
    let (pre, post, inf) = (of(&['p'], &[]), of(&['q'], &[]), of(&['l', 'r'], &[]));
    let (fpre, fpost, finf) = if focus.is_empty() { (vec![], vec![], vec![]) } else { (of(&['p'], focus), of(&['q'], focus), of(&['l', 'r'], focus)) };
    let target = rng.range(len_lo as u64, len_hi as u64) as usize;
    let mut s: Vec<R> = Vec::new();
    let mut operand = true;
    // per-sequence bias so that long runs of prefixes / postfixes / infix chains all occur
    let bias_pre = rng.range(1, 4); let bias_post = rng.range(1, 4);
    fn choose<'a>(rng: &mut Rng, all: &'a [R], foc: &'a [R]) -> R { if !foc.is_empty() && rng.chance(3, 4) { *rng.pick(foc) } else { *rng.pick(all) } }
    while s.len() < target || operand {
        if operand {
            if !pre.is_empty() && s.len() + 1 < target && rng.chance(bias_pre, 6) { s.push(choose(rng, &pre, &fpre)); }
            else { s.push(*rng.pick(prims)); operand = false; }
        } else if !post.is_empty() && (inf.is_empty() || rng.chance(bias_post, 6)) { s.push(choose(rng, &post, &fpost)); }
        else if !inf.is_empty() { s.push(choose(rng, &inf, &finf)); operand = true; }
        else { break; }
    }
    s
}

/// a handful of operators to concentrate a sequence on: the loosest and the tightest levels, and random ones in between,
/// so that the highest levels stand next to the lowest
fn focus_set(rng: &mut Rng, decl: &[Vec<OpD>]) -> Vec<R> {
    if decl.len() < 4 || rng.chance(1, 4) { return vec![]; }
    let mut f: Vec<R> = Vec::new();
    let n = decl.len();
    let mut lv: Vec<usize> = Vec::new();
    if rng.chance(2, 3) { lv.push(rng.below(3.min(n as u64)) as usize); }
    if rng.chance(2, 3) { lv.push(n - 1 - rng.below(3.min(n as u64)) as usize); }
    for _ in 0..rng.range(1, 3) { lv.push(rng.below(n as u64) as usize); }
    for l in lv { for o in &decl[l] { f.push(o.0); } }
    f
}

const LETTER_PRIMS: [R; 3] = [b'x' as R, b'y' as R, b'z' as R];

/// a table with many levels and arbitrary rule numbers
fn random_wide_table(rng: &mut Rng) -> (Vec<Vec<OpD>>, Vec<R>) {
    let nlev = match rng.weighted(&[30, 15, 30, 14, 11]) {
        0 => rng.range(1, 12), 1 => rng.range(13, 25), 2 => rng.range(26, 40), 3 => rng.range(41, 64),
        _ => *rng.pick(&[65u64, 100, 129, 130, 255, 256, 257, 260, 300]),
    } as usize;
    let profile = rng.below(10);   // 0,1: infix-only uniform; 2: infix-only mixed; else anything
    let multi = rng.chance(1, 4);
    let mut shape: Vec<usize> = (0..nlev).map(|_| if multi && nlev <= 130 && rng.chance(1, 3) { rng.range(2, 3) as usize } else { 1 }).collect();
    if rng.chance(1, 10) && nlev <= 40 { for s in shape.iter_mut() { *s = 2; } }
    let total: usize = shape.iter().sum();
    // rule numbers: distinct values from the whole u8 range when they fit, else from 0..1024; sometimes a few far-away u16 values
    let space: u64 = if total + 3 <= 200 { 256 } else { 1024 };
    let mut used: HashSet<R> = HashSet::new();
    let mut ids: Vec<R> = Vec::new();
    while ids.len() < total + 3 {
        let r = if rng.chance(1, 60) { *rng.pick(&[0u16, 255, 256, 65535, 32768, 1000]) } else { rng.below(space) as R };
        if used.insert(r) { ids.push(r); }
    }
    let prims: Vec<R> = ids.split_off(total);
    match rng.below(5) { 0 => ids.sort(), 1 => { ids.sort(); ids.reverse(); } _ => {} }   // listing order relative to Ord: ascending, descending, arbitrary
    let mut decl: Vec<Vec<OpD>> = Vec::new();
    let mut it = ids.into_iter();
    for k in shape {
        let lev_assoc = if rng.chance(1, 2) { 'l' } else { 'r' };
        let mut lv = Vec::new();
        for _ in 0..k {
            let kind = match profile { 0 | 1 => lev_assoc, 2 => *rng.pick(&['l', 'r']), _ => KINDS[rng.weighted(&[3, 3, 4, 4])] };
            lv.push((it.next().unwrap(), kind));
        }
        decl.push(lv);
    }
    if rng.chance(1, 25) && total >= 2 {
        // a rule declared twice
        let flat: Vec<OpD> = decl.iter().flatten().copied().collect();
        let src = *rng.pick(&flat);
        let l = rng.below(decl.len() as u64) as usize;
        let j = rng.below(decl[l].len() as u64) as usize;
        decl[l][j].0 = src.0;
    }
    (decl, prims)
}

/// variants of a table on which an escalated search looks for a failing input
fn table_variants(rng: &mut Rng, decl: &[Vec<OpD>]) -> Vec<Vec<Vec<OpD>>> {
    let mut out: Vec<Vec<Vec<OpD>>> = vec![decl.to_vec()];
    // the rule numbers mirrored (i-th smallest <-> i-th largest): the listing order relative to Ord is reversed
    let mut sorted: Vec<R> = decl.iter().flatten().map(|o| o.0).collect::<HashSet<_>>().into_iter().collect();
    sorted.sort();
    let mirror: HashMap<R, R> = sorted.iter().copied().zip(sorted.iter().rev().copied()).collect();
    out.push(decl.iter().map(|l| l.iter().map(|(r, k)| (mirror[r], *k)).collect()).collect());
    // levels in the opposite order
    out.push(decl.iter().rev().cloned().collect());
    // every pair of operators alone (small tables give small failing inputs)
    let flat: Vec<(usize, OpD)> = decl.iter().enumerate().flat_map(|(i, l)| l.iter().map(move |o| (i, *o))).collect();
    let mut pairs: Vec<(usize, usize)> = Vec::new();
    for i in 0..flat.len() { for j in i + 1..flat.len() { pairs.push((i, j)); } }
    while pairs.len() > 60 { let k = rng.below(pairs.len() as u64) as usize; pairs.swap_remove(k); }
    for (i, j) in pairs {
        let (a, b) = (flat[i], flat[j]);
        if a.0 == b.0 { out.push(vec![vec![a.1, b.1]]); } else { out.push(vec![vec![a.1], vec![b.1]]); }
        if a.0 != b.0 { out.push(vec![vec![b.1], vec![a.1]]); }
    }
    // the table extended by fresh one-operator levels below and above it to 30, 64, 130, 260 and 300 levels
    let kinds: Vec<char> = decl.iter().flatten().map(|o| o.1).collect();
    let used: HashSet<R> = decl.iter().flatten().map(|o| o.0).collect();
    for target in [30usize, 64, 130, 260, 300] {
        if decl.len() >= target { continue; }
        let mut fresh = (300u16..).filter(|r| !used.contains(r));
        let extra = target - decl.len();
        let below = match rng.below(3) { 0 => 0, 1 => extra, _ => extra / 2 };
        let mut d: Vec<Vec<OpD>> = Vec::new();
        for _ in 0..below { d.push(vec![(fresh.next().unwrap(), *rng.pick(&kinds))]); }
        d.extend(decl.iter().cloned());
        for _ in below..extra { d.push(vec![(fresh.next().unwrap(), *rng.pick(&kinds))]); }
        out.push(d);
    }
    out
}

fn main() {
    quiet_panics();
    start_watchdog();
    let mode = arg(1);
    let stdout = io::stdout();
    let mut out = Out { w: BufWriter::with_capacity(1 << 20, stdout.lock()), n: 0, nontriv: 0, seen: HashSet::new(), wf: 0, panics: 0, climber_class: 0, const_macro: 0,
                        many_levels: 0, climber_macro: 0, lv65: 0, lv256: 0 };
    match mode.as_str() {
        // exh NOPS LEN_ALL LEN_WF SHARD NSHARDS [MINOPS] : every table with MINOPS..NOPS operators (all splits into levels, all
        // affix/assoc choices) x every string of length <= LEN_ALL over its operators + one primary, and every
        // well-formed string of length LEN_ALL+1..=LEN_WF; tables with <= 2 operators also with every maps choice.
        "exh" => {
            let nops = arg_u64(2, 3) as usize; let len_all = arg_u64(3, 4) as usize; let len_wf = arg_u64(4, 6) as usize;
            let shard = arg_u64(5, 0); let nshards = arg_u64(6, 1).max(1); let minops = arg_u64(7, 1) as usize;
            let mut tix: u64 = 0;
            for n in minops..=nops {
                for comp in compositions(n) {
                    let mut kidx = vec![0usize; n];
                    loop {
                        tix += 1;
                        if tix % nshards == shard {
                            let mut decl: Vec<Vec<OpD>> = Vec::new();
                            let mut i = 0;
                            for &k in &comp { decl.push((0..k).map(|j| ((b'a' + (i + j) as u8) as R, KINDS[kidx[i + j]])).collect()); i += k; }
                            let mut alpha: Vec<R> = (0..n).map(|i| (b'a' + i as u8) as R).collect();
                            alpha.push(b'x' as R);
                            for len in 0..=len_all { all_strings(&alpha, len, &mut |s| out.table_case(false, "111", &decl, s, false)); }
                            for len in len_all + 1..=len_wf { let mut cur = Vec::new(); wf_strings(&decl, &alpha, len, &mut cur, true, &mut |s| out.table_case(false, "111", &decl, s, false)); }
                            if n <= 2 {
                                for maps in ["000", "001", "010", "011", "100", "101", "110"] {
                                    for len in 1..=len_all.min(4) { all_strings(&alpha, len, &mut |s| out.table_case(false, maps, &decl, s, false)); }
                                }
                            }
                        }
                        let mut k = n;
                        let mut done = false;
                        loop {
                            if k == 0 { done = true; break; }
                            k -= 1;
                            kidx[k] += 1;
                            if kidx[k] < 4 { break; }
                            kidx[k] = 0;
                        }
                        if done { break; }
                    }
                }
            }
        }
        // macrofam LEN_ALL LEN_WF COUNT SEED : every table of the prec_climber! family (operators listed in every order relative
        // to the enum) x every string of length <= LEN_ALL and every well-formed one up to LEN_WF for the tables with <= 3 operators,
        // COUNT random well-formed sequences for the tables with many levels
        "macrofam" => {
            let len_all = arg_u64(2, 4) as usize; let len_wf = arg_u64(3, 6) as usize; let count = arg_u64(4, 200);
            let mut rng = Rng::new(arg_u64(5, 0));
            for d in macro_family().0.clone() {
                let decl: Vec<Vec<OpD>> = d.split(',').map(parse_ops).collect();
                let nops: usize = decl.iter().map(|l| l.len()).sum();
                if nops <= 3 {
                    let mut alpha: Vec<R> = decl.iter().flatten().map(|o| o.0).collect();
                    alpha.sort();
                    alpha.push(b'x' as R);
                    for len in 0..=len_all { all_strings(&alpha, len, &mut |s| out.table_case(false, "111", &decl, s, false)); }
                    for len in len_all + 1..=len_wf { let mut cur = Vec::new(); wf_strings(&decl, &alpha, len, &mut cur, true, &mut |s| out.table_case(false, "111", &decl, s, false)); }
                } else {
                    for _ in 0..count {
                        let f = focus_set(&mut rng, &decl);
                        let toks = random_wf(&mut rng, &decl, &LETTER_PRIMS, 3, 24, &f);
                        out.table_case(false, "111", &decl, &toks, true);
                    }
                }
            }
        }
        // random COUNT SEED MINLEN : larger random tables (<= 6 levels x <= 3 operators, sometimes a rule declared twice,
        // sometimes infix-only with one associativity per level) x mostly well-formed sequences of length MINLEN..40
        "random" => {
            let count = arg_u64(2, 1000);
            let mut rng = Rng::new(arg_u64(3, 0));
            let minlen = arg_u64(4, 8) as usize;
            for _ in 0..count {
                let nlev = rng.range(1, 6) as usize;
                let profile = rng.below(10);   // 0,1: infix-only uniform; 2: infix-only mixed; else anything
                let mut decl: Vec<Vec<OpD>> = Vec::new();
                let mut next = b'a';
                for _ in 0..nlev {
                    let k = rng.range(1, 3) as usize;
                    let lev_assoc = if rng.chance(1, 2) { 'l' } else { 'r' };
                    let mut lv = Vec::new();
                    for _ in 0..k {
                        let kind = match profile { 0 | 1 => lev_assoc, 2 => *rng.pick(&['l', 'r']), _ => KINDS[rng.weighted(&[3, 3, 4, 4])] };
                        let r = if next > b'a' && rng.chance(1, 25) { b'a' + rng.below((next - b'a') as u64) as u8 } else { let r = next; next += 1; r };
                        lv.push((r as R, kind));
                    }
                    decl.push(lv);
                }
                if rng.chance(1, 3) {
                    // the same table with its letters assigned in another order (the listing order relative to Ord varies)
                    let n = (next - b'a') as usize;
                    let mut perm: Vec<u8> = (0..n as u8).collect();
                    if rng.chance(1, 2) { perm.reverse(); } else { for i in (1..n).rev() { let j = rng.below(i as u64 + 1) as usize; perm.swap(i, j); } }
                    for lv in decl.iter_mut() { for o in lv.iter_mut() { o.0 = (b'a' + perm[(o.0 as u8 - b'a') as usize]) as R; } }
                }
                if rng.chance(1, 20) {
                    // direct new_const with arbitrary flags and the occasional chain
                    let flat: Vec<OpD> = decl.iter().flatten().copied().take(8).collect();
                    let mut entries: Vec<(Vec<OpD>, bool)> = Vec::new();
                    for (i, o) in flat.iter().enumerate() {
                        let flag = if i == 0 { !rng.chance(1, 6) } else { rng.chance(1, 2) };
                        let ch = if rng.chance(1, 12) { vec![*o, (b'w' as R, 'l')] } else { vec![*o] };
                        entries.push((ch, flag));
                    }
                    let d2: Vec<Vec<OpD>> = vec![flat.clone()];
                    let toks = random_wf(&mut rng, &d2, &LETTER_PRIMS, 1, 12, &[]);
                    out.const_case("111", &entries, &toks);
                    continue;
                }
                let mut toks = random_wf(&mut rng, &decl, &LETTER_PRIMS, minlen, 40, &[]);
                if rng.chance(3, 20) {
                    // ill-formed neighbour: replace / delete / insert one token
                    let pos = rng.below(toks.len() as u64) as usize;
                    let c = if rng.chance(1, 2) { b'x' } else { b'a' + rng.below((next - b'a').max(1) as u64) as u8 } as R;
                    match rng.below(3) { 0 => toks[pos] = c, 1 => { toks.remove(pos); } _ => toks.insert(pos, c) }
                }
                let maps = if rng.chance(1, 12) { *rng.pick(&["011", "101", "110", "000"]) } else { "111" };
                out.table_case(false, maps, &decl, &toks, true);
            }
        }
        // wide TABLES SEED PER_TABLE : tables with 1..300 levels (most between 1 and 64), rule numbers spread over the u8 range
        // (a few beyond) and listed in ascending / descending / arbitrary order, x PER_TABLE sequences each, most of them
        // concentrated on a few operators that include the loosest and the tightest levels; one table in 8 is instead a
        // direct PrecClimber::new_const slice with arbitrary u32 precedences in arbitrary order (L case)
        "wide" => {
            let tables = arg_u64(2, 100);
            let mut rng = Rng::new(arg_u64(3, 0));
            let per = arg_u64(4, 6);
            for _ in 0..tables {
                let (decl, prims) = random_wide_table(&mut rng);
                if rng.chance(1, 8) {
                    let lv = climber_levels(&decl);
                    if !lv.is_empty() && lv.len() <= 64 {
                        // precedences: any strictly increasing u32 values (sometimes starting at 0, sometimes ending at u32::MAX)
                        let mut precs: Vec<u32> = Vec::new();
                        let mut p: u64 = if rng.chance(1, 8) { 0 } else { rng.range(1, 3) };
                        let step_hi = *rng.pick(&[1u64, 1, 10, 1000, 60_000_000]);
                        for _ in 0..lv.len() { precs.push(p as u32); p += rng.range(1, step_hi); }
                        if rng.chance(1, 6) { *precs.last_mut().unwrap() = u32::MAX; }
                        let mut entries: Vec<(R, char, u32)> = Vec::new();
                        for (i, l) in lv.iter().enumerate() { for (r, a) in l { entries.push((*r, if *a == CAssoc::Left { 'l' } else { 'r' }, precs[i])); } }
                        match rng.below(4) { 0 => {} 1 => entries.reverse(), 2 => entries.sort(),
                            _ => { for i in (1..entries.len()).rev() { let j = rng.below(i as u64 + 1) as usize; entries.swap(i, j); } } }
                        let d2: Vec<Vec<OpD>> = lv.iter().map(|l| l.iter().map(|(r, a)| (*r, if *a == CAssoc::Left { 'l' } else { 'r' })).collect()).collect();
                        for _ in 0..per {
                            let f = focus_set(&mut rng, &d2);
                            let mut toks = random_wf(&mut rng, &d2, &prims, 3, 30, &f);
                            if rng.chance(1, 10) { let pos = rng.below(toks.len() as u64) as usize; toks.remove(pos); }
                            out.slice_case(&entries, &toks);
                        }
                        continue;
                    }
                }
                for _ in 0..per {
                    let f = focus_set(&mut rng, &decl);
                    let mut toks = random_wf(&mut rng, &decl, &prims, 3, 40, &f);
                    if rng.chance(1, 12) {
                        let pos = rng.below(toks.len() as u64) as usize;
                        let li = rng.below(decl.len() as u64) as usize;
                        let c = if rng.chance(1, 2) { prims[0] } else { rng.pick(&decl[li]).0 };
                        match rng.below(3) { 0 => toks[pos] = c, 1 => { toks.remove(pos); } _ => toks.insert(pos, c) }
                    }
                    out.table_case(true, "111", &decl, &toks, true);
                }
            }
        }
        // around CASE COUNT SEED : escalated search that starts from a T/W case on which the real parsers and the model differ:
        // its table, the table with mirrored rule numbers, with reversed levels, every pair of its operators alone, and the table
        // extended to 30..300 levels, each x all short well-formed sequences (small tables) and COUNT random well-formed ones
        "around" => {
            let case = arg(2);
            let count = arg_u64(3, 300);
            let mut rng = Rng::new(arg_u64(4, 0));
            let f: Vec<&str> = case.split(';').collect();
            let (decl, toks0): (Vec<Vec<OpD>>, Vec<R>) = match (f[0], f.len()) {
                ("T", 4) => (f[2].split(',').filter(|s| !s.is_empty()).map(parse_ops).collect(), f[3].bytes().map(|b| b as R).collect()),
                ("W", 4) => (parse_wide_decl(f[2]), parse_wide_tokens(f[3])),
                _ => (vec![], vec![]),
            };
            if !decl.is_empty() {
                let used: HashSet<R> = decl.iter().flatten().map(|o| o.0).collect();
                let letters = used.iter().all(|r| is_letter(*r));
                for d in table_variants(&mut rng, &decl) {
                    let all_used: HashSet<R> = d.iter().flatten().map(|o| o.0).collect();
                    let prims: Vec<R> = if letters && all_used.iter().all(|r| is_letter(*r)) { LETTER_PRIMS.iter().copied().filter(|r| !all_used.contains(r)).collect() }
                                        else { (1000u16..).filter(|r| !all_used.contains(r)).take(3).collect() };
                    if prims.is_empty() { continue; }
                    let nops: usize = d.iter().map(|l| l.len()).sum();
                    if nops <= 4 {
                        let mut alpha: Vec<R> = all_used.iter().copied().collect();
                        alpha.sort();
                        alpha.push(prims[0]);
                        for len in 1..=7 { let mut cur = Vec::new(); wf_strings(&d, &alpha, len, &mut cur, true, &mut |s| out.auto_case("111", &d, s, true)); }
                    }
                    if is_wf(&d, &toks0) { out.auto_case("111", &d, &toks0, true); }
                    let n = if nops <= 4 { count / 4 } else { count };
                    for _ in 0..n {
                        let fs = focus_set(&mut rng, &d);
                        let toks = random_wf(&mut rng, &d, &prims, 2, 30, &fs);
                        out.auto_case("111", &d, &toks, true);
                    }
                }
            }
        }
        "one" => { let c = arg(2); out.one(&c); }
        _ => { eprintln!("usage: c13 exh NOPS LEN_ALL LEN_WF SHARD NSHARDS [MINOPS] | macrofam LEN_ALL LEN_WF COUNT SEED | random COUNT SEED MINLEN | wide TABLES SEED PER_TABLE | around CASE COUNT SEED | one CASE"); std::process::exit(2); }
    }
    writeln!(out.w, "#SUMMARY\tevaluations={}\tdistinct_nontrivial={}\twell_formed={}\tpratt_panics={}\tinfix_only_well_formed={}\tconst_via_macro={}\tclimber_via_macro={}\twell_formed_on_26plus_levels={}\tcases_65plus_levels={}\tcases_257plus_levels={}",
             out.n, out.nontriv, out.wf, out.panics, out.climber_class, out.const_macro, out.climber_macro, out.many_levels, out.lv65, out.lv256).unwrap();
}
