//! C15: detailed error tracking is observationally transparent.
//! Every case is run on the REAL pest code twice, with set_error_detail(false) and (true)
//! (the switch is process-global: it is set explicitly before every run).
//!
//! prog cases (closure trees driven through pest::ParserState, pvharness::prog):
//!   one line per run   "<case>\t<observation>"     case = "lim=<n|-> det=<0|1> in=<hex> env=<p;..|-> prog=<p>"
//!   observation = "<Ok|Err> <verif_dump> || <state() outcome>[ || HELP:<message>|<rendering>]" | "Panic" | "Diverged"
//!   (the HELP part only for det=1 when state() returned an error: Error::parse_attempts_error rendered)
//! grammar cases (generated .pest grammars through pest_meta + pest_vm):
//!   "VM\t<case>\t<observation of the detail run>"  case = "rule=<name> in=<hex> g=<hex of the grammar text>"
//! property oracle, printed as  "CONTRACT\t<case>\t<message>":
//!   the two runs differ in success / tokens / error position / positives / negatives / core state, a panic in only
//!   one mode, max_position > len or not a char boundary, the help message cannot be built or rendered,
//!   attempt information present with the switch off.
use pvharness::prog::*;
use pvharness::*;
use std::collections::HashSet;
use std::io::{self, BufWriter, Write};
use std::num::NonZeroUsize;

struct Case { lim: Option<usize>, det: bool, input: String, env: Vec<Prog>, prog: Prog }

impl Case {
    fn show(&self) -> String {
        format!("lim={} det={} in={} env={} prog={}", self.lim.map(|x| x.to_string()).unwrap_or("-".into()), self.det as u8, hex(&self.input),
            if self.env.is_empty() { "-".to_string() } else { self.env.iter().map(|p| p.show()).collect::<Vec<_>>().join(";") }, self.prog.show())
    }
    fn parse(s: &str) -> Case {
        let mut lim = None; let mut det = false;
        let ki = s.find(" in=").unwrap(); let ke = s.find(" env=").unwrap(); let kp = s.find(" prog=").unwrap();
        for f in s[..ki].split(' ') {
            if let Some(v) = f.strip_prefix("lim=") { lim = v.parse().ok(); }
            if let Some(v) = f.strip_prefix("det=") { det = v == "1"; }
        }
        let input = unhex(&s[ki + 4..ke]);
        let e = &s[ke + 5..kp];
        let env = if e != "-" { e.split(';').map(Prog::parse).collect() } else { vec![] };
        let prog = Prog::parse(&s[kp + 6..]);
        Case { lim, det, input, env, prog }
    }
}

// the two user callbacks of Error::parse_attempts_error (mirrored in ocaml/c15_runner.ml)
fn rule_message(r: &R) -> Option<String> {
    match *r { 2 => None, 1 => Some("m1 é".to_string()), r => Some(format!("m{}", r)) }
}
fn is_ws(s: String) -> bool { s == "b" || s == " " }

fn tokens_of<'i>(pairs: pest::iterators::Pairs<'i, R>) -> String {
    let mut o = String::new();
    for t in pairs.tokens() {
        match t { pest::Token::Start { rule, pos } => o.push_str(&format!("S{}@{},", rule, pos.pos())), pest::Token::End { rule, pos } => o.push_str(&format!("E{}@{},", rule, pos.pos())) }
    }
    o
}

fn field<'a>(d: &'a str, name: &str) -> &'a str {
    for f in d.split(';') { if let Some(r) = f.strip_prefix(name) { return r; } }
    ""
}
/// the dump without the five ParseAttempts fields
fn core_of(d: &str) -> String {
    d.split(';').filter(|f| !(f.starts_with("en=") || f.starts_with("cs=") || f.starts_with("ex=") || f.starts_with("un=") || f.starts_with("mp="))).collect::<Vec<_>>().join(";")
}

struct Obs { text: String, kind: String /* Ok Err Panic Diverged */, dump: String, state_outcome: String, backtracked: bool, problems: Vec<String>, help: Option<String> }

/// what is checked of the attempt information of an error returned with the switch on
fn check_help<RR: pest::RuleType>(e: &pest::error::Error<RR>, input: &str, rtm: &pest::error::RuleToMessageFn<RR>, problems: &mut Vec<String>) -> String {
    let isw: pest::error::IsWhitespaceFn = Box::new(is_ws);
    match e.parse_attempts() {
        None => { problems.push("detail on, but the error carries no ParseAttempts".into()); "HELP:none".into() }
        Some(pa) => {
            let mp = pa.max_position;
            if mp > input.len() { problems.push(format!("max_position {} > input length {}", mp, input.len())); }
            else if !input.is_char_boundary(mp) { problems.push(format!("max_position {} is not a char boundary", mp)); }
            match catch(|| e.parse_attempts_error(input, rtm, &isw)) {
                Err(m) => { problems.push(format!("parse_attempts_error panicked: {}", m)); "HELP:panic".into() }
                Ok(None) => { problems.push("parse_attempts_error returned None with the switch on".into()); "HELP:none".into() }
                Ok(Some(h)) => {
                    let msg = match &h.variant { pest::error::ErrorVariant::CustomError { message } => message.clone(), _ => "?".into() };
                    match catch(|| format!("{}", h)) {
                        Err(m) => { problems.push(format!("rendering the help message panicked: {}", m)); format!("HELP:{}|panic", esc(&msg)) }
                        Ok(text) => format!("HELP:{}|{}", esc(&msg), esc(&text)),
                    }
                }
            }
        }
    }
}

fn observe(c: &Case) -> Obs {
    pest::set_call_limit(c.lim.and_then(NonZeroUsize::new));
    pest::set_error_detail(c.det);
    let cx = Ctx::new(&c.env, 4000);
    let r = catch(|| {
        let s = pest::ParserState::<R>::new(&c.input);
        match run(&c.prog, s, &cx) { Ok(s) => (true, s.verif_dump()), Err(s) => (false, s.verif_dump()) }
    });
    let mut obs = Obs { text: String::new(), kind: String::new(), dump: String::new(), state_outcome: String::new(), backtracked: cx.nontrivial.get(), problems: vec![], help: None };
    match r {
        Err(_) => { obs.text = "Panic".into(); obs.kind = "Panic".into(); }
        Ok(_) if cx.diverged.get() => { obs.text = "Diverged".into(); obs.kind = "Diverged".into(); }
        Ok((ok, dump)) => {
            // the real state at the end of the run
            let mp: usize = field(&dump, "mp=").parse().unwrap_or(usize::MAX);
            if c.det {
                if mp > c.input.len() { obs.problems.push(format!("max_position {} > input length {}", mp, c.input.len())); }
                else if !c.input.is_char_boundary(mp) { obs.problems.push(format!("max_position {} is not a char boundary", mp)); }
            } else if mp != 0 || !field(&dump, "cs=").is_empty() || !field(&dump, "ex=").is_empty() || !field(&dump, "un=").is_empty() {
                obs.problems.push("attempt information recorded with the switch off".into());
            }
            // the public entry point state(): tokens or error
            pest::set_error_detail(c.det);
            let cx2 = Ctx::new(&c.env, 4000);
            let st = catch(|| pest::state::<R, _>(&c.input, |s| run(&c.prog, s, &cx2)));
            let so = match st {
                Err(_) => "Panic".to_string(),
                Ok(Ok(pairs)) => match catch(|| tokens_of(pairs)) { Ok(t) => format!("OK:{}", t), Err(_) => "OK:tokens-panic".to_string() },
                Ok(Err(e)) => {
                    let at = match e.location { pest::error::InputLocation::Pos(p) => p.to_string(), pest::error::InputLocation::Span((a, b)) => format!("{}-{}", a, b) };
                    let so = match &e.variant {
                        pest::error::ErrorVariant::ParsingError { positives, negatives } => format!("PE:{:?}:{:?}@{}", positives, negatives, at),
                        pest::error::ErrorVariant::CustomError { message } => format!("CE:{}@{}", message, at),
                    };
                    if c.det {
                        let rtm: pest::error::RuleToMessageFn<R> = Box::new(rule_message);
                        obs.help = Some(check_help(&e, &c.input, &rtm, &mut obs.problems));
                    } else if e.parse_attempts().is_some() {
                        obs.problems.push("the error carries ParseAttempts with the switch off".into());
                    }
                    so
                }
            };
            obs.kind = if ok { "Ok".into() } else { "Err".into() };
            obs.text = format!("{} {} || {}", obs.kind, dump, so);
            if let Some(h) = &obs.help { obs.text.push_str(" || "); obs.text.push_str(h); }
            obs.state_outcome = so;
            obs.dump = dump;
        }
    }
    obs
}

struct Stats { n: u64, nontriv: u64, oks: u64, errs: u64, panics: u64, diverged: u64, violations: u64, help_rendered: u64, seen: HashSet<String> }

/// run one base case with the switch off and on, print both observation lines and the oracle's verdict
fn emit_pair(base: &Case, w: &mut BufWriter<io::StdoutLock>, st: &mut Stats) {
    let off = Case { lim: base.lim, det: false, input: base.input.clone(), env: base.env.clone(), prog: base.prog.clone() };
    let on = Case { lim: base.lim, det: true, input: base.input.clone(), env: base.env.clone(), prog: base.prog.clone() };
    let o0 = observe(&off);
    let o1 = observe(&on);
    let cs1 = on.show();
    writeln!(w, "{}\t{}", off.show(), o0.text).unwrap();
    writeln!(w, "{}\t{}", cs1, o1.text).unwrap();
    st.n += 2;
    match o1.kind.as_str() { "Ok" => st.oks += 1, "Err" => st.errs += 1, "Panic" => st.panics += 1, _ => st.diverged += 1 }
    if o1.help.as_deref().map(|h| !h.ends_with("panic") && h != "HELP:none").unwrap_or(false) { st.help_rendered += 1; }
    let mut problems: Vec<String> = vec![];
    if o0.kind != o1.kind {
        if o1.kind == "Panic" { problems.push(format!("panic only in detail mode (without detail: {})", o0.kind)); }
        else { problems.push(format!("result kind differs: without detail {}, with detail {}", o0.kind, o1.kind)); }
    } else if o0.kind == "Ok" || o0.kind == "Err" {
        if core_of(&o0.dump) != core_of(&o1.dump) {
            problems.push(format!("final core state differs: without detail [{}] with detail [{}]", core_of(&o0.dump), core_of(&o1.dump)));
        }
        if o0.state_outcome != o1.state_outcome {
            problems.push(format!("state() outcome differs: without detail [{}] with detail [{}]", o0.state_outcome, o1.state_outcome));
        }
    }
    problems.extend(o0.problems.iter().map(|p| format!("[detail off] {}", p)));
    problems.extend(o1.problems.iter().cloned());
    st.violations += problems.len() as u64;
    for m in &problems { writeln!(w, "CONTRACT\t{}\t{}", cs1, m).unwrap(); }
    // non-trivial: detail on, the parse failed or backtracked, and attempt information was recorded
    let recorded = !field(&o1.dump, "cs=").is_empty() && (!field(&o1.dump, "ex=").is_empty() || !field(&o1.dump, "un=").is_empty());
    if (o1.kind == "Err" || o1.backtracked) && recorded && st.seen.insert(cs1) { st.nontriv += 1; }
}

const ALPHA15: [&str; 5] = ["a", "b", "é", "B", "\n"];
fn gen_input15(rng: &mut Rng, maxlen: u64) -> String {
    let n = rng.range(0, maxlen);
    (0..n).map(|_| ALPHA15[rng.weighted(&[6, 5, 2, 1, 1])]).collect()
}

/// programs biased towards what feeds ParseAttempts: rules around failing tokens, alternatives, look-aheads
fn gen15(rng: &mut Rng, depth: u32, nfun: usize, from: Option<usize>) -> Prog {
    use Prog::*;
    if depth == 0 { return leaf(rng, nfun, from); }
    let sub = |rng: &mut Rng| Box::new(gen15(rng, depth - 1, nfun, from));
    match rng.weighted(&[10, 6, 4, 3, 5, 2, 8, 8, 6]) {
        0 => Rule(rng.below(5) as R, sub(rng)),
        1 => Seq(sub(rng)),
        2 => Rep(Box::new(Seq(Box::new(Then(Box::new(Str(STRS[rng.below(3) as usize].to_string())), sub(rng)))))),
        3 => Opt(sub(rng)),
        4 => Look(rng.chance(1, 2), sub(rng)),
        5 => Atomic(rng.below(3) as u8, sub(rng)),
        6 => { let a = sub(rng); let b = sub(rng); Then(a, b) }
        7 => { let a = sub(rng); let b = sub(rng); Else(a, b) }
        _ => gen(rng, depth, nfun, from),
    }
}

/// many alternatives of rules failing at the same position: exercises CALL_STACK_CHILDREN_THRESHOLD (>= 4 children)
fn gen_wide(rng: &mut Rng) -> Prog {
    use Prog::*;
    let k = rng.range(2, 6);
    let tok = |rng: &mut Rng| -> Prog {
        match rng.below(4) { 0 => Str(STRS[rng.below(3) as usize].to_string()), 1 => Ins(STRS[rng.below(3) as usize].to_string()), 2 => Range('a', 'b'), _ => Cls(vec![('A', 'Z')]) }
    };
    let mut alts: Vec<Prog> = (0..k).map(|i| {
        let body = if rng.chance(1, 3) { Then(Box::new(tok(rng)), Box::new(tok(rng))) } else { tok(rng) };
        let body = if rng.chance(1, 4) { Seq(Box::new(body)) } else { body };
        if rng.chance(4, 5) { Rule((i % 5) as R, Box::new(body)) } else { body }
    }).collect();
    let mut p = alts.pop().unwrap();
    while let Some(a) = alts.pop() { p = Else(Box::new(a), Box::new(p)); }
    let p = if rng.chance(1, 2) { Rule(rng.below(5) as R, Box::new(p)) } else { p };
    let p = if rng.chance(1, 3) { Then(Box::new(Opt(Box::new(tok(rng)))), Box::new(p)) } else { p };
    if rng.chance(1, 3) { Rule(rng.below(5) as R, Box::new(Seq(Box::new(p)))) } else { p }
}

/// "wide choice of rules under nested rules": `pre` failed rule attempts already recorded at the farthest position, then
/// `levels` enclosing rules (each remembers the number of call stacks at its entry), the innermost one a choice of `width`
/// rules that all fail at that same position (>= CALL_STACK_CHILDREN_THRESHOLD of them collapse into the parent).
fn nested_wide(prefix: usize, pre: usize, levels: usize, width: usize, side: usize, tok: &dyn Fn(usize) -> Prog) -> Prog {
    use Prog::*;
    let alts = |from: usize, n: usize| -> Vec<Prog> { (0..n).map(|i| Rule(((from + i) % 5) as R, Box::new(tok(from + i)))).collect() };
    let choice = |mut v: Vec<Prog>| -> Prog { let mut p = v.pop().unwrap(); while let Some(a) = v.pop() { p = Else(Box::new(a), Box::new(p)); } p };
    let mut inner = Rule(4, Box::new(choice(alts(0, width.max(1)))));
    for l in 1..levels {
        let mut v = alts(10 + l, side);           // earlier alternatives of the enclosing rule, failing at the same position
        v.push(inner);
        inner = Rule((l % 4) as R, Box::new(choice(v)));
    }
    let mut v = alts(20, pre);
    v.push(inner);
    let mut p = choice(v);
    for _ in 0..prefix { p = Then(Box::new(Str("a".into())), Box::new(p)); }
    p
}
fn gen_nested_wide(rng: &mut Rng) -> Prog {
    use Prog::*;
    let kinds = rng.below(3);
    let tok = move |i: usize| -> Prog {
        match if kinds == 0 { 0 } else { (i as u64 + kinds) % 5 } {
            0 => Str("b".into()), 1 => Ins("b".into()), 2 => Range('b', 'b'), 3 => Cls(vec![('A', 'Z')]), _ => Seq(Box::new(Then(Box::new(Str("b".into())), Box::new(Str("a".into()))))),
        }
    };
    nested_wide(rng.below(3) as usize, rng.range(0, 3) as usize, rng.range(1, 3) as usize, rng.range(3, 6) as usize, rng.below(3) as usize, &tok)
}

/// stack-slice matching against inputs that match only a prefix of the stack: two or three different literals pushed, then
/// stack_match_peek / stack_match_peek_slice directly as a choice alternative or under optional / repeat
const STACK_LITS: [&str; 4] = ["a", "b", "ab", "é"];
fn stack_ops() -> Vec<Prog> {
    use Prog::*;
    vec![MPeek, Slice(0, None, true), Slice(0, None, false), Slice(0, Some(2), true), Slice(-2, None, true), Slice(1, None, false), Slice(0, Some(-1), false), MPop]
}
fn stack_prog(lits: &[&str], op: &Prog, wrap: usize, tail: &Prog) -> Prog {
    use Prog::*;
    let core = match wrap {
        0 => Else(Box::new(op.clone()), Box::new(tail.clone())),
        1 => Then(Box::new(Opt(Box::new(op.clone()))), Box::new(tail.clone())),
        2 => Then(Box::new(Rep(Box::new(op.clone()))), Box::new(tail.clone())),
        3 => Rule(1, Box::new(Else(Box::new(Rule(2, Box::new(op.clone()))), Box::new(Rule(3, Box::new(tail.clone())))))),
        _ => Then(Box::new(Look(false, Box::new(op.clone()))), Box::new(tail.clone())),
    };
    let mut p = core;
    for l in lits.iter().rev() { p = Then(Box::new(PushLit(l.to_string())), Box::new(p)); }
    p
}
/// inputs around the stack contents: every prefix of both match orders, each also followed by one foreign char
fn stack_inputs(lits: &[&str]) -> Vec<String> {
    let mut out: Vec<String> = vec![String::new()];
    for order in [lits.to_vec(), lits.iter().rev().cloned().collect::<Vec<_>>()] {
        let mut acc = String::new();
        for l in order { acc.push_str(l); out.push(acc.clone()); for x in ["a", "b", "é"] { out.push(format!("{}{}", acc, x)); } }
    }
    out.sort(); out.dedup();
    out
}
fn gen_stack15(rng: &mut Rng) -> (Prog, Vec<String>) {
    use Prog::*;
    let n = rng.range(2, 3) as usize;
    let lits: Vec<&str> = (0..n).map(|_| STACK_LITS[rng.below(4) as usize]).collect();
    let ops = stack_ops();
    let op = ops[rng.below(ops.len() as u64) as usize].clone();
    let tails = [Ok, Eoi, Str("a".into()), Str("b".into()), Rule(0, Box::new(Str("b".into()))), Cls(vec![('\0', '\u{10ffff}')])];
    let tail = tails[rng.below(6) as usize].clone();
    let p = stack_prog(&lits, &op, rng.below(5) as usize, &tail);
    (p, stack_inputs(&lits))
}

/// long literals and long stack values (20-40 bytes, one to three multi-byte characters at random offsets, so that every
/// byte offset is inside a character for some of them): whatever is recorded about a token must cope with any length
fn long_lit(rng: &mut Rng) -> String {
    let n = rng.range(18, 40) as usize;
    let mut s = String::new();
    while s.len() < n {
        s.push_str(match rng.weighted(&[10, 4, 2, 1, 1]) { 0 => "a", 1 => "b", 2 => "é", 3 => "✂", _ => "𝄞" });
    }
    s
}
fn gen_long15(rng: &mut Rng) -> (Prog, Vec<String>) {
    use Prog::*;
    let l1 = long_lit(rng);
    let l2 = long_lit(rng);
    let lit = |x: &str, rng: &mut Rng| if rng.chance(1, 4) { Ins(x.to_string()) } else { Str(x.to_string()) };
    let p = match rng.below(5) {
        0 => Rule(0, Box::new(lit(&l1, rng))),
        1 => Else(Box::new(Rule(1, Box::new(lit(&l1, rng)))), Box::new(Rule(2, Box::new(lit(&l2, rng))))),
        2 => Then(Box::new(PushLit(l1.clone())), Box::new(Rule(1, Box::new(if rng.chance(1, 2) { MPeek } else { MPop })))),
        3 => { let alt = Else(Box::new(Rule(2, Box::new(MPeek))), Box::new(Rule(3, Box::new(Str("b".into()))))); Then(Box::new(PushLit(l1.clone())), Box::new(Then(Box::new(Str("\n".into())), Box::new(alt)))) }
        _ => Then(Box::new(Opt(Box::new(lit(&l1, rng)))), Box::new(Rule(0, Box::new(Then(Box::new(lit(&l2, rng)), Box::new(Eoi)))))),
    };
    let cut = |x: &str, rng: &mut Rng| { let mut k = rng.below(x.len() as u64 + 1) as usize; while !x.is_char_boundary(k) { k -= 1; } x[..k].to_string() };
    let ins = vec![l1.clone(), l2.clone(), format!("{}{}", l1, l1), format!("{}\n{}", l1, l1), format!("{}{}", l1, l2), format!("{}\n{}", l1, cut(&l1, rng)),
                   cut(&l1, rng), format!("{}x", cut(&l1, rng)), format!("{}{}", l1, cut(&l2, rng)), String::new()];
    (p, ins)
}

// ------------------------------------------------------------------------------------------
// big choices: far more attempts at one position than any capacity / threshold constant of the bookkeeping
// (lists sized for 20 call stacks and 30 tokens, 4 children collapse into the parent): 15-70 alternatives, each a bare
// token, a rule around a token / a sequence of tokens, or a rule around a nested choice (2-6, sometimes 15-30, of the
// same kinds of alternatives, two levels deep). One tree gives a closure tree and a grammar.
// ------------------------------------------------------------------------------------------
#[derive(Clone)]
enum BTok { Lit(String), Ins(String), Range(char, char), Upper }
#[derive(Clone)]
enum Big { Tok(BTok), Rule(u32, Box<Big>), Choice(Vec<Big>), Cat(Vec<Big>) }

fn big_tok(rng: &mut Rng) -> Big {
    const LITS: [&str; 10] = ["a", "b", "ab", "ba", "bb", "aa", "bab", "é", "aé", "abb"];
    Big::Tok(match rng.weighted(&[12, 2, 1, 1]) {
        0 => BTok::Lit(LITS[rng.weighted(&[2, 6, 2, 3, 3, 1, 2, 1, 1, 1])].to_string()),
        1 => BTok::Ins(["a", "b", "ab", "é"][rng.below(4) as usize].to_string()),
        2 => if rng.chance(1, 2) { BTok::Range('b', 'b') } else { BTok::Range('a', 'b') },
        _ => BTok::Upper,
    })
}
fn big_choice(rng: &mut Rng, n: usize, depth: u32, next: &mut u32) -> Big {
    fn fresh(next: &mut u32) -> u32 { *next += 1; *next }
    // the mixture of alternative kinds differs from tree to tree (some are all rules, some mostly bare tokens)
    let w_bare = [0u64, 1, 3, 8][rng.below(4) as usize];
    let w_nest = if depth == 0 { 0 } else { [1u64, 3, 6][rng.below(3) as usize] };
    let items = (0..n).map(|_| match rng.weighted(&[w_bare, 8, 1, w_nest, 1]) {
        0 => big_tok(rng),
        1 => Big::Rule(fresh(next), Box::new(big_tok(rng))),
        2 => Big::Rule(fresh(next), Box::new(Big::Cat(vec![big_tok(rng), big_tok(rng)]))),
        3 => {
            let k = if rng.chance(1, 8) { rng.range(15, 30) } else { rng.range(2, 6) } as usize;
            let r = fresh(next);
            Big::Rule(r, Box::new(big_choice(rng, k, depth - 1, next)))
        }
        _ => Big::Cat(vec![big_tok(rng), Big::Rule(fresh(next), Box::new(big_tok(rng)))]),
    }).collect();
    Big::Choice(items)
}
/// (tree, length of the literal prefix "a"*)
fn gen_big(rng: &mut Rng) -> (Big, usize) {
    let mut next = 0u32;
    let n = if rng.chance(1, 3) { rng.range(15, 30) } else { rng.range(25, 70) } as usize;
    let mut t = big_choice(rng, n, 2, &mut next);
    if rng.chance(1, 2) { next += 1; t = Big::Rule(next, Box::new(t)); }
    let prefix = rng.below(3) as usize;
    if prefix > 0 {
        let mut v: Vec<Big> = (0..prefix).map(|_| Big::Tok(BTok::Lit("a".into()))).collect();
        v.push(t);
        t = Big::Cat(v);
        if rng.chance(1, 2) { next += 1; t = Big::Rule(next, Box::new(t)); }
    }
    (t, prefix)
}
/// inputs for a big tree: after the prefix mostly something no (or nearly no) token matches, so that the alternatives all
/// fail at one position, and ordinary short texts
fn big_input(rng: &mut Rng, prefix: usize) -> String {
    let tail = match rng.below(6) {
        0 => String::new(), 1 => "\n".to_string(), 2 => format!("z{}", gen_input15(rng, 2)), 3 => format!("é{}", gen_input15(rng, 2)),
        _ => gen_input15(rng, 4),
    };
    format!("{}{}", "a".repeat(if rng.chance(5, 6) { prefix } else { rng.below(3) as usize }), tail)
}
fn chain(mut v: Vec<Prog>, f: fn(Box<Prog>, Box<Prog>) -> Prog) -> Prog {
    let mut p = v.pop().unwrap_or(Prog::Err);
    while let Some(a) = v.pop() { p = f(Box::new(a), Box::new(p)); }
    p
}
/// rule numbers: `modr` = 0 keeps them distinct, otherwise they are folded (the same rule met on several paths)
fn big_prog(t: &Big, modr: u32) -> Prog {
    match t {
        Big::Tok(BTok::Lit(s)) => Prog::Str(s.clone()), Big::Tok(BTok::Ins(s)) => Prog::Ins(s.clone()),
        Big::Tok(BTok::Range(a, b)) => Prog::Range(*a, *b), Big::Tok(BTok::Upper) => Prog::Cls(vec![('A', 'Z')]),
        Big::Rule(r, b) => Prog::Rule(if modr == 0 { *r } else { *r % modr } as R, Box::new(big_prog(b, modr))),
        Big::Choice(v) => chain(v.iter().map(|x| big_prog(x, modr)).collect(), Prog::Else),
        Big::Cat(v) => chain(v.iter().map(|x| big_prog(x, modr)).collect(), Prog::Then),
    }
}
fn big_gexpr(t: &Big, rules: &mut Vec<String>) -> String {
    match t {
        Big::Tok(BTok::Lit(s)) => format!("\"{}\"", s), Big::Tok(BTok::Ins(s)) => format!("^\"{}\"", s),
        Big::Tok(BTok::Range(a, b)) => format!("'{}'..'{}'", a, b), Big::Tok(BTok::Upper) => "ASCII_ALPHA_UPPER".into(),
        Big::Rule(r, b) => { let e = big_gexpr(b, rules); rules.push(format!("x{} = {{ {} }}", r, e)); format!("x{}", r) }
        Big::Choice(v) => format!("({})", v.iter().map(|x| big_gexpr(x, rules)).collect::<Vec<_>>().join(" | ")),
        Big::Cat(v) => format!("({})", v.iter().map(|x| big_gexpr(x, rules)).collect::<Vec<_>>().join(" ~ ")),
    }
}
fn big_grammar(t: &Big) -> String {
    let mut rules = vec![];
    let e = big_gexpr(t, &mut rules);
    format!("r0 = {{ {} }}\n{}\n", e, rules.join("\n"))
}

// ------------------------------------------------------------------------------------------
// generated grammars through pest_meta + pest_vm
// ------------------------------------------------------------------------------------------
fn gexpr(rng: &mut Rng, depth: u32, cur: usize, nrules: usize) -> String {
    if depth == 0 || rng.chance(1, 4) {
        return match rng.weighted(&[8, 6, 3, 2, 3, 3, 2, 1, 6, 1, 1, 1, 1]) {
            0 => "\"a\"".into(), 1 => "\"b\"".into(), 2 => "\"ab\"".into(), 3 => "\"é\"".into(), 4 => "^\"a\"".into(),
            5 => "'a'..'b'".into(), 6 => "ANY".into(), 7 => "ASCII_ALPHA".into(),
            8 => if cur + 1 < nrules { format!("r{}", rng.range(cur as u64 + 1, nrules as u64 - 1)) } else { "\"a\"".into() },
            9 => "EOI".into(), 10 => "PEEK".into(), 11 => "POP".into(), _ => "SOI".into(),
        };
    }
    let a = gexpr(rng, depth - 1, cur, nrules);
    match rng.weighted(&[10, 8, 3, 2, 3, 2, 3, 2, 1]) {
        0 => format!("({} ~ {})", a, gexpr(rng, depth - 1, cur, nrules)),
        1 => format!("({} | {})", a, gexpr(rng, depth - 1, cur, nrules)),
        2 => format!("({})*", a), 3 => format!("({})+", a), 4 => format!("({})?", a),
        5 => format!("&({})", a), 6 => format!("!({})", a), 7 => format!("PUSH({})", a),
        _ => format!("({}){{2}}", a),
    }
}
fn ggrammar(rng: &mut Rng) -> (String, usize) {
    let nrules = rng.range(1, 4) as usize;
    let mut g = String::new();
    for i in 0..nrules {
        let m = ["", "", "", "_", "@", "$", "!"][rng.below(7) as usize];
        g.push_str(&format!("r{} = {}{{ {} }}\n", i, m, gexpr(rng, 3, i, nrules)));
    }
    if rng.chance(1, 3) { g.push_str("WHITESPACE = _{ \" \" }\n"); }
    (g, nrules)
}
/// grammar-level version of nested_wide: r0 = { "a"{prefix} ~ (p0 | p1 | o1) }, o1 = { s1 | o2 }, ..., innermost = { a0 | a1 | a2 | a3 .. }
fn ggrammar_wide(rng: &mut Rng) -> String {
    let prefix = rng.below(3); let pre = rng.range(0, 3); let levels = rng.range(1, 3); let width = rng.range(3, 6); let side = rng.below(3);
    let toks = ["\"b\"", "^\"b\"", "'b'..'b'", "ASCII_DIGIT", "(\"b\" ~ \"a\")"];
    let kinds = rng.below(3);
    let tok = |i: u64| toks[(if kinds == 0 { 0 } else { (i + kinds) % 5 }) as usize];
    let mut g = String::new();
    let mut rules: Vec<String> = vec![];
    let inner_alts: Vec<String> = (0..width).map(|i| { rules.push(format!("a{} = {{ {} }}", i, tok(i))); format!("a{}", i) }).collect();
    rules.push(format!("w = {{ {} }}", inner_alts.join(" | ")));
    let mut inner = "w".to_string();
    for l in 1..levels {
        let mut alts: Vec<String> = (0..side).map(|i| { rules.push(format!("s{}x{} = {{ {} }}", l, i, tok(10 + l + i))); format!("s{}x{}", l, i) }).collect();
        alts.push(inner);
        rules.push(format!("o{} = {{ {} }}", l, alts.join(" | ")));
        inner = format!("o{}", l);
    }
    let mut alts: Vec<String> = (0..pre).map(|i| { rules.push(format!("p{} = {{ {} }}", i, tok(20 + i))); format!("p{}", i) }).collect();
    alts.push(inner);
    let pre_s: String = (0..prefix).map(|_| "\"a\" ~ ").collect();
    g.push_str(&format!("r0 = {{ {}({}) }}\n", pre_s, alts.join(" | ")));
    for r in rules { g.push_str(&r); g.push('\n'); }
    g
}
/// grammar-level version of stack_prog: r0 = { PUSH(l1) ~ PUSH(l2) ~ <PEEK_ALL / PEEK[a..b] as alternative or under ? / * / !> }
fn ggrammar_stack(rng: &mut Rng) -> (String, Vec<String>) {
    let n = rng.range(2, 3) as usize;
    let lits: Vec<&str> = (0..n).map(|_| STACK_LITS[rng.below(4) as usize]).collect();
    let op = ["PEEK_ALL", "PEEK[..]", "PEEK[0..2]", "PEEK[-2..]", "PEEK[1..]", "PEEK[..-1]", "POP_ALL"][rng.below(7) as usize];
    let tail = ["\"a\"", "\"b\"", "ANY*", "EOI", "\"\"", "t"][rng.below(6) as usize];
    let core = match rng.below(6) {
        0 => format!("({} | {})", op, tail), 1 => format!("({})? ~ {}", op, tail), 2 => format!("({})* ~ {}", op, tail),
        3 => format!("!({}) ~ {}", op, tail), 4 => format!("(x | {})", tail), _ => format!("({} | {}) ~ {}", op, tail, tail),
    };
    let pushes: String = lits.iter().map(|l| format!("PUSH(\"{}\") ~ ", l)).collect();
    let g = format!("r0 = {{ {}{} }}\nx = {{ {} }}\nt = {{ \"b\" }}\n", pushes, core, op);
    let consumed: String = lits.concat();
    let inputs = stack_inputs(&lits).into_iter().map(|s| format!("{}{}", consumed, s)).collect();
    (g, inputs)
}
fn vm_rule_message(r: &&str) -> Option<String> { if *r == "r2" { None } else { Some(format!("msg {}", r)) } }

struct VmObs { kind: String, text: String, problems: Vec<String>, recorded: bool }
fn vm_observe(vm: &pest_vm::Vm, rule: &str, input: &str, det: bool) -> VmObs {
    pest::set_error_detail(det);
    pest::set_call_limit(NonZeroUsize::new(20000));
    let mut o = VmObs { kind: String::new(), text: String::new(), problems: vec![], recorded: false };
    let r = catch(|| match vm.parse(rule, input) {
        Ok(pairs) => {
            let mut t = String::from("OK:");
            for tk in pairs.tokens() {
                match tk { pest::Token::Start { rule, pos } => t.push_str(&format!("S{}@{},", rule, pos.pos())), pest::Token::End { rule, pos } => t.push_str(&format!("E{}@{},", rule, pos.pos())) }
            }
            (true, t, String::new(), vec![], false)
        }
        Err(e) => {
            let t = format!("ERR:{:?}@{:?}/{:?}|{}", e.variant, e.location, e.line_col, esc(&format!("{}", e)));
            let mut problems = vec![]; let mut help = String::new(); let mut recorded = false;
            if det {
                let rtm: pest::error::RuleToMessageFn<&str> = Box::new(vm_rule_message);
                help = check_help(&e, input, &rtm, &mut problems);
                if let Some(pa) = e.parse_attempts() { recorded = !pa.call_stacks.is_empty() && (!pa.expected_tokens().is_empty() || !pa.unexpected_tokens().is_empty()); }
            } else if e.parse_attempts().is_some() { problems.push("the error carries ParseAttempts with the switch off".into()); }
            (false, t, help, problems, recorded)
        }
    });
    pest::set_call_limit(None);
    match r {
        Err(_) => { o.kind = "Panic".into(); o.text = "Panic".into(); }
        Ok((ok, t, help, problems, recorded)) => { o.kind = if ok { "Ok".into() } else { "Err".into() }; o.text = t; if !help.is_empty() { o.text.push_str(" || "); o.text.push_str(&help); } o.problems = problems; o.recorded = recorded; }
    }
    o
}
/// the observation with the HELP part removed (what must not depend on the switch)
fn vm_public(t: &str) -> &str { match t.find(" || HELP:") { Some(i) => &t[..i], None => t } }

fn emit_vm(vm: &pest_vm::Vm, grammar: &str, rule: &str, input: &str, w: &mut BufWriter<io::StdoutLock>, st: &mut Stats) {
    let o0 = vm_observe(vm, rule, input, false);
    let o1 = vm_observe(vm, rule, input, true);
    let cs = format!("rule={} in={} g={}", rule, hex(input), hex(grammar));
    writeln!(w, "VM\t{}\t{}", cs, o1.text).unwrap();
    st.n += 2;
    match o1.kind.as_str() { "Ok" => st.oks += 1, "Err" => st.errs += 1, _ => st.panics += 1 }
    if o1.text.contains(" || HELP:") && !o1.text.ends_with("panic") { st.help_rendered += 1; }
    let mut problems = vec![];
    if o0.kind != o1.kind {
        if o1.kind == "Panic" { problems.push(format!("panic only in detail mode (without detail: {})", vm_public(&o0.text))); }
        else { problems.push(format!("result kind differs: without detail {}, with detail {}", o0.kind, o1.kind)); }
    } else if vm_public(&o0.text) != vm_public(&o1.text) {
        problems.push(format!("parse result differs: without detail [{}] with detail [{}]", vm_public(&o0.text), vm_public(&o1.text)));
    }
    problems.extend(o0.problems.iter().map(|p| format!("[detail off] {}", p)));
    problems.extend(o1.problems.iter().cloned());
    st.violations += problems.len() as u64;
    for m in &problems { writeln!(w, "CONTRACT\tVM {}\t{}", cs, m).unwrap(); }
    if o1.kind == "Err" && o1.recorded && st.seen.insert(cs) { st.nontriv += 1; }
}
fn compile(g: &str) -> Option<pest_vm::Vm> {
    pest::set_call_limit(None);
    pest::set_error_detail(false);
    match catch(|| pest_meta::parse_and_optimize(g).map(|(_, rules)| pest_vm::Vm::new(rules))) { Ok(Ok(vm)) => Some(vm), _ => None }
}

fn main() {
    quiet_panics();
    let mode = arg(1);
    let stdout = io::stdout();
    let mut w = BufWriter::with_capacity(1 << 20, stdout.lock());
    let mut st = Stats { n: 0, nontriv: 0, oks: 0, errs: 0, panics: 0, diverged: 0, violations: 0, help_rendered: 0, seen: HashSet::new() };
    let mut rejected = 0u64;
    match mode.as_str() {
        // one prog case (either det value: both runs are made)
        "one" => { let c = Case::parse(&arg(2)); emit_pair(&c, &mut w, &mut st); }
        // one grammar case: "rule=<r> in=<hex> g=<hex>"
        "vmone" => {
            let s = arg(2); let s = s.strip_prefix("VM ").unwrap_or(&s).to_string();
            let ki = s.find(" in=").unwrap(); let kg = s.find(" g=").unwrap();
            let rule = s[5..ki].to_string(); let input = unhex(&s[ki + 4..kg]); let g = unhex(&s[kg + 3..]);
            match compile(&g) { Some(vm) => emit_vm(&vm, &g, &rule, &input, &mut w, &mut st), None => { writeln!(w, "CONTRACT\tVM {}\tgrammar does not compile", s).unwrap(); } }
        }
        // failing-input search around one prog case: the same closure tree on every short input, with and without a call limit
        "around" => {
            let c = Case::parse(&arg(2));
            let mut inputs = all_inputs(3);
            for extra in ["\n", "a\n", "\na", "\n\n\n\n\n\n\n\n\n\nab", "ab\nab", "é\né"] { inputs.push(extra.to_string()); }
            inputs.push(c.input.clone());
            for input in &inputs { for lim in [None, c.lim, Some(3), Some(8)] {
                emit_pair(&Case { lim, det: true, input: input.clone(), env: c.env.clone(), prog: c.prog.clone() }, &mut w, &mut st);
            } }
        }
        "random" => {
            let count = arg_u64(2, 1000); let mut rng = Rng::new(arg_u64(3, 0)); let maxdepth = arg_u64(4, 5) as u32;
            let mut i = 0;
            while i < count {
                let nfun = rng.below(3) as usize;
                let env: Vec<Prog> = (0..nfun).map(|k| gen15(&mut rng, 2, nfun, Some(k + 1))).collect();
                let d = rng.range(1, maxdepth as u64) as u32;
                let mut stack_in: Option<Vec<String>> = None;
                let mut prog = match rng.below(8) {
                    7 => { let (p, ins) = gen_long15(&mut rng); stack_in = Some(ins); p }
                    0 => gen_wide(&mut rng), 1 => gen(&mut rng, d, nfun, Some(0)), 2 => gen_nested_wide(&mut rng),
                    3 => { let (p, ins) = gen_stack15(&mut rng); stack_in = Some(ins); p }
                    _ => gen15(&mut rng, d, nfun, Some(0)),
                };
                // sometimes many lines first, so that line numbers (the spacing of the help text) reach two digits
                let many_lines = rng.chance(1, 12);
                if many_lines { prog = Prog::Then(Box::new(Prog::Rep(Box::new(Prog::Str("\n".into())))), Box::new(prog)); }
                let lim = if rng.chance(1, 10) { Some(rng.range(1, 12) as usize) } else { None };
                for _ in 0..3 {
                    let mut input = match &stack_in { Some(ins) if rng.chance(4, 5) => ins[rng.below(ins.len() as u64) as usize].clone(), _ => gen_input15(&mut rng, 6) };
                    if many_lines { input = format!("{}{}", "\n".repeat(rng.range(8, 11) as usize), input); }
                    emit_pair(&Case { lim, det: true, input, env: env.clone(), prog: prog.clone() }, &mut w, &mut st);
                    i += 1;
                }
            }
        }
        // the two families above, enumerated: nested rules over wide choices (all shapes up to 3 recorded attempts, 3 levels,
        // 6 alternatives) and stack-slice matching (all ordered pairs of literals x operations x wrappers x prefix inputs)
        "targeted" => {
            use Prog::*;
            let shard = arg_u64(2, 0); let shards = arg_u64(3, 1).max(1); let mut k = 0u64;
            let toks: Vec<Box<dyn Fn(usize) -> Prog>> = vec![Box::new(|_| Str("b".into())), Box::new(|i| if i % 2 == 0 { Str("b".into()) } else { Ins("b".into()) }),
                Box::new(|i| match i % 3 { 0 => Range('b', 'b'), 1 => Str("b".into()), _ => Cls(vec![('A', 'Z')]) })];
            for prefix in 0..2 { for pre in 0..4 { for levels in 1..4 { for width in 2..7 { for side in 0..2 { for tok in &toks {
                k += 1; if k % shards != shard { continue; }
                let p = nested_wide(prefix, pre, levels, width, side, tok.as_ref());
                for input in ["", "a", "aa", "ab", "b", "é"] { emit_pair(&Case { lim: None, det: true, input: input.to_string(), env: vec![], prog: p.clone() }, &mut w, &mut st); }
            } } } } } }
            let tails = [Ok, Eoi, Str("b".into()), Rule(0, Box::new(Str("a".into())))];
            for l1 in STACK_LITS.iter() { for l2 in STACK_LITS.iter() { if l1 == l2 { continue; } for op in stack_ops().iter() { for wrap in 0..5 { for tail in tails.iter() {
                k += 1; if k % shards != shard { continue; }
                let lits = [*l1, *l2];
                let p = stack_prog(&lits, op, wrap, tail);
                for input in stack_inputs(&lits) { emit_pair(&Case { lim: None, det: true, input, env: vec![], prog: p.clone() }, &mut w, &mut st); }
            } } } } }
        }
        // exhaustive small trees around rule / sequence / look-ahead x all short inputs
        "small" => {
            use Prog::*;
            let maxlen = arg_u64(2, 2) as usize; let shard = arg_u64(3, 0); let shards = arg_u64(4, 1).max(1);
            let leaves: Vec<Prog> = vec![Str("a".into()), Str("b".into()), Str("é".into()), Ins("a".into()), Range('a', 'b'), Cls(vec![('\0', '\u{10ffff}')]), Err, Ok, Eoi];
            let un: Vec<fn(Prog) -> Prog> = vec![|p| Rule(1, Box::new(p)), |p| Rule(2, Box::new(p)), |p| Seq(Box::new(p)), |p| Opt(Box::new(p)),
                |p| Look(true, Box::new(p)), |p| Look(false, Box::new(p)), |p| Atomic(0, Box::new(p)),
                |p| Rep(Box::new(Seq(Box::new(Then(Box::new(Range('a', 'b')), Box::new(p))))))];
            let mut pairs: Vec<Prog> = vec![];
            for a in &leaves { for b in &leaves { pairs.push(Then(Box::new(a.clone()), Box::new(b.clone()))); pairs.push(Else(Box::new(a.clone()), Box::new(b.clone()))); } }
            let mut progs: Vec<Prog> = vec![];
            for u in &un { for p in &pairs { progs.push(u(p.clone())); } }
            for u1 in &un { for u2 in &un { for l in &leaves { progs.push(u1(u2(l.clone()))); } } }
            for a in &leaves { for b in &leaves {
                let alt = Else(Box::new(Rule(1, Box::new(a.clone()))), Box::new(Rule(2, Box::new(b.clone()))));
                progs.push(alt.clone()); progs.push(Rule(0, Box::new(alt.clone())));
                progs.push(Then(Box::new(Opt(Box::new(Str("a".into())))), Box::new(Rule(3, Box::new(alt)))));
            } }
            let inputs = all_inputs(maxlen);
            for (k, p) in progs.iter().enumerate() {
                if (k as u64) % shards != shard { continue; }
                for input in &inputs { emit_pair(&Case { lim: None, det: true, input: input.clone(), env: vec![], prog: p.clone() }, &mut w, &mut st); }
            }
        }
        // big choices (see gen_big): every tree as a closure tree (rule numbers distinct or folded) and as a grammar
        "big" => {
            let count = arg_u64(2, 200); let mut rng = Rng::new(arg_u64(3, 0));
            let mut i = 0;
            while i < count {
                let (t, prefix) = gen_big(&mut rng);
                let prog = big_prog(&t, [0u32, 0, 5, 3][rng.below(4) as usize]);
                let inputs: Vec<String> = (0..3).map(|_| big_input(&mut rng, prefix)).collect();
                for input in &inputs {
                    emit_pair(&Case { lim: None, det: true, input: input.clone(), env: vec![], prog: prog.clone() }, &mut w, &mut st);
                    i += 1;
                }
                let g = big_grammar(&t);
                match compile(&g) {
                    Some(vm) => for input in &inputs { emit_vm(&vm, &g, "r0", input, &mut w, &mut st); i += 1; },
                    None => { rejected += 1; }
                }
            }
        }
        // generated grammars through the VM
        "vm" => {
            let count = arg_u64(2, 200); let mut rng = Rng::new(arg_u64(3, 0));
            let alpha = ["a", "b", "é", " ", "\n", "A"];
            let mut i = 0;
            while i < count {
                let mut fixed_inputs: Option<Vec<String>> = None;
                let (g, nrules) = match rng.below(5) {
                    0 => (ggrammar_wide(&mut rng), 1),
                    1 => { let (g, ins) = ggrammar_stack(&mut rng); fixed_inputs = Some(ins); (g, 1) }
                    _ => ggrammar(&mut rng),
                };
                let vm = match compile(&g) { Some(vm) => vm, None => { rejected += 1; continue; } };
                for _ in 0..6 {
                    let n = rng.range(0, 5);
                    let input: String = match &fixed_inputs {
                        Some(ins) if rng.chance(5, 6) => ins[rng.below(ins.len() as u64) as usize].clone(),
                        _ => (0..n).map(|_| alpha[rng.weighted(&[6, 5, 2, 2, 1, 1])]).collect(),
                    };
                    let rule = format!("r{}", if rng.chance(3, 4) { 0 } else { rng.below(nrules as u64) });
                    emit_vm(&vm, &g, &rule, &input, &mut w, &mut st);
                    i += 1;
                }
            }
        }
        _ => { eprintln!("usage: c15 one CASE | vmone CASE | around CASE | random COUNT SEED [DEPTH] | big COUNT SEED | targeted [SHARD SHARDS] | small MAXLEN [SHARD SHARDS] | vm COUNT SEED"); std::process::exit(2); }
    }
    writeln!(w, "#SUMMARY\tevaluations={}\tdistinct_nontrivial={}\tok={}\terr={}\tpanics={}\tdiverged={}\toracle_violations={}\thelp_rendered={}\tgrammars_rejected={}",
        st.n, st.nontriv, st.oks, st.errs, st.panics, st.diverged, st.violations, st.help_rendered, rejected).unwrap();
}
