//! C11: drive pest::Stack<u8> through operation histories and print, per history,
//! the observation after every operation:  contents|returned|popped|lengths;
//! (all vectors in Vec order, i.e. bottom/oldest first).  Internals come from the derived Debug.
use pvharness::*;
use std::collections::HashSet;
use std::io::{self, Write, BufWriter};

const OPS: [char; 7] = ['0', '1', 'o', 'k', 's', 'c', 'r'];

fn internals(st: &pest::Stack<u8>) -> String {
    // "Stack { cache: [0, 1], popped: [], lengths: [(1, 1)] }"
    let d = format!("{:?}", st);
    let field = |name: &str, next: Option<&str>| -> String {
        let a = d.find(&format!("{}: [", name)).map(|i| i + name.len() + 3);
        match a {
            None => "?".to_string(),
            Some(a) => {
                let b = match next { Some(n) => d.find(&format!("], {}:", n)).unwrap_or(d.len()), None => d.rfind("] }").unwrap_or(d.len()) };
                d[a..b].to_string()
            }
        }
    };
    let cache = field("cache", Some("popped")).replace(", ", "");
    let popped = field("popped", Some("lengths")).replace(", ", "");
    let lengths = field("lengths", None).replace("), (", ",").replace(", ", ".").replace('(', "").replace(')', "");
    format!("{}|{}|{}", cache, popped, lengths)
}

/// returns (trace, nontrivial)
fn run(ops: &[char]) -> (String, bool) {
    let mut st: pest::Stack<u8> = pest::Stack::new();
    let mut out = String::new();
    let mut had_popped = false;
    let mut nontrivial = false;
    for &o in ops {
        let r = catch(|| match o {
            '0' => { st.push(0); "-".to_string() }
            '1' => { st.push(1); "-".to_string() }
            'o' => match st.pop() { Some(x) => x.to_string(), None => "n".to_string() },
            'k' => match st.peek() { Some(x) => x.to_string(), None => "n".to_string() },
            's' => { st.snapshot(); "-".to_string() }
            'c' => { st.clear_snapshot(); "-".to_string() }
            'r' => { st.restore(); "-".to_string() }
            _ => unreachable!(),
        });
        match r {
            Err(_) => { out.push_str("PANIC"); return (out, nontrivial); }
            Ok(ret) => {
                let i = internals(&st);
                // i = cache|popped|lengths ; print as cache|ret|popped|lengths
                let mut parts = i.splitn(2, '|');
                let cache = parts.next().unwrap();
                let rest = parts.next().unwrap_or("");
                if (o == 'c' || o == 'r') && had_popped { nontrivial = true; }
                had_popped = !rest.starts_with('|');
                if st.len() != cache.len() { out.push_str("LENMISMATCH"); }
                out.push_str(&format!("{}|{}|{};", cache, ret, rest));
            }
        }
    }
    (out, nontrivial)
}

fn main() {
    quiet_panics();
    let mode = arg(1);
    let stdout = io::stdout();
    let mut w = BufWriter::with_capacity(1 << 20, stdout.lock());
    let mut n: u64 = 0;
    let mut nontriv: u64 = 0;
    let mut seen: HashSet<String> = HashSet::new();
    let mut emit = |ops: &[char], w: &mut BufWriter<io::StdoutLock>, dedup: bool| {
        let s: String = ops.iter().collect();
        let (t, nt) = run(ops);
        n += 1;
        if nt && (!dedup || seen.insert(s.clone())) { nontriv += 1; }
        writeln!(w, "{}\t{}", s, t).unwrap();
    };
    match mode.as_str() {
        "exhaustive" => {
            // every history of length exactly N (its trace contains every prefix's observation)
            let nlen = arg_u64(2, 6) as usize;
            let mut idx = vec![0usize; nlen];
            loop {
                let ops: Vec<char> = idx.iter().map(|&i| OPS[i]).collect();
                emit(&ops, &mut w, false);
                let mut k = nlen;
                loop {
                    if k == 0 { break; }
                    k -= 1;
                    idx[k] += 1;
                    if idx[k] < OPS.len() { break; }
                    idx[k] = 0;
                    if k == 0 { k = usize::MAX; break; }
                }
                if k == usize::MAX || nlen == 0 { break; }
            }
        }
        "random" => {
            let count = arg_u64(2, 1000);
            let mut rng = Rng::new(arg_u64(3, 0));
            for _ in 0..count {
                let len = rng.range(20, 300) as usize;
                // nesting-biased weights, varied per history
                let profile = rng.below(3);
                let ws: [u64; 7] = match profile { 0 => [3, 3, 4, 1, 4, 2, 2], 1 => [2, 2, 5, 1, 5, 1, 3], _ => [4, 4, 3, 1, 2, 3, 1] };
                let ops: Vec<char> = (0..len).map(|_| OPS[rng.weighted(&ws)]).collect();
                emit(&ops, &mut w, true);
            }
        }
        "one" => { let ops: Vec<char> = arg(2).chars().collect(); emit(&ops, &mut w, false); }
        _ => { eprintln!("usage: c11 exhaustive N | random COUNT SEED | one OPS"); std::process::exit(2); }
    }
    writeln!(w, "#SUMMARY\tevaluations={}\tdistinct_nontrivial={}", n, nontriv).unwrap();
}
