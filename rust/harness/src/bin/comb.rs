//! Layer-C correspondence: drives the real pest::ParserState with generated closure trees.
//! One line per case:  "<case>\t<observation>"   case = "lim=<n|-> det=<0|1> in=<hex> env=<p;p;..|-> prog=<p>"
//! observation = "<Ok|Err> <verif_dump> || <state() outcome>" | "Panic" | "Diverged"
//! Extra lines:  "CONTRACT\t<case>\t<message>"  (a documented combinator contract observed to fail on the real code)
use pvharness::prog::*;
use pvharness::*;
use std::collections::HashSet;
use std::io::{self, BufWriter, Write};
use std::num::NonZeroUsize;

struct Case { lim: Option<usize>, det: bool, input: String, env: Vec<Prog>, prog: Prog }

impl Case {
    fn show(&self) -> String {
        format!("lim={} det={} in={} env={} prog={}", self.lim.map(|x| x.to_string()).unwrap_or("-".into()), self.det as u8, hex(&self.input),
            if self.env.is_empty() { "-".to_string() } else { self.env.iter().map(|p| p.show()).collect::<Vec<_>>().join(";") }, self.prog.show())
    }
    fn parse(s: &str) -> Case {
        let mut lim = None; let mut det = false; let mut input = String::new(); let mut env = vec![]; let mut prog = Prog::Ok;
        // fields are separated by single spaces but progs contain spaces: split on the known keys
        let ki = s.find(" in=").unwrap(); let ke = s.find(" env=").unwrap(); let kp = s.find(" prog=").unwrap();
        for f in s[..ki].split(' ') {
            if let Some(v) = f.strip_prefix("lim=") { lim = v.parse().ok(); }
            if let Some(v) = f.strip_prefix("det=") { det = v == "1"; }
        }
        input = unhex(&s[ki + 4..ke]);
        let e = &s[ke + 5..kp];
        if e != "-" { env = e.split(';').map(Prog::parse).collect(); }
        prog = Prog::parse(&s[kp + 6..]);
        Case { lim, det, input, env, prog }
    }
}

struct Obs { text: String, ok: bool, calls: u64, nontrivial: bool, contract: Vec<String>, state_outcome: String, dump: String }

fn tokens_of<'i>(pairs: pest::iterators::Pairs<'i, R>) -> String {
    let mut o = String::new();
    for t in pairs.tokens() {
        match t { pest::Token::Start { rule, pos } => o.push_str(&format!("S{}@{},", rule, pos.pos())), pest::Token::End { rule, pos } => o.push_str(&format!("E{}@{},", rule, pos.pos())) }
    }
    o
}

fn observe(c: &Case) -> Obs {
    pest::set_call_limit(c.lim.and_then(NonZeroUsize::new));
    pest::set_error_detail(c.det);
    let cx = Ctx::new(&c.env, 4000);
    *cx.input.borrow_mut() = Some(c.input.clone());
    let r = catch(|| {
        let s = pest::ParserState::<R>::new(&c.input);
        match run(&c.prog, s, &cx) { Ok(s) => (true, s.verif_dump()), Err(s) => (false, s.verif_dump()) }
    });
    let mut obs = Obs { text: String::new(), ok: false, calls: 0, nontrivial: cx.nontrivial.get(), contract: cx.contract.borrow().clone(), state_outcome: String::new(), dump: String::new() };
    match r {
        Err(_) => { obs.text = "Panic".into(); }
        Ok(_) if cx.diverged.get() => { obs.text = "Diverged".into(); obs.contract.clear(); }
        Ok((ok, dump)) => {
            // the public entry point state(): tokens or error
            let cx2 = Ctx::new(&c.env, 4000);
            let st = catch(|| pest::state::<R, _>(&c.input, |s| run(&c.prog, s, &cx2)));
            let so = match st {
                Err(_) => "Panic".to_string(),
                Ok(Ok(pairs)) => match catch(|| tokens_of(pairs)) { Ok(t) => format!("OK:{}", t), Err(_) => "OK:tokens-panic".to_string() },
                Ok(Err(e)) => {
                    let at = match e.location { pest::error::InputLocation::Pos(p) => p.to_string(), pest::error::InputLocation::Span((a, b)) => format!("{}-{}", a, b) };
                    match e.variant {
                        pest::error::ErrorVariant::ParsingError { positives, negatives } => format!("PE:{:?}:{:?}@{}", positives, negatives, at),
                        pest::error::ErrorVariant::CustomError { message } => format!("CE:{}@{}", message, at),
                    }
                }
            };
            obs.ok = ok;
            obs.text = format!("{} {} || {}", if ok { "Ok" } else { "Err" }, dump, so);
            obs.state_outcome = so;
            obs.dump = dump;
        }
    }
    obs
}

fn main() {
    quiet_panics();
    let mode = arg(1);
    let stdout = io::stdout();
    let mut w = BufWriter::with_capacity(1 << 20, stdout.lock());
    let mut n = 0u64; let mut nontriv = 0u64; let mut oks = 0u64; let mut panics = 0u64; let mut diverged = 0u64;
    let mut seen: HashSet<String> = HashSet::new();
    let mut emit = |c: &Case, w: &mut BufWriter<io::StdoutLock>| -> Obs {
        let cs = c.show();
        let o = observe(c);
        n += 1;
        if o.ok { oks += 1; }
        if o.text == "Panic" { panics += 1; }
        if o.text == "Diverged" { diverged += 1; }
        if o.nontrivial && seen.insert(cs.clone()) { nontriv += 1; }
        writeln!(w, "{}\t{}", cs, o.text).unwrap();
        for m in &o.contract { writeln!(w, "CONTRACT\t{}\t{}", cs, m).unwrap(); }
        o
    };
    match mode.as_str() {
        "one" => { let c = Case::parse(&arg(2)); emit(&c, &mut w); }
        // C03: random trees, no limit, detail off and on
        "random" => {
            let count = arg_u64(2, 1000); let mut rng = Rng::new(arg_u64(3, 0)); let maxdepth = arg_u64(4, 6) as u32;
            let mut i = 0;
            while i < count {
                let nfun = rng.below(3) as usize;
                let env: Vec<Prog> = (0..nfun).map(|k| gen(&mut rng, 3, nfun, Some(k + 1))).collect();
                let d = rng.range(1, maxdepth as u64) as u32;
                let prog = gen(&mut rng, d, nfun, Some(0));
                let det = rng.chance(1, 3);
                for _ in 0..3 {
                    let input = gen_input_wide(&mut rng, 5);
                    emit(&Case { lim: None, det, input, env: env.clone(), prog: prog.clone() }, &mut w);
                    i += 1;
                }
            }
        }
        // stack-heavy trees (nested scopes that pop below snapshot lines), empty input
        "stack" => {
            let count = arg_u64(2, 1000); let mut rng = Rng::new(arg_u64(3, 0));
            for _ in 0..count {
                let d = rng.range(3, 9) as u32;
                // a few initial pushes so that there is something below the first snapshot
                let mut p = gen_stack(&mut rng, d);
                for lit in ["a", "b", "c"].iter().take(rng.below(4) as usize) { p = Prog::Then(Box::new(Prog::PushLit(lit.to_string())), Box::new(p)); }
                emit(&Case { lim: None, det: false, input: String::new(), env: vec![], prog: p.clone() }, &mut w);
                // one tree in four also under small call limits: a combinator refused by the limit is a failing combinator like any
                // other (the enclosing sequence / look-ahead still has to leave position, tokens and stack as they were)
                if rng.chance(1, 4) { for lim in [1usize, 2, 3, 4, 6, 9, 14] { emit(&Case { lim: Some(lim), det: false, input: String::new(), env: vec![], prog: p.clone() }, &mut w); } }
            }
        }
        // stack matching against partly matching inputs: two or three different literals pushed, then POP_ALL / PEEK_ALL /
        // PEEK[..] / POP / PEEK as an alternative, under opt / rep / look-ahead or bare, on every prefix of the stack
        // contents (both orders) optionally followed by one more char: "a failing primitive does not move"
        "stackmatch" => {
            let lits = ["a", "b", "ab", "é"];
            let ops: Vec<Prog> = vec![Prog::MPop, Prog::MPeek, Prog::Pop, Prog::Peek, Prog::Slice(0, None, true), Prog::Slice(0, None, false),
                Prog::Slice(-2, None, true), Prog::Slice(0, Some(-1), false), Prog::Slice(1, Some(3), true)];
            let wraps: Vec<fn(Prog) -> Prog> = vec![|p| p, |p| Prog::Else(Box::new(p), Box::new(Prog::Str("a".into()))), |p| Prog::Opt(Box::new(p)),
                |p| Prog::Rep(Box::new(p)), |p| Prog::Look(false, Box::new(p)), |p| Prog::Look(true, Box::new(p)),
                |p| Prog::Else(Box::new(Prog::Rule(1, Box::new(p))), Box::new(Prog::Rule(2, Box::new(Prog::Skip(1))))),
                |p| Prog::Then(Box::new(Prog::Opt(Box::new(p))), Box::new(Prog::Cls(vec![('\0', '\u{10ffff}')])))];
            for (i, l1) in lits.iter().enumerate() { for (j, l2) in lits.iter().enumerate() { for l3 in ["", "b"] {
                if i == j { continue; }
                let mut texts: Vec<String> = vec![format!("{}{}{}", l3, l2, l1), format!("{}{}{}", l1, l2, l3), format!("{}{}", l2, l1), format!("{}{}", l1, l2)];
                texts.dedup();
                let mut inputs: Vec<String> = vec![];
                for t in &texts { let cs: Vec<char> = t.chars().collect(); for k in 0..=cs.len() { let pre: String = cs[..k].iter().collect(); inputs.push(pre.clone()); inputs.push(format!("{}b", pre)); } }
                inputs.sort(); inputs.dedup();
                for op in &ops { for w0 in &wraps {
                    let mut p = w0(op.clone());
                    if !l3.is_empty() { p = Prog::Then(Box::new(Prog::PushLit(l3.to_string())), Box::new(p)); }
                    p = Prog::Then(Box::new(Prog::PushLit(l1.to_string())), Box::new(Prog::Then(Box::new(Prog::PushLit(l2.to_string())), Box::new(p))));
                    for input in &inputs { emit(&Case { lim: None, det: false, input: input.clone(), env: vec![], prog: p.clone() }, &mut w); }
                } }
            } } }
        }
        // exhaustive small trees x all short inputs
        "small" => {
            let maxlen = arg_u64(2, 3) as usize;
            let mut rng = Rng::new(7);
            let mut leaves: Vec<Prog> = vec![Prog::Ok, Prog::Err, Prog::Str("a".into()), Prog::Str("ab".into()), Prog::Str("é".into()), Prog::Str("".into()),
                Prog::Ins("b".into()), Prog::Range('a', 'b'), Prog::Range('a', 'ÿ'), Prog::Range('B', 'è'), Prog::Cls(vec![('\0', '\u{10ffff}')]), Prog::Skip(1), Prog::Until(vec!["b".into()]),
                Prog::Until(vec!["a".into(), "é".into()]), Prog::Until(vec!["b".into(), "a".into(), "".into()]), Prog::Soi, Prog::Eoi,
                Prog::PushLit("a".into()), Prog::Pop, Prog::Peek, Prog::Drop, Prog::MPeek, Prog::MPop, Prog::Slice(0, Some(1), true), Prog::Tag(1)];
            let _ = &mut rng;
            let un: Vec<fn(Prog) -> Prog> = vec![|p| Prog::Rule(1, Box::new(p)), |p| Prog::Seq(Box::new(p)), |p| Prog::Opt(Box::new(p)),
                |p| Prog::Look(true, Box::new(p)), |p| Prog::Look(false, Box::new(p)), |p| Prog::Atomic(0, Box::new(p)), |p| Prog::Atomic(1, Box::new(p)),
                |p| Prog::Push(Box::new(p)), |p| Prog::Roe(Box::new(p)), |p| Prog::Rep(Box::new(Prog::Seq(Box::new(Prog::Then(Box::new(Prog::Range('a', 'b')), Box::new(p))))))];
            let mut progs: Vec<Prog> = leaves.clone();
            let mut pairs: Vec<Prog> = vec![];
            for a in &leaves { for b in &leaves { pairs.push(Prog::Then(Box::new(a.clone()), Box::new(b.clone()))); } }
            for a in leaves.iter().take(12) { for b in leaves.iter().take(12) { pairs.push(Prog::Else(Box::new(a.clone()), Box::new(b.clone()))); } }
            for u in &un { for l in &leaves { progs.push(u(l.clone())); } }
            for u in &un { for p in &pairs { progs.push(u(p.clone())); } }
            // two levels of wrappers around a push/then/fail core: stack + queue restoration
            let cores = vec![
                Prog::Then(Box::new(Prog::Push(Box::new(Prog::Str("a".into())))), Box::new(Prog::Then(Box::new(Prog::Rule(2, Box::new(Prog::Str("b".into())))), Box::new(Prog::Err)))),
                Prog::Then(Box::new(Prog::PushLit("a".into())), Box::new(Prog::Then(Box::new(Prog::Pop), Box::new(Prog::Err)))),
                Prog::Then(Box::new(Prog::Rule(2, Box::new(Prog::Str("a".into())))), Box::new(Prog::Then(Box::new(Prog::Tag(1)), Box::new(Prog::Str("b".into()))))),
            ];
            for u1 in &un { for u2 in &un { for c in &cores {
                progs.push(Prog::Then(Box::new(Prog::PushLit("b".into())), Box::new(Prog::Then(Box::new(u1(u2(c.clone()))), Box::new(Prog::Pop)))));
            } } }
            leaves.clear();
            let inputs = all_inputs(maxlen);
            for p in &progs { for input in &inputs {
                emit(&Case { lim: None, det: false, input: input.clone(), env: vec![], prog: p.clone() }, &mut w);
            } }
            // token production switched on and off by nested atomicity / look-ahead inside a sequence that fails afterwards
            {
                let outers: Vec<fn(Prog) -> Prog> = vec![|p| p, |p| Prog::Atomic(0, Box::new(p)), |p| Prog::Atomic(1, Box::new(p)), |p| Prog::Atomic(2, Box::new(p)),
                    |p| Prog::Look(true, Box::new(p)), |p| Prog::Look(false, Box::new(p)), |p| Prog::Rule(3, Box::new(Prog::Atomic(0, Box::new(p))))];
                let inners: Vec<fn(Prog) -> Prog> = vec![|p| p, |p| Prog::Atomic(0, Box::new(p)), |p| Prog::Atomic(1, Box::new(p)), |p| Prog::Atomic(2, Box::new(p)),
                    |p| Prog::Atomic(1, Box::new(Prog::Look(true, Box::new(p)))), |p| Prog::Atomic(2, Box::new(Prog::Rule(1, Box::new(p))))];
                let tails = [Prog::Err, Prog::Str("b".into()), Prog::Eoi];
                let alts = [Prog::Str("a".into()), Prog::Ok, Prog::Rule(1, Box::new(Prog::Str("ab".into())))];
                for o in &outers { for i in &inners { for t in &tails { for a in &alts {
                    let body = Prog::Seq(Box::new(Prog::Then(Box::new(i(Prog::Rule(2, Box::new(Prog::Str("a".into()))))), Box::new(t.clone()))));
                    let p = o(Prog::Else(Box::new(body), Box::new(a.clone())));
                    for input in ["", "a", "ab", "aa", "b"] { emit(&Case { lim: None, det: false, input: input.to_string(), env: vec![], prog: p.clone() }, &mut w); }
                } } } }
            }
            // the literal matchers on every ASCII character against itself, its case variants and the character 0x20 away
            for c in 0u8..128 {
                let lit = (c as char).to_string();
                let mut ins: Vec<String> = vec![lit.clone(), ((c ^ 0x20) as char).to_string(), (c as char).to_ascii_uppercase().to_string(), (c as char).to_ascii_lowercase().to_string()];
                ins.sort(); ins.dedup();
                for p in [Prog::Ins(lit.clone()), Prog::Str(lit.clone()), Prog::Ins(format!("a{}", lit)), Prog::Range(c as char, c as char), Prog::Until(vec![lit.clone()])] {
                    for i in &ins { for input in [i.clone(), format!("a{}", i), format!("A{}b", i)] {
                        emit(&Case { lim: None, det: false, input, env: vec![], prog: p.clone() }, &mut w);
                    } }
                }
            }
            // every primitive, alone and under each wrapper, on characters of every UTF-8 width
            let wide = wide_inputs();
            let mut wl: Vec<Prog> = vec![Prog::Skip(1), Prog::Skip(2), Prog::Cls(vec![('\0', '\u{10ffff}')]), Prog::Range('\u{800}', '\u{10ffff}'), Prog::Range('a', '\u{ffff}'),
                Prog::Str("😀".into()), Prog::Str("€".into()), Prog::Ins("€".into()), Prog::Until(vec!["b".into()]), Prog::Until(vec!["a".into(), "😀".into()]),
                Prog::Until(vec!["b".into(), "a".into(), "€".into(), "é".into()]), Prog::Until(vec!["\u{10ffff}".into()]), Prog::Eoi];
            let base = wl.clone();
            for u in &un { for l in &base { wl.push(u(l.clone())); } }
            for a in &base { for b in &base { wl.push(Prog::Then(Box::new(a.clone()), Box::new(b.clone()))); } }
            for p in &wl { for input in &wide {
                emit(&Case { lim: None, det: false, input: input.clone(), env: vec![], prog: p.clone() }, &mut w);
            } }
        }
        _ => { eprintln!("usage: comb one CASE | random COUNT SEED [DEPTH] | stack COUNT SEED | stackmatch | small MAXLEN"); std::process::exit(2); }
    }
    writeln!(w, "#SUMMARY\tevaluations={}\tdistinct_nontrivial={}\tok={}\tpanics={}\tdiverged={}", n, nontriv, oks, panics, diverged).unwrap();
}
