//! C10: drive the REAL line/column and error-rendering code of pest on generated strings.
//!
//! One output line per case, `<case>\t<observation>`; the case ends with the escaped string:
//!   S:<str>            Position::new / Span::new over ALL byte offsets 0..=len+1 (bit strings)
//!   P:<a>:<str>        boundary offset a: Position::line_col, line_of (as byte range), pair line_col
//!                      (PairsBuilder), the Error fields and `format!("{}", Error::new_from_pos(..))`
//!   Q:<a>:<b>:<str>    boundary offsets a <= b: lines_span, lines, LineColLocation::from(span),
//!                      pair line_col through a real parse (index truncated at b), Span::get bits,
//!                      the Error fields and `format!("{}", Error::new_from_span(..))`
//!   M:<a>:<b>:<c>:<d>:<str>   merge_spans of (a,b) and (c,d)
//!   T:<tree>:<str>     a PairsBuilder tree `s-e[children],s-e,..` whose pairs need NOT be in source order
//!                      and whose children may start after / reach past their parents (build() only rejects
//!                      invalid spans): Pair::line_col of EVERY pair of the tree, in pre-order, `start@line,col|..`
//!   U:<a>:<c>:<d>:<b>:<str>   a real parse (pest::state): rule over a..b containing a rule over c..d, input
//!                      continuing after b (line index truncated at the last token): line_col of both pairs
//! Panics are caught and printed as PANIC.
use pest::error::{Error, ErrorVariant, InputLocation, LineColLocation};
use pest::iterators::PairsBuilder;
use pest::{Position, Span};
use pvharness::*;
use std::collections::HashSet;
use std::io::{self, BufWriter, Write};

#[allow(non_camel_case_types)]
#[derive(Clone, Copy, Debug, Eq, Hash, Ord, PartialEq, PartialOrd)]
enum Rule { r }

const ALPHA: [char; 6] = ['a', 'é', '😀', '\n', '\r', '\t'];
const MSG: &str = "E";

fn off_of(input: &str, part: &str) -> usize { part.as_ptr() as usize - input.as_ptr() as usize }

fn lc(x: (usize, usize)) -> String { format!("{},{}", x.0, x.1) }
fn lcl(x: &LineColLocation) -> String {
    match x { LineColLocation::Pos(p) => format!("P{}", lc(*p)), LineColLocation::Span(a, b) => format!("S{}-{}", lc(*a), lc(*b)) }
}
fn loc(x: &InputLocation) -> String {
    match x { InputLocation::Pos(p) => format!("P{}", p), InputLocation::Span((a, b)) => format!("S{}-{}", a, b) }
}
fn ok_or_panic(r: Result<String, String>) -> String { r.unwrap_or_else(|_| "PANIC".to_string()) }

fn boundaries(s: &str) -> Vec<usize> { (0..=s.len()).filter(|&i| s.is_char_boundary(i)).collect() }

fn obs_s(s: &str) -> String {
    let n = s.len() + 1;
    let mut o = String::from("pos=");
    for a in 0..=n { o.push(if ok_or_panic(catch(|| Position::new(s, a).is_some().to_string())) == "true" { '1' } else { '0' }); }
    o.push_str(";span=");
    for a in 0..=n {
        for b in 0..=n {
            let r = catch(|| match Span::new(s, a, b) { Some(sp) => if sp.start() == a && sp.end() == b && sp.as_str() == &s[a..b] { '1' } else { 'X' }, None => '0' });
            o.push(r.unwrap_or('P'));
        }
    }
    o
}

fn obs_p(s: &str, a: usize) -> String {
    let mut o = String::new();
    let pos = match Position::new(s, a) { Some(p) => p, None => return "NOPOS".to_string() };
    o.push_str(&format!("lc={}", ok_or_panic(catch(|| lc(pos.line_col())))));
    o.push_str(&format!(";lof={}", ok_or_panic(catch(|| { let l = pos.line_of(); let st = off_of(s, l); format!("{}-{}", st, st + l.len()) }))));
    // Pair::line_col through PairsBuilder (LineIndex over the whole input); the pair is a..a
    o.push_str(&format!(";plc={}", ok_or_panic(catch(|| {
        let pairs = PairsBuilder::new(s).rule(Rule::r, a, a).build();
        let pair = pairs.peek().unwrap();
        let x = pair.line_col();
        let y = pairs.clone().flatten().next().unwrap().line_col();
        if x != y { return "FLATDIFF".to_string(); }
        lc(x)
    }))));
    let e = catch(|| Error::<Rule>::new_from_pos(ErrorVariant::CustomError { message: MSG.to_string() }, pos));
    match e {
        Err(_) => o.push_str(";err=PANIC"),
        Ok(e) => {
            o.push_str(&format!(";loc={};lcl={};line={}", loc(&e.location), lcl(&e.line_col), esc(e.line())));
            o.push_str(&format!(";err={}", ok_or_panic(catch(|| esc(&format!("{}", e))))));
            o.push_str(&format!(";errp={}", ok_or_panic(catch(|| esc(&format!("{}", e.clone().with_path("f.rs")))))));
        }
    }
    o
}

fn obs_q(s: &str, a: usize, b: usize) -> String {
    let mut o = String::new();
    let span = match Span::new(s, a, b) { Some(p) => p, None => return "NOSPAN".to_string() };
    o.push_str(&format!("lines={}", ok_or_panic(catch(|| {
        let ls: Vec<Span> = span.lines_span().collect();
        let strs: Vec<&str> = span.lines().collect();
        if ls.len() != strs.len() { return "LINESDIFF".to_string(); }
        for (x, y) in ls.iter().zip(strs.iter()) {
            if x.as_str() != *y || off_of(s, y) != x.start() || x.get_input().as_ptr() != s.as_ptr() { return "LINESDIFF".to_string(); }
        }
        ls.iter().map(|x| format!("{}-{}", x.start(), x.end())).collect::<Vec<_>>().join(",")
    }))));
    o.push_str(&format!(";from={}", ok_or_panic(catch(|| lcl(&LineColLocation::from(span))))));
    // Pair::line_col of a pair produced by a parse: skip to a, rule over a..b
    let na = s[..a].chars().count();
    let nb = s[a..b].chars().count();
    o.push_str(&format!(";slc={}", ok_or_panic(catch(|| {
        let r = pest::state::<Rule, _>(s, |st| st.skip(na).and_then(|st| st.rule(Rule::r, |st| st.skip(nb))));
        match r {
            Ok(mut pairs) => { let p = pairs.next().unwrap(); if p.as_span().start() != a || p.as_span().end() != b { "BADPAIR".to_string() } else { lc(p.line_col()) } }
            Err(_) => "PARSEERR".to_string(),
        }
    }))));
    if b - a <= 6 {
        let n = b - a + 1;
        let mut g = String::new();
        for x in 0..=n { for y in 0..=n {
            g.push(catch(|| match span.get(x..y) { Some(sp) => if sp.start() == a + x && sp.end() == a + y { '1' } else { 'X' }, None => '0' }).unwrap_or('P'));
        } }
        o.push_str(&format!(";get={}", g));
    }
    let e = catch(|| Error::<Rule>::new_from_span(ErrorVariant::CustomError { message: MSG.to_string() }, span));
    match e {
        Err(_) => o.push_str(";err=PANIC"),
        Ok(e) => {
            o.push_str(&format!(";loc={};lcl={};line={}", loc(&e.location), lcl(&e.line_col), esc(e.line())));
            o.push_str(&format!(";err={}", ok_or_panic(catch(|| esc(&format!("{}", e))))));
        }
    }
    o
}

fn obs_m(s: &str, a: usize, b: usize, c: usize, d: usize) -> String {
    let (x, y) = match (Span::new(s, a, b), Span::new(s, c, d)) { (Some(x), Some(y)) => (x, y), _ => return "NOSPAN".to_string() };
    ok_or_panic(catch(|| match pest::merge_spans(&x, &y) { Some(m) => format!("{}-{}", m.start(), m.end()), None => "none".to_string() }))
}

// ---- PairsBuilder trees
struct Node { s: usize, e: usize, children: Vec<Node> }
fn parse_nodes(b: &[u8], i: &mut usize) -> Vec<Node> {
    let mut v = Vec::new();
    loop {
        let num = |i: &mut usize| { let mut x = 0usize; while *i < b.len() && b[*i].is_ascii_digit() { x = x * 10 + (b[*i] - b'0') as usize; *i += 1; } x };
        let s = num(i);
        if *i < b.len() && b[*i] == b'-' { *i += 1; }
        let e = num(i);
        let mut children = Vec::new();
        if *i < b.len() && b[*i] == b'[' { *i += 1; children = parse_nodes(b, i); if *i < b.len() && b[*i] == b']' { *i += 1; } }
        v.push(Node { s, e, children });
        if *i < b.len() && b[*i] == b',' { *i += 1; } else { break; }
    }
    v
}
fn add_nodes<'i>(mut b: PairsBuilder<'i, Rule>, nodes: &[Node]) -> PairsBuilder<'i, Rule> {
    for n in nodes {
        b = if n.children.is_empty() { b.rule(Rule::r, n.s, n.e) } else { b.rule_with(Rule::r, n.s, n.e, |bb| add_nodes(bb, &n.children)) };
    }
    b
}
fn walk<'i>(pairs: pest::iterators::Pairs<'i, Rule>, o: &mut Vec<String>) {
    for p in pairs { o.push(format!("{}@{}", p.as_span().start(), lc(p.line_col()))); walk(p.into_inner(), o); }
}
fn obs_t(s: &str, spec: &str) -> String {
    let nodes = parse_nodes(spec.as_bytes(), &mut 0);
    ok_or_panic(catch(|| {
        let pairs = add_nodes(PairsBuilder::new(s), &nodes).build();
        let mut o = Vec::new();
        walk(pairs.clone(), &mut o);
        let f: Vec<String> = pairs.flatten().map(|p| format!("{}@{}", p.as_span().start(), lc(p.line_col()))).collect();
        if f != o { return "FLATDIFF".to_string(); }
        o.join("|")
    }))
}
/// a pair starts after the last queued token (= end of the last top-level node) with a line break in between
fn tree_nontrivial(s: &str, spec: &str) -> bool {
    let nodes = parse_nodes(spec.as_bytes(), &mut 0);
    let last = nodes.last().map(|n| n.e).unwrap_or(0);
    fn any(ns: &[Node], f: &dyn Fn(&Node) -> bool) -> bool { ns.iter().any(|n| f(n) || any(&n.children, f)) }
    any(&nodes, &|n| n.s > last && s.is_char_boundary(last) && s.is_char_boundary(n.s) && s[last..n.s].contains('\n'))
}
fn gen_tree(rng: &mut Rng, bs: &[usize], depth: u32) -> String {
    let n = rng.range(1, 3);
    let mut parts = Vec::new();
    for _ in 0..n {
        let a = *rng.pick(bs); let b = *rng.pick(bs);
        let (a, b) = if a <= b { (a, b) } else { (b, a) };
        let mut p = format!("{}-{}", a, b);
        if depth < 2 && rng.chance(1, 3) { p.push('['); p.push_str(&gen_tree(rng, bs, depth + 1)); p.push(']'); }
        parts.push(p);
    }
    parts.join(",")
}
fn obs_u(s: &str, a: usize, c: usize, d: usize, b: usize) -> String {
    if !(a <= c && c <= d && d <= b && [a, c, d, b].iter().all(|&x| s.is_char_boundary(x) && x <= s.len())) { return "NOSPAN".to_string(); }
    let n = |x: usize, y: usize| s[x..y].chars().count();
    let (n1, n2, n3, n4) = (n(0, a), n(a, c), n(c, d), n(d, b));
    ok_or_panic(catch(|| {
        let r = pest::state::<Rule, _>(s, |st| st.skip(n1).and_then(|st| st.rule(Rule::r, |st|
            st.skip(n2).and_then(|st| st.rule(Rule::r, |st| st.skip(n3))).and_then(|st| st.skip(n4)))));
        match r {
            Ok(pairs) => { let mut o = Vec::new(); walk(pairs, &mut o); o.join("|") }
            Err(_) => "PARSEERR".to_string(),
        }
    }))
}

struct Out<'a> { w: BufWriter<io::StdoutLock<'a>>, n: u64, nontriv: u64, seen: HashSet<u64> }
impl<'a> Out<'a> {
    fn emit(&mut self, case: String, obs: String, nontrivial: bool) {
        self.n += 1;
        if nontrivial {
            // distinct by case text (hash); only cases that exercise the mechanism are counted
            let mut h: u64 = 0xcbf29ce484222325;
            for b in case.bytes() { h ^= b as u64; h = h.wrapping_mul(0x100000001b3); }
            if self.seen.insert(h) { self.nontriv += 1; }
        }
        writeln!(self.w, "{}\t{}", case, obs).unwrap();
    }
}

/// non-trivial position case: the prefix holds a newline or a multi-byte char or a CR/tab
fn interesting(s: &str, a: usize) -> bool { s[..a].chars().any(|c| c == '\n' || c == '\r' || c == '\t' || c.len_utf8() > 1) }

fn all_cases(out: &mut Out, s: &str, rng: &mut Rng, pair_limit: Option<usize>, with_s: bool, quads: bool) {
    let e = esc(s);
    if with_s { out.emit(format!("S:{}", e), obs_s(s), s.chars().any(|c| c.len_utf8() > 1)); }
    let bs = boundaries(s);
    for &a in &bs { out.emit(format!("P:{}:{}", a, e), obs_p(s, a), interesting(s, a)); }
    let mut pairs: Vec<(usize, usize)> = Vec::new();
    for (i, &a) in bs.iter().enumerate() { for &b in &bs[i..] { pairs.push((a, b)); } }
    if let Some(k) = pair_limit {
        if pairs.len() > k {
            let mut sel = Vec::new();
            for _ in 0..k { let i = rng.below(pairs.len() as u64) as usize; sel.push(pairs.swap_remove(i)); }
            pairs = sel;
        }
    }
    for &(a, b) in &pairs { out.emit(format!("Q:{}:{}:{}", a, b, e), obs_q(s, a, b), s[..b].contains('\n') || interesting(s, b)); }
    // PairsBuilder trees out of source order: a pair at x queued BEFORE a pair at 0, and a child at x of a parent 0..0
    // (in both the last queued token is at offset 0), then random trees
    let mut trees: Vec<String> = Vec::new();
    for &x in &bs { if x > 0 { trees.push(format!("{}-{},0-0", x, x)); trees.push(format!("0-0[{}-{}]", x, s.len())); } }
    for _ in 0..2 { trees.push(gen_tree(rng, &bs, 0)); }
    for t in &trees { out.emit(format!("T:{}:{}", t, e), obs_t(s, t), tree_nontrivial(s, t)); }
    // real parses with nested rules, the input continuing after the last token
    for _ in 0..3 {
        let mut q = [*rng.pick(&bs), *rng.pick(&bs), *rng.pick(&bs), *rng.pick(&bs)]; q.sort();
        out.emit(format!("U:{}:{}:{}:{}:{}", q[0], q[1], q[2], q[3], e), obs_u(s, q[0], q[1], q[2], q[3]), q[3] < s.len() && s[..q[1]].contains('\n'));
    }
    if quads {
        for &a in &bs { for &b in &bs { if a <= b { for &c in &bs { for &d in &bs { if c <= d {
            out.emit(format!("M:{}:{}:{}:{}:{}", a, b, c, d, e), obs_m(s, a, b, c, d), true);
        } } } } } }
    }
}

fn unesc(s: &str) -> String {
    let mut o = String::new();
    let mut it = s.chars();
    while let Some(c) = it.next() {
        if c == '\\' { match it.next() { Some('n') => o.push('\n'), Some('r') => o.push('\r'), Some('t') => o.push('\t'), Some('\\') => o.push('\\'), Some(x) => { o.push('\\'); o.push(x) } None => o.push('\\') } }
        else { o.push(c) }
    }
    o
}

fn random_string(rng: &mut Rng, profile: u64) -> String {
    // profiles: 0 many short lines (multi-digit line numbers), 1 CR/CRLF heavy, 2 tabs + multibyte, 3 uniform
    let ws: [u64; 7] = match profile {
        0 => [3, 1, 1, 6, 0, 1, 1],
        1 => [3, 1, 1, 2, 3, 1, 4],
        2 => [2, 3, 3, 2, 1, 4, 0],
        _ => [2, 2, 2, 2, 2, 2, 1],
    };
    let len = if profile == 0 { rng.range(9, 40) } else { rng.range(6, 24) };
    let mut s = String::new();
    for _ in 0..len {
        match rng.weighted(&ws) { 6 => s.push_str("\r\n"), i => s.push(ALPHA[i]) }
    }
    s
}

// ---- long lines: inputs whose lines have 1000..5000 characters, positions and spans at large columns
/// the characters of one long line of `n` chars.  profile 0 ASCII (varying letters), 1 ASCII + 2-byte, 2 ASCII + 4-byte + 2-byte,
/// 3 ASCII with TABs
fn long_line(rng: &mut Rng, n: usize, profile: u64) -> Vec<char> {
    (0..n).map(|i| {
        let plain = (b'a' + (i % 26) as u8) as char;
        match profile {
            1 => if rng.chance(1, 3) { 'é' } else { plain },
            2 => match rng.below(6) { 0 => '😀', 1 => 'é', _ => plain },
            3 => if rng.chance(1, 40) { '\t' } else { plain },
            _ => plain,
        }
    }).collect()
}
/// (weight, case, observation thunk data): candidate cases of one string with a long line
fn long_cases(rng: &mut Rng, n: usize, profile: u64, shape: u64) -> (String, Vec<(char, usize, usize)>) {
    let line = long_line(rng, n, profile);
    let prefix = match shape % 3 { 0 => "", 1 => "ab\n", _ => "x\r\nyz\n" };
    let n2 = if shape / 3 % 4 == 3 { n / 2 + 7 } else { 2 };
    let line2 = long_line(rng, n2, profile);
    let mut s = String::from(prefix);
    let start = s.len();
    s.extend(line.iter());
    let eol = s.len();
    // what follows the long line: nothing, LF, LF + a short line, CRLF + a short line + LF, LF + a second long line
    let mut start2 = None;
    match shape / 3 % 5 { 0 => {}, 1 => s.push('\n'), 2 => { s.push('\n'); start2 = Some(s.len()); s.extend(line2.iter()); }
                          3 => { s.push_str("\r\n"); start2 = Some(s.len()); s.extend(line2.iter()); s.push('\n'); }
                          _ => { s.push('\n'); start2 = Some(s.len()); s.extend(line2.iter()); } }
    // byte offset of column c (1-based) of a line starting at byte `st`
    let off = |st: usize, l: &[char], c: usize| st + l[..(c - 1).min(l.len())].iter().map(|x| x.len_utf8()).sum::<usize>();
    let mut cols: Vec<usize> = vec![1, 2, 1023, 1024, 1025, 1026, 1500, 2047, 2048, 2049, 4095, 4096, 4097, n - 1, n, n + 1];
    cols.retain(|&c| c >= 1 && c <= n + 1);
    cols.sort(); cols.dedup();
    let mut cases: Vec<(char, usize, usize)> = Vec::new();
    for &c in &cols {
        let a = off(start, &line, c);
        cases.push(('P', a, a));
        // one span starting in this column: empty, one char, three chars, to the end of the line, into the next line, or
        // (the long line as the LAST line of the span) from the start of the input to this column
        let mut kinds: Vec<u64> = vec![0, 1, 2, 3];
        if start2.is_some() { kinds.push(4); }
        if start > 0 { kinds.push(5); }
        match *rng.pick(&kinds) {
            0 => cases.push(('Q', a, a)),
            1 => cases.push(('Q', a, off(start, &line, c + 1))),
            2 => cases.push(('Q', a, off(start, &line, c + 3))),
            3 => cases.push(('Q', a, eol)),
            4 => { let st2 = start2.unwrap(); cases.push(('Q', a, off(st2, &line2, 1 + rng.below(line2.len() as u64 + 1) as usize))); }
            _ => cases.push(('Q', 0, a)),
        }
    }
    // positions and spans on the second line when it is long too
    if let Some(st2) = start2 { if line2.len() > 100 {
        for &c in &[line2.len() / 2, line2.len(), line2.len() + 1] {
            let a = off(st2, &line2, c);
            cases.push(('P', a, a));
            cases.push(('Q', a, off(st2, &line2, line2.len() + 1)));
        }
    } }
    (s, cases)
}

fn main() {
    quiet_panics();
    let mode = arg(1);
    let stdout = io::stdout();
    let mut out = Out { w: BufWriter::with_capacity(1 << 20, stdout.lock()), n: 0, nontriv: 0, seen: HashSet::new() };
    match mode.as_str() {
        // all strings of length exactly L over ALPHA, shard k of m
        "exhaustive" => {
            let l = arg_u64(2, 3) as u32; let k = arg_u64(3, 0); let m = arg_u64(4, 1).max(1);
            let total = 6u64.pow(l);
            for idx in 0..total {
                if idx % m != k { continue; }
                let mut s = String::new(); let mut x = idx;
                for _ in 0..l { s.push(ALPHA[(x % 6) as usize]); x /= 6; }
                let mut rng = Rng::new(idx.wrapping_mul(0x9E37).wrapping_add(l as u64));
                all_cases(&mut out, &s, &mut rng, None, l <= 4, l <= 2);
            }
        }
        "random" => {
            let n = arg_u64(2, 100); let seed = arg_u64(3, 1); let k = arg_u64(4, 40) as usize;
            let mut rng = Rng::new(seed);
            for i in 0..n {
                let s = random_string(&mut rng, i % 4);
                let mut r2 = rng.clone(); rng.next();
                all_cases(&mut out, &s, &mut r2, Some(k), s.len() <= 16, false);
            }
        }
        // long lines (1000..5000 chars; ASCII, multi-byte, TABs; alone, after short lines, followed by short / long lines):
        // positions and spans at columns 1, 2, 1023..1026, 1500, 2047..2049, 4095..4097 and at the end of the line.
        // `budget` bounds the work of the (quadratic) extracted model: a case on a text of c chars costs (c/1000)^2; every
        // text (none longer than `maxlen`) gets the same share and at least 2 cases (1 beyond 3500 chars), chosen at random among its candidates.
        "long" => {
            let seed = arg_u64(2, 1); let k = arg_u64(3, 0); let m = arg_u64(4, 1).max(1); let budget = arg_u64(5, 100) as f64;
            let maxlen = arg_u64(6, 5000) as usize;
            let mut rng = Rng::new(seed ^ 0x10c0);
            // up to 2100 chars: all four profiles; 3000: two of them; 4200 and 5000: one each (which ones depends on the seed)
            let mut texts: Vec<(usize, u64)> = Vec::new();
            for &n in &[1030usize, 1200, 1600, 2100] { for p in 0..4u64 { texts.push((n, p)); } }
            texts.push((3000, seed % 4)); texts.push((3000, (seed + 2) % 4));
            texts.push((4200, (seed + 1) % 4)); texts.push((5000, (seed + 3) % 4));
            texts.retain(|t| t.0 <= maxlen);
            let share = budget / texts.len() as f64;
            // (cost, kind, a, b, text): all selected cases, the dearest first, dealt to the shards in turn
            let mut strs: Vec<String> = Vec::new();
            let mut sel: Vec<(f64, char, usize, usize, usize)> = Vec::new();
            for &(n, p) in &texts {
                let n = n + rng.below(40) as usize;
                let shape = rng.below(15);
                let (s, mut cands) = long_cases(&mut rng, n, p, shape);
                let cost = { let c = s.chars().count() as f64 / 1000.0; c * c * (s.len() as f64 / s.chars().count() as f64) };
                let take = ((share / cost) as usize).max(if n > 3500 { 1 } else { 2 }).min(cands.len());
                for _ in 0..take {
                    let (kind, a, b) = cands.swap_remove(rng.below(cands.len() as u64) as usize);
                    sel.push((cost, kind, a, b, strs.len()));
                }
                strs.push(s);
            }
            sel.sort_by(|x, y| y.0.partial_cmp(&x.0).unwrap().then(x.4.cmp(&y.4)).then((x.1, x.2, x.3).cmp(&(y.1, y.2, y.3))));
            for (i, &(_, kind, a, b, si)) in sel.iter().enumerate() {
                if i as u64 % m != k { continue; }
                let s = &strs[si]; let e = esc(s);
                if kind == 'P' { out.emit(format!("P:{}:{}", a, e), obs_p(s, a), true); }
                else { out.emit(format!("Q:{}:{}:{}", a, b, e), obs_q(s, a, b), true); }
            }
        }
        // which state is the tree in?  K2 witness: "\nab\ncd" span 0..2 renders the continued line raw
        // (as shipped) or visualised (fixes/C10-1-continued-line-visualize.patch)
        "probe" => {
            let s = "\nab\ncd";
            let r = catch(|| format!("{}", Error::<Rule>::new_from_span(ErrorVariant::CustomError { message: MSG.to_string() }, Span::new(s, 0, 2).unwrap())));
            let fixed = match r { Ok(o) => !o.contains("ab\n\n") && o.contains("ab\u{240a}\n"), Err(_) => false };
            // K4 witness: "ab" empty span 2..2 renders the text row `1 | ` (as shipped) or `1 | ab`
            // (fixes/C10-2-empty-span-at-end-line.patch)
            let r4 = catch(|| format!("{}", Error::<Rule>::new_from_span(ErrorVariant::CustomError { message: MSG.to_string() }, Span::new("ab", 2, 2).unwrap())));
            let fixed4 = match r4 { Ok(o) => o.contains("1 | ab\n"), Err(_) => false };
            println!("#PROBE\tfix_continued={}\tfix_eoi_line={}", if fixed { 1 } else { 0 }, if fixed4 { 1 } else { 0 });
            return;
        }
        // every case of one (escaped) string
        "one" => { let s = unesc(&arg(2)); let mut rng = Rng::new(s.len() as u64); all_cases(&mut out, &s, &mut rng, None, true, s.chars().count() <= 3); }
        // a single case line
        "case" => {
            let c = arg(2);
            let parts: Vec<&str> = c.splitn(6, ':').collect();
            let num = |i: usize| parts.get(i).and_then(|x| x.parse::<usize>().ok()).unwrap_or(0);
            match parts[0] {
                "S" => { let s = unesc(&c[2..]); out.emit(c.clone(), obs_s(&s), true); }
                "P" => { let p: Vec<&str> = c.splitn(3, ':').collect(); let s = unesc(p[2]); out.emit(c.clone(), obs_p(&s, num(1)), true); }
                "Q" => { let p: Vec<&str> = c.splitn(4, ':').collect(); let s = unesc(p[3]); out.emit(c.clone(), obs_q(&s, num(1), num(2)), true); }
                "M" => { let s = unesc(parts[5]); out.emit(c.clone(), obs_m(&s, num(1), num(2), num(3), num(4)), true); }
                "U" => { let s = unesc(parts[5]); out.emit(c.clone(), obs_u(&s, num(1), num(2), num(3), num(4)), true); }
                "T" => { let p: Vec<&str> = c.splitn(3, ':').collect(); let s = unesc(p[2]); out.emit(c.clone(), obs_t(&s, p[1]), true); }
                _ => {}
            }
        }
        _ => { eprintln!("usage: c10 exhaustive L k m | random N seed pairs | one <str> | case <case>"); std::process::exit(2); }
    }
    let (n, nt) = (out.n, out.nontriv);
    writeln!(out.w, "#SUMMARY\tevaluations={}\tdistinct_nontrivial={}", n, nt).unwrap();
    out.w.flush().unwrap();
}
