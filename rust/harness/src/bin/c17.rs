//! C17 correspondence harness: forces schedules of the Coq transition system (coq/Debugger/Proto.v)
//! on the REAL pest_debugger::DebuggerContext through the yield points of
//! hooks/C17-yield-points.patch, and prints what the real threads did.
//!
//!   c17 entries              print MODE (literal | fixed, probed) and one CFG line per grammar/input
//!   c17 force                read "<cfg>\t<cap>\t<bps>\t<cmds>\t<sched>" lines, print "<case>\t<observation>"
//!
//! A schedule is a string over {C, P}: one letter = one step of the controller / parsing thread
//! = the code between two yield points.  Both real threads block at every yield point until the
//! scheduler (main thread) grants them one step; every wait has a timeout, so a hang of the code
//! under test is observed (HANG / TIMEOUT), never suffered.
use pest_debugger::{verif_hooks, DebuggerContext, DebuggerError, DebuggerEvent};
use pvharness::{arg, esc};
use std::cell::Cell;
use std::io::{BufRead, Write};
use std::sync::mpsc::{sync_channel, Receiver, RecvTimeoutError};
use std::sync::{Arc, Condvar, Mutex};
use std::time::{Duration, Instant};

// ------------------------------------------------------------------------------------------
// the gate: every yield point of the code under test ends up in `hook`
// ------------------------------------------------------------------------------------------
#[derive(Default)]
struct Lane {
    at: Option<&'static str>, // waiting at this yield point
    grants: u32,
    arrivals: u64,
    done: bool,
    dead: bool, // the thread panicked
    last: &'static str, // last yield point passed or reached (also while the gates are open)
}
#[derive(Default)]
struct Gate {
    epoch: u64,
    free: bool, // yield points pass through (probe, free completion and clean-up)
    abandon: bool, // the controller must stop executing commands
    lanes: [Lane; 2],
    seen_final: bool, // the yield point t_final exists => the fix is applied
    points_seen: u64,
}
static GATE: Mutex<Option<Gate>> = Mutex::new(None);
static CV: Condvar = Condvar::new();
thread_local! {
    static EPOCH: Cell<u64> = Cell::new(0);
    static LAST: Cell<&'static str> = Cell::new("");
}
const C: usize = 0;
const P: usize = 1;

fn lane_of(point: &str) -> usize {
    if point.starts_with("t_") || point.starts_with("l_") { P } else { C }
}

fn hook(point: &'static str) {
    let lane = lane_of(point);
    let mut g = GATE.lock().unwrap();
    {
        let gate = g.as_mut().unwrap();
        gate.points_seen += 1;
        if point == "t_final" { gate.seen_final = true; }
        if EPOCH.with(|e| e.get()) == 0 { EPOCH.with(|e| e.set(gate.epoch)); }
        // a thread left over from an earlier case never takes part in the current one
        if EPOCH.with(|e| e.get()) != gate.epoch { return; }
        gate.lanes[lane].last = point;
        if gate.free { return; }
    }
    // after an abort (listener returned true) the VM fails every further rule: the listener is
    // entered again, loads is_done (still true: only run() resets it, after join) and returns.
    // The model collapses these loads into the abort step.
    let last = LAST.with(|l| l.replace(point));
    if point == "l_load" && last == "l_load" { return; }
    let my_epoch = EPOCH.with(|e| e.get());
    {
        let gate = g.as_mut().unwrap();
        gate.lanes[lane].at = Some(point);
        gate.lanes[lane].arrivals += 1;
        if point == "t_start" { gate.lanes[lane].done = false; gate.lanes[lane].dead = false; }
    }
    CV.notify_all();
    loop {
        let gate = g.as_mut().unwrap();
        if gate.free || gate.epoch != my_epoch { return; }
        if gate.lanes[lane].grants > 0 {
            gate.lanes[lane].grants -= 1;
            gate.lanes[lane].at = None;
            if point == "t_exit" { gate.lanes[lane].done = true; }
            CV.notify_all();
            return;
        }
        g = CV.wait(g).unwrap();
    }
}

fn with_gate<R>(f: impl FnOnce(&mut Gate) -> R) -> R {
    let mut g = GATE.lock().unwrap();
    f(g.as_mut().unwrap())
}

/// wait until `pred` holds or the timeout expires
fn wait_until(ms: u64, pred: impl Fn(&Gate) -> bool) -> bool {
    let deadline = Instant::now() + Duration::from_millis(ms);
    let mut g = GATE.lock().unwrap();
    loop {
        if pred(g.as_ref().unwrap()) { return true; }
        let now = Instant::now();
        if now >= deadline { return false; }
        g = CV.wait_timeout(g, deadline - now).unwrap().0;
    }
}

// ------------------------------------------------------------------------------------------
// grammars / inputs (loaded from strings), entry lists from a plain pest_vm run with a listener
// ------------------------------------------------------------------------------------------
struct Cfg { id: &'static str, grammar: &'static str, input: &'static str, rule: &'static str }
const CFGS: &[Cfg] = &[
    // the grammar of the crate's own tests; parse succeeds (Eof)
    Cfg { id: "ident", rule: "ident_list", input: "a b",
          grammar: "alpha = { 'a'..'z' | 'A'..'Z' }\ndigit = { '0'..'9' }\nident = { !digit ~ (alpha | digit)+ }\nident_list = _{ ident ~ (\" \" ~ ident)* }" },
    // a failing parse (Error)
    Cfg { id: "seq", rule: "r", input: "xz",
          grammar: "r = { a ~ b ~ c }\na = { \"x\" }\nb = { \"y\" | d }\nc = { \"z\" }\nd = { \"q\" }" },
    // built-in rules visited by the parse (SOI, ASCII_DIGIT, ANY, NEWLINE, EOI): breakpoints on them must be honoured
    Cfg { id: "builtin", rule: "line", input: "7 x\n",
          grammar: "line = { SOI ~ word ~ (\" \" ~ word)* ~ NEWLINE? ~ EOI }\nword = { ASCII_DIGIT+ | other }\nother = { ANY }" },
    // implicit skipping: WHITESPACE is entered between the elements of sequences and repetitions of non-atomic rules (and not inside `@`)
    Cfg { id: "ws", rule: "list", input: "1 ,2",
          grammar: "list = { item ~ (\",\" ~ item)* }\nitem = { num }\nnum = @{ ASCII_DIGIT ~ ASCII_DIGIT* }\nWHITESPACE = _{ \" \" }" },
];

// ------------------------------------------------------------------------------------------
// the rule visits of a parse, derived from the grammar (optimized AST) by a listener-free walk:
// this, not the VM's listener, defines what the debugger has to report
// ------------------------------------------------------------------------------------------
use pest_meta::ast::RuleType;
use pest_meta::optimizer::{OptimizedExpr, OptimizedRule};
/// `atomic` = implicit skipping is off (the VM skips only while the state is NonAtomic)
struct Walk<'a> { rules: &'a [OptimizedRule], input: &'a str, visits: Vec<(String, usize)> }
impl<'a> Walk<'a> {
    fn has(&self, name: &str) -> bool { self.rules.iter().any(|r| r.name == name) }
    /// Vm::skip for grammars that define WHITESPACE only: WHITESPACE* (every attempt enters the rule, the failing last one too)
    fn skip(&mut self, pos: usize, atomic: bool) -> usize {
        assert!(!self.has("COMMENT"), "walk: COMMENT is not supported");
        if atomic || !self.has("WHITESPACE") { return pos; }
        let mut p = pos;
        while let Some(q) = self.rule("WHITESPACE", p, false) { if q == p { break; } p = q; }
        p
    }
    fn rule(&mut self, name: &str, pos: usize, atomic: bool) -> Option<usize> {
        self.visits.push((name.to_owned(), pos));
        let rest = &self.input[pos..];
        if let Some(r) = self.rules.iter().find(|r| r.name == name) {
            let e = r.expr.clone();
            // the trivia rules are entered atomically whatever their modifier (`$`: compound, also without skipping)
            let inner = if name == "WHITESPACE" || name == "COMMENT" { true } else {
                match r.ty { RuleType::Atomic | RuleType::CompoundAtomic => true, RuleType::NonAtomic => false, _ => atomic } };
            return self.expr(&e, pos, inner);
        }
        match name {
            "ANY" => rest.chars().next().map(|c| pos + c.len_utf8()),
            "EOI" => if rest.is_empty() { Some(pos) } else { None },
            "SOI" => if pos == 0 { Some(pos) } else { None },
            "ASCII_DIGIT" => rest.chars().next().filter(|c| c.is_ascii_digit()).map(|_| pos + 1),
            "NEWLINE" => if rest.starts_with("\r\n") { Some(pos + 2) } else if rest.starts_with('\n') || rest.starts_with('\r') { Some(pos + 1) } else { None },
            _ => panic!("walk: unsupported rule {}", name),
        }
    }
    fn expr(&mut self, e: &OptimizedExpr, pos: usize, atomic: bool) -> Option<usize> {
        let rest = &self.input[pos..];
        match e {
            OptimizedExpr::Str(s) => if rest.starts_with(s.as_str()) { Some(pos + s.len()) } else { None },
            OptimizedExpr::Range(a, b) => {
                let (a, b) = (a.chars().next().unwrap(), b.chars().next().unwrap());
                rest.chars().next().filter(|c| *c >= a && *c <= b).map(|c| pos + c.len_utf8())
            }
            OptimizedExpr::Ident(n) => self.rule(n, pos, atomic),
            OptimizedExpr::PosPred(x) => self.expr(x, pos, atomic).map(|_| pos),
            OptimizedExpr::NegPred(x) => if self.expr(x, pos, atomic).is_some() { None } else { Some(pos) },
            // sequence: lhs, implicit skip, rhs
            OptimizedExpr::Seq(a, b) => { let p = self.expr(a, pos, atomic)?; let p = self.skip(p, atomic); self.expr(b, p, atomic) }
            OptimizedExpr::Choice(a, b) => self.expr(a, pos, atomic).or_else(|| self.expr(b, pos, atomic)),
            OptimizedExpr::Opt(x) => Some(self.expr(x, pos, atomic).unwrap_or(pos)),
            // repetition: e, then (skip, e)* where a round that fails gives back what its skip consumed
            OptimizedExpr::Rep(x) => {
                let mut p = match self.expr(x, pos, atomic) { Some(q) => q, None => return Some(pos) };
                loop {
                    let q = self.skip(p, atomic);
                    match self.expr(x, q, atomic) { Some(r) => { if r == p { break; } p = r; } None => break }
                }
                Some(p)
            }
            OptimizedExpr::Skip(strs) => {
                let mut p = pos;
                loop {
                    if strs.iter().any(|s| self.input[p..].starts_with(s.as_str())) { return Some(p); }
                    match self.input[p..].chars().next() { Some(c) => p += c.len_utf8(), None => return None }
                }
            }
            OptimizedExpr::RestoreOnErr(x) => self.expr(x, pos, atomic),
            other => panic!("walk: unsupported expression {:?}", other),
        }
    }
}

struct Loaded { grules: Vec<String>, names: Vec<String>, entries: Vec<(usize, usize)>, abort_panics: Vec<bool>, plain: Result<(), String>, listener_agrees: bool }

fn load(cfg: &Cfg) -> Loaded {
    let (_, rules) = pest_meta::parse_and_optimize(cfg.grammar).expect("grammar");
    let mut names: Vec<String> = rules.iter().map(|r| r.name.clone()).collect();
    let grules = names.clone();
    let log: Arc<Mutex<Vec<(String, usize)>>> = Arc::new(Mutex::new(Vec::new()));
    let l2 = Arc::clone(&log);
    let vm = pest_vm::Vm::new_with_listener(rules.clone(), Box::new(move |rule, pos| {
        l2.lock().unwrap().push((rule, pos.pos()));
        false
    }));
    let plain = vm.parse(cfg.rule, cfg.input).map(|_| ()).map_err(|e| e.to_string());
    // the plain parse without a listener must give the same outcome
    let plain2 = pest_vm::Vm::new(rules).parse(cfg.rule, cfg.input).map(|_| ()).map_err(|e| e.to_string());
    assert_eq!(plain, plain2);
    let listened = log.lock().unwrap().clone();
    // the entry list the model and the oracle use comes from the grammar walk, not from the listener
    let (_, rules2) = pest_meta::parse_and_optimize(cfg.grammar).expect("grammar");
    let mut w = Walk { rules: &rules2, input: cfg.input, visits: Vec::new() };
    let matched = w.rule(cfg.rule, 0, false).is_some();
    assert_eq!(matched, plain.is_ok(), "grammar walk and pest_vm disagree on the outcome of {}", cfg.id);
    let raw = w.visits.clone();
    let listener_agrees = raw == listened;
    for (r, _) in raw.iter() { if !names.contains(r) { names.push(r.clone()); } }
    names.sort();
    let entries = raw.iter().map(|(r, p)| (names.iter().position(|n| n == r).unwrap(), *p)).collect();
    // does aborting at listener call i (returning true from then on) make vm.parse panic?
    let n = raw.len();
    let mut abort_panics = Vec::new();
    for i in 0..n {
        let (_, rules) = pest_meta::parse_and_optimize(cfg.grammar).expect("grammar");
        let k = Arc::new(Mutex::new(0usize));
        let vm = pest_vm::Vm::new_with_listener(rules, Box::new(move |_, _| {
            let mut k = k.lock().unwrap();
            *k += 1;
            *k > i
        }));
        abort_panics.push(pvharness::catch(|| { let _ = vm.parse(cfg.rule, cfg.input); }).is_err());
    }
    Loaded { grules, names, entries, abort_panics, plain, listener_agrees }
}

fn show_event(ev: &DebuggerEvent, ld: &Loaded) -> String {
    match ev {
        DebuggerEvent::Breakpoint(r, p) => format!("B{}@{}", ld.names.iter().position(|n| n == r).map(|i| i as i64).unwrap_or(-1), p),
        DebuggerEvent::Eof => if ld.plain.is_ok() { "EOF".into() } else { "ABORT".into() },
        DebuggerEvent::Error(s) => if ld.plain.as_ref().err() == Some(s) { "ERR".into() } else { "ABORT".into() },
    }
}

// ------------------------------------------------------------------------------------------
// the controller thread: executes the command list against the real DebuggerContext
// ------------------------------------------------------------------------------------------
#[derive(Clone, Debug)]
enum Cmd { Run, Cont, Recv, Add(usize), Del(usize), AddAll, Sleep, LongSleep }

fn parse_cmds(s: &str) -> Vec<Cmd> {
    s.split(',').filter(|x| !x.is_empty()).map(|x| match &x[..1] {
        "R" => Cmd::Run, "K" => Cmd::Cont, "V" => Cmd::Recv, "L" => Cmd::AddAll, "S" => Cmd::Sleep, "Z" => Cmd::LongSleep,
        "A" => Cmd::Add(x[1..].parse().unwrap()), "D" => Cmd::Del(x[1..].parse().unwrap()),
        _ => panic!("bad command {}", x),
    }).collect()
}

struct Shared {
    rx: Mutex<Option<Receiver<DebuggerEvent>>>, // receiver of the current run (main.rs keeps it in Cli)
    obs: Mutex<Vec<String>>,
    finished: Mutex<bool>,   // all commands executed
    cleaned: Mutex<bool>,    // clean-up finished, thread about to exit
}

fn is_free() -> bool { with_gate(|g| g.free) }
fn is_abandoned() -> bool { with_gate(|g| g.abandon) }

fn controller(cfg: &'static Cfg, ld: Arc<Loaded>, cap: usize, bps: Vec<usize>, cmds: Vec<Cmd>, sh: Arc<Shared>) {
    let mut ctx = DebuggerContext::default();
    ctx.load_grammar_direct(cfg.id, cfg.grammar).expect("grammar");
    ctx.load_input_direct(cfg.input.to_owned());
    for b in bps { ctx.add_breakpoint(ld.names[b].clone()); }
    let mut aborted = false;
    for c in cmds {
        hook("cmd");
        if is_abandoned() { aborted = true; break; }
        match c {
            Cmd::Run => {
                let (tx, rx) = sync_channel(cap);
                let r = ctx.run(cfg.rule, tx);
                match r {
                    // as in main.rs: the previous receiver is replaced (dropped) only after run() returned Ok
                    Ok(()) => *sh.rx.lock().unwrap() = Some(rx),
                    Err(DebuggerError::PreviousRunPanic(_)) => sh.obs.lock().unwrap().push("run=panic".to_string()),
                    Err(e) => sh.obs.lock().unwrap().push(format!("runerr:{}", esc(&e.to_string()))),
                }
            }
            Cmd::Cont => {
                let o = match ctx.cont() {
                    Ok(()) => "ok", Err(DebuggerError::EofReached) => "eof",
                    Err(DebuggerError::RunRuleFirst) => "norun", Err(_) => "other" };
                sh.obs.lock().unwrap().push(format!("cont={}", o));
            }
            Cmd::Recv => {
                let mut abandoned = false;
                let o = match sh.rx.lock().unwrap().as_ref() {
                    None => "norx".to_string(),
                    Some(rx) => {
                        // recv(), in slices so that a recv that never returns can be abandoned at clean-up
                        let t0 = Instant::now();
                        loop {
                            match rx.recv_timeout(Duration::from_millis(10)) {
                                Ok(ev) => break show_event(&ev, &ld),
                                Err(RecvTimeoutError::Disconnected) => break "disc".to_string(),
                                Err(RecvTimeoutError::Timeout) =>
                                    if is_abandoned() { abandoned = true; break String::new() }
                                    else if t0.elapsed() > Duration::from_millis(if is_free() { 300 } else { 3000 }) { break "TIMEOUT".to_string() },
                            }
                        }
                    }
                };
                if !abandoned { sh.obs.lock().unwrap().push(format!("recv={}", o)); }
            }
            Cmd::Add(r) => ctx.add_breakpoint(ld.names[r].clone()),
            Cmd::Del(r) => ctx.delete_breakpoint(&ld.names[r]),
            Cmd::AddAll => ctx.add_all_rules_breakpoints().expect("grammar loaded"),
            Cmd::Sleep => std::thread::sleep(Duration::from_millis(25)),
            Cmd::LongSleep => std::thread::sleep(Duration::from_millis(6500)),   // a controller that thinks for a while: the parse must stay stopped
        }
    }
    if !aborted {
        *sh.finished.lock().unwrap() = true;
        with_gate(|g| { g.lanes[C].arrivals += 1; g.lanes[C].done = true; });
        CV.notify_all();
        // wait for the scheduler before cleaning up
        wait_until(60_000, |g| g.abandon);
    }
    // clean-up: let the parsing thread run to completion so that no thread is left behind
    // (cont() through the remaining breakpoints; nothing here needs the breakpoint set's mutex)
    let deadline = Instant::now() + Duration::from_millis(3000);
    loop {
        if let Some(rx) = sh.rx.lock().unwrap().as_ref() { while rx.try_recv().is_ok() {} }
        match ctx.cont() { Ok(()) => {}, Err(_) => break }
        if Instant::now() > deadline { break; }
        std::thread::yield_now();
    }
    *sh.cleaned.lock().unwrap() = true;
    CV.notify_all();
}

// ------------------------------------------------------------------------------------------
// the scheduler: force one schedule, report what happened
// ------------------------------------------------------------------------------------------
const STEP_TIMEOUT_MS: u64 = 2000;
const HANG_WINDOW_MS: u64 = 100;

fn new_epoch(free: bool) {
    with_gate(|g| {
        g.epoch += 1;
        g.free = free;
        g.abandon = false;
        g.lanes = [Lane::default(), Lane::default()];
    });
    EPOCH.with(|e| e.set(0));
    CV.notify_all();
}

/// returns (observation, timed_out)
fn force(cfg: &'static Cfg, ld: &Arc<Loaded>, cap: usize, bps: &[usize], cmds: &[Cmd], sched: &str) -> (String, bool) {
    let t_case = Instant::now();
    new_epoch(false);
    let sh = Arc::new(Shared { rx: Mutex::new(None), obs: Mutex::new(Vec::new()), finished: Mutex::new(false), cleaned: Mutex::new(false) });
    let (ld2, sh2, bps2, cmds2) = (Arc::clone(ld), Arc::clone(&sh), bps.to_vec(), cmds.to_vec());
    let th = std::thread::spawn(move || controller(cfg, ld2, cap, bps2, cmds2, sh2));
    let mut trace: Vec<String> = Vec::new();
    let mut timed_out = false;
    for ch in sched.chars() {
        let lane = if ch == 'C' { C } else { P };
        // the thread must be waiting at a yield point (a freshly spawned one gets there by itself)
        if !wait_until(STEP_TIMEOUT_MS, |g| g.lanes[lane].at.is_some()) {
            trace.push(format!("{}:NOTREADY", ch));
            timed_out = true;
            break;
        }
        let before = with_gate(|g| { g.lanes[lane].grants += 1; g.lanes[lane].arrivals });
        CV.notify_all();
        let ok = wait_until(STEP_TIMEOUT_MS, |g| g.lanes[lane].arrivals > before || (g.lanes[lane].done && g.lanes[lane].at.is_none() && g.lanes[lane].grants == 0));
        if !ok {
            trace.push(format!("{}:TIMEOUT", ch));
            timed_out = true;
            break;
        }
        let (at, done) = with_gate(|g| (g.lanes[lane].at, g.lanes[lane].done));
        let dead = with_gate(|g| g.lanes[lane].dead);
        trace.push(format!("{}:{}", ch, match at { Some(p) => p, None => if dead { "dead" } else if done { if lane == C { "end" } else { "done" } } else { "?" } }));
    }
    let t_sched = t_case.elapsed();
    // final status: did the controller get through its commands?  if not, is anything able to move?
    let fin = *sh.finished.lock().unwrap();
    let status = if timed_out {
        // the real threads left the schedule: let them run freely for a moment (real, uncontrolled interleaving);
        // what the controller then observes still has to satisfy the specification
        with_gate(|g| g.free = true);
        CV.notify_all();
        let t0 = Instant::now();
        while !*sh.finished.lock().unwrap() && t0.elapsed() < Duration::from_millis(1500) { wait_until(5, |_| false); }
        if *sh.finished.lock().unwrap() { "TIMEOUT-FIN".to_string() } else { format!("TIMEOUT-STUCK@{}", with_gate(|g| g.lanes[C].last)) }
    } else if fin { "FIN".to_string() } else {
        let (a0, a1) = with_gate(|g| {
            for l in 0..2 { if g.lanes[l].at.is_some() { g.lanes[l].grants += 1; } }
            (g.lanes[C].arrivals, g.lanes[P].arrivals)
        });
        CV.notify_all();
        let moved = wait_until(HANG_WINDOW_MS, |g| g.lanes[C].arrivals > a0 || g.lanes[P].arrivals > a1 || (g.lanes[P].done && g.lanes[P].at.is_none() && false));
        let (c_at, p_at) = with_gate(|g| (g.lanes[C].at, g.lanes[P].at));
        if moved { let _ = (c_at, p_at); "LIVE".to_string() } else { "HANG".to_string() }
    };
    let t_status = t_case.elapsed();
    // clean-up: open the gates, drain whatever channel the parsing thread may be blocked on
    with_gate(|g| { g.free = true; g.abandon = true; });
    CV.notify_all();
    // after an observed HANG (both real threads blocked for good: controller in join, parsing thread parked) nothing can
    // finish the controller; the two threads are left behind (a new epoch ignores them) and the case is not a time-out
    let hang = status == "HANG";
    let deadline = Instant::now() + Duration::from_millis(if hang { 600 } else { 5000 });
    while !*sh.cleaned.lock().unwrap() && Instant::now() < deadline {
        if let Ok(slot) = sh.rx.try_lock() { if let Some(rx) = slot.as_ref() { while rx.try_recv().is_ok() {} } }
        wait_until(1, |_| false);
    }
    let stuck = !*sh.cleaned.lock().unwrap();
    if !stuck { let _ = th.join(); }
    let timed_out = timed_out || (stuck && !hang); // a controller that cannot even clean up counts against the budget
    if std::env::var("C17_TIME").is_ok() { eprintln!("schedule {:?} status {:?} cleanup {:?} steps {}", t_sched, t_status - t_sched, t_case.elapsed() - t_status, sched.len()); }
    let obs = sh.obs.lock().unwrap().join(",");
    (format!("{}|{}|{}", trace.join(" "), obs, status), timed_out)
}

// ------------------------------------------------------------------------------------------
// the command-line front end (debugger/src/main.rs): whole sessions through the real binary
// ------------------------------------------------------------------------------------------
/// stdin: "<cfg>\t<-b rule indices>\t<1 = -r given>\t<lines>", lines = comma-separated b<k> d<k> ba da r c l;
/// stdout: the case with the canonical form of what the binary printed appended.
fn cli_mode(loaded: &[Arc<Loaded>], bin: &str, delay: u64, out: &mut impl Write) {
    use std::process::{Command, Stdio};
    let dir = std::env::current_exe().unwrap().parent().unwrap().join(format!("c17cli.{}", std::process::id()));
    std::fs::create_dir_all(&dir).unwrap();
    let stdin = std::io::stdin();
    let mut n = 0u64;
    for line in stdin.lock().lines() {
        let line = line.unwrap();
        if line.starts_with('#') || line.starts_with("MODE") || line.starts_with("CFG") { writeln!(out, "{}", line).unwrap(); continue; }
        let f: Vec<&str> = line.split('\t').collect();
        if f.len() < 4 { continue; }
        let ci = CFGS.iter().position(|c| c.id == f[0]).expect("cfg");
        let (cfg, ld) = (&CFGS[ci], &loaded[ci]);
        let (gfile, ifile) = (dir.join(format!("{}.pest", cfg.id)), dir.join(format!("{}.txt", cfg.id)));
        std::fs::write(&gfile, cfg.grammar).unwrap();
        std::fs::write(&ifile, cfg.input).unwrap();
        let mut cmd = Command::new("sh");
        let mut sh = format!("RUST_BACKTRACE=0 exec '{}' --no-update -g '{}' -i '{}'", bin, gfile.display(), ifile.display());
        for b in f[1].split(',').filter(|x| !x.is_empty()) { sh.push_str(&format!(" -b '{}'", ld.names[b.parse::<usize>().unwrap()])); }
        if f[2] == "1" { sh.push_str(&format!(" -r '{}'", cfg.rule)); }
        sh.push_str(" 2>&1");
        let mut child = cmd.arg("-c").arg(&sh).stdin(Stdio::piped()).stdout(Stdio::piped()).spawn().expect("spawn pest_debugger");
        let mut cin = child.stdin.take().unwrap();
        let mut cout = child.stdout.take().unwrap();
        let reader = std::thread::spawn(move || { let mut s = String::new(); let _ = std::io::Read::read_to_string(&mut cout, &mut s); s });
        std::thread::sleep(Duration::from_millis(delay * 2));
        for l in f[3].split(',').filter(|x| !x.is_empty()) {
            let text = match l {
                "ba" | "da" | "c" | "l" => l.to_string(),
                // the same grammar / input loaded again through each loading command (the input is one line for `id`)
                "g" => format!("g {}", gfile.display()),
                "i" => format!("i {}", ifile.display()),
                "id" => if cfg.input.contains('\n') { format!("i {}", ifile.display()) } else { format!("id {}", cfg.input) },
                "r" => format!("r {}", cfg.rule),
                x if x.starts_with('b') => format!("b {}", ld.names[x[1..].parse::<usize>().unwrap()]),
                x if x.starts_with('d') => format!("d {}", ld.names[x[1..].parse::<usize>().unwrap()]),
                x => panic!("bad line {}", x),
            };
            if writeln!(cin, "{}", text).is_err() { break; }
            let _ = cin.flush();
            std::thread::sleep(Duration::from_millis(delay));
        }
        drop(cin);
        // watchdog: a session that does not end by itself is killed
        let t0 = Instant::now();
        let mut killed = false;
        loop {
            match child.try_wait() { Ok(Some(_)) => break, _ => {} }
            if t0.elapsed() > Duration::from_millis(12_000) { let _ = child.kill(); killed = true; break; }
            std::thread::sleep(Duration::from_millis(5));
        }
        let _ = child.wait();
        let text = reader.join().unwrap_or_default();
        let mut obs: Vec<String> = Vec::new();
        let mut at: Option<usize> = None;
        let mut skip_next = false;
        for l in text.lines() {
            let t = l.trim();
            if skip_next { skip_next = false; continue; }   // the message line of a panic report
            if t.starts_with("thread '") && t.ends_with(':') { skip_next = true; continue; }
            if t.is_empty() || t.starts_with("pest_debugger v") || t.starts_with("thread '") || t.starts_with("note: run with") || t.starts_with("stack backtrace") { continue; }
            if let Some(rest) = t.strip_prefix("--> ") {
                let mut it = rest.split(':');
                let (ln, col): (usize, usize) = (it.next().unwrap().parse().unwrap_or(0), it.next().unwrap_or("0").parse().unwrap_or(0));
                at = (0..=cfg.input.len()).filter(|p| cfg.input.is_char_boundary(*p))
                    .find(|p| pest::Position::new(cfg.input, *p).unwrap().line_col() == (ln, col));
                if at.is_none() { obs.push(format!("?pos{}:{}", ln, col)); }
                continue;
            }
            if let Some(rest) = t.strip_prefix("= ") {
                match rest.strip_prefix("parsing ") {
                    Some(r) => obs.push(format!("B{}@{}", ld.names.iter().position(|n| n == r).map(|i| i as i64).unwrap_or(-1), at.map(|p| p as i64).unwrap_or(-1))),
                    None => obs.push("ERR".into()),
                }
                at = None;
                continue;
            }
            {
                let mut w = t.split_whitespace();
                let first = w.next().unwrap_or("");
                if first == "|" || (first.chars().all(|c| c.is_ascii_digit()) && w.next() == Some("|")) { continue; }   // source excerpt of the report
            }
            if t == "end-of-input reached" { obs.push("EOF".into()); }
            else if t == "Error: End-of-input reached" { obs.push("cont=eof".into()); }
            else if t == "Error: Run rule first" || t == "Error: run rule first" { obs.push("cont=norun".into()); }
            else if t.starts_with("Error: Previous parsing execution panic") { obs.push("run=panic".into()); }
            else if t == "parsing timed out" { obs.push("TIMEDOUT".into()); }
            else if let Some(r) = t.strip_prefix("Breakpoints:") {
                let mut v: Vec<String> = r.split(',').map(|x| x.trim()).filter(|x| !x.is_empty())
                    .map(|x| ld.names.iter().position(|n| n == x).map(|i| i.to_string()).unwrap_or(format!("?{}", esc(x)))).collect();
                v.sort();
                obs.push(format!("L{}", v.join("+")));
            }
            else if t.starts_with("panicked at") || t.contains("panicked at") { continue; }
            else { obs.push(format!("?{}", esc(t).replace(',', ";"))); }
        }
        if killed { obs.push("KILLED".into()); }
        n += 1;
        writeln!(out, "{}\t{}\t{}\t{}\t{}", f[0], f[1], f[2], f[3], obs.join(",")).unwrap();
    }
    let _ = std::fs::remove_dir_all(&dir);
    writeln!(out, "#SUMMARY\tevaluations={}", n).unwrap();
}

/// natural timing: the gates are open, the controller executes its commands (S = a pause of 25 ms) while the parsing thread
/// runs as the OS schedules it; whatever interleaving results, the observations have to satisfy the specification
fn free_run(cfg: &'static Cfg, ld: &Arc<Loaded>, cap: usize, bps: &[usize], cmds: &[Cmd]) -> String {
    new_epoch(true);
    let sh = Arc::new(Shared { rx: Mutex::new(None), obs: Mutex::new(Vec::new()), finished: Mutex::new(false), cleaned: Mutex::new(false) });
    let (ld2, sh2, bps2, cmds2) = (Arc::clone(ld), Arc::clone(&sh), bps.to_vec(), cmds.to_vec());
    let th = std::thread::spawn(move || controller(cfg, ld2, cap, bps2, cmds2, sh2));
    let t0 = Instant::now();
    let budget = 6000 + 7000 * cmds.iter().filter(|c| matches!(c, Cmd::LongSleep)).count() as u64;
    while !*sh.finished.lock().unwrap() && t0.elapsed() < Duration::from_millis(budget) { std::thread::sleep(Duration::from_millis(2)); }
    let status = if *sh.finished.lock().unwrap() { "FIN" } else { "STUCK" };
    with_gate(|g| { g.free = true; g.abandon = true; });
    CV.notify_all();
    let deadline = Instant::now() + Duration::from_millis(if status == "FIN" { 5000 } else { 600 });
    while !*sh.cleaned.lock().unwrap() && Instant::now() < deadline {
        if let Ok(slot) = sh.rx.try_lock() { if let Some(rx) = slot.as_ref() { while rx.try_recv().is_ok() {} } }
        std::thread::sleep(Duration::from_millis(1));
    }
    if *sh.cleaned.lock().unwrap() { let _ = th.join(); }
    let obs = sh.obs.lock().unwrap().join(",");
    format!("|{}|{}", obs, status)
}

fn main() {
    let loud = std::env::var("C17_LOUD").is_ok();
    std::panic::set_hook(Box::new(move |info| {
        if loud { eprintln!("{}", info); }
        let last = LAST.with(|l| l.get());
        if !last.is_empty() && lane_of(last) == P {
            let my_epoch = EPOCH.with(|e| e.get());
            if let Ok(mut g) = GATE.lock() {
                let gate = g.as_mut().unwrap();
                if gate.epoch == my_epoch && !gate.free {
                    gate.lanes[P].at = None;
                    gate.lanes[P].dead = true;
                    gate.lanes[P].arrivals += 1;
                }
            }
            CV.notify_all();
        }
    }));
    *GATE.lock().unwrap() = Some(Gate { epoch: 0, ..Default::default() });
    verif_hooks::set_callback(Some(hook));
    let loaded: Vec<Arc<Loaded>> = CFGS.iter().map(|c| Arc::new(load(c))).collect();
    let out = std::io::stdout();
    let mut out = out.lock();
    match arg(1).as_str() {
        "entries" => {
            // probe: a free run to completion tells whether the yield points exist and whether t_final does
            new_epoch(true);
            let mut ctx = DebuggerContext::default();
            ctx.load_grammar_direct("probe", CFGS[0].grammar).unwrap();
            ctx.load_input_direct(CFGS[0].input.to_owned());
            let (tx, rx) = sync_channel(1);
            ctx.run(CFGS[0].rule, tx).unwrap();
            let _ = rx.recv_timeout(Duration::from_millis(3000));
            let t0 = Instant::now();
            while ctx.cont().is_ok() && t0.elapsed() < Duration::from_millis(3000) { while rx.try_recv().is_ok() {} std::thread::yield_now(); }
            let (seen, fin) = with_gate(|g| (g.points_seen, g.seen_final));
            writeln!(out, "MODE\t{}", if seen == 0 { "nohook" } else if fin { "fixed" } else { "literal" }).unwrap();
            for (c, ld) in CFGS.iter().zip(loaded.iter()) {
                let es: Vec<String> = ld.entries.iter().zip(ld.abort_panics.iter()).map(|((r, p), b)| format!("{}:{}:{}", r, p, *b as u8)).collect();
                let gr: Vec<String> = ld.grules.iter().map(|g| ld.names.iter().position(|n| n == g).unwrap().to_string()).collect();
                writeln!(out, "CFG\t{}\t{}\t{}\t{}\t{}", c.id, es.join(","), if ld.plain.is_ok() { "E" } else { "X" }, ld.names.join(","), gr.join(",")).unwrap();
                if !ld.listener_agrees { writeln!(out, "#ENTRYDIFF\t{}", c.id).unwrap(); }
            }
        }
        "force" => {
            let stdin = std::io::stdin();
            let (mut n, mut timeouts) = (0u64, 0u64);
            for line in stdin.lock().lines() {
                let line = line.unwrap();
                if line.starts_with('#') { writeln!(out, "{}", line).unwrap(); continue; }
                if line.starts_with("MODE") || line.starts_with("CFG") { writeln!(out, "{}", line).unwrap(); continue; }
                let f: Vec<&str> = line.split('\t').collect();
                if f.len() < 5 { continue; }
                let ci = CFGS.iter().position(|c| c.id == f[0]).expect("cfg");
                let cap: usize = f[1].parse().unwrap();
                let bps: Vec<usize> = f[2].split(',').filter(|x| !x.is_empty()).map(|x| x.parse().unwrap()).collect();
                let cmds = parse_cmds(f[3]);
                let (obs, to) = if timeouts >= 8 { ("SKIPPED(too many timeouts)".to_string(), false) }
                                else { force(&CFGS[ci], &loaded[ci], cap, &bps, &cmds, f[4]) };
                if to { timeouts += 1; }
                n += 1;
                writeln!(out, "{}\t{}\t{}\t{}\t{}\t{}", f[0], f[1], f[2], f[3], f[4], obs).unwrap();
            }
            writeln!(out, "#SUMMARY\tevaluations={}\ttimeouts={}", n, timeouts).unwrap();
        }
        "free" => {
            let stdin = std::io::stdin();
            let mut n = 0u64;
            for line in stdin.lock().lines() {
                let line = line.unwrap();
                if line.starts_with('#') || line.starts_with("MODE") || line.starts_with("CFG") { writeln!(out, "{}", line).unwrap(); continue; }
                let f: Vec<&str> = line.split('\t').collect();
                if f.len() < 4 { continue; }
                let ci = CFGS.iter().position(|c| c.id == f[0]).expect("cfg");
                let cap: usize = f[1].parse().unwrap();
                let bps: Vec<usize> = f[2].split(',').filter(|x| !x.is_empty()).map(|x| x.parse().unwrap()).collect();
                let obs = free_run(&CFGS[ci], &loaded[ci], cap, &bps, &parse_cmds(f[3]));
                n += 1;
                writeln!(out, "{}\t{}\t{}\t{}\tFREE\t{}", f[0], f[1], f[2], f[3], obs).unwrap();
            }
            writeln!(out, "#SUMMARY\tevaluations={}\ttimeouts=0", n).unwrap();
        }
        // other threads may look at the breakpoint set while a session runs (list_breakpoints takes &self): every hit is still delivered
        "contend" => {
            new_epoch(true);
            let n = 120usize;
            let input: String = (0..n).map(|i| ["a", "bc", "d7"][i % 3]).collect::<Vec<_>>().join(" ");
            let mut ctx = DebuggerContext::default();
            ctx.load_grammar_direct("contend", CFGS[0].grammar).unwrap();
            ctx.load_input_direct(input.clone());
            ctx.add_breakpoint("ident".to_owned());
            for k in 0..20000 { ctx.add_breakpoint(format!("filler_{}", k)); }
            let (tx, rx) = sync_channel(1);
            ctx.run(CFGS[0].rule, tx).unwrap();
            let stop = std::sync::atomic::AtomicBool::new(false);
            let (mut hits, mut last) = (0usize, String::new());
            std::thread::scope(|sc| {
                for _ in 0..2 { sc.spawn(|| { while !stop.load(std::sync::atomic::Ordering::Relaxed) { let _ = ctx.list_breakpoints().len(); } }); }
                loop {
                    match rx.recv_timeout(Duration::from_millis(8000)) {
                        Ok(DebuggerEvent::Breakpoint(r, _)) => { if r == "ident" { hits += 1; } let _ = ctx.cont(); }
                        Ok(DebuggerEvent::Eof) => { last = "EOF".into(); break; }
                        Ok(DebuggerEvent::Error(e)) => { last = format!("ERR {}", esc(&e)); break; }
                        Err(_) => { last = "TIMEOUT".into(); break; }
                    }
                }
                stop.store(true, std::sync::atomic::Ordering::Relaxed);
            });
            let impl_obs = format!("{} hits on `ident`, then {}", hits, last);
            let want = format!("{} hits on `ident`, then EOF", n);
            if impl_obs != want {
                writeln!(out, "MISMATCH\tspec\tident-long\t1\t2\tcontend\tFREE\t{}\tother threads listing the breakpoints while the session runs: {}", impl_obs, want).unwrap();
            }
            writeln!(out, "#RUNNER\tcases=1\tmismatches={}\tdistinct_nontrivial=1", if impl_obs != want { 1 } else { 0 }).unwrap();
        }
        "cli" => cli_mode(&loaded, &arg(2), arg(3).parse().unwrap_or(40), &mut out),
        _ => { eprintln!("usage: c17 entries | c17 force < cases | c17 cli <pest_debugger binary> <delay ms> < sessions"); std::process::exit(2); }
    }
}
