//! C05 correspondence + property oracle: the REAL optimizer passes (pest_meta::optimizer, through the cfg-guarded hooks
//! verif_apply_pass / verif_to_optimized and the public `optimize`) on generated ASTs.  Lines:
//!   P\t<x>\t<pass>\t<input grammar sexp>\t<output grammar sexp | PANIC>      pass 0 rotate 1 skip 2 unroll 3 concatenate 4 factor 5 list
//!                                                                          6 to_optimized 7 to_optimized+restore_on_err 8 optimize
//!   G\t<id>\t<x>\t<grammar sexp>   and   V\t<id>\t<stream>\t<input hex>\t<obs>   real VM on to_optimized(unroll G)+restore, for the Spec oracle
//!   W\t<name>\t<x>\t<grammar sexp>\t<rule>\t<input hex>\t<obs>               named witnesses through parse_and_optimize + Vm
//!   CONTRACT\t<class>\t<pass>\t<x>\t<grammar sexp>\t<input hex>\t<before>\t<after>   real VM before vs after a pass differ
//!   #PROBE ... / #SUMMARY ... / #SEARCH ... (mode `search`: the escalated search the driver starts only after a proof obligation or the
//!   structural correspondence broke and the ordinary streams found no failing input; prints CONTRACT lines, needs no model)
use pest_meta::ast::{Expr, Rule, RuleType};
use pest_meta::optimizer::{self, OptimizedRule};
use pvharness::gram::*;
use pvharness::prog::hex;
use pvharness::*;
use std::collections::HashSet;
use std::io::{self, BufWriter, Write};
use std::num::NonZeroUsize;

const LIMIT: usize = 3000;
type Out<'a> = BufWriter<io::StdoutLock<'a>>;

fn to_ty(t: Ty) -> RuleType {
    match t { Ty::Normal => RuleType::Normal, Ty::Silent => RuleType::Silent, Ty::Atomic => RuleType::Atomic, Ty::Compound => RuleType::CompoundAtomic, Ty::NonAtomic => RuleType::NonAtomic }
}
fn to_expr(e: &GE) -> Expr {
    let b = |x: &GE| Box::new(to_expr(x));
    match e {
        GE::Str(s) => Expr::Str(s.clone()), GE::Ins(s) => Expr::Insens(s.clone()), GE::Range(a, z) => Expr::Range(a.to_string(), z.to_string()),
        GE::Id(n) => Expr::Ident(n.clone()), GE::Slice(i, j) => Expr::PeekSlice(*i, *j), GE::Pos(x) => Expr::PosPred(b(x)), GE::Neg(x) => Expr::NegPred(b(x)),
        GE::Seq(l, r) => Expr::Seq(b(l), b(r)), GE::Cho(l, r) => Expr::Choice(b(l), b(r)), GE::Opt(x) => Expr::Opt(b(x)), GE::Rep(x) => Expr::Rep(b(x)),
        GE::Rep1(x) => Expr::RepOnce(b(x)), GE::RepX(x, n) => Expr::RepExact(b(x), *n), GE::RepMin(x, n) => Expr::RepMin(b(x), *n),
        GE::RepMax(x, n) => Expr::RepMax(b(x), *n), GE::RepMM(x, m, n) => Expr::RepMinMax(b(x), *m, *n), GE::Skip(ss) => Expr::Skip(ss.clone()), GE::Push(x) => Expr::Push(b(x)),
        #[cfg(feature = "extras")]
        GE::PushLit(s) => Expr::PushLiteral(s.clone()),
        #[cfg(feature = "extras")]
        GE::Tag(t, x) => Expr::NodeTag(b(x), t.clone()),
        #[cfg(not(feature = "extras"))]
        GE::PushLit(_) | GE::Tag(..) => panic!("grammar-extras construct in a default-features build"),
        GE::Roe(_) => panic!("RestoreOnErr is not an AST node"),
    }
}
fn to_rules(g: &[GRule]) -> Vec<Rule> { g.iter().map(|r| Rule { name: r.name.clone(), ty: to_ty(r.ty), expr: to_expr(&r.e) }).collect() }

fn apply(rules: &[Rule], pass: u32) -> Option<Vec<Rule>> { let r = rules.to_vec(); catch(move || optimizer::verif_apply_pass(r, pass)).ok() }
fn to_opt(rules: &[Rule], restore: bool) -> Option<Vec<OptimizedRule>> { let r = rules.to_vec(); catch(move || optimizer::verif_to_optimized(r, restore)).ok() }
fn whole(rules: &[Rule]) -> Option<Vec<OptimizedRule>> { let r = rules.to_vec(); catch(move || optimizer::optimize(r)).ok() }

/// first top-level pair only (what follows it belongs to the limit probe of `vm_all`)
fn first_pair<R: pest::RuleType>(mut pairs: pest::iterators::Pairs<'_, R>, name: &dyn Fn(R) -> String, cut: bool) -> String {
    if !cut { return forest(pairs, name); }
    match pairs.next() { Some(p) => forest(pest::iterators::Pairs::single(p), name), None => String::new() }
}
fn observe(vm: &pest_vm::Vm, rule: &str, input: &str, cut: bool) -> String {
    pest::set_call_limit(NonZeroUsize::new(LIMIT));
    let r = catch(|| match vm.parse(rule, input) {
        Ok(pairs) => format!("Ok {}", first_pair(pairs, &|r: &str| r.to_string(), cut)),
        Err(e) => match e.variant {
            pest::error::ErrorVariant::CustomError { message } if message == "call limit reached" => "Limit".to_string(),
            _ => "Err".to_string(),
        },
    });
    pest::set_call_limit(None);
    r.unwrap_or_else(|_| "Panic".to_string())
}
/// The entry rule r0 is run through `top__ = _{ r0 ~ ""? }`: once the call limit is reached every combinator refuses, so the trailing
/// optional turns a parse that ran into the limit into an Err, which state() reports as "call limit reached" (an Ok result is not checked
/// against the limit by state(); without the probe a truncated parse would be taken for a result).
/// A normal or silent rule has no atomicity of its own (it runs with the one of its caller) and a silent rule has no pair of its own that
/// would show where its match ends, so such an r0 is also run from callers of the other kinds: `wc__ = ${ r0 }` (atomic context, tokens
/// kept) for both, and a silent r0 through `wn__ = { r0 }` instead of on its own (non-atomic context, the pair of wn__ carries the span of
/// r0).  One observation per input: the observations of the entries joined by " || " (for a non-silent r0 the first one is r0 from the top
/// level, what the Spec oracle is given).
const SEP: &str = " || ";
fn has_limit(o: &str) -> bool { o.split(SEP).any(|p| p == "Limit") }
fn first_obs(o: &str) -> &str { o.split(SEP).next().unwrap_or("") }
fn vm_all(rules: &[OptimizedRule], inputs: &[String]) -> Vec<String> {
    use pest_meta::optimizer::OptimizedExpr as O;
    let mut rs = rules.to_vec();
    let probe = |n: &str| O::Seq(Box::new(O::Ident(n.into())), Box::new(O::Opt(Box::new(O::Str(String::new())))));
    let ty0 = rules.iter().find(|r| r.name == "r0").map(|r| r.ty);
    let mut entries = vec![];
    // only the first pair of an entry is observed: the skip before the probe's `""?` can produce pairs of a non-silent WHITESPACE / COMMENT
    if ty0 == Some(RuleType::Silent) {
        rs.push(OptimizedRule { name: "wn__".into(), ty: RuleType::Normal, expr: O::Ident("r0".into()) });
        rs.push(OptimizedRule { name: "topn__".into(), ty: RuleType::Silent, expr: probe("wn__") });
        entries.push("topn__");
    } else {
        rs.push(OptimizedRule { name: "top__".into(), ty: RuleType::Silent, expr: probe("r0") });
        entries.push("top__");
    }
    if ty0 == Some(RuleType::Silent) || ty0 == Some(RuleType::Normal) {
        rs.push(OptimizedRule { name: "wc__".into(), ty: RuleType::CompoundAtomic, expr: O::Ident("r0".into()) });
        rs.push(OptimizedRule { name: "topc__".into(), ty: RuleType::Silent, expr: probe("wc__") });
        entries.push("topc__");
    }
    let vm = pest_vm::Vm::new(rs);
    inputs.iter().map(|i| entries.iter().map(|e| observe(&vm, e, i, true)).collect::<Vec<_>>().join(SEP)).collect()
}

struct Stats { evals: u64, fired: [u64; 9], seen: HashSet<String>, distinct_fired: u64, panics: u64, vm_runs: u64, vm_diff_known: u64, contracts: u64, inputs: u64 }

/// one P line; returns the output rules when the pass returned normally
fn p_line(w: &mut Out, st: &mut Stats, pass: u32, input: &[Rule], x: bool) -> Option<Vec<Rule>> {
    let out = apply(input, pass);
    let sin = sexp_grammar(&from_rules(input));
    let sout = match &out { Some(o) => sexp_grammar(&from_rules(o)), None => "PANIC".to_string() };
    st.evals += 1;
    if out.is_none() { st.panics += 1; }
    if sout != sin { st.fired[pass as usize] += 1; if st.seen.insert(format!("{}|{}", pass, sin)) { st.distinct_fired += 1; } }
    writeln!(w, "P\t{}\t{}\t{}\t{}", x as u8, pass, sin, sout).unwrap();
    out
}
fn o_line(w: &mut Out, st: &mut Stats, pass: u32, input: &[Rule], x: bool) {
    let out = match pass { 6 => to_opt(input, false), 7 => to_opt(input, true), _ => whole(input) };
    let sin = sexp_grammar(&from_rules(input));
    let sout = match &out { Some(o) => sexp_grammar(&from_orules(o)), None => "PANIC".to_string() };
    st.evals += 1;
    if out.is_none() { st.panics += 1; }
    let fired = match pass { 7 => sout.contains("(roe "), 8 => sout != sin, _ => false };
    if fired { st.fired[pass as usize] += 1; if st.seen.insert(format!("{}|{}", pass, sin)) { st.distinct_fired += 1; } }
    writeln!(w, "P\t{}\t{}\t{}\t{}", x as u8, pass, sin, sout).unwrap();
}

/// structural correspondence for one grammar: every pass on the raw grammar, the passes in pipeline order, the conversions, the pipeline
fn structural(w: &mut Out, st: &mut Stats, g: &[GRule], x: bool) {
    let base = to_rules(g);
    for pass in 0..6 { p_line(w, st, pass, &base, x); }
    let mut cur = Some(base.clone());
    for pass in 0..6 { if let Some(c) = &cur { cur = p_line(w, st, pass, c, x); } }
    if let Some(u) = apply(&base, 2) { o_line(w, st, 6, &u, x); o_line(w, st, 7, &u, x); }
    o_line(w, st, 6, &base, x);
    o_line(w, st, 8, &base, x);
}

// ------------------------------------------------------------------------------------------------
// generators: shapes that trigger every rewrite (and their near misses), on top of gram::gen_expr
// ------------------------------------------------------------------------------------------------
fn bx(e: GE) -> Box<GE> { Box::new(e) }
fn s(t: &str) -> GE { GE::Str(t.into()) }
fn id(t: &str) -> GE { GE::Id(t.into()) }
fn seq(a: GE, b: GE) -> GE { GE::Seq(bx(a), bx(b)) }
fn cho(a: GE, b: GE) -> GE { GE::Cho(bx(a), bx(b)) }
fn any_ty(r: &mut Rng) -> Ty { [Ty::Normal, Ty::Silent, Ty::Atomic, Ty::Compound, Ty::NonAtomic][r.below(5) as usize] }
fn mostly(r: &mut Rng, t: Ty) -> Ty { if r.chance(3, 4) { t } else { any_ty(r) } }
fn strlit(r: &mut Rng) -> String { ["x", "y", "xy", "é", "", "yx", " "][r.weighted(&[6, 5, 3, 2, 1, 1, 1])].to_string() }
fn small(r: &mut Rng, i: usize, n: usize, c: &GenCfg) -> GE { gen_expr(r, 1, i, n, c) }
/// a built-in rule by name: the line break and the character classes most often, then ANY / SOI / EOI, the stack built-ins rarely (a pass
/// that inspects or resolves a sub-expression must treat a built-in as what it is, not as a user rule or as a literal it spells out itself)
fn builtin(r: &mut Rng) -> GE {
    match r.weighted(&[5, 6, 3, 1]) {
        0 => id("NEWLINE"),
        1 => id(["ASCII_DIGIT", "ASCII_NONZERO_DIGIT", "ASCII_BIN_DIGIT", "ASCII_OCT_DIGIT", "ASCII_HEX_DIGIT", "ASCII_ALPHA_LOWER", "ASCII_ALPHA_UPPER", "ASCII_ALPHA",
                 "ASCII_ALPHANUMERIC", "ASCII"][r.below(10) as usize]),
        2 => id(["ANY", "SOI", "EOI"][r.below(3) as usize]),
        _ => id(["PEEK", "POP", "DROP", "PEEK_ALL", "POP_ALL"][r.below(5) as usize]),
    }
}
/// random binary tree over the leaves with operator `op`, leaning left with probability lean/4 (lean = 9: right-nested)
fn tree(r: &mut Rng, mut leaves: Vec<GE>, op: fn(GE, GE) -> GE, lean: u64) -> GE {
    if leaves.len() == 1 { return leaves.pop().unwrap(); }
    let k = if lean == 9 { 1 } else if r.chance(lean, 4) { leaves.len() - 1 } else { 1 + r.below(leaves.len() as u64 - 1) as usize };
    let right = leaves.split_off(k);
    op(tree(r, leaves, op, lean), tree(r, right, op, lean))
}
/// wrap an expression into a random context (so that rewrites also occur below the root)
fn ctx(r: &mut Rng, e: GE, i: usize, n: usize, c: &GenCfg) -> GE {
    match r.below(9) {
        0 => seq(small(r, i, n, c), e), 1 => seq(e, small(r, i, n, c)), 2 => cho(e, small(r, i, n, c)), 3 => cho(small(r, i, n, c), e),
        4 => GE::Opt(bx(e)), 5 => GE::Rep(bx(e)), 6 => GE::Neg(bx(e)), 7 => if c.counts { GE::RepMM(bx(e), 1, 2) } else { GE::Rep1(bx(e)) },
        _ => e,
    }
}
fn stack_leaf(r: &mut Rng, i: usize, n: usize, x: bool) -> GE {
    match r.weighted(&[4, 3, 2, 3, 2, 2, if x { 2 } else { 0 }, if i + 1 < n { 3 } else { 0 }, 2]) {
        0 => id("POP"), 1 => id("PEEK"), 2 => id("DROP"), 3 => id("POP_ALL"), 4 => id("PEEK_ALL"), 5 => GE::Push(bx(s(&strlit(r)))),
        6 => GE::PushLit(strlit(r)), 7 => id(&format!("r{}", i + 1 + r.below((n - i - 1) as u64) as usize)), _ => s(&strlit(r)),
    }
}
fn stack_expr(r: &mut Rng, d: u32, i: usize, n: usize, x: bool) -> GE {
    if d == 0 || r.chance(1, 3) { return stack_leaf(r, i, n, x); }
    let mut sub = |r: &mut Rng| bx(stack_expr(r, d - 1, i, n, x));
    match r.weighted(&[5, 6, 4, 4, if x { 3 } else { 1 }, 1, if x { 3 } else { 0 }, 1]) {
        0 => GE::Seq(sub(r), sub(r)), 1 => GE::Cho(sub(r), sub(r)), 2 => GE::Opt(sub(r)), 3 => GE::Rep(sub(r)), 4 => GE::Rep1(sub(r)),
        5 => GE::Neg(sub(r)), 6 => GE::Tag("t".into(), sub(r)), _ => GE::Push(sub(r)),
    }
}

/// kind: 0 rotate 1 skip 2 unroll 3 concatenate 4 factor 5 list 6 restore; `wild` = shapes only the structural runs can take
/// (undefined names, cyclic references, counts that make the unroller panic)
fn shaped(r: &mut Rng, kind: u32, x: bool, wild: bool, huge_ok: bool) -> Vec<GRule> {
    let n = 3usize;
    let c = GenCfg { stack: kind == 6, extras: x, counts: r.chance(1, 3), builtins: r.chance(1, 5) };
    let mut rules: Vec<GRule> = (0..n).map(|i| GRule { name: format!("r{}", i), ty: any_ty(r), e: gen_expr(r, 2, i, n, &c) }).collect();
    let e0 = match kind {
        0 => { let k = 3 + r.below(3) as usize; let is_seq = r.chance(1, 2); let op: fn(GE, GE) -> GE = if is_seq { seq } else { cho };
               let leaves = (0..k).map(|_| if r.chance(1, 4) { let m = 2 + r.below(2) as usize; let l2 = (0..m).map(|_| small(r, 0, n, &c)).collect(); tree(r, l2, if is_seq { cho } else { seq }, 3) } else { small(r, 0, n, &c) }).collect();
               tree(r, leaves, op, 3) }
        1 => {
            rules[0].ty = mostly(r, Ty::Atomic);
            // helper rules: string choices (inlinable), or not
            rules[2].e = match r.below(6) { 0 | 1 => s(&strlit(r)), 2 | 3 => cho(s(&strlit(r)), s(&strlit(r))), 4 => seq(s("x"), s("y")), _ => GE::Range('x', 'y') };
            rules[1].e = match r.below(5) { 0 => s(&strlit(r)), 1 => cho(s(&strlit(r)), id("r2")), 2 => cho(id("r2"), s(&strlit(r))), 3 => id("r2"), _ => cho(s(&strlit(r)), cho(s(&strlit(r)), s(&strlit(r)))) };
            let k = 1 + r.below(4) as usize;
            let alts: Vec<GE> = (0..k).map(|_| match r.weighted(&[8, 3, 2, 1, 1, if wild { 1 } else { 0 }]) {
                0 => s(&strlit(r)), 1 => id("r1"), 2 => id("r2"), 3 => GE::Ins("x".into()), 4 => id(["ANY", "ASCII_DIGIT", "SOI"][r.below(3) as usize]), _ => id("undefined_rule") }).collect();
            let lean = [9, 9, 9, 9, 9, 0, 2, 4][r.below(8) as usize];
            let alt = tree(r, alts, cho, lean);
            let core = match r.weighted(&[12, 1, 1, 1, 1]) {
                0 => GE::Rep(bx(seq(GE::Neg(bx(alt)), id("ANY")))), 1 => GE::Rep1(bx(seq(GE::Neg(bx(alt)), id("ANY")))),
                2 => GE::Rep(bx(seq(GE::Neg(bx(alt)), s("x")))), 3 => GE::Rep(bx(seq(GE::Pos(bx(alt)), id("ANY")))), _ => GE::Rep(bx(seq(GE::Neg(bx(alt)), GE::Range('x', 'y')))) };
            match r.below(4) { 0 => core, 1 => seq(core, s(&strlit(r))), 2 => seq(s(&strlit(r)), seq(core, s(&strlit(r)))), _ => ctx(r, core, 0, n, &c) }
        }
        2 => { let inner = if r.chance(1, 3) { GE::RepMM(bx(small(r, 0, n, &c)), r.below(3) as u32, 1 + r.below(3) as u32) } else { small(r, 0, n, &c) };
               // u32::MAX makes `num + 1` overflow at once; u32::MAX - 1 does so only for e{n,} (`min + 2`), elsewhere it would build 2^32 clones
               // (only when the driver found the unroller's `num + 1` arithmetic in the tree: with the inclusive ranges of the repaired
               //  unroller such a count means 2^32 clones)
               let huge = wild && r.chance(1, 6) && huge_ok;
               let big = if huge { u32::MAX } else { r.below(4) as u32 };
               let lo = if wild { 0 } else { 1 };
               let e = match r.below(6) { 0 => GE::RepX(bx(inner), big.max(lo)), 1 => GE::RepMin(bx(inner), if huge && r.chance(1, 2) { u32::MAX - 1 } else { big }), 2 => GE::RepMax(bx(inner), big.max(lo)),
                   3 => { let m = r.below(4) as u32; GE::RepMM(bx(inner), m, if wild && r.chance(1, 4) { r.below(3) as u32 } else { (m + r.below(3) as u32).max(1) }) }
                   4 => GE::Rep1(bx(inner)), _ => GE::RepMM(bx(inner), 2, if big > 3 { big } else { 3 }) };
               ctx(r, e, 0, n, &c) }
        3 => { rules[0].ty = mostly(r, Ty::Atomic); let k = 2 + r.below(4) as usize;
               // literals of one kind with an odd one out, or both kinds mixed freely (a case-sensitive literal next to a case-insensitive one)
               let mode = r.below(3);
               let leaves = (0..k).map(|_| { let ins = match mode { 0 => r.chance(2, 13), 1 => r.chance(11, 13), _ => r.chance(1, 2) };
                   if r.chance(1, 13) { small(r, 0, n, &c) } else if ins { GE::Ins(["X", "y", "xY", "É", "", "x", "Yx"][r.below(7) as usize].into()) } else { s(&strlit(r)) } }).collect();
               let lean = [0, 2, 4][r.below(3) as usize]; let t = tree(r, leaves, seq, lean); ctx(r, t, 0, n, &c) }
        4 => { let a = small(r, 0, n, &c); let a2 = if r.chance(3, 4) { a.clone() } else { small(r, 0, n, &c) }; let b = small(r, 0, n, &c); let d = small(r, 0, n, &c);
               if r.chance(1, 2) { rules[0].ty = [Ty::Atomic, Ty::Compound][r.below(2) as usize]; }
               // two expressions of which the first matches a prefix of what the second matches (or the other way round): ordered choice
               // commits to the first that matches, so such heads / tails tell a sound factoring from an unsound one
               let (h1, h2) = { let p = ["x", "y", "xy"][r.below(3) as usize]; let q = format!("{}{}", p, ["x", "y", "yx"][r.below(3) as usize]); let e = small(r, 0, n, &c);
                   let (u, v) = match r.below(6) { 0 | 1 => (s(p), s(&q)), 2 => (GE::Ins(p.into()), s(&q)), 3 => (e.clone(), seq(e, small(r, 0, n, &c))), 4 => (e.clone(), GE::Rep1(bx(e))),
                       _ => (GE::Opt(bx(e.clone())), e) };
                   if r.chance(3, 4) { (u, v) } else { (v, u) } };
               let t = if r.chance(1, 2) { s(&strlit(r)) } else { small(r, 0, n, &c) };
               let e = match r.weighted(&[2, 2, 2, 2, 2, 3, 1, 1]) { 0 => cho(seq(a, b), seq(a2, d)), 1 => cho(seq(a, b), a2), 2 => cho(a, seq(a2, b)),
                   3 => cho(seq(a.clone(), b), cho(seq(a2, d), a)), 4 => cho(cho(seq(a.clone(), b), seq(a2, d)), a),
                   5 => cho(seq(h1, t.clone()), seq(h2, t)), 6 => cho(seq(h1, t.clone()), cho(seq(h2, t), d)), _ => cho(seq(a, h1), seq(a2, h2)) };
               ctx(r, e, 0, n, &c) }
        5 => { let a = small(r, 0, n, &c); let a2 = if r.chance(4, 5) { a.clone() } else { small(r, 0, n, &c) }; let b = small(r, 0, n, &c);
               // the separated-list shape on its own, or followed by a tail (what the rules of real grammars look like: a trailing separator,
               // a terminator that overlaps the separator, the end of input), nested to the left (as written) or to the right (as rotated)
               let tail = match r.below(10) { 0 => Some(GE::Opt(bx(b.clone()))), 1 => Some(seq(GE::Opt(bx(b.clone())), id("EOI"))), 2 => Some(id("EOI")), 3 => Some(small(r, 0, n, &c)),
                   4 => Some(cho(b.clone(), small(r, 0, n, &c))), _ => None };
               let rep = GE::Rep(bx(seq(a, b)));
               let e = match tail { None => seq(rep, a2), Some(t) => if r.chance(2, 3) { seq(seq(rep, a2), t) } else { seq(rep, seq(a2, t)) } };
               ctx(r, e, 0, n, &c) }
        _ => { for i in 1..n { if r.chance(2, 3) { rules[i].e = stack_expr(r, 2, if wild { 0 } else { i }, n, x); } }
               if wild && r.chance(1, 2) { rules[2].e = cho(id("r1"), rules[2].e.clone()); }
               let body = stack_expr(r, 3, 0, n, x);
               let pre = match r.below(4) { 0 => body, 1 => seq(GE::Push(bx(s("x"))), body), _ => seq(GE::Push(bx(s("x"))), seq(GE::Push(bx(s("y"))), body)) };
               pre }
    };
    rules[0].e = e0;
    // implicit skipping is what tells the rule types apart: WHITESPACE in a third of the rule sets, COMMENT = _{ "y" ~ " " } in some more
    if kind != 6 { match r.below(9) { 0 | 1 | 2 => rules.push(GRule { name: "WHITESPACE".into(), ty: Ty::Silent, e: s(" ") }),
        3 => rules.push(GRule { name: "COMMENT".into(), ty: Ty::Silent, e: seq(s("y"), s(" ")) }), _ => {} } }
    rules
}

/// Built-ins in the positions a pass inspects or resolves, as a second step on a shaped rule set (with a random stream of its own, so that
/// the shapes themselves stay what they are): in about a third of the rule sets of the rewriting kinds one or two operands of the entry
/// rule - for the skip shape the alternatives of the stop set - are replaced by a built-in, together with every structurally equal operand
/// (the rewrites look for equal heads / elements); for the skip shape a helper rule may also become a built-in on its own or next to a
/// string (`eol = _{ NEWLINE }`, `sep = { "," | NEWLINE }`), so that the stop set reaches the built-in through a rule of any type.
fn with_builtins(mut g: Vec<GRule>, kind: u32, a: &mut Rng) -> Vec<GRule> {
    if kind > 5 || g.is_empty() { return g; }
    if !a.chance(1, if kind == 1 { 2 } else { 3 }) { return g; }
    fn is_operand(e: &GE) -> bool { match e { GE::Str(_) | GE::Ins(_) | GE::Range(..) => true, GE::Id(_) => true, _ => false } }
    /// preorder indices of the operands; for the skip shape only those below a negative predicate
    fn sites(e: &GE, under_neg: bool, need_neg: bool, i: &mut usize, out: &mut Vec<usize>) {
        let me = *i; *i += 1;
        if children(e).is_empty() { if is_operand(e) && (under_neg || !need_neg) { out.push(me); } return; }
        let neg = under_neg || matches!(e, GE::Neg(_));
        for c in children(e) { sites(c, neg, need_neg, i, out); }
    }
    for _ in 0..1 + a.below(2) {
        if kind == 1 && g.len() >= 3 && a.chance(1, 3) {
            let ri = 1 + a.below(2) as usize;
            let lit = s(["x", "y", "xy", ","][a.below(4) as usize]);
            g[ri].e = match a.below(3) { 0 => builtin(a), 1 => cho(lit, builtin(a)), _ => cho(builtin(a), lit) };
            continue;
        }
        let (mut i, mut out) = (0, vec![]);
        sites(&g[0].e, false, kind == 1, &mut i, &mut out);
        if out.is_empty() { continue; }
        let k = out[a.below(out.len() as u64) as usize];
        let old = nth(&g[0].e, k);
        let new = builtin(a);
        fn subst(e: &GE, old: &GE, new: &GE) -> GE { if e == old { return new.clone(); } let cs: Vec<GE> = children(e).into_iter().map(|c| subst(c, old, new)).collect(); with_children(e, cs) }
        // every equal operand (an ANY behind a stop set stays: it is what makes the shape a skip-until)
        if old == id("ANY") && kind == 1 { continue; }
        g[0].e = subst(&g[0].e, &old, &new);
    }
    g
}
fn aux_rng(seed: u64, k: u64) -> Rng { Rng::new(seed.wrapping_mul(0x9E37_79B9_7F4A_7C15).wrapping_add(k.wrapping_mul(0xD1B5_4A32_D192_ED03)).wrapping_add(77)) }

// ------------------------------------------------------------------------------------------------
// property oracle: the real VM before and after a pass
// ------------------------------------------------------------------------------------------------
fn alphabet(g: &[GRule]) -> Vec<&'static str> {
    let t = sexp_grammar(g);
    let mut a = vec!["x", "y"];
    if t.contains("WHITESPACE") || t.contains("(str 20)") { a.push(" "); }
    if t.contains("c3a9") || t.contains("c389") { a.push("é"); }
    if a.len() == 2 { a.push("z"); }
    a
}
fn children(e: &GE) -> Vec<&GE> {
    use GE::*;
    match e {
        Pos(x) | Neg(x) | Opt(x) | Rep(x) | Rep1(x) | RepX(x, _) | RepMin(x, _) | RepMax(x, _) | RepMM(x, _, _) | Push(x) | Tag(_, x) | Roe(x) => vec![&**x],
        Seq(l, r) | Cho(l, r) => vec![&**l, &**r],
        _ => vec![],
    }
}
fn with_children(e: &GE, mut c: Vec<GE>) -> GE {
    use GE::*;
    let mut one = || bx(c.remove(0));
    match e {
        Pos(_) => Pos(one()), Neg(_) => Neg(one()), Opt(_) => Opt(one()), Rep(_) => Rep(one()), Rep1(_) => Rep1(one()), RepX(_, n) => RepX(one(), *n),
        RepMin(_, n) => RepMin(one(), *n), RepMax(_, n) => RepMax(one(), *n), RepMM(_, m, n) => RepMM(one(), *m, *n), Push(_) => Push(one()),
        Tag(t, _) => Tag(t.clone(), one()), Roe(_) => Roe(one()), Seq(..) => { let l = one(); Seq(l, one()) } Cho(..) => { let l = one(); Cho(l, one()) }
        leaf => leaf.clone(),
    }
}
fn walk<'a>(e: &'a GE, f: &mut dyn FnMut(&'a GE)) { f(e); for c in children(e) { walk(c, f); } }
fn size(e: &GE) -> usize { let mut n = 0; walk(e, &mut |_| n += 1); n }
/// the k-th node in preorder
fn nth(e: &GE, k: usize) -> GE { let mut i = 0; let mut out = None; walk(e, &mut |x| { if i == k { out = Some(x.clone()); } i += 1; }); out.unwrap() }
/// replace the k-th node in preorder by f(node)
fn replace_nth(e: &GE, k: &mut isize, f: &mut dyn FnMut(&GE) -> GE) -> GE {
    if *k == 0 { *k = -1; return f(e); }
    if *k < 0 { return e.clone(); }
    *k -= 1;
    let cs: Vec<GE> = children(e).into_iter().map(|c| replace_nth(c, k, f)).collect();
    with_children(e, cs)
}
/// ASCII and Unicode case swap (a lower-case letter becomes its upper-case form and the other way round, when that is one character)
fn swap_case(s: &str) -> String {
    s.chars().map(|c| {
        let one = |mut it: Box<dyn Iterator<Item = char>>| { let a = it.next(); if it.next().is_none() { a } else { None } };
        if c.is_lowercase() { one(Box::new(c.to_uppercase())).unwrap_or(c) } else if c.is_uppercase() { one(Box::new(c.to_lowercase())).unwrap_or(c) } else { c }
    }).collect()
}
/// every literal text of the grammar (strings, case-insensitive strings, pushed literals, stop sets, range bounds)
fn literals(g: &[GRule]) -> Vec<String> {
    let mut out: Vec<String> = vec![];
    for r in g {
        walk(&r.e, &mut |e| match e {
            GE::Str(s) | GE::Ins(s) | GE::PushLit(s) => out.push(s.clone()),
            GE::Skip(ss) => out.extend(ss.iter().cloned()),
            GE::Range(a, b) => { out.push(a.to_string()); out.push(b.to_string()); }
            _ => {}
        });
    }
    out
}
/// what tells a built-in from a wrong re-implementation of it: every form of the line break, and for a character class its first and last
/// members and the characters just outside
fn class_chars(name: &str) -> &'static [&'static str] {
    match name {
        "NEWLINE" => &["\n", "\r", "\r\n"],
        "ASCII_DIGIT" => &["0", "9", "/", ":"], "ASCII_NONZERO_DIGIT" => &["1", "9", "0", ":"], "ASCII_BIN_DIGIT" => &["0", "1", "2", "/"],
        "ASCII_OCT_DIGIT" => &["0", "7", "8", "/"], "ASCII_HEX_DIGIT" => &["0", "9", "a", "f", "A", "F", "g", "G", "/", ":", "`", "@"],
        "ASCII_ALPHA_LOWER" => &["a", "z", "`", "{", "A"], "ASCII_ALPHA_UPPER" => &["A", "Z", "@", "[", "a"],
        "ASCII_ALPHA" => &["a", "z", "A", "Z", "`", "{", "@", "["], "ASCII_ALPHANUMERIC" => &["a", "z", "A", "Z", "0", "9", "`", "{", "@", "[", "/", ":"],
        "ASCII" => &["\u{7f}", "\u{80}", "\u{0}"],
        _ => &[],
    }
}
/// the class_chars of every built-in the rule set names
fn class_tokens(g: &[GRule]) -> Vec<String> {
    let (mut v, mut seen) = (vec![], HashSet::new());
    for r in g { walk(&r.e, &mut |e| if let GE::Id(n) = e { for c in class_chars(n) { push_new(&mut v, &mut seen, c.to_string()); } }); }
    v
}
fn push_new(v: &mut Vec<String>, seen: &mut HashSet<String>, s: String) { if !s.is_empty() && seen.insert(s.clone()) { v.push(s); } }
/// the input alphabet derived from the grammar itself: the letters of alphabet(), every literal, its case-swapped / upper / lower forms,
/// its proper prefixes, its characters (both cases), and one member of every character class the grammar names
fn tokens(g: &[GRule]) -> Vec<String> {
    let (mut v, mut seen) = (vec![], HashSet::new());
    for a in alphabet(g) { push_new(&mut v, &mut seen, a.to_string()); }
    let t = sexp_grammar(g);
    for (pat, tok) in [("DIGIT", "0"), ("ALPHANUMERIC", "0"), ("NEWLINE", "\n"), ("ASCII_ALPHA", "a"), ("ASCII_HEX", "f")] { if t.contains(pat) { push_new(&mut v, &mut seen, tok.to_string()); } }
    for c in class_tokens(g) { push_new(&mut v, &mut seen, c); }
    for l in literals(g) {
        for f in [l.clone(), swap_case(&l), l.to_uppercase(), l.to_lowercase()] { push_new(&mut v, &mut seen, f); }
        let idx: Vec<usize> = l.char_indices().map(|(i, _)| i).skip(1).collect();
        for i in idx { push_new(&mut v, &mut seen, l[..i].to_string()); push_new(&mut v, &mut seen, swap_case(&l[..i])); }
        for c in l.chars() { push_new(&mut v, &mut seen, c.to_string()); push_new(&mut v, &mut seen, swap_case(&c.to_string())); }
    }
    v
}
/// concatenations of at most `max_tok` tokens and `max_bytes` bytes, shortest first; a layer that would exceed `cap` is thinned evenly
fn derived(toks: &[String], max_tok: usize, max_bytes: usize, cap: usize, out: &mut Vec<String>, seen: &mut HashSet<String>) {
    let start = out.len();
    let mut layer: Vec<String> = vec![String::new()];
    for _ in 0..max_tok {
        let mut next: Vec<String> = vec![];
        let mut lseen: HashSet<String> = HashSet::new();
        for w in &layer { for t in toks { if w.len() + t.len() <= max_bytes { let s = format!("{}{}", w, t); if lseen.insert(s.clone()) { next.push(s); } } } }
        let fresh: Vec<&String> = next.iter().filter(|s| !seen.contains(*s)).collect();
        let room = cap.saturating_sub(out.len() - start);
        let step = if fresh.len() > room && room > 0 { (fresh.len() + room - 1) / room } else { 1 };
        let picked: Vec<String> = if room == 0 { vec![] } else { fresh.iter().step_by(step).map(|s| (*s).clone()).collect() };
        for s in picked { seen.insert(s.clone()); out.push(s); }
        if out.len() - start >= cap { break; }
        layer = next;
        if layer.len() > 40000 { layer = layer.into_iter().step_by(4).collect(); }
    }
}
/// depth of the input search: Base = what every run does; Deep = escalated search and replays (a superset of Base for the same maxlen)
#[derive(Clone, Copy, PartialEq)]
enum Depth { Base, Mid, Deep }
/// all strings up to `maxlen` over alphabet(g) (the first `.1` entries: these also go to the Spec oracle), then all short strings over that
/// alphabet extended by the case-swapped letters, then concatenations of tokens derived from the grammar's literals
fn inputs_for(g: &[GRule], maxlen: usize, depth: Depth, extra: &[String]) -> (Vec<String>, usize) {
    let alpha = alphabet(g);
    let mut out = all_strings(&alpha, maxlen);
    let nbase = out.len();
    let mut seen: HashSet<String> = out.iter().cloned().collect();
    for s in extra { if seen.insert(s.clone()) { out.push(s.clone()); } }     // a recorded input (replay)
    let toks = tokens(g);
    let mut ext: Vec<String> = alpha.iter().map(|a| a.to_string()).collect();
    for a in &alpha { let sw = swap_case(a); if !ext.contains(&sw) { ext.push(sw); } }
    for t in &toks { if t.chars().count() == 1 && !ext.contains(t) && ext.len() < 8 { ext.push(t.clone()); } }
    let extr: Vec<&str> = ext.iter().map(|s| s.as_str()).collect();
    let (elen, ntok, nbytes, cap) = match depth { Depth::Base => (3, 3, 6, 300), Depth::Mid => (3, 4, 8, 1200), Depth::Deep => (4, 5, 10, 6000) };
    for s in all_strings(&extr, elen) { if seen.insert(s.clone()) { out.push(s); } }
    // a rule set that names built-ins: all short strings over two letters of the alphabet and the class_chars of those built-ins (the line
    // break in its three forms, first / last member of a character class and the neighbours outside), as long as the budget allows
    let cls = class_tokens(g);
    if !cls.is_empty() {
        let mut sym: Vec<&str> = alpha.iter().take(2).cloned().collect();
        for c in &cls { if !sym.contains(&c.as_str()) { sym.push(c.as_str()); } }
        let budget = match depth { Depth::Base => 450usize, Depth::Mid => 1200, Depth::Deep => 3000 };
        let (k, mut clen, mut total, mut layer) = (sym.len(), 0usize, 0usize, 1usize);
        while clen < 5 { layer = layer.saturating_mul(k); if total + layer > budget { break; } total += layer; clen += 1; }
        for s in all_strings(&sym, clen.max(1)) { if seen.insert(s.clone()) { out.push(s); } }
    }
    derived(&toks, ntok, nbytes, cap, &mut out, &mut seen);
    (out, nbase)
}
/// The rewrite of the known finding C05-lister and nothing else (coq/Opt/List.v `list_fn`, bottom-up): `(l1 ~ l2)* ~ r` with l1 == r
/// becomes `l1 ~ (l2 ~ r)*`.  It decides which before/after differences of the list pass are the known finding: a rule set on which this
/// rewrite does not fire is outside the class whatever the real pass does to it.  (The runner evaluates the extracted Coq predicate on
/// every CONTRACT line of class `lister` again and takes a line out of the class when the predicate does not hold.)
fn known_list_expr(e: &GE) -> GE {
    let cs: Vec<GE> = children(e).into_iter().map(known_list_expr).collect();
    let e = with_children(e, cs);
    if let GE::Seq(l, r) = &e { if let GE::Rep(b) = &**l { if let GE::Seq(l1, l2) = &**b { if **l1 == **r {
        return seq((**l1).clone(), GE::Rep(bx(seq((**l2).clone(), (**r).clone()))));
    } } } }
    e
}
fn known_list(rules: &[Rule]) -> Vec<Rule> {
    let g: Vec<GRule> = from_rules(rules).into_iter().map(|r| GRule { name: r.name, ty: r.ty, e: known_list_expr(&r.e) }).collect();
    to_rules(&g)
}
/// How the differences between `before` and `after` a list pass (or the pipeline that contains it) relate to the known finding:
///   Outside      the known rewrite does not fire on the rules: every difference counts
///   Known        the real pass did exactly the known rewrite: every difference is the known finding
///   Mixed(obs)   the known rewrite fires and the real pass did something else (as well): `obs` = the real VM on the rules after the known
///                rewrite alone; a difference on an input on which the known rewrite alone changes nothing is not the known finding
enum Lister { Outside, Known, Mixed(Vec<String>) }
fn lister_case(src: &[Rule], real: &[Rule], inputs: &[String]) -> Lister {
    let k = known_list(src);
    if k.as_slice() == src { return Lister::Outside; }
    if k.as_slice() == real { return Lister::Known; }
    match to_opt(&k, true) { Some(o) => Lister::Mixed(vm_all(&o, inputs)), None => Lister::Known }
}
fn compare(w: &mut Out, st: &mut Stats, lc: &Lister, pass: u32, x: bool, g: &[Rule], inputs: &[String], before: &[String], after: &[String]) -> bool {
    let (mut shown_known, mut shown_other) = (0, 0);
    for (k, input) in inputs.iter().enumerate() {
        st.vm_runs += 1;
        if has_limit(&before[k]) || has_limit(&after[k]) || before[k] == after[k] { continue; }
        let class = match lc { Lister::Outside => "other", Lister::Known => "lister",
            Lister::Mixed(ka) => if !has_limit(&ka[k]) && ka[k] == before[k] { "other+" } else { "lister" } };
        let shown = if class == "lister" { st.vm_diff_known += 1; &mut shown_known } else { st.contracts += 1; &mut shown_other };
        *shown += 1;
        if *shown <= 2 { writeln!(w, "CONTRACT\t{}\t{}\t{}\t{}\t{}\t{}\t{}", class, pass, x as u8, sexp_grammar(&from_rules(g)), hex(input), before[k], after[k]).unwrap(); }
    }
    shown_other > 0
}
/// returns true when the real VM told the rules before and after some pass apart (outside the lister class)
fn semantic(w: &mut Out, st: &mut Stats, g: &[GRule], x: bool, maxlen: usize, stream: &str, gid: u64, emit_v: bool, depth: Depth, extra: &[String]) -> bool {
    let base = to_rules(g);
    let (mut inputs, nbase) = inputs_for(g, maxlen, depth, extra);
    let mut found = false;
    let unrolled = match apply(&base, 2) { Some(u) => u, None => return false };
    let before_opt = match to_opt(&unrolled, true) { Some(o) => o, None => return false };
    // a rule set that runs into the call limit on most inputs (a repetition that does not progress) says nothing on the additional inputs either
    let mut before = vm_all(&before_opt, &inputs[..nbase]);
    if before.iter().filter(|o| has_limit(o)).count() * 2 > nbase { inputs.truncate(nbase); } else { before.extend(vm_all(&before_opt, &inputs[nbase..])); }
    st.inputs += inputs.len() as u64;
    if emit_v {
        // the Spec oracle is given r0 from the top level; a silent r0 shows neither its span nor (next to a non-silent WHITESPACE) which pairs
        // are its own, so the Spec oracle gets the same rule set with a normal r0
        let (gv, obs): (Vec<GRule>, Option<Vec<String>>) = if g[0].ty != Ty::Silent { (g.to_vec(), Some(before[..nbase].to_vec())) } else {
            let mut gn = g.to_vec(); gn[0].ty = Ty::Normal;
            let o = apply(&to_rules(&gn), 2).and_then(|u| to_opt(&u, true)).map(|o| vm_all(&o, &inputs[..nbase]));
            (gn, o) };
        if let Some(obs) = obs {
            writeln!(w, "G\t{}\t{}\t{}", gid, x as u8, sexp_grammar(&gv)).unwrap();
            for (k, i) in inputs.iter().take(nbase).enumerate() { writeln!(w, "V\t{}\t{}\t{}\t{}", gid, stream, hex(i), first_obs(&obs[k])).unwrap(); }
            st.evals += nbase as u64;
        }
    }
    for pass in [0u32, 1, 3, 4, 5] {
        let (src, src_is_base) = if pass < 2 { (&base, true) } else { (&unrolled, false) };
        let a = match apply(src, pass) { Some(a) => a, None => continue };
        if &a == src { continue; }
        let lc = if pass == 5 { lister_case(src, &a, &inputs) } else { Lister::Outside };
        let au = if src_is_base { match apply(&a, 2) { Some(u) => u, None => continue } } else { a };
        let ao = match to_opt(&au, true) { Some(o) => o, None => continue };
        st.fired[pass as usize] += 1;
        if st.seen.insert(format!("{}|{}", pass, sexp_grammar(&from_rules(src)))) { st.distinct_fired += 1; }
        let after = vm_all(&ao, &inputs);
        found |= compare(w, st, &lc, pass, x, src, &inputs, &before, &after);
    }
    if let Some(po) = whole(&base) {
        if po != before_opt {
            // the rules as the list pass of the pipeline sees them (the five passes before it), and what the real list pass makes of them
            let mut chain = Some(base.clone());
            for pass in 0..5 { chain = chain.and_then(|c| apply(&c, pass)); }
            let lc = match &chain { Some(c) => match apply(c, 5) { Some(l) => lister_case(c, &l, &inputs), None => Lister::Known }, None => Lister::Known };
            st.fired[8] += 1;
            if st.seen.insert(format!("8|{}", sexp_grammar(g))) { st.distinct_fired += 1; }
            let after = vm_all(&po, &inputs);
            found |= compare(w, st, &lc, 8, x, &base, &inputs, &before, &after);
        }
    }
    found
}

// ------------------------------------------------------------------------------------------------
// escalated search (only after a proof obligation or the structural correspondence broke): the grammars on which the real pass and
// the model differ, with inputs derived from their own literals, then variants of those grammars, then more generated grammars
// ------------------------------------------------------------------------------------------------
const BUILTINS: [&str; 19] = ["ANY", "SOI", "EOI", "PEEK", "PEEK_ALL", "POP", "POP_ALL", "DROP", "ASCII_DIGIT", "ASCII_NONZERO_DIGIT", "ASCII_BIN_DIGIT", "ASCII_OCT_DIGIT",
    "ASCII_HEX_DIGIT", "ASCII_ALPHA_LOWER", "ASCII_ALPHA_UPPER", "ASCII_ALPHA", "ASCII_ALPHANUMERIC", "ASCII", "NEWLINE"];
/// can the rule set be run: an entry rule r0, every name defined once and not a built-in, no recursion, no constructs of the other
/// feature set, moderate counts and size
fn runnable(g: &[GRule], x: bool) -> bool {
    if g.is_empty() || g[0].name != "r0" { return false; }
    let names: Vec<&str> = g.iter().map(|r| r.name.as_str()).collect();
    for (i, n) in names.iter().enumerate() { if BUILTINS.contains(n) || names[..i].contains(n) { return false; } }
    let mut ok = true;
    let mut calls: Vec<Vec<usize>> = vec![];
    for r in g {
        let mut cs = vec![];
        walk(&r.e, &mut |e| match e {
            GE::Id(n) => { if let Some(k) = names.iter().position(|m| m == n) { cs.push(k); } else if !BUILTINS.contains(&n.as_str()) { ok = false; } }
            GE::RepX(_, n) | GE::RepMin(_, n) | GE::RepMax(_, n) | GE::RepMM(_, _, n) => { if *n > 6 { ok = false; } }
            GE::PushLit(_) | GE::Tag(..) if !x => ok = false,
            GE::Roe(_) => ok = false,
            _ => {}
        });
        if size(&r.e) > 60 { ok = false; }
        calls.push(cs);
    }
    // implicit calls: every non-atomic sequence / repetition calls WHITESPACE and COMMENT
    let implicit: Vec<usize> = names.iter().enumerate().filter(|(_, n)| **n == "WHITESPACE" || **n == "COMMENT").map(|(i, _)| i).collect();
    fn cyclic(k: usize, calls: &[Vec<usize>], state: &mut Vec<u8>) -> bool {
        if state[k] == 1 { return true; } if state[k] == 2 { return false; }
        state[k] = 1;
        for &c in &calls[k] { if cyclic(c, calls, state) { return true; } }
        state[k] = 2; false
    }
    for (i, cs) in calls.iter_mut().enumerate() { if !implicit.contains(&i) { cs.extend(implicit.iter().cloned()); } }
    let mut state = vec![0u8; g.len()];
    ok && !(0..g.len()).any(|k| cyclic(k, &calls, &mut state))
}
/// positions (rule, preorder index) of the string literals
fn literal_sites(g: &[GRule]) -> Vec<(usize, usize, String)> {
    let mut out = vec![];
    for (ri, r) in g.iter().enumerate() { let mut i = 0; walk(&r.e, &mut |e| { if let GE::Str(s) | GE::Ins(s) = e { out.push((ri, i, s.clone())); } i += 1; }); }
    out
}
fn set_node(g: &mut [GRule], ri: usize, k: usize, f: &mut dyn FnMut(&GE) -> GE) { let mut kk = k as isize; g[ri].e = replace_nth(&g[ri].e, &mut kk, f); }
fn relit(e: &GE, t: String) -> GE { match e { GE::Ins(_) => GE::Ins(t), _ => GE::Str(t) } }
/// leftmost leaf along the sequence spine (the "head" of an alternative): preorder offset within e
fn head_offset(e: &GE) -> usize { match e { GE::Seq(l, _) => 1 + head_offset(l), _ => 0 } }
/// one variant of a rule set: one to three of
///   literals made prefixes / extensions of each other, literal kind or letter case changed, a sub-expression replaced by a literal or by a copy
///   of another sub-expression (structural equalities are what the rewrites look for), the heads of the two sides of a choice made to
///   overlap (ordered choice is sensitive to exactly that), the entry rule wrapped in a repetition / optional / sequence, a rule type changed,
///   implicit whitespace / comments switched on, a sub-expression replaced by a built-in
fn mutate(g0: &[GRule], r: &mut Rng) -> Vec<GRule> {
    let mut g = g0.to_vec();
    let ext = ["x", "y", "xy", "X"];
    for _ in 0..1 + r.below(3) {
        let ri = if r.chance(2, 3) { 0 } else { r.below(g.len() as u64) as usize };
        let n = size(&g[ri].e);
        match r.below(12) {
            // a sub-expression (often a literal) replaced by a built-in
            11 => { let k = if r.chance(1, 2) { let sites: Vec<usize> = literal_sites(&g).into_iter().filter(|s| s.0 == ri).map(|s| s.1).collect();
                        if sites.is_empty() { r.below(n as u64) as usize } else { sites[r.below(sites.len() as u64) as usize] } } else { r.below(n as u64) as usize };
                    let b = builtin(r); set_node(&mut g, ri, k, &mut |_| b.clone()); }
            0 => { let sites = literal_sites(&g); if sites.len() >= 2 {
                       let i = r.below(sites.len() as u64) as usize; let mut j = r.below(sites.len() as u64 - 1) as usize; if j >= i { j += 1; }
                       let t = format!("{}{}", sites[i].2, if r.chance(1, 3) { sites[j].2.clone() } else { ext[r.below(3) as usize].to_string() });
                       set_node(&mut g, sites[j].0, sites[j].1, &mut |e| relit(e, t.clone())); } }
            1 => { let sites = literal_sites(&g); if !sites.is_empty() {
                       let (ri, k, t) = sites[r.below(sites.len() as u64) as usize].clone();
                       let t = if t.chars().any(|c| c.is_ascii_alphabetic()) { t } else { "x".to_string() };
                       set_node(&mut g, ri, k, &mut |e| match e { GE::Ins(_) => GE::Str(t.clone()), _ => GE::Ins(t.clone()) }); } }
            2 => { let sites = literal_sites(&g); if !sites.is_empty() {
                       let (ri, k, t) = sites[r.below(sites.len() as u64) as usize].clone();
                       let t = match r.below(3) { 0 => t.to_uppercase(), 1 => t.to_lowercase(), _ => swap_case(&t) };
                       set_node(&mut g, ri, k, &mut |e| relit(e, t.clone())); } }
            3 => { let toks = tokens(&g); let t = toks[r.below(toks.len() as u64) as usize].clone(); let ins = r.chance(1, 4);
                   let k = r.below(n as u64) as usize; set_node(&mut g, ri, k, &mut |_| if ins { GE::Ins(t.clone()) } else { GE::Str(t.clone()) }); }
            4 => { let (a, b) = (r.below(n as u64) as usize, r.below(n as u64) as usize); let src = nth(&g[ri].e, b);
                   if size(&src) + n <= 40 { set_node(&mut g, ri, a, &mut |_| src.clone()); } }
            5 | 6 => { let mut chos = vec![]; { let mut i = 0; walk(&g[ri].e, &mut |e| { if let GE::Cho(l, _) = e { chos.push((i, size(l))); } i += 1; }); }
                   if !chos.is_empty() {
                       let (k, lsize) = chos[r.below(chos.len() as u64) as usize];
                       let c = nth(&g[ri].e, k);
                       if let GE::Cho(l, rr) = &c {
                           let (hl, hr) = (k + 1 + head_offset(l), k + 1 + lsize + head_offset(rr));
                           let p = ["x", "y", "xy"][r.below(3) as usize].to_string(); let q = format!("{}{}", p, ext[r.below(3) as usize]);
                           let (first, second) = if r.chance(3, 4) { (p, q) } else { (q, p) };
                           let ins = r.chance(1, 6);
                           set_node(&mut g, ri, hl, &mut |_| if ins { GE::Ins(first.clone()) } else { GE::Str(first.clone()) });
                           set_node(&mut g, ri, hr, &mut |_| GE::Str(second.clone()));
                       } } }
            7 => { let e = g[0].e.clone(); let toks = tokens(&g); let t = s(&toks[r.below(toks.len() as u64) as usize]);
                   g[0].e = match r.below(6) { 0 => GE::Rep(bx(e)), 1 => GE::Opt(bx(e)), 2 => seq(e, t), 3 => seq(t, e), 4 => cho(e, t), _ => GE::Rep1(bx(e)) }; }
            8 => { g[ri].ty = any_ty(r); }
            // implicit skipping switched on (what tells the rule types apart): WHITESPACE = _{ " " } or COMMENT = _{ "y" ~ " " } added
            _ => { let (name, e) = if r.chance(2, 3) { ("WHITESPACE", s(" ")) } else { ("COMMENT", seq(s("y"), s(" "))) };
                   if !g.iter().any(|x| x.name == name) { g.push(GRule { name: name.into(), ty: Ty::Silent, e }); } }
        }
    }
    g
}
fn sem_grammar(rng: &mut Rng, k: u64, x: bool, seed: u64) -> (Vec<GRule>, u32) {
    let kind = (k % 8) as u32;
    let g = if kind == 7 { let c = GenCfg { stack: rng.chance(1, 2), extras: x, counts: rng.chance(1, 2), builtins: rng.chance(1, 4) }; gen_grammar(rng, &c) }
            else { with_builtins(shaped(rng, kind, x, false, false), kind, &mut aux_rng(seed, k)) };
    (g, kind)
}
/// the rule set with implicit skipping switched on in the ways it is not yet: + WHITESPACE = _{ " " }, + COMMENT = _{ "y" ~ " " }, + both
/// (a rewrite that is sound for the sequence as written can be unsound for the sequence with the skips between its elements)
fn with_trivia(g: &[GRule]) -> Vec<Vec<GRule>> {
    let has = |n: &str| g.iter().any(|r| r.name == n);
    let ws = GRule { name: "WHITESPACE".into(), ty: Ty::Silent, e: s(" ") };
    let cm = GRule { name: "COMMENT".into(), ty: Ty::Silent, e: seq(s("y"), s(" ")) };
    let mut out = vec![];
    if !has("WHITESPACE") { let mut v = g.to_vec(); v.push(ws.clone()); out.push(v); }
    if !has("COMMENT") { let mut v = g.to_vec(); v.push(cm.clone()); out.push(v); }
    if !has("WHITESPACE") && !has("COMMENT") { let mut v = g.to_vec(); v.push(ws); v.push(cm); out.push(v); }
    out
}
fn search(w: &mut Out, st: &mut Stats, file: &str, seed: u64, nvar: u64, nrand: u64, x: bool, maxlen: usize) {
    let mut rng = Rng::new(seed);
    let text = std::fs::read_to_string(file).unwrap_or_default();
    const ENOUGH: u64 = 4;
    let mut not_tried = 0u64;
    let (mut given, mut skipped, mut variants, mut trivia, mut hits_given, mut hits_trivia, mut hits_variant, mut hits_random) = (0u64, 0u64, 0u64, 0u64, 0u64, 0u64, 0u64, 0u64);
    for line in text.lines().filter(|l| !l.trim().is_empty()) {
        // the rule set as it is (the type of the entry rule included: it decides what the passes do); every kind of entry rule is run
        // from the callers vm_all gives it
        if hits_given + hits_trivia + hits_variant >= ENOUGH { not_tried += 1; continue; }     // failing inputs on several rule sets: that is what the search is for
        let g = match catch(|| parse_grammar(line.trim())) { Ok(g) => g, Err(_) => { skipped += 1; continue; } };
        if !runnable(&g, x) { skipped += 1; continue; }
        given += 1;
        if semantic(w, st, &g, x, maxlen, "search", 0, false, Depth::Deep, &[]) { hits_given += 1; continue; }
        let mut hit = false;
        for v in with_trivia(&g) {
            if !runnable(&v, x) { continue; }
            trivia += 1;
            if semantic(w, st, &v, x, maxlen, "search", 0, false, Depth::Mid, &[]) { hits_trivia += 1; hit = true; break; }
        }
        if hit { continue; }
        for _ in 0..nvar {
            let v = mutate(&g, &mut rng);
            if v == g || !runnable(&v, x) { continue; }
            variants += 1;
            if semantic(w, st, &v, x, maxlen, "search", 0, false, Depth::Mid, &[]) { hits_variant += 1; break; }
        }
    }
    let mut random = 0u64;
    for k in 0..nrand {
        if hits_given + hits_trivia + hits_variant + hits_random >= ENOUGH { break; }
        let (g, _) = sem_grammar(&mut rng, k, x, seed);
        random += 1;
        if semantic(w, st, &g, x, maxlen, "search", 0, false, Depth::Mid, &[]) { hits_random += 1; }
    }
    writeln!(w, "#SEARCH\tgiven={}\tskipped={}\tnot_tried={}\ttrivia_variants={}\tvariants={}\trandom={}\thits_given={}\thits_trivia={}\thits_variant={}\thits_random={}\tinputs={}",
        given, skipped, not_tried, trivia, variants, random, hits_given, hits_trivia, hits_variant, hits_random, st.inputs).unwrap();
}

// ------------------------------------------------------------------------------------------------
// named witnesses through the public API (parse_and_optimize + Vm), and the probe of the tree's state
// ------------------------------------------------------------------------------------------------
fn witness(w: &mut Out, name: &str, text: &str, input: &str, x: bool) {
    let r = catch(|| {
        let pairs = pest_meta::parser::parse(pest_meta::parser::Rule::grammar_rules, text).map_err(|e| format!("{}", e))?;
        let ast = pest_meta::parser::consume_rules(pairs).map_err(|_| "consume_rules".to_string())?;
        let (_, opt) = pest_meta::parse_and_optimize(text).map_err(|_| "parse_and_optimize".to_string())?;
        let vm = pest_vm::Vm::new(opt);
        Ok::<_, String>((sexp_grammar(&from_rules(&ast)), observe(&vm, "r", input, false)))
    });
    match r {
        Ok(Ok((g, obs))) => writeln!(w, "W\t{}\t{}\t{}\tr\t{}\t{}", name, x as u8, g, hex(input), obs).unwrap(),
        Ok(Err(e)) => writeln!(w, "#WITNESS-SKIPPED\t{}\t{}", name, esc(&e)).unwrap(),
        Err(e) => writeln!(w, "#WITNESS-SKIPPED\t{}\tpanic {}", name, esc(&e)).unwrap(),
    }
}
fn witnesses(w: &mut Out, x: bool) {
    witness(w, "lister", "r = { (\"a\" ~ \"b\")* ~ \"a\" }", "abab", x);
    witness(w, "popall", "r = { PUSH(\"a\") ~ PUSH(\"b\") ~ (POP_ALL | PEEK_ALL) }", "abbX", x);
    witness(w, "popall-opt", "r = { PUSH(\"a\") ~ PUSH(\"b\") ~ POP_ALL? ~ PEEK_ALL }", "abbX", x);
    witness(w, "pop-control", "r = { PUSH(\"a\") ~ PUSH(\"b\") ~ (POP | PEEK_ALL) }", "abX", x);
    if x {
        witness(w, "reponce", "r = { PUSH(\"x\") ~ PUSH(\"y\") ~ (!EOI ~ (POP | PEEK))+ }", "xyx", x);
        witness(w, "nodetag", "r = { PUSH(\"x\") ~ PUSH(\"y\") ~ #t = (POP | PEEK) }", "xyx", x);
        witness(w, "itertag", "r = { PUSH(\"a\") ~ PUSH(\"b\") ~ (#t = p)? ~ PEEK }\np = { POP }", "aba", x);
    }
}
fn wrapped(e: &GE) -> bool { sexp(e).contains("(roe ") }
fn probe(w: &mut Out, x: bool) {
    let one = |e: GE| -> bool { to_opt(&to_rules(&[GRule { name: "r".into(), ty: Ty::Normal, e }]), true).map(|o| wrapped(&from_oexpr(&o[0].expr))).unwrap_or(false) };
    let fix_pop = one(GE::Opt(bx(id("POP_ALL"))));
    let (mut fix_map, mut fix_iter) = (0, 0);
    if x {
        fix_map = (one(GE::Rep1(bx(GE::Opt(bx(id("POP")))))) && one(GE::Tag("t".into(), bx(GE::Opt(bx(id("POP"))))))) as u8;
        fix_iter = (one(GE::Opt(bx(GE::Tag("t".into(), bx(id("POP")))))) && one(GE::Opt(bx(GE::Rep1(bx(id("POP"))))))) as u8;
    }
    writeln!(w, "#PROBE\textras={}\tfix_pop={}\tfix_map={}\tfix_iter={}", x as u8, fix_pop as u8, fix_map, fix_iter).unwrap();
}

// ------------------------------------------------------------------------------------------------
// replay: read a grammar back from the exchange format
// ------------------------------------------------------------------------------------------------
fn unhex_s(h: &str) -> String { if h == "-" { String::new() } else { String::from_utf8((0..h.len() / 2).map(|i| u8::from_str_radix(&h[2 * i..2 * i + 2], 16).unwrap()).collect()).unwrap() } }
fn parse_sx(t: &[String], k: &mut usize) -> GE {
    assert_eq!(t[*k], "("); *k += 1;
    let head = t[*k].clone(); *k += 1;
    let atom = |k: &mut usize| -> String { let a = t[*k].clone(); *k += 1; a };
    let ch = |c: &str| -> char { char::from_u32(c.parse::<u32>().unwrap()).unwrap() };
    let e = match head.as_str() {
        "str" => GE::Str(unhex_s(&atom(k))), "ins" => GE::Ins(unhex_s(&atom(k))), "range" => { let a = atom(k); let b = atom(k); GE::Range(ch(&a), ch(&b)) }
        "id" => GE::Id(atom(k)), "slice" => { let i = atom(k).parse().unwrap(); let j = atom(k); GE::Slice(i, if j == "-" { None } else { Some(j.parse().unwrap()) }) }
        "pos" => GE::Pos(bx(parse_sx(t, k))), "neg" => GE::Neg(bx(parse_sx(t, k))), "opt" => GE::Opt(bx(parse_sx(t, k))), "rep" => GE::Rep(bx(parse_sx(t, k))),
        "rep1" => GE::Rep1(bx(parse_sx(t, k))), "push" => GE::Push(bx(parse_sx(t, k))), "roe" => GE::Roe(bx(parse_sx(t, k))),
        "seq" => { let a = parse_sx(t, k); let b = parse_sx(t, k); seq(a, b) } "cho" => { let a = parse_sx(t, k); let b = parse_sx(t, k); cho(a, b) }
        "repx" => { let n = atom(k).parse().unwrap(); GE::RepX(bx(parse_sx(t, k)), n) } "repmin" => { let n = atom(k).parse().unwrap(); GE::RepMin(bx(parse_sx(t, k)), n) }
        "repmax" => { let n = atom(k).parse().unwrap(); GE::RepMax(bx(parse_sx(t, k)), n) }
        "repmm" => { let m = atom(k).parse().unwrap(); let n = atom(k).parse().unwrap(); GE::RepMM(bx(parse_sx(t, k)), m, n) }
        "skip" => { let mut ss = vec![]; while t[*k] != ")" { ss.push(unhex_s(&atom(k))); } GE::Skip(ss) }
        "pushlit" => GE::PushLit(unhex_s(&atom(k))), "tag" => { let tg = atom(k); GE::Tag(tg, bx(parse_sx(t, k))) }
        h => panic!("bad sexp head {}", h),
    };
    assert_eq!(t[*k], ")"); *k += 1;
    e
}
fn parse_grammar(text: &str) -> Vec<GRule> {
    text.split(';').map(|r| {
        let t: Vec<String> = r.replace('(', " ( ").replace(')', " ) ").split_whitespace().map(|x| x.to_string()).collect();
        let ty = match t[2].as_str() { "n" => Ty::Normal, "s" => Ty::Silent, "a" => Ty::Atomic, "c" => Ty::Compound, _ => Ty::NonAtomic };
        let mut k = 3;
        GRule { name: t[1].clone(), ty, e: parse_sx(&t, &mut k) }
    }).collect()
}

fn main() {
    quiet_panics();
    let mode = arg(1);
    let x = cfg!(feature = "extras");
    let stdout = io::stdout();
    let mut w: Out = BufWriter::with_capacity(1 << 20, stdout.lock());
    let mut st = Stats { evals: 0, fired: [0; 9], seen: HashSet::new(), distinct_fired: 0, panics: 0, vm_runs: 0, vm_diff_known: 0, contracts: 0, inputs: 0 };
    match mode.as_str() {
        "struct" => {
            let count = arg_u64(2, 500); let seed = arg_u64(3, 0); let mut rng = Rng::new(seed); let huge_ok = arg(4) == "huge";
            for k in 0..count {
                let kind = (k % 8) as u32;
                let g = if kind == 7 { let c = GenCfg { stack: rng.chance(1, 2), extras: x, counts: rng.chance(1, 2), builtins: rng.chance(1, 4) }; gen_grammar(&mut rng, &c) }
                        else { let wild = rng.chance(1, 4); with_builtins(shaped(&mut rng, kind, x, wild, huge_ok), kind, &mut aux_rng(seed, k)) };
                structural(&mut w, &mut st, &g, x);
            }
        }
        "dump" => {   // the generated rule sets only (debugging aid)
            let count = arg_u64(2, 10); let seed = arg_u64(3, 0); let mut rng = Rng::new(seed);
            for k in 0..count {
                let kind = (k % 8) as u32;
                let g = if kind == 7 { let c = GenCfg { stack: rng.chance(1, 2), extras: x, counts: rng.chance(1, 2), builtins: rng.chance(1, 4) }; gen_grammar(&mut rng, &c) }
                        else { let wild = rng.chance(1, 4); with_builtins(shaped(&mut rng, kind, x, wild, arg(4) == "huge"), kind, &mut aux_rng(seed, k)) };
                writeln!(w, "{}\t{}", k, sexp_grammar(&g)).unwrap();
            }
        }
        "sem" => {
            let count = arg_u64(2, 100); let seed = arg_u64(3, 0); let mut rng = Rng::new(seed); let maxlen = arg_u64(4, 5) as usize;
            for k in 0..count {
                let (g, kind) = sem_grammar(&mut rng, k, x, seed);
                let stream = ["rotate", "skip", "unroll", "concat", "factor", "list", "restore", "random"][kind as usize];
                semantic(&mut w, &mut st, &g, x, maxlen, stream, k, kind == 2 || kind == 6 || k % 5 == 0, Depth::Base, &[]);
            }
        }
        "search" => {
            // the rule sets of the structural runs include cyclic references: filtered by runnable(); the thread is for the deep input sets
            let (file, seed, nvar, nrand, maxlen) = (arg(2), arg_u64(3, 0), arg_u64(4, 20), arg_u64(5, 0), arg_u64(6, 5) as usize);
            drop(w);
            let h = std::thread::Builder::new().stack_size(256 << 20).spawn(move || {
                let stdout = io::stdout();
                let mut w: Out = BufWriter::with_capacity(1 << 20, stdout.lock());
                let mut st = Stats { evals: 0, fired: [0; 9], seen: HashSet::new(), distinct_fired: 0, panics: 0, vm_runs: 0, vm_diff_known: 0, contracts: 0, inputs: 0 };
                search(&mut w, &mut st, &file, seed, nvar, nrand, x, maxlen);
                summary(&mut w, &st);
            }).unwrap();
            h.join().unwrap();
            return;
        }
        "witness" => witnesses(&mut w, x),
        "probe" => probe(&mut w, x),
        "one" => { let g = parse_grammar(&arg(2)); structural(&mut w, &mut st, &g, x); }
        "semone" => { let g = parse_grammar(&arg(2)); let extra: Vec<String> = if arg(4).is_empty() { vec![] } else { vec![unhex_s(&arg(4))] };
                      semantic(&mut w, &mut st, &g, x, arg_u64(3, 5) as usize, "replay", 0, true, Depth::Deep, &extra); }
        _ => { eprintln!("usage: c05 struct COUNT SEED [huge] | sem COUNT SEED MAXLEN | search FILE SEED VARIANTS RANDOM MAXLEN | witness | probe | one GRAMMAR | semone GRAMMAR MAXLEN [INPUT-HEX]"); std::process::exit(2); }
    }
    summary(&mut w, &st);
}
fn summary(w: &mut Out, st: &Stats) {
    writeln!(w, "#SUMMARY\tevaluations={}\tdistinct_nontrivial={}\tpanics={}\tvm_runs={}\tvm_diff_lister={}\tcontracts={}\t{}", st.evals + st.vm_runs, st.distinct_fired, st.panics, st.vm_runs,
        st.vm_diff_known, st.contracts, (0..9).map(|p| format!("fired{}={}", p, st.fired[p])).collect::<Vec<_>>().join("\t")).unwrap();
}
