//! C06 correspondence: verdicts of the REAL pest_meta::parse_and_optimize on generated grammars
//! (near-miss stream: left recursion through every operator, non-progressing repetitions,
//! non-failing alternatives, WHITESPACE/COMMENT definitions, name errors; plus random recursive
//! grammars), and -- the termination side of the property observed directly on the real code --
//! every ACCEPTED grammar without stack built-ins is run by the REAL pest_vm on all short inputs
//! from every rule in a CHILD PROCESS under a call-limit budget (a native stack overflow kills
//! the child; the parent reads the exit status).
//!
//! Lines (case \t observation):
//!   V|<x>|<grammar sexp>            \t  ok | err:<sorted kinds joined by ,> | panic
//!   T|<x>|<maxlen>|<grammar sexp>   \t  term <runs> | limit <rule> <hex> | overflow <rule> <hex> | died <status>
//! x = 1 when built with grammar-extras.
use pvharness::gram::*;
use pvharness::prog::{hex, unhex};
use pvharness::*;
use std::collections::BTreeSet;
use std::io::{self, BufRead, BufWriter, Read, Write};
use std::num::NonZeroUsize;
use std::process::{Command, Stdio};
use std::sync::atomic::{AtomicBool, AtomicU64, AtomicUsize, Ordering};

const BUDGET: usize = 100_000_000;   // backstop only: see `child` for why the effective budget is CPU time
const MAX_BUDGET_WITNESSES: u64 = 12;
const BUDGET_TICKS: u64 = 40;   // 0.4 s of CPU for ONE parse of an input of at most 5 characters
const ALPHA: [&str; 3] = ["x", "y", " "];

fn extras() -> bool { cfg!(feature = "extras") }

// ------------------------------------------------------------------------------------------------
// verdict of the real front end
// ------------------------------------------------------------------------------------------------
fn kind_of(msg: &str) -> String {
    if let Some(n) = msg.strip_suffix(" is a pest keyword") { return format!("kw:{}", n); }
    if let Some(n) = msg.strip_suffix(" is a rust keyword") { return format!("rustkw:{}", n); }
    if let Some(n) = msg.strip_prefix("rule ").and_then(|m| m.strip_suffix(" already defined")) { return format!("dup:{}", n); }
    if let Some(n) = msg.strip_prefix("rule ").and_then(|m| m.strip_suffix(" is undefined")) { return format!("undef:{}", n); }
    if msg == "cannot repeat 0 times" { return "zero".into(); }
    if msg == "number cannot overflow u32" { return "u32".into(); }
    if msg.starts_with("expression inside repetition cannot fail") { return "rep_nf".into(); }
    if msg.starts_with("expression inside repetition is non-progressing") { return "rep_np".into(); }
    if msg.starts_with("expression cannot fail; following choices cannot be reached") { return "cho_nf".into(); }
    if let Some(n) = msg.strip_suffix(" cannot fail and will repeat infinitely") { return format!("sp_nf:{}", n); }
    if let Some(n) = msg.strip_suffix(" is non-progressing and will repeat infinitely") { return format!("sp_np:{}", n); }
    if msg.starts_with("rule ") && msg.contains(" is left-recursive (") {
        let a = msg.find(" is left-recursive (").unwrap() + " is left-recursive (".len();
        let b = a + msg[a..].find(')').unwrap();
        return format!("lr:{}", msg[a..b].replace(" -> ", ">"));
    }
    if msg.starts_with("tags on silent rules") { return "tag_silent".into(); }
    if msg.starts_with("tags on built-in rules") { return "tag_builtin".into(); }
    if msg.starts_with("PUSH_LITERAL requires") { return "pushlit".into(); }
    format!("other:{}", msg.replace([' ', ',', '\t', '\n'], "_"))
}

fn verdict_text(text: &str) -> String {
    pest::set_call_limit(None);
    let r = catch(|| match pest_meta::parse_and_optimize(text) {
        Ok((_, rs)) => { if std::env::var("C06_DEBUG").is_ok() { eprintln!("{}\n{}", text, sexp_grammar(&from_orules(&rs))); } "ok".to_string() }
        Err(es) => {
            let mut ks: Vec<String> = es.iter().map(|e| match &e.variant {
                pest::error::ErrorVariant::CustomError { message } => kind_of(message),
                pest::error::ErrorVariant::ParsingError { .. } => "syntax".to_string(),
            }).collect();
            ks.sort();
            format!("err:{}", ks.join(","))
        }
    });
    r.unwrap_or_else(|m| format!("panic:{}", m.replace(['\t', '\n'], " ")))
}

// ------------------------------------------------------------------------------------------------
// the child: runs accepted grammars on all short inputs from every rule under the budget
// ------------------------------------------------------------------------------------------------
fn unesc(s: &str) -> String {
    let mut o = String::new();
    let mut it = s.chars();
    while let Some(c) = it.next() {
        if c == '\\' { match it.next() { Some('n') => o.push('\n'), Some('t') => o.push('\t'), Some('r') => o.push('\r'), Some(c) => o.push(c), None => {} } } else { o.push(c) }
    }
    o
}

/// CPU time of this process in clock ticks (1/100 s): utime + stime of /proc/self/stat
fn cpu_ticks() -> u64 {
    let s = std::fs::read_to_string("/proc/self/stat").unwrap_or_default();
    let rest = s.rsplit(')').next().unwrap_or("");
    let f: Vec<&str> = rest.split_whitespace().collect();
    if f.len() > 12 { f[11].parse::<u64>().unwrap_or(0) + f[12].parse::<u64>().unwrap_or(0) } else { 0 }
}
static PROGRESS: AtomicU64 = AtomicU64::new(0);
static CUR: [AtomicUsize; 3] = [AtomicUsize::new(0), AtomicUsize::new(0), AtomicUsize::new(0)];   // grammar, rule, input
static ACTIVE: AtomicBool = AtomicBool::new(false);

/// stdin: one escaped grammar text per line.  stdout (flushed line by line):
///   B <idx> <rule>            before the runs of a rule   (verbose: `@ <idx> <rule> <hex>` before every run)
///   E <idx> term <runs> | E <idx> limit <rule> <hex> | E <idx> reject
///   W <idx> <rule index> <input index>   written by the watchdog before exit(3): one parse used more than BUDGET_TICKS of CPU
/// Budget of one parse: the call limit (reported by pest as "call limit reached") AND a CPU-time watchdog: `repeat`/`optional`
/// absorb the refusal that the call limit produces (the C12 defect), so a loop that exhausts the limit may still come back
/// with an ordinary result; with the limit alone exactly the non-terminating repetitions would go unnoticed.
fn child(maxlen: usize, verbose: bool) {
    let inputs = all_strings(&ALPHA, maxlen);
    std::thread::spawn(|| {
        let mut last = (u64::MAX, 0u64);
        loop {
            std::thread::sleep(std::time::Duration::from_millis(25));
            if !ACTIVE.load(Ordering::SeqCst) { last = (u64::MAX, 0); continue; }
            let p = PROGRESS.load(Ordering::SeqCst);
            let now = cpu_ticks();
            if p != last.0 { last = (p, now); continue; }
            if now.saturating_sub(last.1) > BUDGET_TICKS {
                let o = io::stdout();
                let mut o = o.lock();
                let _ = writeln!(o, "W {} {} {}", CUR[0].load(Ordering::SeqCst), CUR[1].load(Ordering::SeqCst), CUR[2].load(Ordering::SeqCst));
                let _ = o.flush();
                std::process::exit(3);
            }
        }
    });
    let stdin = io::stdin();
    let out = io::stdout();
    for (idx, line) in stdin.lock().lines().enumerate() {
        let text = unesc(&line.unwrap());
        pest::set_call_limit(None);
        let rules = match pest_meta::parse_and_optimize(&text) { Ok((_, r)) => r, Err(_) => { writeln!(out.lock(), "E {} reject", idx).unwrap(); continue; } };
        let names: Vec<String> = rules.iter().map(|r| r.name.clone()).collect();
        let vm = pest_vm::Vm::new(rules);
        let mut runs = 0u64;
        let mut bad: Option<(String, String)> = None;
        CUR[0].store(idx, Ordering::SeqCst);
        'rules: for (ri, r) in names.iter().enumerate() {
            { let mut o = out.lock(); writeln!(o, "B {} {}", idx, r).unwrap(); o.flush().unwrap(); }
            CUR[1].store(ri, Ordering::SeqCst);
            for (ii, input) in inputs.iter().enumerate() {
                if verbose { let mut o = out.lock(); writeln!(o, "@ {} {} {}", idx, r, hex(input)).unwrap(); o.flush().unwrap(); }
                CUR[2].store(ii, Ordering::SeqCst);
                PROGRESS.fetch_add(1, Ordering::SeqCst);
                ACTIVE.store(true, Ordering::SeqCst);
                pest::set_call_limit(NonZeroUsize::new(BUDGET));
                let limit = match vm.parse(r, input) {
                    Err(e) => matches!(&e.variant, pest::error::ErrorVariant::CustomError { message } if message == "call limit reached"),
                    Ok(_) => false,
                };
                pest::set_call_limit(None);
                ACTIVE.store(false, Ordering::SeqCst);
                runs += 1;
                if limit { bad = Some((r.clone(), hex(input))); break 'rules; }
            }
        }
        let mut o = out.lock();
        match bad { Some((r, h)) => writeln!(o, "E {} limit {} {}", idx, r, h).unwrap(), None => writeln!(o, "E {} term {}", idx, runs).unwrap() }
        o.flush().unwrap();
    }
}

fn spawn_child(texts: &[String], maxlen: usize, verbose: bool) -> (String, String) {
    let exe = std::env::current_exe().unwrap();
    let mut ch = Command::new(exe).arg(if verbose { "childv" } else { "child" }).arg(maxlen.to_string())
        .stdin(Stdio::piped()).stdout(Stdio::piped()).stderr(Stdio::null()).spawn().expect("spawn child");
    {
        let mut si = ch.stdin.take().unwrap();
        let payload: String = texts.iter().map(|t| format!("{}\n", esc(t))).collect();
        // the child may die before reading everything: ignore EPIPE
        let _ = si.write_all(payload.as_bytes());
    }
    let mut so = String::new();
    ch.stdout.take().unwrap().read_to_string(&mut so).unwrap();
    let st = ch.wait().unwrap();
    use std::os::unix::process::ExitStatusExt;
    let status = if st.success() { "exit0".to_string() } else if let Some(s) = st.signal() { format!("signal{}", s) } else { format!("exit{}", st.code().unwrap_or(-1)) };
    (so, status)
}

/// termination observations for a batch of accepted grammars (texts); one result per grammar
fn termination(texts: &[String], maxlen: usize) -> Vec<String> {
    let mut res: Vec<Option<String>> = vec![None; texts.len()];
    let mut start = 0usize;
    while start < texts.len() {
        let (so, status) = spawn_child(&texts[start..], maxlen, false);
        let mut last_b: Option<(usize, String)> = None;
        let mut done = 0usize;
        let mut watchdog: Option<(usize, String, usize)> = None;
        for l in so.lines() {
            let p: Vec<&str> = l.split(' ').collect();
            match p[0] {
                "B" => last_b = Some((p[1].parse().unwrap(), p[2].to_string())),
                "E" => { let i: usize = p[1].parse().unwrap(); res[start + i] = Some(p[2..].join(" ")); done = i + 1; }
                "W" => watchdog = Some((p[1].parse().unwrap(), last_b.clone().map(|x| x.1).unwrap_or_default(), p[3].parse().unwrap())),
                _ => {}
            }
        }
        if start + done >= texts.len() && status == "exit0" { break; }
        if let Some((i, rule, ii)) = watchdog {
            // one parse exceeded the CPU budget: a loop that does not grow the native stack
            let inputs = all_strings(&ALPHA, maxlen);
            res[start + i] = Some(format!("budget {} {}", rule, hex(&inputs[ii])));
            start = start + i + 1;
            continue;
        }
        // the child died while running grammar `done` (relative): find the input with a verbose single run
        let g = start + done;
        if g >= texts.len() { break; }
        let rule = last_b.filter(|(i, _)| *i == done).map(|(_, r)| r).unwrap_or_default();
        let (sv, stv) = spawn_child(&texts[g..g + 1], maxlen, true);
        let mut at = (rule, "-".to_string());
        for l in sv.lines() { let p: Vec<&str> = l.split(' ').collect(); if p[0] == "@" { at = (p[2].to_string(), p[3].to_string()); } }
        res[g] = Some(if stv.starts_with("signal") || status.starts_with("signal") { format!("overflow {} {}", at.0, at.1) } else { format!("died {} {}", status, stv) });
        start = g + 1;
    }
    res.into_iter().map(|r| r.unwrap_or_else(|| "died unknown".to_string())).collect()
}

// ------------------------------------------------------------------------------------------------
// s-expression reader (for `one`)
// ------------------------------------------------------------------------------------------------
fn parse_sexp(s: &str) -> GE {
    fn toks(s: &str) -> Vec<String> { s.replace('(', " ( ").replace(')', " ) ").split_whitespace().map(|x| x.to_string()).collect() }
    fn go(t: &[String], i: &mut usize) -> GE {
        assert_eq!(t[*i], "("); *i += 1;
        let head = t[*i].clone(); *i += 1;
        let atom = |i: &mut usize| -> String { let a = t[*i].clone(); *i += 1; a };
        let bx = |i: &mut usize| Box::new(go(t, i));
        let e = match head.as_str() {
            "str" => GE::Str(unhex(&atom(i))), "ins" => GE::Ins(unhex(&atom(i))),
            "range" => { let a: u32 = atom(i).parse().unwrap(); let b: u32 = atom(i).parse().unwrap(); GE::Range(char::from_u32(a).unwrap(), char::from_u32(b).unwrap()) }
            "id" => GE::Id(atom(i)),
            "slice" => { let a: i32 = atom(i).parse().unwrap(); let b = atom(i); GE::Slice(a, if b == "-" { None } else { Some(b.parse().unwrap()) }) }
            "pos" => GE::Pos(bx(i)), "neg" => GE::Neg(bx(i)), "seq" => { let l = bx(i); GE::Seq(l, bx(i)) } "cho" => { let l = bx(i); GE::Cho(l, bx(i)) }
            "opt" => GE::Opt(bx(i)), "rep" => GE::Rep(bx(i)), "rep1" => GE::Rep1(bx(i)),
            "repx" => { let n = atom(i).parse().unwrap(); GE::RepX(bx(i), n) } "repmin" => { let n = atom(i).parse().unwrap(); GE::RepMin(bx(i), n) }
            "repmax" => { let n = atom(i).parse().unwrap(); GE::RepMax(bx(i), n) }
            "repmm" => { let m = atom(i).parse().unwrap(); let n = atom(i).parse().unwrap(); GE::RepMM(bx(i), m, n) }
            "push" => GE::Push(bx(i)), "pushlit" => GE::PushLit(unhex(&atom(i))), "tag" => { let t0 = atom(i); GE::Tag(t0, bx(i)) }
            h => panic!("bad sexp head {}", h),
        };
        assert_eq!(t[*i], ")"); *i += 1;
        e
    }
    let t = toks(s);
    let mut i = 0;
    go(&t, &mut i)
}
fn parse_sexp_grammar(s: &str) -> Vec<GRule> {
    s.split(';').map(|r| {
        let r = r.trim();
        let inner = &r[1..r.len() - 1];
        let mut it = inner.splitn(3, ' ');
        let name = it.next().unwrap().to_string();
        let ty = match it.next().unwrap() { "n" => Ty::Normal, "s" => Ty::Silent, "a" => Ty::Atomic, "c" => Ty::Compound, _ => Ty::NonAtomic };
        GRule { name, ty, e: parse_sexp(it.next().unwrap()) }
    }).collect()
}

// ------------------------------------------------------------------------------------------------
// structure of a grammar (for the statistics and for deciding which grammars run in the child)
// ------------------------------------------------------------------------------------------------
fn walk(e: &GE, f: &mut dyn FnMut(&GE)) {
    use GE::*;
    f(e);
    match e {
        Pos(x) | Neg(x) | Opt(x) | Rep(x) | Rep1(x) | RepX(x, _) | RepMin(x, _) | RepMax(x, _) | RepMM(x, _, _) | Push(x) | Tag(_, x) | Roe(x) => walk(x, f),
        Seq(l, r) | Cho(l, r) => { walk(l, f); walk(r, f); }
        _ => {}
    }
}
fn uses_stack(g: &[GRule]) -> bool {
    let mut s = false;
    for r in g { walk(&r.e, &mut |e| match e { GE::Slice(..) => s = true, GE::Id(n) if ["PEEK", "POP", "DROP", "PEEK_ALL", "POP_ALL"].contains(&n.as_str()) => s = true, _ => {} }); }
    s
}
/// "recursion or repetition around nullable constructs": a reference to a user rule that can reach itself, or a repetition /
/// WHITESPACE / COMMENT body, together with an operator that may match empty (?, *, predicates, empty literal, {0,..}, SOI/EOI)
fn nontrivial(g: &[GRule]) -> bool {
    let names: BTreeSet<&str> = g.iter().map(|r| r.name.as_str()).collect();
    let mut nullable_op = false; let mut rep = false; let mut refs: Vec<(usize, String)> = vec![];
    for (i, r) in g.iter().enumerate() {
        if r.name == "WHITESPACE" || r.name == "COMMENT" { rep = true; }
        walk(&r.e, &mut |e| match e {
            GE::Opt(_) | GE::Rep(_) | GE::Pos(_) | GE::Neg(_) | GE::RepMax(..) | GE::PushLit(_) => { nullable_op = true; if let GE::Rep(_) = e { rep = true; } }
            GE::Rep1(_) => rep = true,
            GE::RepMin(_, n) => { rep = true; if *n == 0 { nullable_op = true; } }
            GE::RepMM(_, n, _) | GE::RepX(_, n) => { if *n == 0 { nullable_op = true; } }
            GE::Str(s) | GE::Ins(s) if s.is_empty() => nullable_op = true,
            GE::Id(n) if n == "SOI" || n == "EOI" => nullable_op = true,
            GE::Id(n) if names.contains(n.as_str()) => refs.push((i, n.clone())),
            _ => {}
        });
    }
    // recursion: some rule reaches itself through references
    let idx = |n: &str| g.iter().position(|r| r.name == n).unwrap();
    let mut reach = vec![vec![false; g.len()]; g.len()];
    for (i, n) in &refs { reach[*i][idx(n)] = true; }
    for k in 0..g.len() { for i in 0..g.len() { for j in 0..g.len() { if reach[i][k] && reach[k][j] { reach[i][j] = true; } } } }
    let recursion = (0..g.len()).any(|i| reach[i][i]);
    nullable_op && (recursion || rep)
}

// ------------------------------------------------------------------------------------------------
// generators
// ------------------------------------------------------------------------------------------------
fn s(x: &str) -> GE { GE::Str(x.into()) }
fn id(x: &str) -> GE { GE::Id(x.into()) }
fn b(x: GE) -> Box<GE> { Box::new(x) }
fn seq(l: GE, r: GE) -> GE { GE::Seq(b(l), b(r)) }
fn cho(l: GE, r: GE) -> GE { GE::Cho(b(l), b(r)) }
fn rule(n: &str, ty: Ty, e: GE) -> GRule { GRule { name: n.into(), ty, e } }
fn nrule(n: &str, e: GE) -> GRule { rule(n, Ty::Normal, e) }

/// every operator around a leftmost reference X (label, expression); the helper rules `nl` (nullable) and `pr` (progressing) may be used
fn left_ops(x: &GE) -> Vec<(&'static str, GE)> {
    use GE::*;
    let x = || x.clone();
    let mut v = vec![
        ("x", x()), ("opt", Opt(b(x()))), ("rep", Rep(b(x()))), ("rep1", Rep1(b(x()))), ("neg", Neg(b(x()))), ("pos", Pos(b(x()))),
        ("repx2", RepX(b(x()), 2)), ("repx1", RepX(b(x()), 1)), ("repmin2", RepMin(b(x()), 2)), ("repmin0", RepMin(b(x()), 0)), ("repmax2", RepMax(b(x()), 2)),
        ("repmm02", RepMM(b(x()), 0, 2)), ("repmm12", RepMM(b(x()), 1, 2)), ("push", Push(b(x()))),
        ("cho_l", cho(x(), s("y"))), ("cho_r", cho(s("y"), x())), ("seq_l", seq(x(), s("y"))),
        ("empty_seq", seq(s(""), x())), ("opt_seq", seq(Opt(b(s("y"))), x())), ("rep_seq", seq(Rep(b(s("y"))), x())), ("neg_seq", seq(Neg(b(s("y"))), x())),
        ("pos_seq", seq(Pos(b(s("y"))), x())), ("soi_seq", seq(id("SOI"), x())), ("eoi_seq", seq(id("EOI"), x())), ("repmax_seq", seq(RepMax(b(s("y")), 2), x())),
        ("repmm0_seq", seq(RepMM(b(s("y")), 0, 1), x())), ("repmin0_seq", seq(RepMin(b(s("y")), 0), x())), ("nlrule_seq", seq(id("nl"), x())),
        ("choempty_seq", seq(cho(s("y"), s("")), x())), ("pushempty_seq", seq(Push(b(s(""))), x())), ("insempty_seq", seq(Ins("".into()), x())),
        ("seqseq", seq(seq(s(""), Opt(b(s("y")))), x())), ("nested_l", seq(seq(x(), s("y")), s("x"))), ("optopt", Opt(b(Opt(b(x()))))), ("negneg", Neg(b(Neg(b(x()))))),
        // valid (right) recursion: something that consumes comes first
        ("lit_seq", seq(s("y"), x())), ("any_seq", seq(id("ANY"), x())), ("range_seq", seq(Range('x', 'y'), x())), ("prrule_seq", seq(id("pr"), x())),
        ("rep1_seq", seq(Rep1(b(s("y"))), x())), ("repx_seq", seq(RepX(b(s("y")), 2), x())), ("cho_seq", seq(cho(s("y"), s("x")), x())),
        ("valid", seq(seq(seq(seq(s(""), Opt(b(s("y")))), Rep(b(s("y")))), cho(s("x"), s("y"))), x())),
    ];
    if extras() { v.push(("tag", Tag("t".into(), b(x())))); v.push(("pushlit_seq", seq(PushLit("y".into()), x()))); v.push(("tag_seq", seq(Tag("t".into(), b(s(""))), x()))); }
    v
}
fn helpers() -> Vec<GRule> { vec![nrule("nl", GE::Opt(b(s("y")))), nrule("pr", s("y"))] }
fn with_helpers(mut g: Vec<GRule>) -> Vec<GRule> {
    let mut used = BTreeSet::new();
    for r in &g { walk(&r.e, &mut |e| if let GE::Id(n) = e { used.insert(n.clone()); }); }
    for h in helpers() { if used.contains(&h.name) && !g.iter().any(|r| r.name == h.name) { g.push(h); } }
    g
}

/// bodies for repetitions / WHITESPACE / COMMENT / alternatives: nullable, non-failing, and sound ones
fn bodies() -> Vec<GE> {
    use GE::*;
    let mut v = vec![
        s(""), Ins("".into()), Opt(b(s("x"))), Neg(b(s("x"))), Pos(b(s("x"))), id("SOI"), id("EOI"), cho(s(""), s("x")), cho(s("x"), s("")), Rep(b(s("x"))),
        RepMM(b(s("x")), 0, 2), RepMax(b(s("x")), 2), RepX(b(s("")), 2), RepMin(b(s("x")), 0), RepMin(b(s("")), 1), Push(b(s(""))), Push(b(s("x"))), id("nl"), id("nl2"),
        seq(s(""), s("")), seq(Opt(b(s("x"))), Opt(b(s("y")))), seq(s("x"), s("")), seq(s(""), s("x")), seq(Neg(b(s("y"))), s("x")), seq(Neg(b(s("y"))), Opt(b(s("x")))),
        s("x"), Ins("x".into()), Range('x', 'y'), id("ANY"), id("ASCII_DIGIT"), id("NEWLINE"), id("LETTER"), id("pr"), Rep1(b(s("x"))), Rep1(b(s(""))), RepX(b(s("x")), 2),
        cho(s("x"), s("y")), cho(Opt(b(s("x"))), s("y")), cho(s("x"), Neg(b(s("y")))), Pos(b(s(""))), Neg(b(s(""))), Pos(b(Opt(b(s("x"))))), Opt(b(Opt(b(s("x"))))),
        cho(cho(s("x"), s("")), s("y")), cho(s("x"), cho(s(""), s("y"))), id("self"),
    ];
    if extras() { v.push(PushLit("x".into())); v.push(Tag("t".into(), b(s("")))); v.push(Tag("t".into(), b(s("x")))); v.push(Tag("t".into(), b(Rep(b(s("")))))); }
    v
}
fn body_helpers(mut g: Vec<GRule>) -> Vec<GRule> {
    let mut used = BTreeSet::new();
    for r in &g { walk(&r.e, &mut |e| if let GE::Id(n) = e { used.insert(n.clone()); }); }
    if used.contains("nl2") { g.push(nrule("nl2", id("nl"))); used.insert("nl".into()); }
    if used.contains("nl") { g.push(nrule("nl", GE::Opt(b(s("y"))))); }
    if used.contains("pr") { g.push(nrule("pr", s("y"))); }
    g
}

fn near_miss() -> Vec<Vec<GRule>> {
    use GE::*;
    let mut out: Vec<Vec<GRule>> = vec![];
    let tys = [Ty::Normal, Ty::Silent, Ty::Atomic, Ty::Compound, Ty::NonAtomic];
    // A. direct recursion through every operator, in four body shapes, all rule types for the bare shape
    for (_, op) in left_ops(&id("a")) {
        for ty in tys { out.push(with_helpers(vec![rule("a", ty, seq(op.clone(), s("x")))])); }
        out.push(with_helpers(vec![nrule("a", op.clone())]));
        out.push(with_helpers(vec![nrule("a", cho(seq(op.clone(), s("x")), s("y")))]));
        out.push(with_helpers(vec![nrule("a", cho(s("y"), seq(op.clone(), s("x"))))]));
        out.push(with_helpers(vec![nrule("a", seq(s("x"), op.clone()))]));
    }
    // B. mutual recursion through two rules: every operator on both edges
    for (_, oa) in left_ops(&id("b")) { for (_, ob) in left_ops(&id("a")) {
        out.push(with_helpers(vec![nrule("a", seq(oa.clone(), s("x"))), nrule("b", ob.clone())]));
    } }
    for (_, oa) in left_ops(&id("b")) { for ty in tys { out.push(with_helpers(vec![nrule("a", seq(oa.clone(), s("x"))), rule("b", ty, seq(id("a"), s("y")))])); } }
    // C. through three rules
    for (_, ob) in left_ops(&id("c")) { for (_, oc) in left_ops(&id("a")).into_iter().take(17) {
        out.push(with_helpers(vec![nrule("a", seq(id("b"), s("x"))), rule("b", Ty::Silent, ob.clone()), rule("c", Ty::Atomic, seq(oc.clone(), s("y")))]));
    } }
    // a cycle that does not go through the first rule, and a reference from outside into a cycle
    out.push(vec![nrule("a", seq(id("b"), s("x"))), nrule("b", seq(id("c"), s("y"))), nrule("c", seq(id("b"), s("x")))]);
    out.push(vec![nrule("a", seq(Opt(b(id("b"))), s("x"))), nrule("b", seq(Opt(b(id("c"))), s("y"))), nrule("c", seq(Opt(b(id("b"))), s("x")))]);
    // D. repetitions around every body
    for body in bodies() {
        let fix = |e: &GE| -> GE { if *e == id("self") { id("r") } else { e.clone() } };
        let bd = fix(&body);
        for rep in [Rep(b(bd.clone())), Rep1(b(bd.clone())), RepMin(b(bd.clone()), 2), RepMin(b(bd.clone()), 0), RepX(b(bd.clone()), 2), RepMax(b(bd.clone()), 2), RepMM(b(bd.clone()), 1, 2), Opt(b(bd.clone()))] {
            out.push(body_helpers(vec![nrule("r", seq(rep.clone(), s("x")))]));
            out.push(body_helpers(vec![nrule("r", seq(s("y"), Push(b(Neg(b(rep.clone()))))))]));
        }
        out.push(body_helpers(vec![nrule("r", bd.clone())]));
        out.push(body_helpers(vec![nrule("r", seq(bd.clone(), s("x")))]));
        // E. WHITESPACE / COMMENT
        for sp in ["WHITESPACE", "COMMENT"] { for ty in [Ty::Silent, Ty::Normal, Ty::Compound] {
            let spb = if body == id("self") { id(sp) } else { body.clone() };
            out.push(body_helpers(vec![nrule("r", seq(s("x"), s("y"))), rule(sp, ty, spb)]));
        } }
        out.push(body_helpers(vec![nrule("r", Rep(b(s("x")))), rule("WHITESPACE", Ty::Silent, s(" ")), rule("COMMENT", Ty::Silent, bd.clone())]));
        // F. alternatives
        out.push(body_helpers(vec![nrule("r", cho(bd.clone(), s("x")))]));
        out.push(body_helpers(vec![nrule("r", cho(s("x"), bd.clone()))]));
        out.push(body_helpers(vec![nrule("r", cho(cho(s("x"), bd.clone()), s("y")))]));
        out.push(body_helpers(vec![nrule("r", cho(s("x"), cho(bd.clone(), s("y"))))]));
        out.push(body_helpers(vec![nrule("r", seq(s("x"), Opt(b(cho(bd.clone(), s("y"))))))]));
    }
    // G. names
    out.push(vec![nrule("a", s("x")), nrule("a", s("y"))]);
    out.push(vec![nrule("a", s("x")), nrule("b", s("y")), nrule("a", id("b")), nrule("b", id("zz"))]);
    out.push(vec![nrule("a", id("zz"))]);
    out.push(vec![nrule("a", seq(id("zz"), id("zz")))]);
    for k in ["ANY", "DROP", "EOI", "PEEK", "PEEK_ALL", "POP", "POP_ALL", "SOI", "_"] { out.push(vec![nrule(k, s("x"))]); out.push(vec![nrule(k, s("x")), nrule("a", Rep(b(s(""))))]); }
    for k in ["ASCII_DIGIT", "NEWLINE", "ASCII", "LETTER", "EMOJI", "HAN", "fn", "Self", "abstract", "WHITESPACE", "COMMENT", "PEEKX", "peek"] {
        out.push(vec![rule(k, Ty::Silent, s("x")), nrule("a", seq(id(k), id("a")))]);
        out.push(vec![rule(k, Ty::Silent, Opt(b(s("x")))), nrule("a", seq(id(k), id("a")))]);
        out.push(vec![nrule("a", seq(id(k), s("x")))]);
    }
    for k in ["ANY", "ASCII_ALPHA", "NEWLINE", "LETTER", "EOI", "SOI"] { out.push(vec![nrule("a", seq(id(k), id("a")))]); out.push(vec![nrule("a", Rep(b(id(k))))]); out.push(vec![nrule("a", cho(id(k), s("x")))]); }
    // H. implicit whitespace: WHITESPACE / COMMENT re-entered through a non-atomic rule, and skips between nullable elements
    for sp in ["WHITESPACE", "COMMENT"] {
        out.push(vec![nrule("r", seq(s("x"), s("y"))), nrule(sp, id("n")), rule("n", Ty::NonAtomic, seq(s(""), s(" ")))]);
        out.push(vec![nrule("r", seq(s("x"), s("y"))), nrule(sp, id("n")), rule("n", Ty::NonAtomic, seq(s(" "), s("")))]);
        out.push(vec![nrule("r", seq(s("x"), s("y"))), nrule(sp, id("n")), rule("n", Ty::Normal, seq(s(""), s(" ")))]);
        out.push(vec![nrule("r", seq(s(""), s("y"))), rule(sp, Ty::Silent, seq(id("r"), s(" ")))]);
        out.push(vec![rule("r", Ty::NonAtomic, seq(s(""), s("y"))), rule(sp, Ty::Silent, seq(id("r"), s(" ")))]);
        out.push(vec![nrule("r", seq(s(""), s("y"))), rule(sp, Ty::Silent, seq(s(""), s(" ")))]);
        out.push(vec![nrule("r", Rep(b(s("x")))), rule(sp, Ty::Silent, seq(Opt(b(id(sp))), s(" ")))]);
    }
    // I. counts
    for e in [RepX(b(s("x")), 0), RepMax(b(s("x")), 0), RepMM(b(s("x")), 0, 0), RepMM(b(s("x")), 2, 0), RepMM(b(s("x")), 2, 1), RepMM(b(id("a")), 2, 1), RepMin(b(s("x")), 0)] {
        out.push(vec![nrule("a", e.clone())]); out.push(vec![nrule("a", seq(e.clone(), Rep(b(s("")))))]); out.push(vec![nrule("a", seq(e.clone(), s("y"))), nrule("b", RepX(b(s("y")), 0))]);
    }
    // J. the SAME non-progressing-but-fallible rule referenced two or three times inside one repetition / WHITESPACE / COMMENT body,
    //    directly and through a second silent rule (a trace that is not popped would count the later references as progressing);
    //    the same for non-failing rules and for a nullable prefix in front of a left-recursive reference
    let np_bodies: Vec<GE> = vec![Pos(b(s("x"))), Neg(b(s("y"))), id("SOI"), id("EOI"), seq(s(""), Pos(b(s("x")))), seq(s(""), s("")), Opt(b(s("y")))];
    for xb in &np_bodies {
        let x = || rule("x", Ty::Silent, xb.clone());
        let y2 = || rule("y2", Ty::Silent, id("x"));
        let multi: Vec<(GE, bool)> = vec![
            (seq(id("x"), id("x")), false), (seq(seq(id("x"), id("x")), id("x")), false), (seq(id("x"), seq(id("x"), id("x"))), false),
            (seq(id("x"), id("y2")), true), (seq(id("y2"), id("x")), true), (seq(id("y2"), id("y2")), true), (seq(seq(id("y2"), id("x")), id("y2")), true),
            (seq(Opt(b(s("y"))), seq(id("x"), id("x"))), false), (seq(id("x"), Push(b(id("x")))), false), (seq(id("x"), RepX(b(id("x")), 2)), false),
            (cho(seq(id("x"), id("x")), seq(id("x"), id("x"))), false),
        ];
        for (body, needs_y2) in &multi {
            let with = |mut g: Vec<GRule>| { g.push(x()); if *needs_y2 { g.push(y2()); } g };
            for rep in [Rep(b(body.clone())), Rep1(b(body.clone())), RepMin(b(body.clone()), 1), RepMin(b(body.clone()), 0)] {
                out.push(with(vec![nrule("a", seq(rep.clone(), s("x")))]));
                out.push(with(vec![rule("a", Ty::Atomic, seq(s("x"), rep.clone()))]));
            }
            for sp in ["WHITESPACE", "COMMENT"] {
                out.push(with(vec![nrule("r", seq(s("x"), s("x"))), rule(sp, Ty::Silent, body.clone())]));
                out.push(with(vec![nrule("r", seq(s("x"), s("y"))), rule(sp, Ty::Normal, body.clone())]));
                out.push(with(vec![nrule("r", Rep(b(s("x")))), rule(sp, Ty::Silent, body.clone())]));
            }
            // non-final alternative and a (nullable) prefix of a left-recursive reference
            out.push(with(vec![nrule("a", cho(body.clone(), s("x")))]));
            out.push(with(vec![nrule("a", seq(body.clone(), id("a")))]));
            out.push(with(vec![nrule("a", seq(seq(body.clone(), id("a")), s("x")))]));
            out.push(with(vec![nrule("a", seq(body.clone(), id("c"))), nrule("c", seq(body.clone(), id("a")))]));
        }
    }
    let mut seen = BTreeSet::new();
    out.retain(|g| seen.insert(sexp_grammar(g)));
    out
}

/// random grammars with arbitrary (also backward / self) references: gram::gen_expr, then leaves are rewired
fn rewire(e: &mut GE, r: &mut Rng, names: &[String], p: u64) {
    use GE::*;
    match e {
        Str(_) | Ins(_) | Range(..) | Id(_) => { if r.chance(p, 100) { *e = Id(r.pick(names).clone()); } }
        Pos(x) | Neg(x) | Opt(x) | Rep(x) | Rep1(x) | RepX(x, _) | RepMin(x, _) | RepMax(x, _) | RepMM(x, _, _) | Push(x) | Tag(_, x) | Roe(x) => rewire(x, r, names, p),
        Seq(l, r0) | Cho(l, r0) => { rewire(l, r, names, p); rewire(r0, r, names, p); }
        _ => {}
    }
}
fn random_grammar(r: &mut Rng) -> Vec<GRule> {
    let cfg = GenCfg { stack: r.chance(1, 8), extras: extras(), counts: r.chance(1, 2), builtins: r.chance(1, 3) };
    let n = 1 + r.below(4) as usize;
    let tys = [Ty::Normal, Ty::Normal, Ty::Silent, Ty::Atomic, Ty::Compound, Ty::NonAtomic];
    let mut names: Vec<String> = (0..n).map(|i| format!("r{}", i)).collect();
    match r.below(6) { 0 => names.push("WHITESPACE".into()), 1 => names.push("COMMENT".into()), 2 => { names.push("WHITESPACE".into()); names.push("COMMENT".into()); } _ => {} }
    let depth = 1 + r.below(3) as u32;
    let p = [5, 15, 30, 60][r.below(4) as usize];
    let mut g: Vec<GRule> = names.iter().enumerate().map(|(i, nm)| {
        let mut e = gen_expr(r, depth, i.min(n - 1), n, &cfg);
        rewire(&mut e, r, &names, p);
        GRule { name: nm.clone(), ty: tys[r.below(6) as usize], e }
    }).collect();
    // rare name defects
    match r.below(40) {
        0 => { let k = r.below(g.len() as u64) as usize; let d = g[k].clone(); g.push(d); }
        1 => { let k = r.below(g.len() as u64) as usize; g[k].e = seq(g[k].e.clone(), id("undefined_rule")); }
        2 => { let k = r.below(g.len() as u64) as usize; g[k].name = ["ANY", "EOI", "POP", "ASCII_DIGIT", "LETTER"][r.below(5) as usize].into(); }
        _ => {}
    }
    g
}

fn emit_all(gs: &[Vec<GRule>], maxlen: usize, w: &mut impl Write) -> (u64, u64, u64, u64, u64) {
    let x = extras() as u8;
    let mut accepted: Vec<(String, String)> = vec![];   // (sexp, text) of accepted stack-free grammars
    let (mut n, mut ok, mut nontriv) = (0u64, 0u64, 0u64);
    let mut seen_nt = BTreeSet::new();
    for g in gs {
        let sx = sexp_grammar(g);
        let text = pest_grammar(g);
        let v = verdict_text(&text);
        writeln!(w, "V|{}|{}\t{}", x, sx, v).unwrap();
        n += 1;
        if nontrivial(g) && seen_nt.insert(sx.clone()) { nontriv += 1; }
        if v == "ok" { ok += 1; if !uses_stack(g) { accepted.push((sx, text)); } }
    }
    w.flush().unwrap();
    let mut runs = 0u64; let mut bad = 0u64; let mut budgets = 0u64; let mut skipped = 0u64;
    for chunk in accepted.chunks(50) {
        // every exhausted CPU budget costs BUDGET_TICKS of CPU: once a run has produced enough of them (it fails anyway)
        // the remaining grammars are not executed any more, so that a broken tree cannot make the check run for minutes
        if budgets >= MAX_BUDGET_WITNESSES { skipped += chunk.len() as u64; continue; }
        let texts: Vec<String> = chunk.iter().map(|(_, t)| t.clone()).collect();
        let res = termination(&texts, maxlen);
        for ((sx, _), o) in chunk.iter().zip(res.iter()) {
            writeln!(w, "T|{}|{}|{}\t{}", x, maxlen, sx, o).unwrap();
            if let Some(k) = o.strip_prefix("term ") { runs += k.parse::<u64>().unwrap_or(0); } else { bad += 1; if o.starts_with("budget") { budgets += 1; } }
        }
        w.flush().unwrap();
    }
    if skipped > 0 { writeln!(w, "#NOTE\ttermination_runs_skipped={}", skipped).unwrap(); }
    (n, ok, nontriv, runs, bad)
}

fn main() {
    quiet_panics();
    let mode = arg(1);
    let stdout = io::stdout();
    match mode.as_str() {
        "child" | "childv" => {
            // a 1 MB stack: a native overflow is reached (and the process killed) quickly
            let v = mode == "childv"; let ml = arg_u64(2, 4) as usize;
            std::thread::Builder::new().stack_size(1 << 20).spawn(move || child(ml, v)).unwrap().join().unwrap();
            return;
        }
        _ => {}
    }
    let mut w = BufWriter::with_capacity(1 << 20, stdout.lock());
    let gs: Vec<Vec<GRule>> = match mode.as_str() {
        "nearmiss" => near_miss(),
        "random" => { let count = arg_u64(2, 500); let mut rng = Rng::new(arg_u64(3, 0)); (0..count).map(|_| random_grammar(&mut rng)).collect() }
        "one" => vec![parse_sexp_grammar(&arg(2))],
        "names" => { writeln!(w, "{}", pest::unicode::unicode_property_names().collect::<Vec<_>>().join(" ")).unwrap(); return; }
        "probe" => {
            // is check_expr repaired?  the four witnesses of DESIGN.md section 4 row 2 must be rejected
            let ws = ["a = { a? ~ \"x\" }", "a = { !a ~ \"x\" }", "a = { a{2} }", "a = { b ~ \"x\" }\nb = { a? }"];
            let rejected = ws.iter().filter(|t| verdict_text(t).starts_with("err:lr")).count();
            let ok_valid = verdict_text("a = { \"\" ~ \"a\"? ~ \"a\"* ~ (\"a\" | \"b\") ~ a }") == "ok";
            // grammar-extras: does filter_map_top_down descend into node tags?  (`-` when built without the feature)
            let tag = if extras() { if verdict_text("r = { #t = (\"\"*) }").starts_with("err:rep_nf") { "1" } else { "0" } } else { "-" };
            writeln!(w, "#PROBE\tfix_leftrec={}\tfix_tag={}\twitnesses_rejected={}\tvalid_recursion_ok={}", (rejected == ws.len()) as u8, tag, rejected, ok_valid as u8).unwrap();
            return;
        }
        _ => { eprintln!("usage: c06 nearmiss [MAXLEN] | random COUNT SEED [MAXLEN] | one SEXP [MAXLEN] | probe"); std::process::exit(2); }
    };
    let maxlen = match mode.as_str() { "nearmiss" => arg_u64(2, 4), "one" => arg_u64(3, 4), _ => arg_u64(4, 4) } as usize;
    let (n, ok, nontriv, runs, bad) = emit_all(&gs, maxlen, &mut w);
    writeln!(w, "#SUMMARY\tevaluations={}\tdistinct_nontrivial={}\taccepted={}\tvm_runs={}\tnonterminating={}", n, nontriv, ok, runs, bad).unwrap();
}
