//! C06 correspondence: verdicts of the REAL pest_meta::parse_and_optimize on generated grammars
//! (near-miss stream: left recursion through every operator, non-progressing repetitions,
//! non-failing alternatives, WHITESPACE/COMMENT definitions, name errors; plus random recursive
//! grammars), and -- the termination side of the property observed directly on the real code --
//! every ACCEPTED grammar without stack built-ins is run by the REAL pest_vm on all short inputs
//! from every rule in a CHILD PROCESS under a call-limit budget (a native stack overflow kills
//! the child; the parent reads the exit status).
//!
//! Lines (case \t observation):
//!   V|<x>|<grammar sexp>            \t  ok | err:<sorted kinds joined by ,> | panic
//!   T|<x>|<maxlen>|<grammar sexp>   \t  term <runs> | limit <rule> <hex> | overflow <rule> <hex> | died <status>
//! x = 1 when built with grammar-extras.
use pvharness::gram::*;
use pvharness::prog::{hex, unhex};
use pvharness::*;
use std::collections::BTreeSet;
use std::io::{self, BufRead, BufWriter, Read, Write};
use std::num::NonZeroUsize;
use std::process::{Command, Stdio};
use std::sync::atomic::{AtomicBool, AtomicU64, AtomicUsize, Ordering};

const BUDGET: usize = 100_000_000;   // backstop only: see `child` for why the effective budget is CPU time
const MAX_BUDGET_WITNESSES: u64 = 12;
const BUDGET_TICKS: u64 = 40;   // 0.4 s of CPU for ONE parse of an input of at most 5 characters
const ALPHA: [&str; 3] = ["x", "y", " "];

fn extras() -> bool { cfg!(feature = "extras") }

// ------------------------------------------------------------------------------------------------
// verdict of the real front end
// ------------------------------------------------------------------------------------------------
fn kind_of(msg: &str) -> String {
    if let Some(n) = msg.strip_suffix(" is a pest keyword") { return format!("kw:{}", n); }
    if let Some(n) = msg.strip_suffix(" is a rust keyword") { return format!("rustkw:{}", n); }
    if let Some(n) = msg.strip_prefix("rule ").and_then(|m| m.strip_suffix(" already defined")) { return format!("dup:{}", n); }
    if let Some(n) = msg.strip_prefix("rule ").and_then(|m| m.strip_suffix(" is undefined")) { return format!("undef:{}", n); }
    if msg == "cannot repeat 0 times" { return "zero".into(); }
    if msg == "number cannot overflow u32" { return "u32".into(); }
    if msg.starts_with("expression inside repetition cannot fail") { return "rep_nf".into(); }
    if msg.starts_with("expression inside repetition is non-progressing") { return "rep_np".into(); }
    if msg.starts_with("expression cannot fail; following choices cannot be reached") { return "cho_nf".into(); }
    if let Some(n) = msg.strip_suffix(" cannot fail and will repeat infinitely") { return format!("sp_nf:{}", n); }
    if let Some(n) = msg.strip_suffix(" is non-progressing and will repeat infinitely") { return format!("sp_np:{}", n); }
    if msg.starts_with("rule ") && msg.contains(" is left-recursive (") {
        let a = msg.find(" is left-recursive (").unwrap() + " is left-recursive (".len();
        let b = a + msg[a..].find(')').unwrap();
        return format!("lr:{}", msg[a..b].replace(" -> ", ">"));
    }
    if msg.starts_with("tags on silent rules") { return "tag_silent".into(); }
    if msg.starts_with("tags on built-in rules") { return "tag_builtin".into(); }
    if msg.starts_with("PUSH_LITERAL requires") { return "pushlit".into(); }
    format!("other:{}", msg.replace([' ', ',', '\t', '\n'], "_"))
}

fn verdict_text(text: &str) -> String {
    pest::set_call_limit(None);
    let r = catch(|| match pest_meta::parse_and_optimize(text) {
        Ok((_, rs)) => { if std::env::var("C06_DEBUG").is_ok() { eprintln!("{}\n{}", text, sexp_grammar(&from_orules(&rs))); } "ok".to_string() }
        Err(es) => {
            let mut ks: Vec<String> = es.iter().map(|e| match &e.variant {
                pest::error::ErrorVariant::CustomError { message } => kind_of(message),
                pest::error::ErrorVariant::ParsingError { .. } => "syntax".to_string(),
            }).collect();
            ks.sort();
            format!("err:{}", ks.join(","))
        }
    });
    r.unwrap_or_else(|m| format!("panic:{}", m.replace(['\t', '\n'], " ")))
}

// ------------------------------------------------------------------------------------------------
// the child: runs accepted grammars on all short inputs from every rule under the budget
// ------------------------------------------------------------------------------------------------
fn unesc(s: &str) -> String {
    let mut o = String::new();
    let mut it = s.chars();
    while let Some(c) = it.next() {
        if c == '\\' { match it.next() { Some('n') => o.push('\n'), Some('t') => o.push('\t'), Some('r') => o.push('\r'), Some(c) => o.push(c), None => {} } } else { o.push(c) }
    }
    o
}

/// CPU time of this process in clock ticks (1/100 s): utime + stime of /proc/self/stat
fn cpu_ticks() -> u64 {
    let s = std::fs::read_to_string("/proc/self/stat").unwrap_or_default();
    let rest = s.rsplit(')').next().unwrap_or("");
    let f: Vec<&str> = rest.split_whitespace().collect();
    if f.len() > 12 { f[11].parse::<u64>().unwrap_or(0) + f[12].parse::<u64>().unwrap_or(0) } else { 0 }
}
static PROGRESS: AtomicU64 = AtomicU64::new(0);
static CUR: [AtomicUsize; 3] = [AtomicUsize::new(0), AtomicUsize::new(0), AtomicUsize::new(0)];   // grammar, rule, input
static ACTIVE: AtomicBool = AtomicBool::new(false);
static CUR_INPUT: std::sync::Mutex<String> = std::sync::Mutex::new(String::new());

/// Letters for the inputs that come from the grammar itself (besides ALPHA): the characters of its literals (both cases for
/// case-insensitive ones), the ends of its ranges and one representative of every character-class built-in; at most 3.
fn derived_letters(g: &[GRule]) -> Vec<String> {
    let mut out: Vec<String> = vec![];
    let mut add = |c: char| { let t = c.to_string(); if !ALPHA.contains(&t.as_str()) && !out.contains(&t) { out.push(t); } };
    for r in g {
        walk(&r.e, &mut |e| match e {
            GE::Str(t) | GE::PushLit(t) => t.chars().for_each(&mut add),
            GE::Ins(t) => t.chars().for_each(|c| { add(c); c.to_lowercase().for_each(&mut add); c.to_uppercase().for_each(&mut add); }),
            GE::Range(a, z) => { add(*a); add(*z); }
            GE::Id(n) => match n.as_str() {
                "ASCII_DIGIT" | "ASCII_NONZERO_DIGIT" | "ASCII_BIN_DIGIT" | "ASCII_OCT_DIGIT" => add('1'),
                "ASCII_HEX_DIGIT" | "ASCII_ALPHA" | "ASCII_ALPHA_LOWER" | "ASCII_ALPHANUMERIC" | "LETTER" | "ASCII" => add('a'),
                "ASCII_ALPHA_UPPER" => add('A'),
                "NEWLINE" => add('\n'),
                _ => {}
            },
            _ => {}
        });
    }
    out.truncate(3);
    out
}
/// all strings over ALPHA up to `maxlen`, then the strings up to length min(maxlen, 3) over ALPHA + `extra` that use a new letter
fn inputs_for(extra: &[String], maxlen: usize) -> Vec<String> {
    let mut v = all_strings(&ALPHA, maxlen);
    if !extra.is_empty() {
        let mut alpha: Vec<&str> = ALPHA.to_vec();
        for x in extra { alpha.push(x.as_str()); }
        for w in all_strings(&alpha, maxlen.min(3)) { if extra.iter().any(|x| w.contains(x.as_str())) { v.push(w); } }
    }
    v
}
fn letters_field(extra: &[String]) -> String { extra.iter().map(|x| hex(x)).collect::<Vec<_>>().join(",") }

/// stdin: one line per grammar, `<hex letters derived from the grammar, comma separated>\t<escaped grammar text>`.  stdout (flushed line by line):
///   B <idx> <rule>            before the runs of a rule   (verbose: `@ <idx> <rule> <hex>` before every run)
///   E <idx> term <runs> | E <idx> limit <rule> <hex> | E <idx> reject
///   W <idx> <rule index> <input hex>     written by the watchdog before exit(3): one parse used more than BUDGET_TICKS of CPU
/// Budget of one parse: the call limit (reported by pest as "call limit reached") AND a CPU-time watchdog: `repeat`/`optional`
/// absorb the refusal that the call limit produces (the C12 defect), so a loop that exhausts the limit may still come back
/// with an ordinary result; with the limit alone exactly the non-terminating repetitions would go unnoticed.
fn child(maxlen: usize, verbose: bool) {
    let base_inputs = all_strings(&ALPHA, maxlen);
    std::thread::spawn(|| {
        let mut last = (u64::MAX, 0u64);
        loop {
            std::thread::sleep(std::time::Duration::from_millis(25));
            if !ACTIVE.load(Ordering::SeqCst) { last = (u64::MAX, 0); continue; }
            let p = PROGRESS.load(Ordering::SeqCst);
            let now = cpu_ticks();
            if p != last.0 { last = (p, now); continue; }
            if now.saturating_sub(last.1) > BUDGET_TICKS {
                let o = io::stdout();
                let mut o = o.lock();
                let cur = CUR_INPUT.lock().map(|g| g.clone()).unwrap_or_default();
                let _ = writeln!(o, "W {} {} {}", CUR[0].load(Ordering::SeqCst), CUR[1].load(Ordering::SeqCst), hex(&cur));
                let _ = o.flush();
                std::process::exit(3);
            }
        }
    });
    let stdin = io::stdin();
    let out = io::stdout();
    for (idx, line) in stdin.lock().lines().enumerate() {
        let line = line.unwrap();
        let (letters, text) = match line.split_once('\t') { Some((l, t)) => (l.to_string(), unesc(t)), None => (String::new(), unesc(&line)) };
        let extra: Vec<String> = letters.split(',').filter(|h| !h.is_empty()).map(unhex).collect();
        let own_inputs;
        let inputs: &Vec<String> = if extra.is_empty() { &base_inputs } else { own_inputs = inputs_for(&extra, maxlen); &own_inputs };
        pest::set_call_limit(None);
        let rules = match pest_meta::parse_and_optimize(&text) { Ok((_, r)) => r, Err(_) => { writeln!(out.lock(), "E {} reject", idx).unwrap(); continue; } };
        let names: Vec<String> = rules.iter().map(|r| r.name.clone()).collect();
        let vm = pest_vm::Vm::new(rules);
        let mut runs = 0u64;
        let mut bad: Option<(String, String)> = None;
        CUR[0].store(idx, Ordering::SeqCst);
        'rules: for (ri, r) in names.iter().enumerate() {
            { let mut o = out.lock(); writeln!(o, "B {} {}", idx, r).unwrap(); o.flush().unwrap(); }
            CUR[1].store(ri, Ordering::SeqCst);
            for (ii, input) in inputs.iter().enumerate() {
                if verbose { let mut o = out.lock(); writeln!(o, "@ {} {} {}", idx, r, hex(input)).unwrap(); o.flush().unwrap(); }
                CUR[2].store(ii, Ordering::SeqCst);
                if let Ok(mut c) = CUR_INPUT.lock() { c.clear(); c.push_str(input); }
                PROGRESS.fetch_add(1, Ordering::SeqCst);
                ACTIVE.store(true, Ordering::SeqCst);
                pest::set_call_limit(NonZeroUsize::new(BUDGET));
                let limit = match vm.parse(r, input) {
                    Err(e) => matches!(&e.variant, pest::error::ErrorVariant::CustomError { message } if message == "call limit reached"),
                    Ok(_) => false,
                };
                pest::set_call_limit(None);
                ACTIVE.store(false, Ordering::SeqCst);
                runs += 1;
                if limit { bad = Some((r.clone(), hex(input))); break 'rules; }
            }
        }
        let mut o = out.lock();
        match bad { Some((r, h)) => writeln!(o, "E {} limit {} {}", idx, r, h).unwrap(), None => writeln!(o, "E {} term {}", idx, runs).unwrap() }
        o.flush().unwrap();
    }
}

fn spawn_child(texts: &[(String, String)], maxlen: usize, verbose: bool) -> (String, String) {
    let exe = std::env::current_exe().unwrap();
    let mut ch = Command::new(exe).arg(if verbose { "childv" } else { "child" }).arg(maxlen.to_string())
        .stdin(Stdio::piped()).stdout(Stdio::piped()).stderr(Stdio::null()).spawn().expect("spawn child");
    {
        let mut si = ch.stdin.take().unwrap();
        let payload: String = texts.iter().map(|(l, t)| format!("{}\t{}\n", l, esc(t))).collect();
        // the child may die before reading everything: ignore EPIPE
        let _ = si.write_all(payload.as_bytes());
    }
    let mut so = String::new();
    ch.stdout.take().unwrap().read_to_string(&mut so).unwrap();
    let st = ch.wait().unwrap();
    use std::os::unix::process::ExitStatusExt;
    let status = if st.success() { "exit0".to_string() } else if let Some(s) = st.signal() { format!("signal{}", s) } else { format!("exit{}", st.code().unwrap_or(-1)) };
    (so, status)
}

/// termination observations for a batch of accepted grammars (texts); one result per grammar
fn termination(texts: &[(String, String)], maxlen: usize) -> Vec<String> {
    let mut res: Vec<Option<String>> = vec![None; texts.len()];
    let mut start = 0usize;
    while start < texts.len() {
        let (so, status) = spawn_child(&texts[start..], maxlen, false);
        let mut last_b: Option<(usize, String)> = None;
        let mut done = 0usize;
        let mut watchdog: Option<(usize, String, String)> = None;
        for l in so.lines() {
            let p: Vec<&str> = l.split(' ').collect();
            match p[0] {
                "B" => last_b = Some((p[1].parse().unwrap(), p[2].to_string())),
                "E" => { let i: usize = p[1].parse().unwrap(); res[start + i] = Some(p[2..].join(" ")); done = i + 1; }
                "W" => watchdog = Some((p[1].parse().unwrap(), last_b.clone().map(|x| x.1).unwrap_or_default(), p[3].to_string())),
                _ => {}
            }
        }
        if start + done >= texts.len() && status == "exit0" { break; }
        if let Some((i, rule, h)) = watchdog {
            // one parse exceeded the CPU budget: a loop that does not grow the native stack
            res[start + i] = Some(format!("budget {} {}", rule, h));
            start = start + i + 1;
            continue;
        }
        // the child died while running grammar `done` (relative): find the input with a verbose single run
        let g = start + done;
        if g >= texts.len() { break; }
        let rule = last_b.filter(|(i, _)| *i == done).map(|(_, r)| r).unwrap_or_default();
        let (sv, stv) = spawn_child(&texts[g..g + 1], maxlen, true);
        let mut at = (rule, "-".to_string());
        for l in sv.lines() { let p: Vec<&str> = l.split(' ').collect(); if p[0] == "@" { at = (p[2].to_string(), p[3].to_string()); } }
        res[g] = Some(if stv.starts_with("signal") || status.starts_with("signal") { format!("overflow {} {}", at.0, at.1) } else { format!("died {} {}", status, stv) });
        start = g + 1;
    }
    res.into_iter().map(|r| r.unwrap_or_else(|| "died unknown".to_string())).collect()
}

// ------------------------------------------------------------------------------------------------
// s-expression reader (for `one`)
// ------------------------------------------------------------------------------------------------
fn parse_sexp(s: &str) -> GE {
    fn toks(s: &str) -> Vec<String> { s.replace('(', " ( ").replace(')', " ) ").split_whitespace().map(|x| x.to_string()).collect() }
    fn go(t: &[String], i: &mut usize) -> GE {
        assert_eq!(t[*i], "("); *i += 1;
        let head = t[*i].clone(); *i += 1;
        let atom = |i: &mut usize| -> String { let a = t[*i].clone(); *i += 1; a };
        let bx = |i: &mut usize| Box::new(go(t, i));
        let e = match head.as_str() {
            "str" => GE::Str(unhex(&atom(i))), "ins" => GE::Ins(unhex(&atom(i))),
            "range" => { let a: u32 = atom(i).parse().unwrap(); let b: u32 = atom(i).parse().unwrap(); GE::Range(char::from_u32(a).unwrap(), char::from_u32(b).unwrap()) }
            "id" => GE::Id(atom(i)),
            "slice" => { let a: i32 = atom(i).parse().unwrap(); let b = atom(i); GE::Slice(a, if b == "-" { None } else { Some(b.parse().unwrap()) }) }
            "pos" => GE::Pos(bx(i)), "neg" => GE::Neg(bx(i)), "seq" => { let l = bx(i); GE::Seq(l, bx(i)) } "cho" => { let l = bx(i); GE::Cho(l, bx(i)) }
            "opt" => GE::Opt(bx(i)), "rep" => GE::Rep(bx(i)), "rep1" => GE::Rep1(bx(i)),
            "repx" => { let n = atom(i).parse().unwrap(); GE::RepX(bx(i), n) } "repmin" => { let n = atom(i).parse().unwrap(); GE::RepMin(bx(i), n) }
            "repmax" => { let n = atom(i).parse().unwrap(); GE::RepMax(bx(i), n) }
            "repmm" => { let m = atom(i).parse().unwrap(); let n = atom(i).parse().unwrap(); GE::RepMM(bx(i), m, n) }
            "push" => GE::Push(bx(i)), "pushlit" => GE::PushLit(unhex(&atom(i))), "tag" => { let t0 = atom(i); GE::Tag(t0, bx(i)) }
            h => panic!("bad sexp head {}", h),
        };
        assert_eq!(t[*i], ")"); *i += 1;
        e
    }
    let t = toks(s);
    let mut i = 0;
    go(&t, &mut i)
}
fn parse_sexp_grammar(s: &str) -> Vec<GRule> {
    s.split(';').map(|r| {
        let r = r.trim();
        let inner = &r[1..r.len() - 1];
        let mut it = inner.splitn(3, ' ');
        let name = it.next().unwrap().to_string();
        let ty = match it.next().unwrap() { "n" => Ty::Normal, "s" => Ty::Silent, "a" => Ty::Atomic, "c" => Ty::Compound, _ => Ty::NonAtomic };
        GRule { name, ty, e: parse_sexp(it.next().unwrap()) }
    }).collect()
}

// ------------------------------------------------------------------------------------------------
// structure of a grammar (for the statistics and for deciding which grammars run in the child)
// ------------------------------------------------------------------------------------------------
fn walk(e: &GE, f: &mut dyn FnMut(&GE)) {
    use GE::*;
    f(e);
    match e {
        Pos(x) | Neg(x) | Opt(x) | Rep(x) | Rep1(x) | RepX(x, _) | RepMin(x, _) | RepMax(x, _) | RepMM(x, _, _) | Push(x) | Tag(_, x) | Roe(x) => walk(x, f),
        Seq(l, r) | Cho(l, r) => { walk(l, f); walk(r, f); }
        _ => {}
    }
}
fn uses_stack(g: &[GRule]) -> bool {
    let mut s = false;
    for r in g { walk(&r.e, &mut |e| match e { GE::Slice(..) => s = true, GE::Id(n) if ["PEEK", "POP", "DROP", "PEEK_ALL", "POP_ALL"].contains(&n.as_str()) => s = true, _ => {} }); }
    s
}
/// "recursion or repetition around nullable constructs": a reference to a user rule that can reach itself, or a repetition /
/// WHITESPACE / COMMENT body, together with an operator that may match empty (?, *, predicates, empty literal, {0,..}, SOI/EOI)
fn nontrivial(g: &[GRule]) -> bool {
    let names: BTreeSet<&str> = g.iter().map(|r| r.name.as_str()).collect();
    let mut nullable_op = false; let mut rep = false; let mut refs: Vec<(usize, String)> = vec![];
    for (i, r) in g.iter().enumerate() {
        if r.name == "WHITESPACE" || r.name == "COMMENT" { rep = true; }
        walk(&r.e, &mut |e| match e {
            GE::Opt(_) | GE::Rep(_) | GE::Pos(_) | GE::Neg(_) | GE::RepMax(..) | GE::PushLit(_) => { nullable_op = true; if let GE::Rep(_) = e { rep = true; } }
            GE::Rep1(_) => rep = true,
            GE::RepMin(_, n) => { rep = true; if *n == 0 { nullable_op = true; } }
            GE::RepMM(_, n, _) | GE::RepX(_, n) => { if *n == 0 { nullable_op = true; } }
            GE::Str(s) | GE::Ins(s) if s.is_empty() => nullable_op = true,
            GE::Id(n) if n == "SOI" || n == "EOI" => nullable_op = true,
            GE::Id(n) if names.contains(n.as_str()) => refs.push((i, n.clone())),
            _ => {}
        });
    }
    // recursion: some rule reaches itself through references
    let idx = |n: &str| g.iter().position(|r| r.name == n).unwrap();
    let mut reach = vec![vec![false; g.len()]; g.len()];
    for (i, n) in &refs { reach[*i][idx(n)] = true; }
    for k in 0..g.len() { for i in 0..g.len() { for j in 0..g.len() { if reach[i][k] && reach[k][j] { reach[i][j] = true; } } } }
    let recursion = (0..g.len()).any(|i| reach[i][i]);
    nullable_op && (recursion || rep)
}

// ------------------------------------------------------------------------------------------------
// generators
// ------------------------------------------------------------------------------------------------
fn s(x: &str) -> GE { GE::Str(x.into()) }
fn id(x: &str) -> GE { GE::Id(x.into()) }
fn b(x: GE) -> Box<GE> { Box::new(x) }
fn seq(l: GE, r: GE) -> GE { GE::Seq(b(l), b(r)) }
fn cho(l: GE, r: GE) -> GE { GE::Cho(b(l), b(r)) }
fn rule(n: &str, ty: Ty, e: GE) -> GRule { GRule { name: n.into(), ty, e } }
fn nrule(n: &str, e: GE) -> GRule { rule(n, Ty::Normal, e) }

/// every operator around a leftmost reference X (label, expression); the helper rules `nl` (nullable) and `pr` (progressing) may be used
fn left_ops(x: &GE) -> Vec<(&'static str, GE)> {
    use GE::*;
    let x = || x.clone();
    let mut v = vec![
        ("x", x()), ("opt", Opt(b(x()))), ("rep", Rep(b(x()))), ("rep1", Rep1(b(x()))), ("neg", Neg(b(x()))), ("pos", Pos(b(x()))),
        ("repx2", RepX(b(x()), 2)), ("repx1", RepX(b(x()), 1)), ("repmin2", RepMin(b(x()), 2)), ("repmin0", RepMin(b(x()), 0)), ("repmax2", RepMax(b(x()), 2)),
        ("repmm02", RepMM(b(x()), 0, 2)), ("repmm12", RepMM(b(x()), 1, 2)), ("push", Push(b(x()))),
        ("cho_l", cho(x(), s("y"))), ("cho_r", cho(s("y"), x())), ("seq_l", seq(x(), s("y"))),
        ("empty_seq", seq(s(""), x())), ("opt_seq", seq(Opt(b(s("y"))), x())), ("rep_seq", seq(Rep(b(s("y"))), x())), ("neg_seq", seq(Neg(b(s("y"))), x())),
        ("pos_seq", seq(Pos(b(s("y"))), x())), ("soi_seq", seq(id("SOI"), x())), ("eoi_seq", seq(id("EOI"), x())), ("repmax_seq", seq(RepMax(b(s("y")), 2), x())),
        ("repmm0_seq", seq(RepMM(b(s("y")), 0, 1), x())), ("repmin0_seq", seq(RepMin(b(s("y")), 0), x())), ("nlrule_seq", seq(id("nl"), x())),
        ("choempty_seq", seq(cho(s("y"), s("")), x())), ("pushempty_seq", seq(Push(b(s(""))), x())), ("insempty_seq", seq(Ins("".into()), x())),
        ("seqseq", seq(seq(s(""), Opt(b(s("y")))), x())), ("nested_l", seq(seq(x(), s("y")), s("x"))), ("optopt", Opt(b(Opt(b(x()))))), ("negneg", Neg(b(Neg(b(x()))))),
        // valid (right) recursion: something that consumes comes first
        ("lit_seq", seq(s("y"), x())), ("any_seq", seq(id("ANY"), x())), ("range_seq", seq(Range('x', 'y'), x())), ("prrule_seq", seq(id("pr"), x())),
        ("rep1_seq", seq(Rep1(b(s("y"))), x())), ("repx_seq", seq(RepX(b(s("y")), 2), x())), ("cho_seq", seq(cho(s("y"), s("x")), x())),
        ("valid", seq(seq(seq(seq(s(""), Opt(b(s("y")))), Rep(b(s("y")))), cho(s("x"), s("y"))), x())),
    ];
    if extras() { v.push(("tag", Tag("t".into(), b(x())))); v.push(("pushlit_seq", seq(PushLit("y".into()), x()))); v.push(("tag_seq", seq(Tag("t".into(), b(s(""))), x()))); }
    v
}
fn helpers() -> Vec<GRule> { vec![nrule("nl", GE::Opt(b(s("y")))), nrule("pr", s("y"))] }
fn with_helpers(mut g: Vec<GRule>) -> Vec<GRule> {
    let mut used = BTreeSet::new();
    for r in &g { walk(&r.e, &mut |e| if let GE::Id(n) = e { used.insert(n.clone()); }); }
    for h in helpers() { if used.contains(&h.name) && !g.iter().any(|r| r.name == h.name) { g.push(h); } }
    g
}

/// bodies for repetitions / WHITESPACE / COMMENT / alternatives: nullable, non-failing, and sound ones
fn bodies() -> Vec<GE> {
    use GE::*;
    let mut v = vec![
        s(""), Ins("".into()), Opt(b(s("x"))), Neg(b(s("x"))), Pos(b(s("x"))), id("SOI"), id("EOI"), cho(s(""), s("x")), cho(s("x"), s("")), Rep(b(s("x"))),
        RepMM(b(s("x")), 0, 2), RepMax(b(s("x")), 2), RepX(b(s("")), 2), RepMin(b(s("x")), 0), RepMin(b(s("")), 1), Push(b(s(""))), Push(b(s("x"))), id("nl"), id("nl2"),
        seq(s(""), s("")), seq(Opt(b(s("x"))), Opt(b(s("y")))), seq(s("x"), s("")), seq(s(""), s("x")), seq(Neg(b(s("y"))), s("x")), seq(Neg(b(s("y"))), Opt(b(s("x")))),
        s("x"), Ins("x".into()), Range('x', 'y'), id("ANY"), id("ASCII_DIGIT"), id("NEWLINE"), id("LETTER"), id("pr"), Rep1(b(s("x"))), Rep1(b(s(""))), RepX(b(s("x")), 2),
        cho(s("x"), s("y")), cho(Opt(b(s("x"))), s("y")), cho(s("x"), Neg(b(s("y")))), Pos(b(s(""))), Neg(b(s(""))), Pos(b(Opt(b(s("x"))))), Opt(b(Opt(b(s("x"))))),
        cho(cho(s("x"), s("")), s("y")), cho(s("x"), cho(s(""), s("y"))), id("self"),
    ];
    if extras() { v.push(PushLit("x".into())); v.push(Tag("t".into(), b(s("")))); v.push(Tag("t".into(), b(s("x")))); v.push(Tag("t".into(), b(Rep(b(s("")))))); }
    v
}
fn body_helpers(mut g: Vec<GRule>) -> Vec<GRule> {
    let mut used = BTreeSet::new();
    for r in &g { walk(&r.e, &mut |e| if let GE::Id(n) = e { used.insert(n.clone()); }); }
    if used.contains("nl2") { g.push(nrule("nl2", id("nl"))); used.insert("nl".into()); }
    if used.contains("nl") { g.push(nrule("nl", GE::Opt(b(s("y"))))); }
    if used.contains("pr") { g.push(nrule("pr", s("y"))); }
    g
}

fn near_miss() -> Vec<Vec<GRule>> {
    use GE::*;
    let mut out: Vec<Vec<GRule>> = vec![];
    let tys = [Ty::Normal, Ty::Silent, Ty::Atomic, Ty::Compound, Ty::NonAtomic];
    // A. direct recursion through every operator, in four body shapes, all rule types for the bare shape
    for (_, op) in left_ops(&id("a")) {
        for ty in tys { out.push(with_helpers(vec![rule("a", ty, seq(op.clone(), s("x")))])); }
        out.push(with_helpers(vec![nrule("a", op.clone())]));
        out.push(with_helpers(vec![nrule("a", cho(seq(op.clone(), s("x")), s("y")))]));
        out.push(with_helpers(vec![nrule("a", cho(s("y"), seq(op.clone(), s("x"))))]));
        out.push(with_helpers(vec![nrule("a", seq(s("x"), op.clone()))]));
    }
    // B. mutual recursion through two rules: every operator on both edges
    for (_, oa) in left_ops(&id("b")) { for (_, ob) in left_ops(&id("a")) {
        out.push(with_helpers(vec![nrule("a", seq(oa.clone(), s("x"))), nrule("b", ob.clone())]));
    } }
    for (_, oa) in left_ops(&id("b")) { for ty in tys { out.push(with_helpers(vec![nrule("a", seq(oa.clone(), s("x"))), rule("b", ty, seq(id("a"), s("y")))])); } }
    // C. through three rules
    for (_, ob) in left_ops(&id("c")) { for (_, oc) in left_ops(&id("a")).into_iter().take(17) {
        out.push(with_helpers(vec![nrule("a", seq(id("b"), s("x"))), rule("b", Ty::Silent, ob.clone()), rule("c", Ty::Atomic, seq(oc.clone(), s("y")))]));
    } }
    // a cycle that does not go through the first rule, and a reference from outside into a cycle
    out.push(vec![nrule("a", seq(id("b"), s("x"))), nrule("b", seq(id("c"), s("y"))), nrule("c", seq(id("b"), s("x")))]);
    out.push(vec![nrule("a", seq(Opt(b(id("b"))), s("x"))), nrule("b", seq(Opt(b(id("c"))), s("y"))), nrule("c", seq(Opt(b(id("b"))), s("x")))]);
    // D. repetitions around every body
    for body in bodies() {
        let fix = |e: &GE| -> GE { if *e == id("self") { id("r") } else { e.clone() } };
        let bd = fix(&body);
        for rep in [Rep(b(bd.clone())), Rep1(b(bd.clone())), RepMin(b(bd.clone()), 2), RepMin(b(bd.clone()), 0), RepX(b(bd.clone()), 2), RepMax(b(bd.clone()), 2), RepMM(b(bd.clone()), 1, 2), Opt(b(bd.clone()))] {
            out.push(body_helpers(vec![nrule("r", seq(rep.clone(), s("x")))]));
            out.push(body_helpers(vec![nrule("r", seq(s("y"), Push(b(Neg(b(rep.clone()))))))]));
        }
        out.push(body_helpers(vec![nrule("r", bd.clone())]));
        out.push(body_helpers(vec![nrule("r", seq(bd.clone(), s("x")))]));
        // E. WHITESPACE / COMMENT
        for sp in ["WHITESPACE", "COMMENT"] { for ty in [Ty::Silent, Ty::Normal, Ty::Compound] {
            let spb = if body == id("self") { id(sp) } else { body.clone() };
            out.push(body_helpers(vec![nrule("r", seq(s("x"), s("y"))), rule(sp, ty, spb)]));
        } }
        out.push(body_helpers(vec![nrule("r", Rep(b(s("x")))), rule("WHITESPACE", Ty::Silent, s(" ")), rule("COMMENT", Ty::Silent, bd.clone())]));
        // F. alternatives
        out.push(body_helpers(vec![nrule("r", cho(bd.clone(), s("x")))]));
        out.push(body_helpers(vec![nrule("r", cho(s("x"), bd.clone()))]));
        out.push(body_helpers(vec![nrule("r", cho(cho(s("x"), bd.clone()), s("y")))]));
        out.push(body_helpers(vec![nrule("r", cho(s("x"), cho(bd.clone(), s("y"))))]));
        out.push(body_helpers(vec![nrule("r", seq(s("x"), Opt(b(cho(bd.clone(), s("y"))))))]));
    }
    // G. names
    out.push(vec![nrule("a", s("x")), nrule("a", s("y"))]);
    out.push(vec![nrule("a", s("x")), nrule("b", s("y")), nrule("a", id("b")), nrule("b", id("zz"))]);
    out.push(vec![nrule("a", id("zz"))]);
    out.push(vec![nrule("a", seq(id("zz"), id("zz")))]);
    for k in ["ANY", "DROP", "EOI", "PEEK", "PEEK_ALL", "POP", "POP_ALL", "SOI", "_"] { out.push(vec![nrule(k, s("x"))]); out.push(vec![nrule(k, s("x")), nrule("a", Rep(b(s(""))))]); }
    for k in ["ASCII_DIGIT", "NEWLINE", "ASCII", "LETTER", "EMOJI", "HAN", "fn", "Self", "abstract", "WHITESPACE", "COMMENT", "PEEKX", "peek"] {
        out.push(vec![rule(k, Ty::Silent, s("x")), nrule("a", seq(id(k), id("a")))]);
        out.push(vec![rule(k, Ty::Silent, Opt(b(s("x")))), nrule("a", seq(id(k), id("a")))]);
        out.push(vec![nrule("a", seq(id(k), s("x")))]);
    }
    for k in ["ANY", "ASCII_ALPHA", "NEWLINE", "LETTER", "EOI", "SOI"] { out.push(vec![nrule("a", seq(id(k), id("a")))]); out.push(vec![nrule("a", Rep(b(id(k))))]); out.push(vec![nrule("a", cho(id(k), s("x")))]); }
    // H. implicit whitespace: WHITESPACE / COMMENT re-entered through a non-atomic rule, and skips between nullable elements
    for sp in ["WHITESPACE", "COMMENT"] {
        out.push(vec![nrule("r", seq(s("x"), s("y"))), nrule(sp, id("n")), rule("n", Ty::NonAtomic, seq(s(""), s(" ")))]);
        out.push(vec![nrule("r", seq(s("x"), s("y"))), nrule(sp, id("n")), rule("n", Ty::NonAtomic, seq(s(" "), s("")))]);
        out.push(vec![nrule("r", seq(s("x"), s("y"))), nrule(sp, id("n")), rule("n", Ty::Normal, seq(s(""), s(" ")))]);
        out.push(vec![nrule("r", seq(s(""), s("y"))), rule(sp, Ty::Silent, seq(id("r"), s(" ")))]);
        out.push(vec![rule("r", Ty::NonAtomic, seq(s(""), s("y"))), rule(sp, Ty::Silent, seq(id("r"), s(" ")))]);
        out.push(vec![nrule("r", seq(s(""), s("y"))), rule(sp, Ty::Silent, seq(s(""), s(" ")))]);
        out.push(vec![nrule("r", Rep(b(s("x")))), rule(sp, Ty::Silent, seq(Opt(b(id(sp))), s(" ")))]);
    }
    // I. counts
    for e in [RepX(b(s("x")), 0), RepMax(b(s("x")), 0), RepMM(b(s("x")), 0, 0), RepMM(b(s("x")), 2, 0), RepMM(b(s("x")), 2, 1), RepMM(b(id("a")), 2, 1), RepMin(b(s("x")), 0)] {
        out.push(vec![nrule("a", e.clone())]); out.push(vec![nrule("a", seq(e.clone(), Rep(b(s("")))))]); out.push(vec![nrule("a", seq(e.clone(), s("y"))), nrule("b", RepX(b(s("y")), 0))]);
    }
    // J. the SAME non-progressing-but-fallible rule referenced two or three times inside one repetition / WHITESPACE / COMMENT body,
    //    directly and through a second silent rule (a trace that is not popped would count the later references as progressing);
    //    the same for non-failing rules and for a nullable prefix in front of a left-recursive reference
    let np_bodies: Vec<GE> = vec![Pos(b(s("x"))), Neg(b(s("y"))), id("SOI"), id("EOI"), seq(s(""), Pos(b(s("x")))), seq(s(""), s("")), Opt(b(s("y")))];
    for xb in &np_bodies {
        let x = || rule("x", Ty::Silent, xb.clone());
        let y2 = || rule("y2", Ty::Silent, id("x"));
        let multi: Vec<(GE, bool)> = vec![
            (seq(id("x"), id("x")), false), (seq(seq(id("x"), id("x")), id("x")), false), (seq(id("x"), seq(id("x"), id("x"))), false),
            (seq(id("x"), id("y2")), true), (seq(id("y2"), id("x")), true), (seq(id("y2"), id("y2")), true), (seq(seq(id("y2"), id("x")), id("y2")), true),
            (seq(Opt(b(s("y"))), seq(id("x"), id("x"))), false), (seq(id("x"), Push(b(id("x")))), false), (seq(id("x"), RepX(b(id("x")), 2)), false),
            (cho(seq(id("x"), id("x")), seq(id("x"), id("x"))), false),
        ];
        for (body, needs_y2) in &multi {
            let with = |mut g: Vec<GRule>| { g.push(x()); if *needs_y2 { g.push(y2()); } g };
            for rep in [Rep(b(body.clone())), Rep1(b(body.clone())), RepMin(b(body.clone()), 1), RepMin(b(body.clone()), 0)] {
                out.push(with(vec![nrule("a", seq(rep.clone(), s("x")))]));
                out.push(with(vec![rule("a", Ty::Atomic, seq(s("x"), rep.clone()))]));
            }
            for sp in ["WHITESPACE", "COMMENT"] {
                out.push(with(vec![nrule("r", seq(s("x"), s("x"))), rule(sp, Ty::Silent, body.clone())]));
                out.push(with(vec![nrule("r", seq(s("x"), s("y"))), rule(sp, Ty::Normal, body.clone())]));
                out.push(with(vec![nrule("r", Rep(b(s("x")))), rule(sp, Ty::Silent, body.clone())]));
            }
            // non-final alternative and a (nullable) prefix of a left-recursive reference
            out.push(with(vec![nrule("a", cho(body.clone(), s("x")))]));
            out.push(with(vec![nrule("a", seq(body.clone(), id("a")))]));
            out.push(with(vec![nrule("a", seq(seq(body.clone(), id("a")), s("x")))]));
            out.push(with(vec![nrule("a", seq(body.clone(), id("c"))), nrule("c", seq(body.clone(), id("a")))]));
        }
    }
    // K. a repetition AWAY from the left edge whose body leads back to the enclosing rule through references only (directly, through one
    //    or two rules, behind an empty / look-ahead prefix), while the enclosing rule can succeed without consuming through a later
    //    alternative, `?` or a look-ahead: no left recursion, yet every iteration re-enters the rule and matches empty.  Bounded
    //    repetitions and an enclosing rule that always consumes are the sound controls (accepted, and run).
    for g in back_reference_family() { out.push(g); }
    // L. bodies that are SEQUENCES of non-progressing elements of DIFFERENT kinds (look-ahead ~ empty literal of each kind, empty literal ~
    //    look-ahead, SOI / EOI ~ ^"", PUSH("") ~ ..., through rules; tagged in every position when built with grammar-extras) as
    //    repetition body, as WHITESPACE / COMMENT body and as the prefix in front of a recursive call: a validator that gets ONE kind of
    //    element wrong is masked when that element stands alone (cannot-fail is asked first) and shows only next to one that can fail
    for g in np_sequence_family() { out.push(g); }
    let mut seen = BTreeSet::new();
    out.retain(|g| seen.insert(sexp_grammar(g)));
    out
}

/// elements that never consume: (expression, helper rules it needs); the last entries are consuming controls
fn np_atoms() -> Vec<GE> {
    use GE::*;
    let mut v = vec![
        Neg(b(s("y"))), Pos(b(s("x"))), s(""), Ins("".into()), id("SOI"), id("EOI"), Push(b(s(""))), Push(b(Ins("".into()))), Opt(b(s("y"))), Rep(b(Ins("y".into()))),
        id("la"), id("em"), Neg(b(Ins("y".into()))), Pos(b(id("ANY"))), RepX(b(Ins("".into())), 2),
    ];
    if extras() { v.push(PushLit("".into())); }
    // controls: fail or consume
    v.push(Ins("x".into())); v.push(Range('x', 'y'));
    v
}
fn np_helpers(mut g: Vec<GRule>) -> Vec<GRule> {
    let mut used = BTreeSet::new();
    for r in &g { walk(&r.e, &mut |e| if let GE::Id(n) = e { used.insert(n.clone()); }); }
    if used.contains("la") { g.push(rule("la", Ty::Silent, GE::Neg(b(s("y"))))); }
    if used.contains("em") { g.push(nrule("em", GE::Ins("".into()))); }
    g
}
/// the sequences of two (a few of three) different non-progressing elements; with grammar-extras also the tagged versions
fn np_sequences() -> Vec<GE> {
    use GE::*;
    let atoms = np_atoms();
    let tag = |e: &GE| Tag("t".into(), b(e.clone()));
    let mut v = vec![];
    if extras() { for a in &atoms { v.push(tag(a)); v.push(tag(&tag(a))); } }
    for (i, a) in atoms.iter().enumerate() {
        for (j, c) in atoms.iter().enumerate() {
            if i == j { continue; }
            v.push(seq(a.clone(), c.clone()));
            if extras() && !matches!(a, Id(n) if n == "SOI" || n == "EOI") { v.push(seq(tag(a), c.clone())); }
            if extras() && (i + j) % 3 == 0 { v.push(seq(a.clone(), tag(c))); v.push(tag(&seq(a.clone(), c.clone()))); }
            if (i * 7 + j) % 11 == 0 { let k = &atoms[(i + j) % atoms.len()]; v.push(seq(a.clone(), seq(c.clone(), k.clone()))); v.push(seq(seq(k.clone(), a.clone()), c.clone())); }
        }
    }
    v
}
fn np_sequence_family() -> Vec<Vec<GRule>> {
    use GE::*;
    let mut out = vec![];
    for (k, body) in np_sequences().into_iter().enumerate() {
        out.push(np_helpers(vec![nrule("a", seq(Rep(b(body.clone())), s("x")))]));
        out.push(np_helpers(vec![nrule("a", seq(s("x"), seq(Rep1(b(body.clone())), s("y"))))]));
        out.push(np_helpers(vec![nrule("a", seq(s("x"), s("x"))), rule(if k % 2 == 0 { "WHITESPACE" } else { "COMMENT" }, Ty::Silent, body.clone())]));
        out.push(np_helpers(vec![nrule("a", cho(seq(body.clone(), id("a")), s("x")))]));
        match k % 4 {
            0 => out.push(np_helpers(vec![nrule("a", seq(s("y"), RepMin(b(body.clone()), 1)))])),
            1 => out.push(np_helpers(vec![nrule("a", seq(s("x"), s("x"))), rule(if k % 8 == 1 { "COMMENT" } else { "WHITESPACE" }, Ty::Normal, body.clone())])),
            2 => out.push(np_helpers(vec![nrule("a", seq(seq(body.clone(), id("c")), s("x"))), rule("c", Ty::Silent, cho(seq(body.clone(), id("a")), s("y")))])),
            _ => out.push(np_helpers(vec![nrule("a", cho(seq(s("x"), body.clone()), s("y")))])),     // control: no repetition, no recursion
        }
    }
    out
}

/// the shapes of an enclosing rule around a repetition `rep` that sits behind something consuming
fn enclosing_shapes(rep: &GE) -> Vec<GE> {
    use GE::*;
    let guarded = || seq(s("x"), rep.clone());
    vec![
        cho(guarded(), s("")), Opt(b(guarded())), cho(guarded(), Pos(b(s("y")))), cho(guarded(), Neg(b(s("x")))), cho(guarded(), id("EOI")),
        seq(Neg(b(s("y"))), Opt(b(guarded()))), cho(seq(guarded(), Opt(b(s("y")))), s("")), cho(seq(id("ANY"), rep.clone()), Opt(b(s("y")))),
        cho(seq(s("x"), seq(Opt(b(s("y"))), rep.clone())), s("")), cho(s("y"), cho(guarded(), s(""))), RepMax(b(guarded()), 2),
        // controls: the enclosing rule always consumes / the nullable alternative comes first (unreachable second alternative)
        guarded(), cho(guarded(), s("y")), seq(guarded(), s("y")),
    ]
}
/// ways from a repetition body back to rule `a`: (body, extra rules)
fn ways_back() -> Vec<(GE, Vec<GRule>)> {
    use GE::*;
    vec![
        (id("a"), vec![]),
        (id("b"), vec![nrule("b", id("a"))]),
        (id("b"), vec![rule("b", Ty::Silent, id("c")), rule("c", Ty::Atomic, id("a"))]),
        (seq(s(""), id("b")), vec![nrule("b", id("a"))]),
        (seq(Neg(b(s("y"))), id("b")), vec![rule("b", Ty::Compound, id("a"))]),
        (id("b"), vec![nrule("b", seq(id("a"), Opt(b(s("y")))))]),
        (id("b"), vec![nrule("b", cho(seq(s("y"), s("y")), id("a")))]),
        (Push(b(id("b"))), vec![rule("b", Ty::NonAtomic, id("a"))]),
        // control: the way back consumes first
        (id("b"), vec![nrule("b", seq(s("y"), id("a")))]),
    ]
}
fn back_reference_family() -> Vec<Vec<GRule>> {
    use GE::*;
    let mut out = vec![];
    for (wi, (body, extra)) in ways_back().into_iter().enumerate() {
        let reps = [Rep(b(body.clone())), Rep1(b(body.clone())), RepMin(b(body.clone()), 2), RepMin(b(body.clone()), 0),
                    Opt(b(body.clone())), RepX(b(body.clone()), 2), RepMax(b(body.clone()), 2), RepMM(b(body.clone()), 1, 2)];
        for (ri, rep) in reps.iter().enumerate() {
            for (si, shape) in enclosing_shapes(rep).into_iter().enumerate() {
                // the bounded operators only in the first shapes, all rule types of the enclosing rule only for the plain way back
                if ri >= 4 && si >= 3 { continue; }
                let mut g = vec![nrule("a", shape.clone())];
                g.extend(extra.iter().cloned());
                out.push(g);
                if wi == 1 && ri < 2 && si < 2 {
                    for ty in [Ty::Silent, Ty::Atomic, Ty::Compound, Ty::NonAtomic] { let mut g = vec![rule("a", ty, shape.clone())]; g.extend(extra.iter().cloned()); out.push(g); }
                }
            }
        }
    }
    out
}

/// random grammars with arbitrary (also backward / self) references: gram::gen_expr, then leaves are rewired
fn rewire(e: &mut GE, r: &mut Rng, names: &[String], p: u64) {
    use GE::*;
    match e {
        Str(_) | Ins(_) | Range(..) | Id(_) => { if r.chance(p, 100) { *e = Id(r.pick(names).clone()); } }
        Pos(x) | Neg(x) | Opt(x) | Rep(x) | Rep1(x) | RepX(x, _) | RepMin(x, _) | RepMax(x, _) | RepMM(x, _, _) | Push(x) | Tag(_, x) | Roe(x) => rewire(x, r, names, p),
        Seq(l, r0) | Cho(l, r0) => { rewire(l, r, names, p); rewire(r0, r, names, p); }
        _ => {}
    }
}
fn inject_back_reference(r: &mut Rng, g: &mut Vec<GRule>, n: usize) {
    use GE::*;
    let k = r.below(n as u64) as usize;
    let j = r.below(n as u64) as usize;
    let (kn, jn) = (g[k].name.clone(), g[j].name.clone());
    let target = id(&jn);
    let body = match r.below(5) { 0 => seq(s(""), target), 1 => seq(Neg(b(s("y"))), target), 2 => Push(b(target)), _ => target };
    let rep = match r.below(6) { 0 | 1 => Rep(b(body)), 2 => Rep1(b(body)), 3 => RepMin(b(body), r.range(0, 2) as u32), 4 => Opt(b(body)), _ => RepMax(b(body), 2) };
    let consuming = match r.below(4) { 0 => id("ANY"), 1 => Range('x', 'y'), 2 => s("y"), _ => s("x") };
    let guarded = if r.chance(1, 4) { seq(consuming, seq(Opt(b(s("y"))), rep)) } else { seq(consuming, rep) };
    let empty_alt = match r.below(6) { 0 => Pos(b(s("y"))), 1 => Neg(b(s("x"))), 2 => Opt(b(s("y"))), 3 => id("EOI"), _ => s("") };
    let old = g[k].e.clone();
    g[k].e = match r.below(6) {
        0 => cho(guarded, empty_alt), 1 => Opt(b(guarded)), 2 => cho(guarded, old), 3 => seq(guarded, old),
        4 => cho(seq(guarded, Opt(b(s("y")))), empty_alt), _ => cho(s("y"), cho(guarded, empty_alt)),
    };
    if j != k && r.chance(2, 3) {
        // the referenced rule leads (back) to the enclosing rule
        let oldj = g[j].e.clone();
        g[j].e = match r.below(4) { 0 => id(&kn), 1 => cho(id(&kn), oldj), 2 => seq(id(&kn), Opt(b(oldj))), _ => cho(seq(s("y"), s("y")), id(&kn)) };
    }
}
fn inject_np_sequence(r: &mut Rng, g: &mut Vec<GRule>, n: usize) {
    use GE::*;
    let atoms: Vec<GE> = np_atoms().into_iter().filter(|e| !matches!(e, Id(x) if x == "la" || x == "em")).collect();
    let len = 2 + r.below(2) as usize;
    let mut body: Option<GE> = None;
    for _ in 0..len {
        let mut a = r.pick(&atoms).clone();
        if extras() && r.chance(1, 4) && !matches!(&a, Id(_)) { a = Tag("t".into(), b(a)); }
        body = Some(match body { None => a, Some(p) => if r.chance(1, 2) { seq(p, a) } else { seq(a, p) } });
    }
    let mut body = body.unwrap();
    if extras() && r.chance(1, 6) { body = Tag("u".into(), b(body)); }
    let k = r.below(n as u64) as usize;
    let j = r.below(n as u64) as usize;
    let jn = g[j].name.clone();
    let old = g[k].e.clone();
    g[k].e = match r.below(6) {
        0 => seq(Rep(b(body)), old), 1 => seq(s("x"), seq(Rep1(b(body)), old)), 2 => cho(seq(s("y"), RepMin(b(body), r.range(0, 2) as u32)), old),
        3 => cho(seq(body, id(&jn)), old), 4 => seq(seq(body, id(&jn)), Opt(b(old))), _ => seq(old, Rep(b(body))),
    };
}
fn random_grammar(r: &mut Rng) -> Vec<GRule> {
    let cfg = GenCfg { stack: r.chance(1, 8), extras: extras(), counts: r.chance(1, 2), builtins: r.chance(1, 3) };
    let n = 1 + r.below(4) as usize;
    let tys = [Ty::Normal, Ty::Normal, Ty::Silent, Ty::Atomic, Ty::Compound, Ty::NonAtomic];
    let mut names: Vec<String> = (0..n).map(|i| format!("r{}", i)).collect();
    match r.below(6) { 0 => names.push("WHITESPACE".into()), 1 => names.push("COMMENT".into()), 2 => { names.push("WHITESPACE".into()); names.push("COMMENT".into()); } _ => {} }
    let depth = 1 + r.below(3) as u32;
    let p = [5, 15, 30, 60][r.below(4) as usize];
    let mut g: Vec<GRule> = names.iter().enumerate().map(|(i, nm)| {
        let mut e = gen_expr(r, depth, i.min(n - 1), n, &cfg);
        rewire(&mut e, r, &names, p);
        GRule { name: nm.clone(), ty: tys[r.below(6) as usize], e }
    }).collect();
    // a repetition behind something consuming whose body refers to a rule (often one that leads back to the enclosing rule), while
    // the enclosing rule gets an alternative that succeeds without consuming
    if r.chance(1, 5) { inject_back_reference(r, &mut g, n); }
    // a sequence of two or three non-progressing elements of different kinds (sometimes tagged) as a repetition body / in front of a reference
    if r.chance(1, 6) { inject_np_sequence(r, &mut g, n); }
    // rare name defects
    match r.below(40) {
        0 => { let k = r.below(g.len() as u64) as usize; let d = g[k].clone(); g.push(d); }
        1 => { let k = r.below(g.len() as u64) as usize; g[k].e = seq(g[k].e.clone(), id("undefined_rule")); }
        2 => { let k = r.below(g.len() as u64) as usize; g[k].name = ["ANY", "EOI", "POP", "ASCII_DIGIT", "LETTER"][r.below(5) as usize].into(); }
        _ => {}
    }
    g
}

// ------------------------------------------------------------------------------------------------
// escalation: variants of the grammars on which the real validator and the model differ
// ------------------------------------------------------------------------------------------------
fn rep_like(e: &GE) -> Option<&GE> {
    use GE::*;
    match e { Rep(x) | Rep1(x) | RepMin(x, _) | RepX(x, _) | RepMax(x, _) | RepMM(x, _, _) | Opt(x) => Some(x), _ => None }
}
fn is_leaf_literal(e: &GE) -> bool { matches!(e, GE::Str(_) | GE::Ins(_) | GE::Range(..)) }
/// pre-order nodes of an expression with "is under a repetition operator"
fn nodes(e: &GE, under_rep: bool, out: &mut Vec<(GE, bool)>) {
    use GE::*;
    out.push((e.clone(), under_rep));
    match e {
        Rep(x) | Rep1(x) | RepMin(x, _) | RepX(x, _) | RepMax(x, _) | RepMM(x, _, _) => nodes(x, true, out),
        Pos(x) | Neg(x) | Opt(x) | Push(x) | Tag(_, x) | Roe(x) => nodes(x, under_rep, out),
        Seq(l, r) | Cho(l, r) => { nodes(l, under_rep, out); nodes(r, under_rep, out); }
        _ => {}
    }
}
/// replace the k-th node (pre-order) by f(node)
fn rewrite(e: &GE, k: &mut isize, f: &mut dyn FnMut(&GE) -> GE) -> GE {
    use GE::*;
    if *k == 0 { *k = -1; return f(e); }
    if *k < 0 { return e.clone(); }
    *k -= 1;
    let mut bx = |x: &GE, k: &mut isize| Box::new(rewrite(x, k, f));
    match e {
        Pos(x) => Pos(bx(x, k)), Neg(x) => Neg(bx(x, k)), Opt(x) => Opt(bx(x, k)), Rep(x) => Rep(bx(x, k)), Rep1(x) => Rep1(bx(x, k)),
        RepX(x, n) => RepX(bx(x, k), *n), RepMin(x, n) => RepMin(bx(x, k), *n), RepMax(x, n) => RepMax(bx(x, k), *n), RepMM(x, m, n) => RepMM(bx(x, k), *m, *n),
        Push(x) => Push(bx(x, k)), Tag(t, x) => Tag(t.clone(), bx(x, k)), Roe(x) => Roe(bx(x, k)),
        Seq(l, r) => { let l2 = bx(l, k); Seq(l2, bx(r, k)) } Cho(l, r) => { let l2 = bx(l, k); Cho(l2, bx(r, k)) }
        other => other.clone(),
    }
}
fn at(g: &[GRule], ri: usize, ni: usize, f: &mut dyn FnMut(&GE) -> GE) -> Vec<GRule> {
    let mut g2 = g.to_vec();
    let mut k = ni as isize;
    g2[ri].e = rewrite(&g[ri].e, &mut k, f);
    g2
}
fn fresh(g: &[GRule], stem: &str) -> String {
    let mut i = 1;
    loop { let n = format!("{}{}", stem, i); if !g.iter().any(|r| r.name == n) { return n; } i += 1; }
}
fn user_rule(g: &[GRule], n: &str) -> bool { g.iter().any(|r| r.name == n) }
/// index (pre-order, relative to `e`) of the first reference to a user rule / of the first literal leaf
fn first_node(g: &[GRule], e: &GE, want_ref: bool) -> Option<usize> {
    let mut v = vec![];
    nodes(e, false, &mut v);
    v.iter().position(|(x, _)| if want_ref { matches!(x, GE::Id(n) if user_rule(g, n)) } else { is_leaf_literal(x) })
}

/// One elementary change.  None when it does not apply at that node.
#[derive(Clone, Copy, Debug)]
enum Mu { Guard(u8), Op(u8), WrapRef(u8), Indirect(u8), BackRef(u8), Prefix(u8), Trail, RuleAlt(u8), RuleTy(u8) }
const N_RULE_ALT: u8 = 6;
fn apply(g: &[GRule], ri: usize, ni: usize, m: Mu) -> Option<Vec<GRule>> {
    use GE::*;
    let mut ns = vec![];
    nodes(&g[ri].e, false, &mut ns);
    let (node, under_rep) = ns.get(ni)?.clone();
    let is_ref = matches!(&node, Id(n) if user_rule(g, n));
    match m {
        // something consuming in front of a repetition / reference
        Mu::Guard(v) => {
            if rep_like(&node).is_none() && !is_ref { return None; }
            let c = match v { 0 => s("x"), 1 => id("ANY"), _ => seq(s("x"), Opt(b(s("y")))) };
            Some(at(g, ri, ni, &mut |e| seq(c.clone(), e.clone())))
        }
        // another repetition operator around the same body
        Mu::Op(v) => {
            let body = rep_like(&node)?.clone();
            let n2 = match v { 0 => Rep(b(body)), 1 => Rep1(b(body)), 2 => RepMin(b(body), 2), 3 => RepMin(b(body), 0), 4 => Opt(b(body)), 5 => RepX(b(body), 2), _ => RepMax(b(body), 2) };
            if n2 == node { return None; }
            Some(at(g, ri, ni, &mut |_| n2.clone()))
        }
        // an operator around a reference
        Mu::WrapRef(v) => {
            if !is_ref { return None; }
            Some(at(g, ri, ni, &mut |e| { let x = b(e.clone()); match v { 0 => Rep(x), 1 => Rep1(x), 2 => RepMin(x, 2), 3 => Opt(x), 4 => Neg(x), 5 => Pos(x), _ => Push(x) } }))
        }
        // the reference goes through one or two new rules
        Mu::Indirect(v) => {
            let Id(target) = &node else { return None; };
            if !is_ref { return None; }
            let f1 = fresh(g, "q");
            let mut g2 = at(g, ri, ni, &mut |_| id(&f1));
            match v {
                0 => g2.push(nrule(&f1, id(target))),
                1 => g2.push(rule(&f1, Ty::Silent, id(target))),
                2 => { g2.push(nrule(&f1, id("qq"))); let f2 = fresh(&g2, "q"); let last = g2.len() - 1; g2[last].e = id(&f2); g2.push(rule(&f2, Ty::Atomic, id(target))); }
                _ => g2.push(nrule(&f1, cho(seq(s("y"), s("y")), id(target)))),
            }
            Some(g2)
        }
        // a literal under a repetition becomes a reference back to the enclosing rule (or to another rule)
        Mu::BackRef(v) => {
            if !is_leaf_literal(&node) || !under_rep { return None; }
            let t = match v { 0 => g[ri].name.clone(), _ => g[(ri + v as usize) % g.len()].name.clone() };
            if v > 0 && t == g[ri].name { return None; }
            Some(at(g, ri, ni, &mut |_| id(&t)))
        }
        // an empty / look-ahead prefix
        Mu::Prefix(v) => {
            if rep_like(&node).is_none() && !is_ref { return None; }
            let pfx = match v { 0 => s(""), 1 => Neg(b(s("y"))), _ => Pos(b(s("x"))) };
            Some(at(g, ri, ni, &mut |e| seq(pfx.clone(), e.clone())))
        }
        Mu::Trail => { if rep_like(&node).is_none() && !is_ref { return None; } Some(at(g, ri, ni, &mut |e| seq(e.clone(), Opt(b(s("y")))))) }
        // the rule can succeed without consuming through a later alternative / `?` / a look-ahead
        Mu::RuleAlt(v) => {
            if ni != 0 { return None; }
            Some(at(g, ri, 0, &mut |e| { let e = e.clone(); match v { 0 => cho(e, s("")), 1 => Opt(b(e)), 2 => cho(e, Pos(b(s("y")))), 3 => seq(Neg(b(s("y"))), Opt(b(e))), 4 => cho(e, id("EOI")), _ => cho(e, Neg(b(s("x")))) } }))
        }
        Mu::RuleTy(v) => {
            if ni != 0 { return None; }
            let ty = [Ty::Normal, Ty::Silent, Ty::Atomic, Ty::Compound, Ty::NonAtomic][v as usize % 5];
            if ty == g[ri].ty { return None; }
            let mut g2 = g.to_vec(); g2[ri].ty = ty; Some(g2)
        }
    }
}
fn all_moves() -> Vec<Mu> {
    let mut v = vec![Mu::Trail];
    for i in 0..3 { v.push(Mu::Guard(i)); v.push(Mu::Prefix(i)); }
    for i in 0..7 { v.push(Mu::Op(i)); v.push(Mu::WrapRef(i)); }
    for i in 0..4 { v.push(Mu::Indirect(i)); }
    for i in 0..3 { v.push(Mu::BackRef(i)); }
    for i in 0..N_RULE_ALT { v.push(Mu::RuleAlt(i)); }
    for i in 0..5 { v.push(Mu::RuleTy(i)); }
    v
}
fn size_of(g: &[GRule]) -> usize { g.iter().map(|r| { let mut v = vec![]; nodes(&r.e, false, &mut v); v.len() }).sum() }

/// Variants of one grammar: (1) every single change; (2) the directed product around every repetition / reference -- operator x way back
/// to the enclosing rule (as it is, through one / two new rules, a literal of the body turned into a reference to the enclosing rule) x
/// something consuming in front x the enclosing rule made nullable through a later alternative / `?` / look-ahead; (3) random chains
/// of two to four changes.
fn variants(g0: &[GRule], r: &mut Rng, random_chains: usize, out: &mut Vec<Vec<GRule>>) {
    use GE::*;
    let moves = all_moves();
    let sites = |g: &[GRule]| -> Vec<(usize, usize)> {
        let mut v = vec![];
        for (ri, rl) in g.iter().enumerate() { let mut ns = vec![]; nodes(&rl.e, false, &mut ns); for ni in 0..ns.len() { v.push((ri, ni)); } }
        v
    };
    // (1)
    for (ri, ni) in sites(g0) { for m in &moves { if let Some(g) = apply(g0, ri, ni, *m) { out.push(g); } } }
    // (2)
    for (ri, ni) in sites(g0) {
        let mut ns = vec![];
        nodes(&g0[ri].e, false, &mut ns);
        let node = ns[ni].0.clone();
        let is_ref = matches!(&node, Id(n) if user_rule(g0, n));
        let bodies: Vec<GE> = if let Some(x) = rep_like(&node) { vec![x.clone()] } else if is_ref { vec![node.clone()] } else { continue };
        let body = bodies[0].clone();
        // ways back
        let mut ways: Vec<(GE, Vec<GRule>)> = vec![(body.clone(), vec![])];
        if let Some(k) = first_node(g0, &body, false) { let mut kk = k as isize; let me = g0[ri].name.clone(); ways.push((rewrite(&body, &mut kk, &mut |_| id(&me)), vec![])); }
        for (bd, _) in ways.clone() {
            if let Some(k) = first_node(g0, &bd, true) {
                let mut ns2 = vec![]; nodes(&bd, false, &mut ns2);
                let Id(target) = ns2[k].0.clone() else { continue };
                let q1 = fresh(g0, "q");
                let mut kk = k as isize;
                let via = rewrite(&bd, &mut kk, &mut |_| id(&q1));
                ways.push((via.clone(), vec![nrule(&q1, id(&target))]));
                let mut tmp = g0.to_vec(); tmp.push(nrule(&q1, s("")));
                let q2 = fresh(&tmp, "q");
                ways.push((via, vec![rule(&q1, Ty::Silent, id(&q2)), nrule(&q2, id(&target))]));
            }
        }
        for (bd, extra) in &ways {
            for op in 0..4u8 {
                let rep = match op { 0 => Rep(b(bd.clone())), 1 => Rep1(b(bd.clone())), 2 => RepMin(b(bd.clone()), 2), _ => match &node { Opt(_) | RepX(..) | RepMax(..) | RepMM(..) => { let mut k0 = 1isize; rewrite(&node, &mut k0, &mut |_| bd.clone()) } _ => continue } };
                for guard in 0..3u8 {
                    let placed = match guard { 0 => rep.clone(), 1 => seq(s("x"), rep.clone()), _ => seq(id("ANY"), rep.clone()) };
                    let mut g1 = at(g0, ri, ni, &mut |_| placed.clone());
                    g1.extend(extra.iter().cloned());
                    out.push(g1.clone());
                    for alt in 0..N_RULE_ALT { if let Some(g2) = apply(&g1, ri, 0, Mu::RuleAlt(alt)) { out.push(g2); } }
                }
            }
        }
    }
    // (3)
    for _ in 0..random_chains {
        let mut g = g0.to_vec();
        let steps = 2 + r.below(3);
        let mut done = 0;
        for _ in 0..steps * 6 {
            if done >= steps || size_of(&g) > 40 || g.len() > 6 { break; }
            let st = sites(&g);
            let (ri, ni) = *r.pick(&st);
            if let Some(g2) = apply(&g, ri, ni, *r.pick(&moves)) { g = g2; done += 1; }
        }
        if done >= 2 { out.push(g); }
    }
}

/// references to user rules replaced by the bodies of those rules (`depth` levels), what remains by a literal: the expression on its own
fn inline_refs(g: &[GRule], e: &GE, depth: u32) -> GE {
    use GE::*;
    let mut bx = |x: &GE| Box::new(inline_refs(g, x, depth));
    match e {
        // the literal that stands for a rule that is not unfolded any more depends on the rule, so that `!r0 ~ &r1` stays satisfiable
        Id(n) => match g.iter().position(|r| &r.name == n) { Some(i) => if depth == 0 { s(ALPHA[i % 3]) } else { inline_refs(g, &g[i].e, depth - 1) }, None => e.clone() },
        Pos(x) => Pos(bx(x)), Neg(x) => Neg(bx(x)), Opt(x) => Opt(bx(x)), Rep(x) => Rep(bx(x)), Rep1(x) => Rep1(bx(x)),
        RepX(x, n) => RepX(bx(x), *n), RepMin(x, n) => RepMin(bx(x), *n), RepMax(x, n) => RepMax(bx(x), *n), RepMM(x, m, n) => RepMM(bx(x), *m, *n),
        Push(x) => Push(bx(x)), Tag(t, x) => Tag(t.clone(), bx(x)), Roe(x) => Roe(bx(x)),
        Seq(l, r) => { let l2 = bx(l); Seq(l2, bx(r)) } Cho(l, r) => { let l2 = bx(l); Cho(l2, bx(r)) }
        other => other.clone(),
    }
}
/// The pieces of a grammar on their own (a differing grammar usually has several unrelated errors, and every variant of it keeps the other
/// ones): every repetition, every WHITESPACE / COMMENT body and every prefix of a sequence in front of a reference, with the references
/// replaced by the rule bodies (0-2 levels), placed in a one-rule grammar as repetition (as it is, `*`, `+`) at the start / behind a
/// consumed letter, as WHITESPACE / COMMENT, and as the prefix of a recursive call.
fn isolated(g0: &[GRule], out: &mut Vec<Vec<GRule>>) {
    use GE::*;
    for rl in g0 {
        let mut ns = vec![];
        nodes(&rl.e, false, &mut ns);
        let special = rl.name == "WHITESPACE" || rl.name == "COMMENT";
        for (ni, (node, _)) in ns.iter().enumerate() {
            let mut pieces: Vec<(GE, bool)> = vec![];      // (expression, is already a repetition)
            if let Some(body) = rep_like(node) { pieces.push((node.clone(), true)); pieces.push((body.clone(), false)); }
            if ni == 0 && special { pieces.push((node.clone(), false)); }
            if let Seq(l, r) = node { if first_node(g0, r, true).is_some() || first_node(g0, l, true).is_some() { pieces.push(((**l).clone(), false)); } }
            if let Tag(..) = node { pieces.push((node.clone(), false)); }
            for (piece, is_rep) in pieces {
                for depth in 0..3u32 {
                    let e = inline_refs(g0, &piece, depth);
                    if { let mut v = vec![]; nodes(&e, false, &mut v); v.len() } > 24 { continue; }
                    let reps: Vec<GE> = if is_rep { vec![e.clone()] } else { vec![Rep(b(e.clone())), Rep1(b(e.clone()))] };
                    for rp in reps {
                        out.push(vec![nrule("a", seq(rp.clone(), s("x")))]);
                        out.push(vec![nrule("a", seq(s("x"), seq(rp.clone(), s("y"))))]);
                    }
                    if !is_rep {
                        for sp in ["WHITESPACE", "COMMENT"] { out.push(vec![nrule("a", seq(s("x"), s("x"))), rule(sp, Ty::Silent, e.clone())]); }
                        out.push(vec![nrule("a", cho(seq(e.clone(), id("a")), s("x")))]);
                    }
                    if depth > 0 && first_node(g0, &piece, true).is_none() { break; }     // no references: the deeper levels are the same
                }
            }
        }
    }
}

fn escalate(path: &str, seed: u64, cap: usize) -> (Vec<Vec<GRule>>, usize) {
    let text = std::fs::read_to_string(path).unwrap_or_default();
    let mut starts: Vec<Vec<GRule>> = text.lines().filter(|l| !l.trim().is_empty()).filter_map(|l| catch(|| parse_sexp_grammar(l.trim())).ok()).collect();
    // the pieces of every differing grammar on their own come first (small, and free of the unrelated errors of the whole grammar)
    let mut pieces: Vec<Vec<GRule>> = vec![];
    for g in &starts { if size_of(g) <= 60 && g.len() <= 8 { isolated(g, &mut pieces); } }
    starts.retain(|g| size_of(g) <= 30 && g.len() <= 5);
    let mut r = Rng::new(seed);
    let mut seen = BTreeSet::new();
    let mut out: Vec<Vec<GRule>> = vec![];
    pieces.sort_by_key(|g| size_of(g));
    for g in pieces { if out.len() < cap / 3 && seen.insert(sexp_grammar(&g)) { out.push(g); } }
    // round robin over the starting grammars so that the cap does not cut whole families off
    let mut per_start: Vec<Vec<Vec<GRule>>> = starts.iter().map(|g| { let mut v = vec![g.clone()]; variants(g, &mut r, 60, &mut v); v }).collect();
    for v in per_start.iter_mut() { v.sort_by_key(|g| size_of(g)); v.reverse(); }   // pop() takes the smallest first
    loop {
        let mut any = false;
        for v in per_start.iter_mut() {
            for _ in 0..8 { if let Some(g) = v.pop() { any = true; if out.len() < cap && seen.insert(sexp_grammar(&g)) { out.push(g); } } }
        }
        if !any || out.len() >= cap { break; }
    }
    (out, starts.len())
}

fn emit_all(gs: &[Vec<GRule>], maxlen: usize, w: &mut impl Write) -> (u64, u64, u64, u64, u64) {
    let x = extras() as u8;
    let mut accepted: Vec<(String, String, String)> = vec![];   // (sexp, text, letters derived from the grammar) of accepted stack-free grammars
    let (mut n, mut ok, mut nontriv) = (0u64, 0u64, 0u64);
    let mut seen_nt = BTreeSet::new();
    for g in gs {
        let sx = sexp_grammar(g);
        let text = pest_grammar(g);
        let v = verdict_text(&text);
        writeln!(w, "V|{}|{}\t{}", x, sx, v).unwrap();
        n += 1;
        if nontrivial(g) && seen_nt.insert(sx.clone()) { nontriv += 1; }
        if v == "ok" { ok += 1; if !uses_stack(g) { accepted.push((sx, text, letters_field(&derived_letters(g)))); } }
    }
    w.flush().unwrap();
    let mut runs = 0u64; let mut bad = 0u64; let mut budgets = 0u64; let mut skipped = 0u64;
    for chunk in accepted.chunks(50) {
        // every exhausted CPU budget costs BUDGET_TICKS of CPU: once a run has produced enough of them (it fails anyway)
        // the remaining grammars are not executed any more, so that a broken tree cannot make the check run for minutes
        if budgets >= MAX_BUDGET_WITNESSES { skipped += chunk.len() as u64; continue; }
        let texts: Vec<(String, String)> = chunk.iter().map(|(_, t, l)| (l.clone(), t.clone())).collect();
        let res = termination(&texts, maxlen);
        for ((sx, _, _), o) in chunk.iter().zip(res.iter()) {
            writeln!(w, "T|{}|{}|{}\t{}", x, maxlen, sx, o).unwrap();
            if let Some(k) = o.strip_prefix("term ") { runs += k.parse::<u64>().unwrap_or(0); } else { bad += 1; if o.starts_with("budget") { budgets += 1; } }
        }
        w.flush().unwrap();
    }
    if skipped > 0 { writeln!(w, "#NOTE\ttermination_runs_skipped={}", skipped).unwrap(); }
    (n, ok, nontriv, runs, bad)
}

fn main() {
    quiet_panics();
    let mode = arg(1);
    let stdout = io::stdout();
    match mode.as_str() {
        "child" | "childv" => {
            // a 1 MB stack: a native overflow is reached (and the process killed) quickly
            let v = mode == "childv"; let ml = arg_u64(2, 4) as usize;
            std::thread::Builder::new().stack_size(1 << 20).spawn(move || child(ml, v)).unwrap().join().unwrap();
            return;
        }
        _ => {}
    }
    let mut w = BufWriter::with_capacity(1 << 20, stdout.lock());
    let gs: Vec<Vec<GRule>> = match mode.as_str() {
        "nearmiss" => near_miss(),
        "random" => { let count = arg_u64(2, 500); let mut rng = Rng::new(arg_u64(3, 0)); (0..count).map(|_| random_grammar(&mut rng)).collect() }
        "one" => vec![parse_sexp_grammar(&arg(2))],
        "escalate" => {
            // FILE = grammars (s-expressions, one per line) on which the real validator and the model differ
            let (gs, starts) = escalate(&arg(2), arg_u64(4, 1), arg_u64(5, 12000) as usize);
            writeln!(w, "#NOTE\tescalation_starts={}\tescalation_variants={}", starts, gs.len()).unwrap();
            gs
        }
        "names" => { writeln!(w, "{}", pest::unicode::unicode_property_names().collect::<Vec<_>>().join(" ")).unwrap(); return; }
        "probe" => {
            // is check_expr repaired?  the four witnesses of DESIGN.md section 4 row 2 must be rejected
            let ws = ["a = { a? ~ \"x\" }", "a = { !a ~ \"x\" }", "a = { a{2} }", "a = { b ~ \"x\" }\nb = { a? }"];
            let rejected = ws.iter().filter(|t| verdict_text(t).starts_with("err:lr")).count();
            let ok_valid = verdict_text("a = { \"\" ~ \"a\"? ~ \"a\"* ~ (\"a\" | \"b\") ~ a }") == "ok";
            // grammar-extras: does filter_map_top_down descend into node tags?  (`-` when built without the feature)
            let tag = if extras() { if verdict_text("r = { #t = (\"\"*) }").starts_with("err:rep_nf") { "1" } else { "0" } } else { "-" };
            writeln!(w, "#PROBE\tfix_leftrec={}\tfix_tag={}\twitnesses_rejected={}\tvalid_recursion_ok={}", (rejected == ws.len()) as u8, tag, rejected, ok_valid as u8).unwrap();
            return;
        }
        _ => { eprintln!("usage: c06 nearmiss [MAXLEN] | random COUNT SEED [MAXLEN] | one SEXP [MAXLEN] | escalate FILE [MAXLEN] [SEED] [CAP] | probe"); std::process::exit(2); }
    };
    let maxlen = match mode.as_str() { "nearmiss" => arg_u64(2, 4), "one" | "escalate" => arg_u64(3, 4), _ => arg_u64(4, 4) } as usize;
    let (n, ok, nontriv, runs, bad) = emit_all(&gs, maxlen, &mut w);
    writeln!(w, "#SUMMARY\tevaluations={}\tdistinct_nontrivial={}\taccepted={}\tvm_runs={}\tnonterminating={}", n, nontriv, ok, runs, bad).unwrap();
}
