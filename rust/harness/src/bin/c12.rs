//! C12 - a call limit never changes a result silently.
//! Sweeps the process-global call limit 1..calls+2 over (a) generated ParserState closure trees and
//! (b) generated small grammars run by the real pest_vm (and by their translation into closure trees),
//! and checks the property DIRECTLY on the real results:
//!   clause 1  result(L) == result(no limit)  or  result(L) is the "call limit reached" error
//!   clause 2  once result(L) completes (Ok / ParsingError), every larger limit gives the same result
//! Lines:  "<case>\t<observation>"  in the format of comb.rs (the model runner recomputes them),
//!         "CONTRACT\t<case>\t<message>"  on a violation of the property (message starts with C12-clause1/2)
//!                                          or on a disagreement Vm::parse vs translated tree (C12-xlate),
//!         "#SUMMARY\t..."
//! case = "lim=<n|-> det=<0|1> in=<hex> env=<p;p;..|-> prog=<p>"
use pvharness::prog::*;
use pvharness::*;
use std::collections::HashSet;
use std::io::{self, BufWriter, Write};
use std::num::NonZeroUsize;

#[derive(Clone)]
struct Case { lim: Option<usize>, det: bool, input: String, env: Vec<Prog>, prog: Prog }

impl Case {
    fn show(&self) -> String {
        format!("lim={} det={} in={} env={} prog={}", self.lim.map(|x| x.to_string()).unwrap_or("-".into()), self.det as u8, hex(&self.input),
            if self.env.is_empty() { "-".to_string() } else { self.env.iter().map(|p| p.show()).collect::<Vec<_>>().join(";") }, self.prog.show())
    }
    fn parse(s: &str) -> Case {
        let mut lim = None; let mut det = false;
        let ki = s.find(" in=").unwrap(); let ke = s.find(" env=").unwrap(); let kp = s.find(" prog=").unwrap();
        for f in s[..ki].split(' ') {
            if let Some(v) = f.strip_prefix("lim=") { lim = v.parse().ok(); }
            if let Some(v) = f.strip_prefix("det=") { det = v == "1"; }
        }
        let input = unhex(&s[ki + 4..ke]);
        let e = &s[ke + 5..kp];
        let env = if e != "-" { e.split(';').map(Prog::parse).collect() } else { vec![] };
        let prog = Prog::parse(&s[kp + 6..]);
        Case { lim, det, input, env, prog }
    }
    fn with(&self, lim: Option<usize>) -> Case { let mut c = self.clone(); c.lim = lim; c }
}

const BUDGET: u64 = 1200;
/// probe limit used to count the calls of the unlimited parse (its low 32 bits are large too)
const HUGE: usize = (1 << 40) + 1_000_000;
/// limits far beyond any call count, around the 32/64-bit boundaries: a limit that is narrowed, truncated or
/// reinterpreted somewhere must not turn a completed parse into an error (clause 2) or change it (clause 1)
fn huge_limits(n: u64) -> Vec<usize> {
    let mut v: Vec<usize> = vec![(1usize << 31) - 1, 1usize << 31, (1usize << 32) - 1, 1usize << 32, (1usize << 32) + 1,
        (1usize << 32) + n as usize, 1usize << 63, usize::MAX];
    v.sort(); v.dedup();
    v
}

/// One run on the real code.  text = observation in comb.rs format; outcome = what pest::state returned.
struct Obs { text: String, outcome: String, calls: Option<u64> }

fn tokens_of<'i>(pairs: pest::iterators::Pairs<'i, R>) -> String {
    let mut o = String::new();
    for t in pairs.tokens() {
        match t { pest::Token::Start { rule, pos } => o.push_str(&format!("S{}@{},", rule, pos.pos())), pest::Token::End { rule, pos } => o.push_str(&format!("E{}@{},", rule, pos.pos())) }
    }
    o
}

fn set_limit(l: Option<usize>) { pest::set_call_limit(l.and_then(NonZeroUsize::new)); }

fn calls_of_dump(d: &str) -> Option<u64> {
    for f in d.split(';') {
        if let Some(cl) = f.strip_prefix("cl=Some((") { return cl.split(',').next().and_then(|x| x.trim().parse().ok()); }
    }
    None
}

fn observe(c: &Case) -> Obs {
    // "no limit" is always reached by lifting a small limit: the unlimited reference result must not depend on an earlier setting
    if c.lim.is_none() { set_limit(Some(2)); }
    set_limit(c.lim);
    pest::set_error_detail(c.det);
    let cx = Ctx::new(&c.env, BUDGET);
    let r = catch(|| {
        let s = pest::ParserState::<R>::new(&c.input);
        match run(&c.prog, s, &cx) { Ok(s) => (true, s.verif_dump()), Err(s) => (false, s.verif_dump()) }
    });
    let o = match r {
        Err(_) => Obs { text: "Panic".into(), outcome: "Panic".into(), calls: None },
        Ok(_) if cx.diverged.get() => Obs { text: "Diverged".into(), outcome: "Diverged".into(), calls: None },
        Ok((ok, dump)) => {
            let cx2 = Ctx::new(&c.env, BUDGET);
            let st = catch(|| pest::state::<R, _>(&c.input, |s| run(&c.prog, s, &cx2)));
            let so = match st {
                Err(_) => "Panic".to_string(),
                Ok(Ok(pairs)) => match catch(|| tokens_of(pairs)) { Ok(t) => format!("OK:{}", t), Err(_) => "OK:tokens-panic".to_string() },
                Ok(Err(e)) => {
                    let at = match e.location { pest::error::InputLocation::Pos(p) => p.to_string(), pest::error::InputLocation::Span((a, b)) => format!("{}-{}", a, b) };
                    match e.variant {
                        pest::error::ErrorVariant::ParsingError { positives, negatives } => format!("PE:{:?}:{:?}@{}", positives, negatives, at),
                        pest::error::ErrorVariant::CustomError { message } => format!("CE:{}@{}", message, at),
                    }
                }
            };
            Obs { text: format!("{} {} || {}", if ok { "Ok" } else { "Err" }, dump, so), calls: calls_of_dump(&dump), outcome: so }
        }
    };
    set_limit(None);
    pest::set_error_detail(false);
    o
}

fn completes(o: &str) -> bool { o.starts_with("OK:") || o.starts_with("PE:") }
fn is_limit_error(o: &str) -> bool { o.starts_with("CE:call limit reached@") }

/// the limits to try for a parse that makes `n` calls: everything in 1..=n+2 when that is small,
/// otherwise the low limits, an even spread, and the neighbourhood of n
fn limits_for(n: u64) -> Vec<usize> {
    let top = n + 2;
    if top <= 48 { return (1..=top as usize).collect(); }
    let mut v: Vec<usize> = (1..=24).collect();
    for k in 1..=14u64 { v.push((24 + k * (n - 24) / 15) as usize); }
    for d in [n - 2, n - 1, n, n + 1, n + 2] { v.push(d as usize); }
    v.sort(); v.dedup();
    v
}

#[derive(Default)]
struct Stats {
    evaluations: u64, nontrivial: u64, sweeps: u64, sweeps_nontrivial: u64, diverged: u64, limit_errors: u64, same: u64,
    limit_panics: u64, limit_diverged: u64, violations: u64, max_calls: u64, vm_runs: u64, vm_rejected: u64, xlate: u64,
    unlimited_panics: u64, huge: u64, midparse: u64, midparse_bad: u64,
}

/// property bookkeeping over one sweep (results in increasing limit order); only the first violation of
/// each clause is returned as a message (the smallest limit), all are counted
struct Clauses { b: String, first_complete: Option<(usize, String)>, told1: bool, told2: bool }
impl Clauses {
    fn new(b: &str) -> Self { Clauses { b: b.to_string(), first_complete: None, told1: false, told2: false } }
    /// the violations of result `a` under limit `l`; `who` names the engine ("state" / "vm")
    fn check(&mut self, l: usize, a: &str, who: &str, st: &mut Stats) -> Vec<String> {
        let mut out = vec![];
        if a == self.b { st.same += 1; }
        else if is_limit_error(a) { st.limit_errors += 1; }
        else if a == "Panic" { st.limit_panics += 1; }
        else if a == "Diverged" { st.limit_diverged += 1; }
        else {
            st.violations += 1;
            if !self.told1 {
                self.told1 = true;
                out.push(format!("C12-clause1 [{}] limit {} changed the result silently: with the limit `{}`, without `{}`", who, l, a, self.b));
            }
        }
        if let Some((l0, a0)) = &self.first_complete {
            if a != a0 {
                st.violations += 1;
                if !self.told2 {
                    self.told2 = true;
                    out.push(format!("C12-clause2 [{}] the parse completed under limit {} with `{}` but under the larger limit {} it gives `{}`", who, l0, a0, l, a));
                }
            }
        } else if completes(a) { self.first_complete = Some((l, a.to_string())); }
        out
    }
}

// ------------------------------------------------------------------------------------------
// grammars: the real pest_vm, and its translation into a closure tree (mirror of vm/src/lib.rs)
// ------------------------------------------------------------------------------------------
use pest_meta::ast::RuleType;
use pest_meta::optimizer::{OptimizedExpr, OptimizedRule};

struct Gram { text: String, names: Vec<String>, vm: pest_vm::Vm, env: Vec<Prog>, start: Prog }

fn bx(p: Prog) -> Box<Prog> { Box::new(p) }
fn then(a: Prog, b: Prog) -> Prog { Prog::Then(bx(a), bx(b)) }
fn orelse(a: Prog, b: Prog) -> Prog { Prog::Else(bx(a), bx(b)) }

struct Xl<'a> { rules: &'a [OptimizedRule], unsupported: std::cell::Cell<bool> }
impl<'a> Xl<'a> {
    fn idx(&self, name: &str) -> Option<usize> { self.rules.iter().position(|r| r.name == name) }
    fn eoi_id(&self) -> R { self.rules.len() as R }
    /// Vm::parse_rule
    fn rule_call(&self, name: &str) -> Prog {
        use Prog::*;
        let rg = |a: char, b: char| Range(a, b);
        match name {
            "ANY" => return Skip(1),
            "EOI" => return Rule(self.eoi_id(), bx(Eoi)),
            "SOI" => return Soi,
            "PEEK" => return Peek, "PEEK_ALL" => return MPeek, "POP" => return Pop, "POP_ALL" => return MPop, "DROP" => return Drop,
            "ASCII_DIGIT" => return rg('0', '9'), "ASCII_NONZERO_DIGIT" => return rg('1', '9'), "ASCII_BIN_DIGIT" => return rg('0', '1'),
            "ASCII_OCT_DIGIT" => return rg('0', '7'),
            "ASCII_HEX_DIGIT" => return orelse(orelse(rg('0', '9'), rg('a', 'f')), rg('A', 'F')),
            "ASCII_ALPHA_LOWER" => return rg('a', 'z'), "ASCII_ALPHA_UPPER" => return rg('A', 'Z'),
            "ASCII_ALPHA" => return orelse(rg('a', 'z'), rg('A', 'Z')),
            "ASCII_ALPHANUMERIC" => return orelse(orelse(rg('a', 'z'), rg('A', 'Z')), rg('0', '9')),
            "ASCII" => return rg('\x00', '\x7f'),
            "NEWLINE" => return orelse(orelse(Str("\n".into()), Str("\r\n".into())), Str("\r".into())),
            _ => {}
        }
        match self.idx(name) { Some(i) => Call(i), None => { self.unsupported.set(true); Err } }
    }
    /// the body run by parse_rule for a user rule
    fn rule_body(&self, i: usize) -> Prog {
        use Prog::*;
        let r = &self.rules[i];
        let e = self.expr(&r.expr);
        let id = i as R;
        if r.name == "WHITESPACE" || r.name == "COMMENT" {
            match r.ty {
                RuleType::Normal | RuleType::Atomic => Rule(id, bx(Atomic(0, bx(e)))),
                RuleType::Silent => Atomic(0, bx(e)),
                RuleType::CompoundAtomic => Atomic(1, bx(Rule(id, bx(e)))),
                RuleType::NonAtomic => Atomic(0, bx(Rule(id, bx(e)))),
            }
        } else {
            match r.ty {
                RuleType::Normal => Rule(id, bx(e)),
                RuleType::Silent => e,
                RuleType::Atomic => Rule(id, bx(Atomic(0, bx(e)))),
                RuleType::CompoundAtomic => Atomic(1, bx(Rule(id, bx(e)))),
                RuleType::NonAtomic => Atomic(2, bx(Rule(id, bx(e)))),
            }
        }
    }
    /// Vm::skip
    fn skip(&self) -> Prog {
        use Prog::*;
        let ws = || self.rule_call("WHITESPACE");
        let cm = || self.rule_call("COMMENT");
        match (self.idx("WHITESPACE").is_some(), self.idx("COMMENT").is_some()) {
            (false, false) => Ok,
            (true, false) => IfNa(bx(Rep(bx(ws()))), bx(Ok)),
            (false, true) => IfNa(bx(Rep(bx(cm()))), bx(Ok)),
            (true, true) => {
                let inner = Rep(bx(Seq(bx(then(cm(), Rep(bx(ws())))))));
                IfNa(bx(Seq(bx(then(Rep(bx(ws())), inner)))), bx(Ok))
            }
        }
    }
    /// Vm::parse_expr
    fn expr(&self, e: &OptimizedExpr) -> Prog {
        use Prog::*;
        match e {
            OptimizedExpr::Str(s) => Str(s.clone()),
            OptimizedExpr::Insens(s) => Ins(s.clone()),
            OptimizedExpr::Range(a, b) => Range(a.chars().next().unwrap(), b.chars().next().unwrap()),
            OptimizedExpr::Ident(n) => self.rule_call(n),
            OptimizedExpr::PeekSlice(a, b) => Slice(*a, *b, true),
            OptimizedExpr::PosPred(x) => Look(true, bx(self.expr(x))),
            OptimizedExpr::NegPred(x) => Look(false, bx(self.expr(x))),
            OptimizedExpr::Seq(l, r) => Seq(bx(then(then(self.expr(l), self.skip()), self.expr(r)))),
            OptimizedExpr::Choice(l, r) => orelse(self.expr(l), self.expr(r)),
            OptimizedExpr::Opt(x) => Opt(bx(self.expr(x))),
            OptimizedExpr::Rep(x) => {
                let body = self.expr(x);
                Seq(bx(Opt(bx(then(body.clone(), Rep(bx(Seq(bx(then(self.skip(), body))))))))))
            }
            OptimizedExpr::Push(x) => Push(bx(self.expr(x))),
            OptimizedExpr::Skip(ss) => Until(ss.clone()),
            OptimizedExpr::RestoreOnErr(x) => Roe(bx(self.expr(x))),
            #[allow(unreachable_patterns)]
            _ => { self.unsupported.set(true); Err }     // grammar-extras shapes: not generated here
        }
    }
}

/// compile with the real front end (no call limit may be set here: it would limit the meta-parser too)
fn compile(text: &str) -> Option<Gram> {
    set_limit(None);
    let rules = match catch(|| pest_meta::parse_and_optimize(text)) { Ok(Ok((_, rules))) => rules, _ => return None };
    if rules.is_empty() { return None; }
    let xl = Xl { rules: &rules, unsupported: std::cell::Cell::new(false) };
    let env: Vec<Prog> = (0..rules.len()).map(|i| xl.rule_body(i)).collect();
    let start = xl.rule_call(&rules[0].name);
    if xl.unsupported.get() { return None; }
    let mut names: Vec<String> = rules.iter().map(|r| r.name.clone()).collect();
    names.push("EOI".into());
    Some(Gram { text: text.to_string(), names, vm: pest_vm::Vm::new(rules), env, start })
}

/// Vm::parse under a limit, rendered like the state() outcome of the translated tree (rule names -> indices)
fn vm_outcome(g: &Gram, input: &str, lim: Option<usize>, det: bool) -> String {
    let id = |n: &str| g.names.iter().position(|x| x == n).map(|i| i as i64).unwrap_or(-1);
    set_limit(lim);
    pest::set_error_detail(det);
    let start = g.names[0].clone();
    let r = catch(|| {
        match g.vm.parse(&start, input) {
            Ok(pairs) => {
                let mut o = String::from("OK:");
                for t in pairs.tokens() {
                    match t { pest::Token::Start { rule, pos } => o.push_str(&format!("S{}@{},", id(rule), pos.pos())), pest::Token::End { rule, pos } => o.push_str(&format!("E{}@{},", id(rule), pos.pos())) }
                }
                o
            }
            Err(e) => {
                let at = match e.location { pest::error::InputLocation::Pos(p) => p.to_string(), pest::error::InputLocation::Span((a, b)) => format!("{}-{}", a, b) };
                match e.variant {
                    pest::error::ErrorVariant::ParsingError { positives, negatives } => {
                        let mut p: Vec<i64> = positives.iter().map(|n| id(n)).collect(); p.sort(); p.dedup();
                        let mut n: Vec<i64> = negatives.iter().map(|n| id(n)).collect(); n.sort(); n.dedup();
                        format!("PE:{:?}:{:?}@{}", p, n, at)
                    }
                    pest::error::ErrorVariant::CustomError { message } => format!("CE:{}@{}", message, at),
                }
            }
        }
    });
    set_limit(None);
    pest::set_error_detail(false);
    r.unwrap_or_else(|_| "Panic".to_string())
}

// ------------------------------------------------------------------------------------------
// the sweep
// ------------------------------------------------------------------------------------------
struct Out<'a> { w: BufWriter<io::StdoutLock<'a>>, st: Stats, seen: HashSet<String> }

impl<'a> Out<'a> {
    fn line(&mut self, c: &Case, o: &Obs) { writeln!(self.w, "{}\t{}", c.show(), o.text).unwrap(); self.st.evaluations += 1; }
    fn contract(&mut self, c: &Case, msg: &str) { writeln!(self.w, "CONTRACT\t{}\t{}", c.show(), esc(msg)).unwrap(); }
}

/// all limits for one (tree, input, detail); `gram` = the grammar the tree was translated from, if any
fn sweep(base: &Case, gram: Option<&Gram>, out: &mut Out) {
    let c0 = base.with(None);
    let o0 = observe(&c0);
    out.line(&c0, &o0);
    out.st.sweeps += 1;
    if is_limit_error(&o0.outcome) || o0.text.contains("cl=Some(") {
        out.st.violations += 1;
        out.contract(&c0, &format!("C12-lift with no call limit set (set_call_limit(None) after an earlier set_call_limit(Some(2))) the parse still runs under a limit: `{}`", o0.text));
    }
    if o0.outcome == "Diverged" { out.st.diverged += 1; return; }
    if o0.outcome == "Panic" { out.st.unlimited_panics += 1; }
    let gtxt = gram.map(|g| format!(" grammar=`{}`", g.text)).unwrap_or_default();
    // the real VM without a limit
    let mut vm_cl = None;
    if let Some(g) = gram {
        let v = vm_outcome(g, &base.input, None, base.det);
        out.st.vm_runs += 1;
        if v != o0.outcome {
            out.st.xlate += 1;
            out.contract(&c0, &format!("C12-xlate Vm::parse gives `{}` but the translated closure tree gives `{}`{}", v, o0.outcome, gtxt));
        }
        vm_cl = Some(Clauses::new(&v));
    }
    // number of calls of the unlimited parse = the counter at the end of a run under a limit that is never reached
    let oh = observe(&base.with(Some(HUGE)));
    let n = oh.calls.unwrap_or(10);
    if n > out.st.max_calls { out.st.max_calls = n; }
    let mut cl = Clauses::new(&o0.outcome);
    let mut any_nontrivial = false;
    let mut all_limits = limits_for(n);
    all_limits.extend(huge_limits(n));
    for l in all_limits {
        let c = base.with(Some(l));
        let o = observe(&c);
        out.line(&c, &o);
        if l >= (1usize << 31) - 1 { out.st.huge += 1; }
        if 1 < l && (l as u64) < n && out.seen.insert(c.show()) { out.st.nontrivial += 1; any_nontrivial = true; }
        for m in cl.check(l, &o.outcome, "state", &mut out.st) { out.contract(&c, &format!("{}{}", m, gtxt)); }
        if let (Some(g), Some(vcl)) = (gram, vm_cl.as_mut()) {
            if o.outcome != "Diverged" {
                let v = vm_outcome(g, &base.input, Some(l), base.det);
                out.st.vm_runs += 1;
                if v != o.outcome {
                    out.st.xlate += 1;
                    out.contract(&c, &format!("C12-xlate Vm::parse gives `{}` but the translated closure tree gives `{}`{}", v, o.outcome, gtxt));
                }
                let mut vs = Stats::default();
                for m in vcl.check(l, &v, "vm", &mut vs) { out.contract(&c, &format!("{}{}", m, gtxt)); }
                out.st.violations += vs.violations;
            }
        }
    }
    if any_nontrivial { out.st.sweeps_nontrivial += 1; }
}

// ------------------------------------------------------------------------------------------
// generators
// ------------------------------------------------------------------------------------------
/// something that counts a call (and can therefore be refused)
fn refusable(rng: &mut Rng, depth: u32) -> Prog {
    use Prog::*;
    let inner = |rng: &mut Rng| if depth == 0 || rng.chance(1, 2) { leaf(rng, 0, None) } else { absorbing(rng, depth - 1) };
    match rng.below(8) {
        0 => Rule(rng.below(3) as R, bx(inner(rng))),
        1 => Seq(bx(inner(rng))),
        2 => Opt(bx(inner(rng))),
        3 => Push(bx(inner(rng))),
        4 => Atomic(rng.below(3) as u8, bx(inner(rng))),
        5 => Look(true, bx(inner(rng))),
        6 => Rep(bx(Rule(2, bx(Str(STRS[rng.below(2) as usize].to_string()))))),
        _ => then(PushLit("a".into()), Rule(1, bx(inner(rng)))),
    }
}
/// something that turns the Err of a refused call into Ok
fn absorbing(rng: &mut Rng, depth: u32) -> Prog {
    use Prog::*;
    let x = refusable(rng, depth);
    match rng.below(7) {
        0 => Opt(bx(x)),
        1 => Rep(bx(Seq(bx(then(Str(STRS[rng.below(2) as usize].to_string()), x))))),
        2 => Look(false, bx(x)),
        3 => orelse(x, Ok),
        4 => orelse(x, leaf(rng, 0, None)),
        5 => Rep(bx(x)),
        _ => Opt(bx(Opt(bx(x)))),
    }
}
fn gen_targeted(rng: &mut Rng) -> Prog {
    use Prog::*;
    let a = absorbing(rng, 2);
    let tail = match rng.below(7) { 0 => Ok, 1 => Eoi, 2 => Pop, 3 => Peek, 4 => Rule(0, bx(Str("b".into()))), 5 => absorbing(rng, 1), _ => leaf(rng, 0, None) };
    let body = then(a, tail);
    match rng.below(4) { 0 => Rule(0, bx(body)), 1 => Seq(bx(body)), 2 => then(PushLit("b".into()), body), _ => body }
}

const G_ATOMS: [&str; 16] = ["\"a\"", "\"b\"", "\"ab\"", "^\"a\"", "'a'..'b'", "ANY", "SOI", "EOI", "PEEK", "POP", "DROP", "PEEK_ALL", "POP_ALL",
    "PUSH(\"a\")", "ASCII_DIGIT", "PEEK[0..1]"];
fn g_expr(rng: &mut Rng, depth: u32, later: &[String]) -> String {
    if depth == 0 || rng.chance(1, 4) {
        if !later.is_empty() && rng.chance(2, 5) { return rng.pick(later).clone(); }
        return G_ATOMS[rng.weighted(&[8, 7, 3, 2, 3, 3, 1, 2, 2, 3, 1, 1, 1, 4, 1, 1])].to_string();
    }
    let sub = |rng: &mut Rng| g_expr(rng, depth - 1, later);
    let lit = |rng: &mut Rng| ["\"a\"", "\"b\"", "ANY"][rng.below(3) as usize].to_string();
    match rng.weighted(&[10, 7, 6, 7, 3, 2, 2, 3, 4, 3]) {
        0 => format!("({} ~ {})", sub(rng), sub(rng)),
        1 => format!("({} | {})", sub(rng), sub(rng)),
        2 => format!("{}?", par(&sub(rng))),
        3 => format!("({} ~ {})*", lit(rng), sub(rng)),
        4 => format!("({} ~ {})+", lit(rng), sub(rng)),
        5 => format!("{}{{2}}", par(&sub(rng))),
        6 => format!("{}{{1,2}}", par(&sub(rng))),
        7 => format!("&{}", par(&sub(rng))),
        8 => format!("!{}", par(&sub(rng))),
        _ => format!("PUSH({})", sub(rng)),
    }
}
fn par(s: &str) -> String { if s.starts_with('(') || !s.contains(' ') && !s.ends_with('?') && !s.ends_with('*') && !s.ends_with('+') && !s.ends_with('}') && !s.starts_with('&') && !s.starts_with('!') { s.to_string() } else { format!("({})", s) } }

fn gen_grammar(rng: &mut Rng) -> String {
    let n = rng.range(1, 3) as usize;
    let names: Vec<String> = (0..n).map(|i| format!("r{}", i)).collect();
    let mut g = String::new();
    for i in 0..n {
        let m = ["", "", "", "_", "@", "$", "!"][rng.below(7) as usize];
        let d = rng.range(1, 3) as u32;
        let mut e = g_expr(rng, d, &names[i + 1..]);
        if rng.chance(1, 6) { e = format!("\"a\" ~ {}? ~ {}", names[i], par(&e)); }   // guarded right recursion
        g.push_str(&format!("{} = {}{{ {} }}\n", names[i], m, e));
    }
    if rng.chance(2, 5) { g.push_str(&format!("WHITESPACE = {}{{ \" \" }}\n", ["_", "_", "", "@"][rng.below(4) as usize])); }
    if rng.chance(1, 8) { g.push_str(&format!("COMMENT = {}{{ \"#\" }}\n", ["_", ""][rng.below(2) as usize])); }
    g
}
fn gen_ginput(rng: &mut Rng, maxlen: u64, ws: bool) -> String {
    let n = rng.range(0, maxlen);
    (0..n).map(|_| ["a", "b", " ", "x", "#", "1"][rng.weighted(&[8, 5, if ws { 4 } else { 1 }, 1, if ws { 1 } else { 0 }, 1])]).collect()
}

// ------------------------------------------------------------------------------------------
// the witness of DESIGN.md section 4 row 1
// ------------------------------------------------------------------------------------------
const W_GRAMMAR: &str = "r = { a* }\na = { \"x\" }\n";
fn w_case() -> Case {
    use Prog::*;
    Case { lim: None, det: false, input: "xxxx".into(), env: vec![], prog: Rule(0, bx(Rep(bx(Rule(1, bx(Str("x".into()))))))) }
}
/// a panic that only the limited parse has (PanicClass of coq/props/C12.v), as tree and as grammar
const WP_GRAMMAR: &str = "r = @{ PUSH(\"a\")? ~ POP }\n";
fn wp_case() -> Case {
    use Prog::*;
    Case { lim: None, det: false, input: "a".into(), env: vec![], prog: then(Opt(bx(Opt(bx(PushLit("a".into()))))), Pop) }
}

/// a loop that only the limited parse has (excluded by the fuel hypothesis of the theorem): closure trees only
fn wd_case() -> Case {
    use Prog::*;
    Case { lim: None, det: false, input: "aab".into(), env: vec![],
           prog: Rep(bx(orelse(Seq(bx(then(PushLit("q".into()), Str("a".into())))), MPeek))) }
}

/// The limit of a parse is the one in force when its ParserState was created: changing the process-global limit
/// while the parse runs (here from inside a closure, deterministically) must not change that parse.
/// witness tree on "xxxx"; after `when` iterations of the repeat body the global limit is set to `to`.
fn midparse_outcome(lim: usize, change: Option<(usize, Option<usize>)>) -> String {
    set_limit(Some(lim));
    let count = std::cell::Cell::new(0usize);
    let st = catch(|| pest::state::<R, _>("xxxx", |s| s.rule(0, |s| s.repeat(|s| {
        count.set(count.get() + 1);
        if let Some((when, to)) = change { if count.get() == when { set_limit(to); } }
        s.rule(1, |s| s.match_string("x"))
    }))));
    set_limit(None);
    match st {
        Err(_) => "Panic".to_string(),
        Ok(Ok(pairs)) => format!("OK:{}", tokens_of(pairs)),
        Ok(Err(e)) => match e.variant {
            pest::error::ErrorVariant::ParsingError { positives, negatives } => format!("PE:{:?}:{:?}", positives, negatives),
            pest::error::ErrorVariant::CustomError { message } => format!("CE:{}", message),
        },
    }
}
fn midparse_check(out: &mut Out) {
    for lim in 1..=9usize { for when in 1..=4usize { for to in [None, Some(1usize), Some(3), Some(1usize << 40)] {
        let plain = midparse_outcome(lim, None);
        let changed = midparse_outcome(lim, Some((when, to)));
        out.st.midparse += 1;
        if plain != changed {
            out.st.midparse_bad += 1;
            if out.st.midparse_bad == 1 {
                out.contract(&w_case().with(Some(lim)), &format!("C12-midparse the parse started under limit {} gives `{}`, but `{}` when set_call_limit({:?}) is called from inside the closure after {} iterations: the limit of a running parse is not the one it started with", lim, plain, changed, to, when));
            }
        }
    } } }
}

fn small_progs() -> Vec<Prog> {
    use Prog::*;
    let s = |x: &str| Str(x.to_string());
    let refusables: Vec<Prog> = vec![Rule(2, bx(s("a"))), Seq(bx(s("a"))), Opt(bx(s("a"))), Push(bx(s("a"))), Atomic(0, bx(s("a"))), Look(true, bx(s("a"))),
        Rep(bx(Rule(2, bx(s("a"))))), then(PushLit("a".into()), Opt(bx(s("b")))), Roe(bx(Seq(bx(s("a")))))];
    let absorbers: Vec<fn(Prog) -> Prog> = vec![|x| Opt(bx(x)), |x| Rep(bx(Seq(bx(then(Str("a".into()), x))))), |x| Look(false, bx(x)), |x| orelse(x, Ok),
        |x| orelse(x, Str("b".into())), |x| Opt(bx(Opt(bx(x)))), |x| Rule(1, bx(Opt(bx(x)))), |x| Rep(bx(x))];
    let tails: Vec<Prog> = vec![Ok, Eoi, Pop, s("b"), Rule(0, bx(s("b"))), Err];
    let mut v = vec![];
    for a in &absorbers { for x in &refusables { for t in &tails {
        let body = then(a(x.clone()), t.clone());
        v.push(body.clone());
        v.push(Rule(0, bx(body)));
    } } }
    v
}
const SMALL_GRAMMARS: [&str; 12] = [
    "r = { a* }\na = { \"x\" }\n",
    "r = { a? ~ \"x\" }\na = { \"x\" ~ \"x\" }\n",
    "r = { !a ~ ANY }\na = { \"x\" }\n",
    "r = { (a | \"x\") ~ \"y\"? }\na = { \"x\" ~ \"y\" }\n",
    "r = @{ PUSH(\"x\")? ~ POP }\n",
    "r = { a+ ~ EOI }\na = @{ \"x\" | \"y\" }\nWHITESPACE = _{ \" \" }\n",
    "r = { (\"x\" ~ a)* }\na = _{ \"y\"? }\n",
    "r = ${ a{1,2} ~ !\"y\" }\na = { \"x\" }\n",
    "r = { \"x\" ~ r? ~ \"y\" }\n",
    "r = { PUSH(a) ~ (\"y\" | PEEK)* }\na = { \"x\" }\n",
    "r = !{ a ~ &a? ~ ANY* }\na = { \"x\" }\nWHITESPACE = { \" \" }\nCOMMENT = _{ \"#\" }\n",
    "r = { (!\"y\" ~ ANY)* ~ \"y\" }\n",
];
fn small_inputs(alpha: &[&str], n: usize) -> Vec<String> {
    let mut out = vec![String::new()];
    let mut layer = vec![String::new()];
    for _ in 0..n {
        let mut next = vec![];
        for w in &layer { for a in alpha { next.push(format!("{}{}", w, a)); } }
        out.extend(next.iter().cloned());
        layer = next;
    }
    out
}

fn main() {
    quiet_panics();
    let mode = arg(1);
    let stdout = io::stdout();
    let mut out = Out { w: BufWriter::with_capacity(1 << 20, stdout.lock()), st: Stats::default(), seen: HashSet::new() };
    let mut grammars_ok = 0u64;
    match mode.as_str() {
        // which state() is this tree?  (the witness under limit 3: Ok = as shipped, call-limit error = repaired)
        "probe" => {
            let o = observe(&w_case().with(Some(3)));
            let fixed = if o.outcome.starts_with("OK:") { 0 } else { 1 };
            writeln!(out.w, "#PROBE\tfixedlim={}\twitness_limit3={}", fixed, esc(&o.outcome)).unwrap();
        }
        // the witnesses, through the closure tree and through the real grammar
        "witness" => {
            sweep(&w_case(), None, &mut out);
            if let Some(g) = compile(W_GRAMMAR) { let c = Case { lim: None, det: false, input: "xxxx".into(), env: g.env.clone(), prog: g.start.clone() }; sweep(&c, Some(&g), &mut out); }
            sweep(&wp_case(), None, &mut out);
            sweep(&wd_case(), None, &mut out);
            midparse_check(&mut out);
            if let Some(g) = compile(WP_GRAMMAR) { let c = Case { lim: None, det: false, input: "aa".into(), env: g.env.clone(), prog: g.start.clone() }; sweep(&c, Some(&g), &mut out); }
        }
        // replay one case (its lim= field is ignored: the whole sweep is redone); optional grammar text as 3rd argument
        "one" => {
            let c = Case::parse(&arg(2));
            let gt = arg(3);
            if gt.is_empty() { sweep(&c, None, &mut out); }
            else if let Some(g) = compile(&gt.replace("\\n", "\n")) { let c2 = Case { lim: None, det: c.det, input: c.input.clone(), env: g.env.clone(), prog: g.start.clone() }; sweep(&c2, Some(&g), &mut out); }
        }
        // random closure trees x random inputs
        "prog" => {
            let count = arg_u64(2, 1000); let mut rng = Rng::new(arg_u64(3, 0));
            let mut i = 0;
            while i < count {
                let (env, prog) = if rng.chance(1, 2) { (vec![], gen_targeted(&mut rng)) } else {
                    let nfun = rng.below(3) as usize;
                    let env: Vec<Prog> = (0..nfun).map(|k| gen(&mut rng, 3, nfun, Some(k + 1))).collect();
                    let d = rng.range(2, 5) as u32;
                    (env, gen(&mut rng, d, nfun, Some(0)))
                };
                let det = rng.chance(1, 4);
                for _ in 0..2 {
                    let input = gen_input(&mut rng, 5);
                    sweep(&Case { lim: None, det, input, env: env.clone(), prog: prog.clone() }, None, &mut out);
                    i += 1;
                }
            }
        }
        // exhaustive: absorber x refusable x tail, all inputs up to a length; the fixed grammars on all inputs
        "small" => {
            let maxlen = arg_u64(2, 2) as usize;
            let inputs = small_inputs(&["a", "b"], maxlen);
            for p in small_progs() { for input in &inputs {
                sweep(&Case { lim: None, det: false, input: input.clone(), env: vec![], prog: p.clone() }, None, &mut out);
            } }
            // repetitions whose rounds make no call at all (bare repeat of a terminal, as generated for atomic rules) or consume
            // no input (stack-only bodies), on runs longer than any small limit, followed by readers of what is left
            {
                use Prog::*;
                let s = |x: &str| Str(x.to_string());
                let bodies: Vec<Prog> = vec![s("a"), Range('a', 'b'), orelse(s("a"), s("b")), Ins("A".into()), Cls(vec![('a', 'z')]), Skip(1), Peek, orelse(s("b"), Rule(2, bx(s("a"))))];
                let tails: Vec<Prog> = vec![Ok, Eoi, s("b"), Rule(0, bx(Eoi))];
                let runs = ["", "a", "aaa", "aaaaaa", "aaaaaaaaaaaa", "ababab", "aaab", "aaaaaaab"];
                for b in &bodies { for t in &tails { for wrap in 0..3 {
                    let rep = Rep(bx(b.clone()));
                    let body = match wrap { 0 => then(rep, t.clone()), 1 => then(PushLit("a".into()), then(rep, t.clone())), _ => Rule(1, bx(Atomic(0, bx(then(rep, t.clone()))))) };
                    for input in runs { sweep(&Case { lim: None, det: false, input: input.to_string(), env: vec![], prog: body.clone() }, None, &mut out); }
                } } }
                let pushes = |n: usize, rest: Prog| { let mut p = rest; for i in 0..n { p = then(PushLit(["a", "b", "ab"][i % 3].to_string()), p); } p };
                let stack_bodies: Vec<Prog> = vec![Drop, Seq(bx(Drop)), then(Look(true, bx(s("a"))), Drop), Opt(bx(Drop)).clone(), orelse(s("b"), Drop)];
                let readers: Vec<Prog> = vec![Ok, Drop, MPeek, Pop, Slice(0, None, true), then(Drop, Drop)];
                for n in 0..5 { for b in &stack_bodies { for rd in &readers {
                    if matches!(b, Opt(_)) { continue; }    // an always-succeeding body without progress never ends
                    let body = pushes(n, then(Rep(bx(b.clone())), rd.clone()));
                    for input in ["", "a", "ab", "ba"] { sweep(&Case { lim: None, det: false, input: input.to_string(), env: vec![], prog: body.clone() }, None, &mut out); }
                } } }
            }
            let ginputs = small_inputs(&["x", "y", " "], maxlen + 2);
            for gt in SMALL_GRAMMARS.iter() {
                let g = compile(gt).expect("fixed grammar must compile");
                grammars_ok += 1;
                for input in &ginputs {
                    sweep(&Case { lim: None, det: false, input: input.clone(), env: g.env.clone(), prog: g.start.clone() }, Some(&g), &mut out);
                }
            }
        }
        // random small grammars through pest_meta::parse_and_optimize + pest_vm::Vm::parse
        "grammar" => {
            let count = arg_u64(2, 200); let mut rng = Rng::new(arg_u64(3, 0));
            let mut i = 0; let mut tries = 0;
            while i < count && tries < count * 20 {
                tries += 1;
                let text = gen_grammar(&mut rng);
                let g = match compile(&text) { Some(g) => g, None => { out.st.vm_rejected += 1; continue; } };
                grammars_ok += 1;
                let ws = text.contains("WHITESPACE");
                let det = rng.chance(1, 5);
                for _ in 0..3 {
                    let input = gen_ginput(&mut rng, 5, ws);
                    sweep(&Case { lim: None, det, input, env: g.env.clone(), prog: g.start.clone() }, Some(&g), &mut out);
                    i += 1;
                }
            }
        }
        _ => { eprintln!("usage: c12 probe | witness | one CASE [GRAMMAR] | prog COUNT SEED | small MAXLEN | grammar COUNT SEED"); std::process::exit(2); }
    }
    let s = &out.st;
    writeln!(out.w, "#SUMMARY\tevaluations={}\tdistinct_nontrivial={}\tsweeps={}\tsweeps_nontrivial={}\tdiverged={}\tsame={}\tlimit_errors={}\tlimit_panics={}\tlimit_diverged={}\tunlimited_panics={}\thuge_limit_evaluations={}\tmidparse_checks={}\tmidparse_mismatches={}\tproperty_violations={}\tmax_calls={}\tvm_runs={}\tgrammars={}\tgrammars_rejected={}\txlate_mismatches={}",
        s.evaluations, s.nontrivial, s.sweeps, s.sweeps_nontrivial, s.diverged, s.same, s.limit_errors, s.limit_panics, s.limit_diverged, s.unlimited_panics, s.huge, s.midparse, s.midparse_bad, s.violations, s.max_calls, s.vm_runs, grammars_ok, s.vm_rejected, s.xlate).unwrap();
}
