//! C18 correspondence: the REAL shipped `pest_grammars::json::JsonParser` (derive-generated from
//! grammars/src/grammars/json.pest) on generated inputs; pest_vm on parse_and_optimize(json.pest) as a cross-check.
//! Lines:  <input hex>\t<observation>[\tVM=<observation of pest_vm when it differs>]
//! observation = "Ok <forest>" | "Err" | "Panic"
//! Modes:
//!   gram FILE                      the AST pest_meta reads from FILE, in gram.rs's s-expression format (translator cross-check)
//!   one HEX                        one input
//!   file PATH                      one input per line (hex), '#' comments
//!   exhaustive N SHARD NSHARDS     all strings of exactly N symbols over the JSON alphabet (ALPHA)
//!   random COUNT SEED [MAXDEPTH]   random documents of every shape (whitespace variations, all scalar kinds, escapes)
//!   near COUNT SEED                near-misses: mutations of valid documents
//!   deep DEPTH                     nesting chains up to DEPTH (arrays, objects, mixed)
use pest::Parser;
use pest_grammars::json::{JsonParser, Rule};
use pvharness::gram::*;
use pvharness::prog::{hex, unhex};
use pvharness::*;
use std::collections::HashSet;
use std::io::{self, BufWriter, Write};

const ALPHA: [&str; 16] = ["{", "}", "[", "]", ",", ":", "\"", "\\", "0", "1", "-", ".", "e", "true", "null", " "];

fn repo() -> String { std::env::var("VERIF_REPO").unwrap_or_else(|_| "/repo".to_string()) }

struct Ctx { vm: pest_vm::Vm, n: u64, ok: u64, vmdiff: u64, panics: u64, seen: HashSet<String> }

fn observe_derive(input: &str) -> (String, bool) {
    match catch(|| match JsonParser::parse(Rule::json, input) {
        Ok(pairs) => (format!("Ok {}", forest(pairs, &|r: Rule| format!("{:?}", r))), true),
        Err(e) => ("Err".to_string(), match e.location { pest::error::InputLocation::Pos(p) => p > 0, pest::error::InputLocation::Span((a, _)) => a > 0 }),
    }) { Ok(x) => x, Err(_) => ("Panic".to_string(), true) }
}
fn observe_vm(vm: &pest_vm::Vm, input: &str) -> String {
    match catch(|| match vm.parse("json", input) {
        Ok(pairs) => format!("Ok {}", forest(pairs, &|r: &str| r.to_string())),
        Err(_) => "Err".to_string(),
    }) { Ok(x) => x, Err(_) => "Panic".to_string() }
}

fn case(cx: &mut Ctx, w: &mut impl Write, input: &str) {
    let (d, progressed) = observe_derive(input);
    let v = observe_vm(&cx.vm, input);
    cx.n += 1;
    if d.starts_with("Ok") { cx.ok += 1; }
    if d == "Panic" { cx.panics += 1; }
    if (d.starts_with("Ok") || progressed) && !cx.seen.contains(input) { cx.seen.insert(input.to_string()); }
    if v != d { cx.vmdiff += 1; writeln!(w, "{}\t{}\tVM={}", hex(input), d, v).unwrap(); } else { writeln!(w, "{}\t{}", hex(input), d).unwrap(); }
}

// ---- generators ----
fn ws(r: &mut Rng) -> String {
    match r.weighted(&[10, 4, 1, 1, 1, 1]) {
        0 => String::new(), 1 => " ".into(), 2 => "\t".into(), 3 => "\n".into(), 4 => "\r\n".into(),
        _ => (0..r.range(2, 4)).map(|_| *r.pick(&[" ", "\t", "\n", "\r"])).collect(),
    }
}
fn digits(r: &mut Rng, lo: u64, hi: u64) -> String { (0..r.range(lo, hi)).map(|_| char::from(b'0' + r.below(10) as u8)).collect() }
fn number(r: &mut Rng) -> String {
    let mut s = String::new();
    if r.chance(1, 3) { s.push('-'); }
    if r.chance(1, 4) { s.push('0'); } else { s.push(char::from(b'1' + r.below(9) as u8)); s.push_str(&digits(r, 0, 3)); }
    if r.chance(1, 3) { s.push('.'); s.push_str(&digits(r, 1, 3)); }
    if r.chance(1, 3) { s.push(*r.pick(&['e', 'E'])); match r.below(3) { 0 => s.push('+'), 1 => s.push('-'), _ => {} } s.push_str(&digits(r, 1, 2)); }
    s
}
fn hex4(r: &mut Rng) -> String {
    let v = match r.below(6) { 0 => 0xD83D, 1 => 0xDE00, 2 => 0, 3 => 0x1F, 4 => 0xFFFF, _ => r.below(0x10000) as u32 };
    if r.chance(1, 2) { format!("{:04x}", v) } else { format!("{:04X}", v) }
}
fn string(r: &mut Rng) -> String {
    let mut s = String::from("\"");
    for _ in 0..r.weighted(&[3, 4, 3, 2, 1, 1]) {
        match r.weighted(&[8, 3, 5, 4, 1]) {
            0 => s.push(*r.pick(&['a', 'z', ' ', '0', '/', '{', ']', ',', ':', '\'', '!', '#', '[', ']', '~'])),
            1 => s.push(*r.pick(&['\u{7f}', '\u{80}', 'é', '\u{7ff}', '\u{800}', '€', '\u{d7ff}', '\u{e000}', '\u{ffff}', '\u{10000}', '😀', '\u{10ffff}', '\u{2028}', '\u{a0}'])),
            2 => { s.push('\\'); s.push(*r.pick(&['"', '\\', '/', 'b', 'f', 'n', 'r', 't'])); }
            3 => { s.push_str("\\u"); s.push_str(&hex4(r)); }
            _ => { s.push_str("\\uD83D\\uDE00"); }
        }
    }
    s.push('"');
    s
}
fn value(r: &mut Rng, depth: u32) -> String {
    let k = if depth == 0 { r.weighted(&[3, 3, 1, 1, 1, 0, 0]) } else { r.weighted(&[3, 3, 1, 1, 1, 5, 5]) };
    match k {
        0 => number(r), 1 => string(r), 2 => "true".into(), 3 => "false".into(), 4 => "null".into(),
        5 => {
            let n = r.weighted(&[2, 3, 3, 1]);
            let mut s = String::from("["); s.push_str(&ws(r));
            for i in 0..n { if i > 0 { s.push(','); s.push_str(&ws(r)); } s.push_str(&value(r, depth - 1)); s.push_str(&ws(r)); }
            s.push(']'); s
        }
        _ => {
            let n = r.weighted(&[2, 3, 3, 1]);
            let mut s = String::from("{"); s.push_str(&ws(r));
            for i in 0..n {
                if i > 0 { s.push(','); s.push_str(&ws(r)); }
                s.push_str(&string(r)); s.push_str(&ws(r)); s.push(':'); s.push_str(&ws(r)); s.push_str(&value(r, depth - 1)); s.push_str(&ws(r));
            }
            s.push('}'); s
        }
    }
}
fn document(r: &mut Rng, maxdepth: u32) -> String {
    let d = r.below(maxdepth as u64 + 1) as u32;
    format!("{}{}{}", ws(r), value(r, d), ws(r))
}

/// a near-miss: one targeted or generic mutation of a valid document
fn mutate(r: &mut Rng, doc: &str) -> String {
    let cs: Vec<char> = doc.chars().collect();
    let n = cs.len();
    let at = |r: &mut Rng, p: &dyn Fn(char) -> bool| -> Option<usize> {
        let idx: Vec<usize> = (0..n).filter(|&i| p(cs[i])).collect();
        if idx.is_empty() { None } else { Some(*r.pick(&idx)) }
    };
    let ins = |i: usize, s: &str| -> String { let mut o: String = cs[..i].iter().collect(); o.push_str(s); o.extend(cs[i..].iter()); o };
    let rep = |i: usize, s: &str| -> String { let i = i.min(n); let mut o: String = cs[..i].iter().collect(); o.push_str(s); if i < n { o.extend(cs[i + 1..].iter()); } o };
    if n == 0 { return (*r.pick(&ALPHA)).to_string(); }
    match r.below(16) {
        0 => at(r, &|c| c.is_ascii_digit()).map(|i| ins(i, "0")),                          // leading zero (or a longer number)
        1 => at(r, &|c| c.is_ascii_digit()).map(|i| rep(i, *r.pick(&["-", "+", ".", "e", "-.", "+1"]))),  // bare sign / dot / exponent
        2 => at(r, &|c| c == ']' || c == '}').map(|i| ins(i, *r.pick(&[",", ", ", ",,"]))),        // trailing comma
        3 => at(r, &|c| c == '"').map(|i| ins(i + 1, *r.pick(&["\u{0}", "\t", "\n", "\u{1f}", "\u{1}", "\r", "\u{7f}", "\u{1e}"]))), // control char in (or after) a string
        4 => at(r, &|c| c == '\\').map(|i| rep(i + 1, *r.pick(&["x", "a", "'", "0", "U", " ", "\n", "v", "e"]))),    // bad escape
        5 => at(r, &|c| c == 'u').map(|i| rep((i + 1 + r.below(4) as usize).min(n - 1), *r.pick(&["g", "G", "", " ", "\"", "x", "-"]))), // bad / short \u
        6 => Some(cs[..r.below(n as u64 + 1) as usize].iter().collect()),                   // truncation
        7 => Some(rep(r.below(n as u64) as usize, "")),                                     // deletion
        8 => { let i = r.below(n as u64) as usize; Some(ins(i, &cs[i].to_string())) }       // duplication
        9 => Some(rep(r.below(n as u64) as usize, *r.pick(&ALPHA))),                        // replacement
        10 => Some(ins(r.below(n as u64 + 1) as usize, *r.pick(&ALPHA))),                   // insertion
        11 => Some(ins(r.below(n as u64 + 1) as usize, *r.pick(&["\u{b}", "\u{c}", "\u{a0}", "\u{feff}", "\u{2028}", "\u{85}", "//", "/**/", "#"]))), // non-JSON whitespace / comments
        12 => at(r, &|c| c == 't' || c == 'f' || c == 'n').map(|i| rep(i, *r.pick(&["T", "F", "N", "tr", "nul", "fals"]))), // damaged literal
        13 => at(r, &|c| c == ':').map(|i| rep(i, *r.pick(&["=", "", "::", ","]))),
        14 => at(r, &|c| c == ',').map(|i| rep(i, *r.pick(&["", ";", ",,", ":"]))),
        _ => Some(format!("{}{}", doc, *r.pick(&["x", "0", ",", "]", "}", "\"", "null", "{}", "[]", "\u{0}"]))),  // trailing garbage / second value
    }.unwrap_or_else(|| cs[..n / 2].iter().collect())
}

fn nth_string(mut k: u64, len: usize) -> String {
    let mut parts = Vec::with_capacity(len);
    for _ in 0..len { parts.push(ALPHA[(k % 16) as usize]); k /= 16; }
    parts.concat()
}

fn main() {
    quiet_panics();
    let mode = arg(1);
    let stdout = io::stdout();
    let mut w = BufWriter::with_capacity(1 << 20, stdout.lock());
    if mode == "gram" {
        let text = std::fs::read_to_string(arg(2)).expect("cannot read grammar file");
        let pairs = pest_meta::parser::parse(pest_meta::parser::Rule::grammar_rules, &text).expect("grammar does not parse");
        let ast = pest_meta::parser::consume_rules(pairs).expect("grammar rejected");
        writeln!(w, "{}", sexp_grammar(&from_rules(&ast))).unwrap();
        return;
    }
    let path = format!("{}/grammars/src/grammars/json.pest", repo());
    let text = std::fs::read_to_string(&path).expect("cannot read json.pest");
    let (_, rules) = pest_meta::parse_and_optimize(&text).expect("json.pest rejected by pest_meta");
    let mut cx = Ctx { vm: pest_vm::Vm::new(rules), n: 0, ok: 0, vmdiff: 0, panics: 0, seen: HashSet::new() };
    match mode.as_str() {
        "one" => { let s = unhex(&arg(2)); case(&mut cx, &mut w, &s); }
        "file" => {
            let text = std::fs::read_to_string(arg(2)).expect("cannot read corpus file");
            for line in text.lines() { let l = line.trim(); if l.is_empty() || l.starts_with('#') { continue; } let s = unhex(l); case(&mut cx, &mut w, &s); }
        }
        "exhaustive" => {
            let len = arg_u64(2, 3) as usize; let shard = arg_u64(3, 0); let nsh = arg_u64(4, 1).max(1);
            let total = 16u64.pow(len as u32);
            let mut k = shard;
            while k < total { let s = nth_string(k, len); case(&mut cx, &mut w, &s); k += nsh; }
        }
        "random" => {
            let count = arg_u64(2, 1000); let mut r = Rng::new(arg_u64(3, 0)); let md = arg_u64(4, 5).min(20) as u32;
            for _ in 0..count { let d = document(&mut r, md); case(&mut cx, &mut w, &d); }
        }
        "near" => {
            let count = arg_u64(2, 1000); let mut r = Rng::new(arg_u64(3, 0));
            for _ in 0..count {
                let d = document(&mut r, 4);
                let mut m = mutate(&mut r, &d);
                if r.chance(1, 5) { m = mutate(&mut r, &m); }
                case(&mut cx, &mut w, &m);
            }
        }
        "deep" => {
            let depth = arg_u64(2, 20).min(20) as usize;
            for d in 0..=depth {
                for (o, c, inner) in [("[", "]", "0"), ("[ ", " ]", ""), ("{\"a\":", "}", "null"), ("[{\"k\" : ", "}]", "[]"), ("[", "", "1"), ("{\"a\":", "", "{}")] {
                    let s = format!("{}{}{}", o.repeat(d), inner, c.repeat(d));
                    case(&mut cx, &mut w, &s);
                }
            }
        }
        _ => { eprintln!("usage: c18 gram FILE | one HEX | file PATH | exhaustive N SHARD NSHARDS | random COUNT SEED [MAXDEPTH] | near COUNT SEED | deep DEPTH"); std::process::exit(2); }
    }
    writeln!(w, "#SUMMARY\tevaluations={}\tdistinct_nontrivial={}\taccepted={}\tvm_differs={}\tpanics={}", cx.n, cx.seen.len(), cx.ok, cx.vmdiff, cx.panics).unwrap();
}
