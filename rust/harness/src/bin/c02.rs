//! C02 harness: the code generator against its Gallina model and against the VM.
//!   c02 tv COUNT SEED          translation validation: generated grammars -> real optimizer -> REAL
//!                              pest_generator::derive_parser -> syn reader -> Prog per emitted fn
//!       U\t<name>\t<lo hi ...>                   the Unicode built-in table of this run
//!       T\t<x>\t<optimized grammar sexp>\t<read parser>     one per accepted grammar
//!       TE\t<x>\t<optimized grammar sexp>\t<error>          the emitted code could not be read
//!   c02 one GRAMMAR_TEXT       the same for one grammar given in pest syntax
//!   c02 batch COUNT SEED       Rust source of the behavioural batch (derive parsers + VM) on stdout
//!   c02 batch 0 SEED FILE [lit]     the same for exactly the grammars of FILE (one per line, escaped)
//!   c02 batch 0 SEED FILE around    FILE holds pinpointed constructs (ty, kind, what, construct, grammar): the batch is made of
//!                                   grammars built around them (c02_around.rs), run on inputs over each rule's own literals
//!   c02 witness                the witnesses of the three known classes, in pest syntax, one per line
#[path = "../genread.rs"]
mod genread;
#[path = "../c02_around.rs"]
mod c02_around;
use pvharness::gram::*;
use pvharness::*;
use quote::quote;
use std::cell::RefCell;
use std::collections::HashMap;
use std::io::{self, BufWriter, Write};

pub const UNICODE: [&str; 5] = ["WHITE_SPACE", "DECIMAL_NUMBER", "LOWERCASE_LETTER", "LATIN", "MATH"];
const NONKW_BUILTINS: [&str; 11] = ["ASCII_DIGIT", "ASCII_NONZERO_DIGIT", "ASCII_BIN_DIGIT", "ASCII_OCT_DIGIT", "ASCII_HEX_DIGIT", "ASCII_ALPHA_LOWER",
    "ASCII_ALPHA_UPPER", "ASCII_ALPHA", "ASCII_ALPHANUMERIC", "ASCII", "NEWLINE"];

thread_local! { static RANGES: RefCell<HashMap<String, Option<Vec<(char, char)>>>> = RefCell::new(HashMap::new()); }
fn ranges(name: &str) -> Option<Vec<(char, char)>> {
    RANGES.with(|c| c.borrow_mut().entry(name.to_string()).or_insert_with(|| {
        let f = pest::unicode::by_name(name)?;
        let mut out: Vec<(char, char)> = vec![];
        let mut cur: Option<(char, char)> = None;
        for cp in 0..=0x10FFFFu32 {
            let c = match char::from_u32(cp) { Some(c) => c, None => { if let Some(r) = cur.take() { out.push(r); } continue; } };
            if f(c) { cur = Some(match cur { Some((a, _)) => (a, c), None => (c, c) }); } else if let Some(r) = cur.take() { out.push(r); }
        }
        if let Some(r) = cur { out.push(r); }
        Some(out)
    }).clone())
}

// ------------------------------------------------------------------------------------------------
// grammar generator: gram::gen_grammar plus what C02 quantifies over
// ------------------------------------------------------------------------------------------------
fn map_ge(e: &GE, f: &mut dyn FnMut(&GE) -> Option<GE>) -> GE {
    use GE::*;
    if let Some(x) = f(e) { return x; }
    let mut b = |x: &GE| Box::new(map_ge(x, f));
    match e {
        Pos(x) => Pos(b(x)), Neg(x) => Neg(b(x)), Opt(x) => Opt(b(x)), Rep(x) => Rep(b(x)), Rep1(x) => Rep1(b(x)), Push(x) => Push(b(x)), Roe(x) => Roe(b(x)),
        Seq(l, r) => { let l = b(l); Seq(l, b(r)) } Cho(l, r) => { let l = b(l); Cho(l, b(r)) }
        RepX(x, n) => RepX(b(x), *n), RepMin(x, n) => RepMin(b(x), *n), RepMax(x, n) => RepMax(b(x), *n), RepMM(x, m, n) => RepMM(b(x), *m, *n),
        Tag(t, x) => Tag(t.clone(), b(x)), x => x.clone(),
    }
}

/// several pushes of different literals followed by one of the stack readers (whole stack, top, slices with every kind of bound,
/// bounded and unbounded), bare and under a predicate / alternative / repetition, in rules of every modifier
pub fn gen_stack_readers(r: &mut Rng) -> Vec<GRule> {
    use GE::*;
    let tys = [Ty::Normal, Ty::Normal, Ty::Atomic, Ty::Compound, Ty::NonAtomic, Ty::Silent];
    let n = 2 + r.below(2) as usize;
    let b = |e: GE| Box::new(e);
    let mut rules: Vec<GRule> = vec![];
    for i in 0..n {
        let lits = [["x", "y", "5"], ["y", "x", "x"], ["x", "5", "y"], ["xy", "x", "y"]][r.below(4) as usize];
        let depth = 2 + r.below(2) as usize;
        let reader = match r.below(9) {
            0 => Id("PEEK_ALL".into()), 1 => Id("POP_ALL".into()), 2 => Id("PEEK".into()), 3 => Seq(b(Id("POP".into())), b(Id("POP".into()))),
            4 | 5 => Slice(0, None),
            6 => Slice(r.below(3) as i32, None),
            7 => Slice(-(1 + r.below(3) as i32), None),
            _ => Slice(r.below(4) as i32 - 1, Some(r.below(5) as i32 - 2)),
        };
        let used = match r.below(6) {
            0 => Seq(b(Pos(b(reader.clone()))), b(reader)), 1 => Cho(b(Seq(b(Str("5".into())), b(Str("5".into())))), b(reader)),
            2 => Rep(b(Seq(b(Str(lits[0].into())), b(reader)))), 3 => Seq(b(Neg(b(reader))), b(Rep(b(Id("ANY".into()))))),
            _ => reader,
        };
        let mut e = used;
        if r.chance(1, 3) { e = Seq(b(e), b(Id(["EOI", "DROP", "POP"][r.below(3) as usize].into()))); }
        for k in (0..depth).rev() { e = Seq(b(Push(b(Str(lits[k].into())))), b(e)); }
        if i + 1 < n && r.chance(1, 3) { e = Seq(b(e), b(Opt(b(Id(format!("r{}", i + 1)))))); }
        rules.push(GRule { name: format!("r{}", i), ty: tys[r.below(6) as usize], e });
    }
    rules
}

// ------------------------------------------------------------------------------------------------
// operands that change the stack and then fail
// ------------------------------------------------------------------------------------------------
fn bx(e: GE) -> Box<GE> { Box::new(e) }
fn idn(n: &str) -> GE { GE::Id(n.to_string()) }
fn lit1(s: &str) -> GE { GE::Str(s.to_string()) }
fn seq_of(v: Vec<GE>) -> GE { let mut it = v.into_iter().rev(); let mut acc = it.next().expect("non-empty sequence"); for x in it { acc = GE::Seq(bx(x), bx(acc)); } acc }

/// the operands whose failure leaves the stack changed unless something restores it: a pop takes the entry off the stack BEFORE it
/// compares it with the input; directly, pushed again, behind a rule call (`hp = { POP }`, `hq = _{ POP_ALL }`); DROP and PUSH(PEEK)
/// as the neighbours that change the stack only when they succeed
fn stack_operands() -> Vec<GE> {
    use GE::*;
    vec![idn("POP"), Push(bx(idn("POP"))), Push(bx(idn("hp"))), idn("hp"), Push(bx(idn("POP_ALL"))), idn("POP_ALL"), idn("hq"), Push(bx(idn("hq"))),
         idn("DROP"), Push(bx(idn("PEEK")))]
}
/// can match the empty string on an empty stack (a repetition of it does not terminate)
fn may_spin(e: &GE) -> bool { let mut spin = false; walk_ge(e, &mut |x| if let GE::Id(n) = x { if n == "POP_ALL" || n == "hq" || n == "PEEK_ALL" { spin = true; } }); spin }
fn walk_ge(e: &GE, f: &mut dyn FnMut(&GE)) {
    use GE::*;
    f(e);
    match e {
        Pos(x) | Neg(x) | Opt(x) | Rep(x) | Rep1(x) | Push(x) | Roe(x) | RepX(x, _) | RepMin(x, _) | RepMax(x, _) | RepMM(x, _, _) | Tag(_, x) => walk_ge(x, f),
        Seq(l, r) | Cho(l, r) => { walk_ge(l, f); walk_ge(r, f); }
        _ => {}
    }
}
fn stack_tails() -> Vec<Vec<GE>> {
    vec![vec![idn("POP"), idn("POP")], vec![idn("PEEK_ALL")], vec![lit1("5"), idn("POP")], vec![GE::Slice(0, None), idn("EOI")], vec![idn("POP_ALL"), idn("EOI")], vec![idn("PEEK"), idn("DROP"), idn("PEEK")]]
}
fn wrap_operand(o: &GE, k: usize) -> Option<GE> {
    use GE::*;
    match k {
        0 => Some(Opt(bx(o.clone()))),
        1 => if may_spin(o) { None } else { Some(Rep(bx(o.clone()))) },
        2 => Some(Cho(bx(o.clone()), bx(lit1("5")))),
        _ => Some(Cho(bx(lit1("5")), bx(o.clone()))),
    }
}
fn stack_helpers(tp: Ty, tq: Ty) -> Vec<GRule> { vec![GRule { name: "hp".into(), ty: tp, e: idn("POP") }, GRule { name: "hq".into(), ty: tq, e: idn("POP_ALL") }] }

/// the restore-on-error differential: every stack-changing operand as the WHOLE operand of `?`, `*` and of either alternative of `|`
/// (the places where the optimizer asks for restore_on_err), below two unequal stack entries, followed by stack readers, in normal and
/// atomic rules (the generator has one emitter for each)
pub fn restore_family() -> Vec<String> {
    let mut rules: Vec<GRule> = vec![];
    let tails = stack_tails();
    let mut i = 0usize;
    for o in stack_operands() {
        for k in 0..4 {
            let w = match wrap_operand(&o, k) { Some(w) => w, None => continue };
            let mut v = vec![GE::Push(bx(lit1("x"))), GE::Push(bx(lit1("y"))), w];
            v.extend(tails[(i / 2) % 2].iter().cloned());
            rules.push(GRule { name: format!("r{}", i), ty: if i % 2 == 0 { Ty::Normal } else { Ty::Atomic }, e: seq_of(v) });
            i += 1;
        }
    }
    let mut out = vec![];
    for chunk in rules.chunks(20) { let mut g = chunk.to_vec(); g.extend(stack_helpers(Ty::Normal, Ty::Silent)); out.push(pest_grammar(&g)); }
    // the repetitions that must match at least once / a counted number of times: every operand as the whole body of `+`, `{1,}`, `{1,3}`,
    // `{2}`, in normal, atomic and compound-atomic rules (one emitter each, and another one with grammar-extras), below two or three
    // unequal entries, followed by readers of the WHOLE stack (an element lost by the failing last repetition changes what they match)
    let mut more: Vec<GRule> = vec![];
    let mut j = 0usize;
    for o in stack_operands() {
        for k in 0..4 {
            if may_spin(&o) && k < 2 { continue; }
            let w = match k { 0 => GE::Rep1(bx(o.clone())), 1 => GE::RepMin(bx(o.clone()), 1), 2 => GE::RepMM(bx(o.clone()), 1, 3), _ => GE::RepX(bx(o.clone()), 2) };
            for ty in [Ty::Atomic, Ty::Compound, Ty::Normal] {
                let mut v = vec![GE::Push(bx(lit1("x"))), GE::Push(bx(lit1("y")))];
                if j % 3 == 2 { v.push(GE::Push(bx(lit1("5")))); }
                v.push(w.clone());
                v.extend(match j % 4 { 0 => vec![idn("PEEK_ALL")], 1 => vec![GE::Slice(0, None), idn("EOI")], 2 => vec![idn("POP_ALL"), idn("EOI")], _ => vec![opt(lit1(" ")), idn("PEEK_ALL"), idn("DROP")] });
                more.push(GRule { name: format!("m{}", j), ty, e: seq_of(v) });
                j += 1;
            }
        }
    }
    for chunk in more.chunks(24) { out.push(pest_grammar(&keep_valid(stack_helpers(Ty::Normal, Ty::Silent), chunk.to_vec()))); }
    out
}

/// the Unicode-property differential: one rule per property name of pest::unicode (binary properties, general categories, scripts),
/// bare; the batch runs each on the code points around every boundary of the property's table and on a spread over all planes
pub fn unicode_family() -> Vec<String> {
    let names: Vec<&'static str> = pest::unicode::unicode_property_names().collect();
    let mut out = vec![];
    for chunk in names.chunks(44) {
        let cands: Vec<GRule> = chunk.iter().map(|n| rule(&format!("u_{}", n.to_lowercase()), Ty::Normal, idn(n))).collect();
        let g = keep_valid(vec![], cands);
        if !g.is_empty() { out.push(pest_grammar(&g)); }
    }
    out
}

/// case-insensitive literals with cased letters outside ASCII (`^".."` folds ASCII letters only: every other byte must be in the input
/// as it is in the grammar), in rules of every kind of emitter, bare / repeated / under predicates / after a push
pub fn insens_family() -> Vec<String> {
    let lits = ["\u{c9}cole", "\u{41f}\u{420}\u{418}\u{412}\u{415}\u{422}", "\u{130}stanbul", "Stra\u{df}e", "\u{1c5}x", "y\u{3a3}\u{391}\u{3a3}", "\u{e9}T\u{c9}", "K\u{212a}k"];
    let mut cands = vec![];
    for (i, l) in lits.iter().enumerate() {
        let ins = || GE::Ins(l.to_string());
        cands.push(rule(&format!("i{}_n", i), Ty::Normal, ins()));
        cands.push(rule(&format!("i{}_a", i), Ty::Atomic, seq_of(vec![ins(), opt(lit1("x"))])));
        match i % 4 {
            0 => cands.push(rule(&format!("i{}_r", i), Ty::Compound, seq_of(vec![rep1(ins()), idn("EOI")]))),
            1 => cands.push(rule(&format!("i{}_p", i), Ty::Normal, seq_of(vec![GE::Neg(bx(ins())), idn("ANY")]))),
            2 => cands.push(rule(&format!("i{}_s", i), Ty::Atomic, seq_of(vec![GE::Push(bx(ins())), lit1("x"), idn("POP")]))),
            _ => cands.push(rule(&format!("i{}_c", i), Ty::Normal, cho(seq_of(vec![ins(), lit1("x")]), seq_of(vec![GE::Pos(bx(ins())), idn("ANY")])))),
        }
    }
    // ranges whose bounds are not ASCII (2-, 3- and 4-byte bounds), and literals that put characters inside and outside them
    // (and the Latin-1 characters of the bounds' first bytes) into the input alphabet
    let ranges = [('\u{3b1}', '\u{3c9}'), ('\u{e0}', '\u{ff}'), ('a', '\u{e9}'), ('\u{4e00}', '\u{9fff}'), ('\u{1f600}', '\u{1f64f}'), ('\u{7f}', '\u{80}')];
    for (i, (a, b)) in ranges.iter().enumerate() {
        let rg = || GE::Range(*a, *b);
        cands.push(rule(&format!("g{}_n", i), Ty::Normal, rg()));
        cands.push(rule(&format!("g{}_a", i), Ty::Atomic, seq_of(vec![rep1(rg()), idn("EOI")])));
        cands.push(rule(&format!("g{}_p", i), Ty::Compound, rep1(seq_of(vec![GE::Neg(bx(rg())), idn("ANY")]))));
    }
    for (i, l) in ["\u{3b2}", "\u{ce}", "\u{cf}", "\u{e4}", "\u{4e2d}", "\u{e4}\u{b8}", "\u{1f601}", "\u{f0}", "\u{7f}", "\u{80}", "z", "\u{3c9}", "\u{3ca}"].iter().enumerate() {
        cands.push(rule(&format!("gl{}", i), Ty::Normal, lit1(l)));
    }
    vec![pest_grammar(&keep_valid(vec![], cands))]
}

/// random members of the same family: 1-3 pushes, the operand alone / in a choice with a literal / pushed twice, any of the wrappers,
/// an optional literal, any of the readers
pub fn gen_failing_stack_change(r: &mut Rng) -> Vec<GRule> {
    use GE::*;
    let tys = [Ty::Normal, Ty::Normal, Ty::Atomic, Ty::Compound, Ty::NonAtomic, Ty::Silent];
    let ops = stack_operands();
    let tails = stack_tails();
    let n = 2 + r.below(2) as usize;
    let mut rules: Vec<GRule> = vec![];
    for i in 0..n {
        let lits = [["x", "y", "5"], ["y", "x", "x"], ["x", "5", "y"], ["xy", "x", "y"]][r.below(4) as usize];
        let depth = 1 + r.below(3) as usize;
        let mut o = ops[r.below(ops.len() as u64) as usize].clone();
        match r.below(6) { 0 => o = Push(bx(o)), 1 => o = Push(bx(Cho(bx(o), bx(lit1("5"))))), _ => {} }
        let w = match wrap_operand(&o, r.below(4) as usize) { Some(w) => w, None => Opt(bx(o)) };
        let mut v: Vec<GE> = (0..depth).map(|k| Push(bx(lit1(lits[k])))).collect();
        v.push(w);
        if r.chance(1, 3) { v.push(Opt(bx(lit1(" ")))); }
        v.extend(tails[r.below(tails.len() as u64) as usize].iter().cloned());
        if i + 1 < n && r.chance(1, 4) { v.push(Opt(bx(idn(&format!("r{}", i + 1))))); }
        rules.push(GRule { name: format!("r{}", i), ty: tys[r.below(6) as usize], e: seq_of(v) });
    }
    let hty = [Ty::Normal, Ty::Silent, Ty::Atomic, Ty::Compound];
    rules.extend(stack_helpers(hty[r.below(4) as usize], hty[r.below(4) as usize]));
    rules
}

// ------------------------------------------------------------------------------------------------
// user rules named like built-ins
// ------------------------------------------------------------------------------------------------
const ASCII_CLASSES: [(&str, &[(char, char)]); 11] = [
    ("ASCII_DIGIT", &[('0', '9')]), ("ASCII_NONZERO_DIGIT", &[('1', '9')]), ("ASCII_BIN_DIGIT", &[('0', '1')]), ("ASCII_OCT_DIGIT", &[('0', '7')]),
    ("ASCII_HEX_DIGIT", &[('0', '9'), ('a', 'f'), ('A', 'F')]), ("ASCII_ALPHA_LOWER", &[('a', 'z')]), ("ASCII_ALPHA_UPPER", &[('A', 'Z')]),
    ("ASCII_ALPHA", &[('a', 'z'), ('A', 'Z')]), ("ASCII_ALPHANUMERIC", &[('a', 'z'), ('A', 'Z'), ('0', '9')]), ("ASCII", &[('\x00', '\x7f')]),
    ("NEWLINE", &[('\n', '\n'), ('\r', '\r')]),
];
/// the characters a built-in name stands for according to the documentation (only used to choose bodies for user rules of the same
/// name that DIFFER from the built-in; nothing is compared with this table)
fn documented_class(name: &str) -> Vec<(char, char)> {
    if let Some((_, c)) = ASCII_CLASSES.iter().find(|(n, _)| *n == name) { return c.to_vec(); }
    ranges(name).unwrap_or_default()
}
/// every name a grammar may both use as a built-in and define itself: the non-keyword built-ins and the Unicode properties of the table
pub fn redefinable() -> Vec<&'static str> { NONKW_BUILTINS.iter().chain(UNICODE.iter()).cloned().collect() }

/// the shadowing differential.  For every redefinable name N one grammar per variant that defines N as something DIFFERENT from the
/// built-in (variant 0: a normal rule matching one member of the class - narrower, and it produces a token; variant 1: a silent rule
/// matching a character outside the class) and has one rule per OTHER built-in (all ASCII_* names, NEWLINE, ANY, SOI, EOI, the Unicode
/// properties) plus rules that use N itself.  Whatever a back-end does for a built-in K, it must not depend on the user's N.
pub fn shadow_family(both: bool, seed: u64) -> Vec<String> {
    let names = redefinable();
    let mut out = vec![];
    for (k, n) in names.iter().enumerate() {
        let class = documented_class(n);
        let inside = |c: char| class.iter().any(|(a, b)| *a <= c && c <= *b);
        // one variant per name and run (alternating with the seed) in the quick tier, both in the thorough one
        let variants: Vec<u8> = if both { vec![0, 1] } else { vec![((k as u64 + seed) % 2) as u8] };
        for v in &variants {
            let (ty, body) = if *v == 0 {
                let c = ['0', '1', 'a', 'A', '\n', ' ', '+', '\u{e9}'].iter().cloned().find(|c| inside(*c)).unwrap_or_else(|| class.first().map(|x| x.0).unwrap_or('q'));
                (Ty::Normal, GE::Str(c.to_string()))
            } else {
                let c = ['x', '5', '\u{e9}', ' ', '+'].iter().cloned().find(|c| !inside(*c)).unwrap_or('\u{1F600}');
                (Ty::Silent, GE::Str(c.to_string()))
            };
            let mut g = vec![GRule { name: "self1".into(), ty: Ty::Normal, e: idn(n) }, GRule { name: "selfrep".into(), ty: Ty::Atomic, e: GE::Rep1(bx(idn(n))) }];
            for u in ["ANY", "SOI", "EOI"].iter().chain(names.iter()) {
                if u != n { g.push(GRule { name: format!("u_{}", u.to_lowercase()), ty: Ty::Normal, e: idn(u) }); }
            }
            g.push(GRule { name: n.to_string(), ty, e: body });
            out.push(pest_grammar(&g));
        }
    }
    out
}

// ------------------------------------------------------------------------------------------------
// fixed families whose members are built rule by rule: a candidate rule stays when the real pest_meta accepts the grammar with it, the
// emitted code is a Rust file and the real VM returns on every short input without touching the call limit
// ------------------------------------------------------------------------------------------------
fn grammar_ok(text: &str) -> bool {
    pest::set_call_limit(None);
    matches!(catch(|| pest_meta::parse_and_optimize(text)), Ok(Ok(_))) && derive_tokens(text).ok().and_then(|ts| syn::parse2::<syn::File>(ts).ok()).is_some()
        && vm_terminates(text, 3)
}
fn keep_valid(fixed: Vec<GRule>, cands: Vec<GRule>) -> Vec<GRule> {
    let mut all = fixed.clone();
    all.extend(cands.iter().cloned());
    if grammar_ok(&pest_grammar(&all)) { return all; }
    let mut g = fixed;
    for c in cands {
        g.push(c);
        if !grammar_ok(&pest_grammar(&g)) { g.pop(); }
    }
    g
}
fn rule(name: &str, ty: Ty, e: GE) -> GRule { GRule { name: name.to_string(), ty, e } }
fn opt(e: GE) -> GE { GE::Opt(bx(e)) }
fn rep(e: GE) -> GE { GE::Rep(bx(e)) }
fn rep1(e: GE) -> GE { GE::Rep1(bx(e)) }
fn cho(a: GE, b: GE) -> GE { GE::Cho(bx(a), bx(b)) }
fn tag(t: &str, e: GE) -> GE { GE::Tag(t.to_string(), bx(e)) }
const ALL_TYS: [Ty; 5] = [Ty::Normal, Ty::Silent, Ty::Atomic, Ty::Compound, Ty::NonAtomic];

/// the per-built-in differential: every hard-coded built-in bare, in a sequence, under `?`, `*`, `+`, twice in an atomic rule, under
/// a negative predicate (what the rule consumes, not only whether it accepts, is compared: the pairs carry the end positions)
pub fn builtin_family() -> Vec<String> {
    genread::FIXED_BUILTINS.iter().map(|n| {
        let b = || idn(n);
        let cands = vec![
            rule("r2", Ty::Normal, seq_of(vec![opt(b()), lit1("x")])),
            rule("r3", Ty::Normal, seq_of(vec![rep(b()), lit1("x")])),
            rule("r4", Ty::Normal, seq_of(vec![rep1(b()), opt(lit1("x"))])),
            rule("r5", Ty::Atomic, seq_of(vec![b(), b(), opt(lit1("x"))])),
            rule("r6", Ty::Normal, seq_of(vec![GE::Neg(bx(b())), idn("ANY"), opt(b())])),
            rule("r7", Ty::Compound, seq_of(vec![rule_ref_or(b()), lit1("x"), b()])),
        ];
        // r0 / r1 first and unconditionally (the two rules this differential has always had)
        pest_grammar(&keep_valid(vec![rule("r0", Ty::Normal, b()), rule("r1", Ty::Normal, seq_of(vec![b(), lit1("x")]))], cands))
    }).collect()
}
fn rule_ref_or(e: GE) -> GE { cho(seq_of(vec![lit1("x"), lit1("x")]), e) }

/// the explicit-trivia differential (hint: trivia rules are ordinary rules as well).  One grammar per pair (modifier of WHITESPACE,
/// modifier of COMMENT); each has, for every modifier of the CALLER and each of the two trivia rules, a rule that names the trivia rule
/// explicitly between two literals, plus callers that reach it through helper rules of other modifiers, under `?` / `*` / `+` / `|`
/// and under both predicates - next to the implicit skipping that every non-atomic sequence of the grammar does anyway.
/// `all`: the 25 pairs; otherwise a Latin square over the four modifiers inside class H chosen by the seed, and the pair (`!`, `!`).
pub fn trivia_family(all: bool, seed: u64) -> Vec<String> {
    let mut out = vec![];
    for (i, wt) in ALL_TYS.iter().enumerate() {
        for (j, ct) in ALL_TYS.iter().enumerate() {
            let chosen = all || (i < 4 && j < 4 && j == (i + seed as usize) % 4) || (i == 4 && j == 4);
            if !chosen { continue; }
            let fixed = vec![rule("WHITESPACE", *wt, lit1(" ")), rule("COMMENT", *ct, seq_of(vec![lit1("5"), idn("cb")])), rule("cb", Ty::Normal, rep(lit1("y")))];
            let mut cands = vec![];
            for t in ALL_TYS.iter() {
                for (x, short) in [("WHITESPACE", "w"), ("COMMENT", "c")] {
                    cands.push(rule(&format!("e{}_{}", ty_char(*t), short), *t, seq_of(vec![lit1("x"), idn(x), lit1("x")])));
                }
            }
            cands.extend(vec![
                rule("mix_a", Ty::Atomic, rep1(cho(idn("WHITESPACE"), cho(idn("COMMENT"), lit1("x"))))),
                rule("mix_n", Ty::Normal, seq_of(vec![lit1("x"), opt(idn("WHITESPACE")), rep(idn("COMMENT")), lit1("x")])),
                rule("mix_c", Ty::Compound, seq_of(vec![lit1("x"), rep1(idn("WHITESPACE")), opt(idn("COMMENT")), lit1("y")])),
                rule("pred_a", Ty::Atomic, seq_of(vec![lit1("x"), GE::Neg(bx(idn("WHITESPACE"))), GE::Pos(bx(idn("COMMENT"))), lit1("5")])),
                rule("pred_n", Ty::Normal, seq_of(vec![lit1("x"), GE::Neg(bx(idn("COMMENT"))), GE::Pos(bx(idn("WHITESPACE"))), lit1(" ")])),
                rule("h_s", Ty::Silent, seq_of(vec![idn("WHITESPACE"), opt(lit1("y"))])),
                rule("h_n", Ty::Normal, idn("COMMENT")),
                rule("h_x", Ty::NonAtomic, seq_of(vec![lit1("x"), idn("WHITESPACE"), lit1("x")])),
                rule("via_a", Ty::Atomic, seq_of(vec![lit1("x"), idn("h_s")])),
                rule("via_c", Ty::Compound, seq_of(vec![idn("h_n"), lit1("x")])),
                rule("via_x", Ty::Atomic, seq_of(vec![idn("h_x"), opt(idn("h_n"))])),
            ]);
            out.push(pest_grammar(&keep_valid(fixed, cands)));
        }
    }
    out
}

/// grammar-extras: node tags on every kind of operator (`*`, `+`, `?`, counted repetitions, choice, sequence, both predicates, PUSH,
/// literals, rule calls, inside repetitions) in non-atomic rules with WHITESPACE and COMMENT, once with silent trivia and once with
/// trivia that produces tokens, and in a non-atomic rule entered from an atomic one.  Tags directly on `?` / `*` (the known class
/// C02-node-tag: which node gets the label differs) are kept in grammars of their own; there the two back-ends are compared with the
/// labels erased.
pub fn tag_family() -> Vec<String> {
    let mut out = vec![];
    let a = || idn("a"); let b = || idn("b");
    for silent in [true, false] {
        let tt = if silent { Ty::Silent } else { Ty::Normal };
        let fixed = || vec![rule("WHITESPACE", tt, lit1(" ")), rule("COMMENT", if silent { Ty::Silent } else { Ty::Compound }, lit1("5")), rule("a", Ty::Normal, lit1("x")), rule("b", Ty::Normal, lit1("y"))];
        let in_h = vec![
            rule("t_rep1", Ty::Normal, seq_of(vec![tag("t", rep1(a())), opt(b())])),
            rule("t_rep1_end", Ty::Normal, tag("t", rep1(a()))),
            rule("t_exact", Ty::Normal, tag("t", GE::RepX(bx(a()), 2))),
            rule("t_min", Ty::Normal, seq_of(vec![tag("t", GE::RepMin(bx(a()), 1)), opt(b())])),
            rule("t_mm", Ty::Normal, seq_of(vec![tag("t", GE::RepMM(bx(a()), 1, 2)), b()])),
            rule("t_cho", Ty::Normal, seq_of(vec![tag("t", cho(a(), b())), opt(a())])),
            rule("t_seq", Ty::Normal, seq_of(vec![tag("t", seq_of(vec![a(), b()])), opt(a())])),
            rule("t_pos", Ty::Normal, seq_of(vec![tag("t", GE::Pos(bx(a()))), a(), opt(b())])),
            rule("t_neg", Ty::Normal, seq_of(vec![tag("t", GE::Neg(bx(a()))), b(), opt(a())])),
            rule("t_push", Ty::Normal, seq_of(vec![tag("t", GE::Push(bx(a()))), b(), idn("POP")])),
            rule("t_lit", Ty::Normal, seq_of(vec![tag("t", lit1("x")), tag("u", b())])),
            rule("t_inrep", Ty::Normal, rep(seq_of(vec![tag("t", a()), tag("u", b())]))),
            rule("t_inrep1", Ty::NonAtomic, seq_of(vec![rep1(tag("t", cho(a(), b()))), idn("EOI")])),
            rule("h_x", Ty::NonAtomic, seq_of(vec![tag("t", rep1(a())), b()])),
            rule("t_via", Ty::Atomic, seq_of(vec![idn("h_x"), opt(lit1(" "))])),
            rule("t_comp", Ty::Compound, seq_of(vec![tag("t", rep1(a())), lit1(" "), b()])),
        ];
        let known = vec![
            rule("k_rep", Ty::Normal, seq_of(vec![tag("t", rep(a())), b()])),
            rule("k_rep_end", Ty::Normal, tag("t", rep(a()))),
            rule("k_rep_lit", Ty::Normal, seq_of(vec![lit1("y"), tag("t", rep(lit1("x")))])),
            rule("k_opt", Ty::Normal, seq_of(vec![a(), tag("t", opt(b())), opt(a())])),
            rule("k_opt_end", Ty::Normal, seq_of(vec![a(), tag("t", opt(b()))])),
            rule("k_max", Ty::Normal, seq_of(vec![tag("t", GE::RepMax(bx(a()), 2)), opt(b())])),
            rule("k_min0", Ty::Normal, seq_of(vec![tag("t", GE::RepMin(bx(a()), 0)), opt(b())])),
            rule("k_reprep", Ty::Normal, rep(seq_of(vec![b(), tag("t", rep(a()))]))),
            rule("h_k", Ty::NonAtomic, tag("t", rep(a()))),
            rule("k_via", Ty::Atomic, seq_of(vec![idn("h_k"), opt(lit1(" ")), opt(b())])),
            rule("k_comp", Ty::Compound, seq_of(vec![idn("h_k"), lit1(" "), b()])),
            rule("k_cho", Ty::Normal, seq_of(vec![cho(seq_of(vec![tag("t", rep(a())), b()]), tag("u", opt(a()))), opt(lit1("y"))])),
        ];
        out.push(pest_grammar(&keep_valid(fixed(), in_h)));
        out.push(pest_grammar(&keep_valid(fixed(), known)));
    }
    out
}

/// random members of the tag family: a tag directly on a random operator over rule calls / literals, in a rule of a random modifier,
/// with trivia rules of random modifiers
fn gen_tagged(r: &mut Rng) -> Vec<GRule> {
    let n = 2 + r.below(2) as usize;
    let mut g: Vec<GRule> = vec![];
    let leaf = |r: &mut Rng| match r.below(4) { 0 => lit1("x"), 1 => lit1("y"), 2 => idn("a"), _ => idn("b") };
    for i in 0..n {
        let x = leaf(r);
        let body = match r.below(10) {
            0 | 1 => rep(x), 2 => rep1(x), 3 => opt(x), 4 => GE::RepMM(bx(x), r.below(2) as u32, 2), 5 => cho(x, leaf(r)), 6 => seq_of(vec![x, leaf(r)]),
            7 => GE::Neg(bx(x)), 8 => GE::Push(bx(x)), _ => GE::RepMax(bx(x), 2),
        };
        let mut v = vec![];
        if r.chance(1, 2) { v.push(leaf(r)); }
        v.push(tag(["t", "u"][r.below(2) as usize], body));
        if r.chance(2, 3) { v.push(match r.below(4) { 0 => lit1(" "), 1 => opt(leaf(r)), 2 => idn("EOI"), _ => leaf(r) }); }
        let e = if r.chance(1, 5) { rep(seq_of(v)) } else { seq_of(v) };
        g.push(GRule { name: format!("r{}", i), ty: [Ty::Normal, Ty::Normal, Ty::NonAtomic, Ty::Compound, Ty::Silent, Ty::Atomic][r.below(6) as usize], e });
    }
    g.push(rule("a", [Ty::Normal, Ty::Silent][r.below(2) as usize], lit1("x")));
    g.push(rule("b", Ty::Normal, cho(lit1("y"), lit1("5"))));
    let tys = [Ty::Silent, Ty::Silent, Ty::Normal, Ty::Atomic, Ty::Compound];
    g.push(rule("WHITESPACE", tys[r.below(5) as usize], lit1(" ")));
    if r.chance(1, 3) { g.push(rule("COMMENT", tys[r.below(5) as usize], lit1("5"))); }
    g
}

pub fn gen_c02(r: &mut Rng, extras: bool) -> Vec<GRule> {
    // stack-heavy families: unequal stack entries below every kind of reader (the general stream rarely stacks two values)
    if extras && r.chance(1, 12) { return gen_tagged(r); }
    match r.below(12) {
        0 => { let mut g = gen_stack_readers(r); if r.chance(1, 3) { g.push(GRule { name: "WHITESPACE".into(), ty: Ty::Silent, e: GE::Str(" ".into()) }); } return g; }
        1 => return gen_stack_grammar(r, extras),
        2 => { let mut g = gen_failing_stack_change(r); if r.chance(1, 4) { g.push(GRule { name: "WHITESPACE".into(), ty: Ty::Silent, e: GE::Str(" ".into()) }); } return g; }
        _ => {}
    }
    let cfg = GenCfg { stack: r.chance(1, 2), extras, counts: r.chance(1, 3), builtins: r.chance(1, 3) };
    let mut g = gen_grammar(r, &cfg);
    let tys = [Ty::Normal, Ty::Silent, Ty::Atomic, Ty::Compound, Ty::NonAtomic];
    // most repetition bodies get a consuming head (the validator rejects non-progressing repetitions)
    {
        let mut rr = Rng::new(r.next());
        let lead = |rr: &mut Rng, x: &GE| GE::Seq(Box::new(GE::Str(["x", "y", "5"][rr.below(3) as usize].into())), Box::new(x.clone()));
        for rule in g.iter_mut() {
            rule.e = map_ge(&rule.e, &mut |e| match e {
                GE::Rep(x) if !matches!(**x, GE::Str(_) | GE::Range(_, _) | GE::Id(_) | GE::Seq(_, _)) && rr.chance(4, 5) => Some(GE::Rep(Box::new(lead(&mut rr, x)))),
                GE::Rep1(x) if !matches!(**x, GE::Str(_) | GE::Range(_, _) | GE::Id(_) | GE::Seq(_, _)) && rr.chance(4, 5) => Some(GE::Rep1(Box::new(lead(&mut rr, x)))),
                GE::RepMin(x, n) if rr.chance(4, 5) => Some(GE::RepMin(Box::new(lead(&mut rr, x)), *n)),
                _ => None,
            });
        }
    }
    // WHITESPACE / COMMENT of every modifier, with bodies that are more than one literal
    g.retain(|x| x.name != "WHITESPACE" && x.name != "COMMENT");
    let n = g.len();
    let ws_body = |r: &mut Rng| match r.below(5) {
        0 => GE::Str(" ".into()),
        1 => GE::Cho(Box::new(GE::Str(" ".into())), Box::new(GE::Str("\t".into()))),
        2 => GE::Seq(Box::new(GE::Str(" ".into())), Box::new(GE::Opt(Box::new(GE::Str(" ".into()))))),
        3 => GE::Id(format!("r{}", n - 1)),
        _ => GE::Rep1(Box::new(GE::Str(" ".into()))),
    };
    let cm_body = |r: &mut Rng| match r.below(4) {
        0 => GE::Str("y".into()),
        1 => GE::Seq(Box::new(GE::Str("5".into())), Box::new(GE::Rep(Box::new(GE::Str("y".into()))))),
        2 => GE::Seq(Box::new(GE::Str("y".into())), Box::new(GE::Str(" ".into()))),
        _ => GE::Seq(Box::new(GE::Str("5".into())), Box::new(GE::Seq(Box::new(GE::Rep(Box::new(GE::Seq(Box::new(GE::Neg(Box::new(GE::Str("5".into())))), Box::new(GE::Id("ANY".into())))))), Box::new(GE::Str("5".into()))))),
    };
    let ty = |r: &mut Rng| if r.chance(1, 2) { Ty::Silent } else { tys[r.below(5) as usize] };
    match r.below(6) {
        0 | 1 => g.push(GRule { name: "WHITESPACE".into(), ty: ty(r), e: ws_body(r) }),
        2 | 3 => { g.push(GRule { name: "WHITESPACE".into(), ty: ty(r), e: ws_body(r) }); g.push(GRule { name: "COMMENT".into(), ty: ty(r), e: cm_body(r) }); }
        4 => g.push(GRule { name: "COMMENT".into(), ty: ty(r), e: cm_body(r) }),
        _ => {}
    }
    // trivia rules are ordinary rules as well: in a third of the grammars that have them some literals become explicit calls of
    // WHITESPACE / COMMENT (from rules of every modifier; not from the last rule, which a trivia body may call)
    let tr: Vec<String> = g.iter().filter(|x| x.name == "WHITESPACE" || x.name == "COMMENT").map(|x| x.name.clone()).collect();
    if !tr.is_empty() && r.chance(1, 3) {
        let mut rr = Rng::new(r.next());
        for rule in g.iter_mut().take(n.saturating_sub(1)) {
            rule.e = map_ge(&rule.e, &mut |e| match e {
                GE::Str(_) | GE::Range(_, _) if rr.chance(1, 3) => Some(GE::Id(tr[rr.below(tr.len() as u64) as usize].clone())),
                _ => None,
            });
        }
    }
    // a user rule named like a non-keyword built-in is decided first: such grammars use the other built-ins (the ones that overlap the
    // redefined name above all) in many more places, so that a back-end in which a built-in depends on the user's rule is seen
    let shadow = n >= 2 && r.chance(1, 6);
    // every built-in, Unicode property names
    if shadow || r.chance(1, 2) {
        let mut rr = Rng::new(r.next());
        let den = if shadow { 2 } else { 5 };
        for rule in g.iter_mut() {
            rule.e = map_ge(&rule.e, &mut |e| match e {
                GE::Str(_) | GE::Range(_, _) if rr.chance(1, den) => Some(GE::Id(match if shadow { rr.below(4) % 3 } else { rr.below(3) } {
                    0 => NONKW_BUILTINS[rr.below(11) as usize].to_string(),
                    1 => UNICODE[rr.below(5) as usize].to_string(),
                    _ => ["ANY", "SOI", "EOI", "ASCII_DIGIT", "NEWLINE"][rr.below(5) as usize].to_string(),
                })),
                _ => None,
            });
        }
    }
    // a user rule named like a non-keyword built-in (ASCII_*, NEWLINE: hard-coded in the VM; Unicode names: not)
    if shadow {
        let k = 1 + r.below(n as u64 - 1) as usize;
        let old = g[k].name.clone();
        let new = if r.chance(2, 3) { NONKW_BUILTINS[r.below(11) as usize].to_string() } else { UNICODE[r.below(5) as usize].to_string() };
        if !g.iter().any(|x| x.name == new) {
            for rule in g.iter_mut() {
                if rule.name == old { rule.name = new.clone(); }
                rule.e = map_ge(&rule.e, &mut |e| match e { GE::Id(x) if *x == old => Some(GE::Id(new.clone())), _ => None });
            }
        }
    }
    g
}

pub const WITNESSES: [(&str, &str, &str); 4] = [
    ("C02-ws-nonatomic", "", "r0 = { \"x\" ~ \"y\" }\nWHITESPACE = !{ \" \" }\n"),
    ("C02-node-tag", "x", "r0 = { r1 ~ #t = r2? }\nr1 = { \"x\" }\nr2 = { \"y\" }\n"),
    ("C02-node-tag", "x", "r0 = { #t = r1* }\nr1 = { \"x\" }\n"),
    ("C02-skip-in-push", "", "r0 = @{ PUSH((!\"y\" ~ ANY)*) ~ \"y\" ~ POP }\n"),
];

/// hand-written grammars that are always part of the behavioural batch: one per mechanism in which the two back-ends are
/// built differently (atomic sequences / repetitions and the implicit skip, the skip with overlapping WHITESPACE / COMMENT,
/// the modifier wrappers entered from an atomic caller, flattened sequences around stack operations)
pub const PROBES: [&str; 16] = [
    // user rules named like hard-coded built-ins shadow them in both back-ends (class C02-shadow-builtin, fixed by /repo 76a77f3)
    "r0 = { ASCII_DIGIT }\nASCII_DIGIT = { \"x\" }\n",
    "r0 = { NEWLINE ~ ASCII_ALPHA+ ~ ASCII }\nNEWLINE = { \"5\" }\nASCII_ALPHA = @{ \"y\" }\nASCII = _{ \" \" | ASCII_DIGIT }\n",
    // WHITESPACE / COMMENT of the `$` `@` modifiers that call non-silent rules (their pairs are kept under `$`, dropped under `@`)
    "r0 = { \"x\" ~ \"x\" }\nCOMMENT = ${ \"5\" ~ body ~ \"5\" }\nbody = { \"y\"* }\n",
    "r0 = { \"x\" ~ \"x\" }\nWHITESPACE = ${ sp+ }\nsp = { \" \" }\nCOMMENT = @{ \"5\" ~ body }\nbody = { \"y\" }\n",
    "r0 = @{ r1 ~ r1 }\nr1 = !{ \"x\" ~ \"y\"? }\nWHITESPACE = ${ sp }\nsp = { \" \" | NEWLINE }\n",
    "r0 = { \"x\"+ ~ EOI }\nCOMMENT = ${ open ~ (!close ~ ANY)* ~ close }\nopen = { \"5\" }\nclose = { \"y\" }\nWHITESPACE = _{ \" \" }\n",
    "r0 = @{ \"x\" ~ \"y\" ~ \"x\" }\nWHITESPACE = _{ \" \" }\n",
    "r0 = @{ \"x\"* ~ \"y\" }\nr1 = { \"x\"* ~ \"y\" }\nWHITESPACE = _{ \" \" }\n",
    "r0 = { \"x\" ~ \"y\" }\nWHITESPACE = { \" \" | \"5 \" }\nCOMMENT = { \"5\" }\n",
    "r0 = @{ r1 }\nr1 = !{ \"x\" ~ \"y\" }\nWHITESPACE = _{ \" \" }\n",
    "r0 = @{ r1 ~ r3? }\nr1 = ${ \"x\" ~ r2 }\nr2 = { \"y\" }\nr3 = !{ \"5\" ~ r2 }\nWHITESPACE = { \" \" }\n",
    "r0 = { PUSH(\"x\" | \"y\") ~ (\"5\" ~ PEEK)* ~ POP ~ EOI }\nWHITESPACE = _{ \" \" }\n",
    "r0 = ${ (\"x\" ~ r1)+ }\nr1 = @{ (\"y\" | \"5\" ~ \"5\")* }\nCOMMENT = _{ \" \" }\n",
    "r0 = { !\"y\" ~ (\"x\" | r1) ~ &ANY ~ r1* }\nr1 = _{ \"5\" ~ \"y\"? }\nWHITESPACE = @{ \" \"+ }\n",
    "r0 = { (\"x\" ~ \"y\" | \"x\" ~ \"5\" | \"x\") ~ NEWLINE? ~ ASCII_DIGIT* }\nWHITESPACE = ${ \" \" }\nCOMMENT = @{ \"y\" ~ \"y\" }\n",
    "r0 = @{ PUSH(\"x\")* ~ (\"y\" ~ POP)* ~ DROP? ~ \"5\" }\n",
];

// ------------------------------------------------------------------------------------------------
fn derive_tokens(text: &str) -> Result<proc_macro2::TokenStream, String> {
    catch(|| pest_generator::derive_parser(quote! { #[grammar_inline = #text] pub struct P; }, true))
}

fn tv_line(text: &str, w: &mut dyn Write, stats: &mut (u64, u64, u64)) {
    let extras = cfg!(feature = "extras") as u8;
    pest::set_call_limit(None);
    let opt = match catch(|| pest_meta::parse_and_optimize(text)) { Ok(Ok((_, o))) => o, _ => { stats.1 += 1; return; } };
    let osexp = sexp_grammar(&from_orules(&opt));
    let orig = match catch(|| pest_meta::parser::consume_rules(pest_meta::parser::parse(pest_meta::parser::Rule::grammar_rules, text).unwrap()).unwrap()) {
        Ok(a) => sexp_grammar(&from_rules(&a)), Err(_) => { stats.1 += 1; return; } };
    stats.0 += 1;
    let uni: Vec<String> = UNICODE.iter().map(|s| s.to_string()).collect();
    let read = derive_tokens(text).map_err(|e| format!("derive_parser panicked: {}", e))
        .and_then(|ts| syn::parse2::<syn::File>(ts.clone()).map_err(|e| format!("emitted code is not a Rust file: {} :: {}", e, esc(&ts.to_string()).chars().take(600).collect::<String>())))
        .and_then(|f| genread::read_parser(&f, &uni, &ranges));
    match read {
        Ok(p) => { if p.fns.iter().any(|(_, b)| b.size() > 6) { stats.2 += 1; } writeln!(w, "T\t{}\t{}\t{}\t{}\t{}", extras, orig, osexp, genread::show(&p), esc(text)).unwrap() }
        Err(e) => writeln!(w, "TE\t{}\t{}\t{}\t{}", extras, osexp, esc(&e), esc(text)).unwrap(),
    }
}

fn print_unicode(w: &mut dyn Write) {
    for n in UNICODE.iter() {
        let rs = ranges(n).expect("unicode name of the harness table");
        writeln!(w, "U\t{}\t{}", n, rs.iter().map(|(a, b)| format!("{} {}", *a as u32, *b as u32)).collect::<Vec<_>>().join(" ")).unwrap();
    }
}

fn rust_str(s: &str) -> String { format!("{:?}", s) }

/// A grammar whose VM run touches the call limit on some short input has a non-progressing loop (the validator accepts e.g.
/// `PEEK_ALL*`); the generated parser has loops without any call-limit check (`repeat` of primitives) and would hang the batch.
fn vm_terminates(text: &str, maxlen: usize) -> bool {
    pest::set_call_limit(None);
    let opt = match catch(|| pest_meta::parse_and_optimize(text)) { Ok(Ok((_, o))) => o, _ => return false };
    let names: Vec<String> = opt.iter().map(|r| r.name.clone()).collect();
    let vm = pest_vm::Vm::new(opt);
    let inputs = all_strings(&["x", "y", " ", "5"], maxlen);
    pest::set_call_limit(std::num::NonZeroUsize::new(2000));
    let mut ok = true;
    'outer: for n in &names {
        for i in &inputs {
            let r = catch(|| vm.parse(n, i).map(|_| ()).map_err(|e| matches!(e.variant, pest::error::ErrorVariant::CustomError { .. })));
            if let Ok(Err(true)) = r { ok = false; break 'outer; }
        }
    }
    pest::set_call_limit(None);
    ok
}

fn main() {
    quiet_panics();
    let mode = arg(1);
    let extras = cfg!(feature = "extras");
    let stdout = io::stdout();
    let mut w = BufWriter::with_capacity(1 << 20, stdout.lock());
    match mode.as_str() {
        "tv" => {
            let count = arg_u64(2, 1000); let mut rng = Rng::new(arg_u64(3, 0));
            print_unicode(&mut w);
            let mut stats = (0u64, 0u64, 0u64);
            if arg(4) != "nofixed" {
                for (_, x, text) in WITNESSES.iter() { if x.is_empty() || extras { tv_line(text, &mut w, &mut stats); } }
                for text in PROBES.iter() { tv_line(text, &mut w, &mut stats); }
                for text in restore_family().iter().chain(shadow_family(true, 0).iter()).chain(trivia_family(true, 0).iter()) { tv_line(text, &mut w, &mut stats); }
                if extras { for text in tag_family().iter() { tv_line(text, &mut w, &mut stats); } }
                for text in insens_family().iter() { tv_line(text, &mut w, &mut stats); }
            }
            for _ in 0..count { let g = gen_c02(&mut rng, extras); tv_line(&pest_grammar(&g), &mut w, &mut stats); }
            writeln!(w, "#SUMMARY\tevaluations={}\tdistinct_nontrivial={}\trejected={}", stats.0, stats.2, stats.1).unwrap();
        }
        "one" => {
            print_unicode(&mut w);
            let mut stats = (0u64, 0u64, 0u64);
            tv_line(&arg(2), &mut w, &mut stats);
            writeln!(w, "#SUMMARY\tevaluations={}\tdistinct_nontrivial={}\trejected={}", stats.0, stats.2, stats.1).unwrap();
        }
        "rejects" => {
            let count = arg_u64(2, 1000); let mut rng = Rng::new(arg_u64(3, 0));
            for _ in 0..count {
                let g = gen_c02(&mut rng, extras); let text = pest_grammar(&g);
                if let Ok(Err(es)) = catch(|| pest_meta::parse_and_optimize(&text)) { writeln!(w, "{}\t{}", es.iter().map(|e| e.variant.message().to_string()).collect::<Vec<_>>().join(" / "), esc(&text)).unwrap(); }
            }
        }
        "witness" => { for (c, x, t) in WITNESSES.iter() { writeln!(w, "{}\t{}\t{}", c, x, esc(t)).unwrap(); } }
        "batch" => {
            // the source of a program that holds COUNT derive-generated parsers and compares each with pest_vm
            let count = arg_u64(2, 100); let mut rng = Rng::new(arg_u64(3, 0));
            // `batch COUNT SEED` = witnesses + probes + COUNT generated grammars; `batch 0 SEED FILE` = exactly the grammars of FILE (one per line, escaped)
            let file = if arg(4) == "-" { String::new() } else { arg(4) };
            let unesc = |l: &str| l.replace("\\n", "\n").replace("\\t", "\t").replace("\\\\", "\\");
            let around_mode = arg(5) == "around";
            let mut texts: Vec<String> = if around_mode {
                let mut out = vec![];
                let specs: Vec<c02_around::Spec> = std::fs::read_to_string(&file).expect("construct file").lines().filter_map(c02_around::parse_spec).collect();
                let per = std::cmp::max(4, 32 / std::cmp::max(1, specs.len()));
                for sp in &specs { c02_around::around(sp, extras, &mut out, per); }
                out
            } else if !file.is_empty() {
                std::fs::read_to_string(&file).expect("grammar file").lines().filter(|l| !l.trim().is_empty()).map(|l| unesc(l)).collect()
            } else {
                WITNESSES.iter().filter(|(_, x, _)| x.is_empty() || extras).map(|(_, _, t)| t.to_string()).chain(PROBES.iter().map(|t| t.to_string())).collect()
            };
            // the per-built-in differential: every name the VM hard-codes, alone and followed by a literal
            let builtin_texts: Vec<String> = if file.is_empty() && !extras { builtin_family() } else { vec![] };
            texts.extend(builtin_texts.iter().cloned());
            // the explicit-trivia differential (WHITESPACE / COMMENT of every modifier named explicitly by callers of every modifier;
            // `full`: all 25 pairs of modifiers) and, with grammar-extras, node tags on every kind of operator
            let trivia_texts: Vec<String> = if file.is_empty() && !extras { trivia_family(arg(6) == "full", arg_u64(3, 0)) } else { vec![] };
            texts.extend(trivia_texts.iter().cloned());
            let tag_texts: Vec<String> = if file.is_empty() && extras { tag_family() } else { vec![] };
            texts.extend(tag_texts.iter().cloned());
            // the restore-on-error differential (both feature sets) and the shadowing differential (one grammar per redefinable name;
            // `full` as 6th argument: both variants per name)
            let restore_texts: Vec<String> = if file.is_empty() { restore_family() } else { vec![] };
            texts.extend(restore_texts.iter().cloned());
            let shadow_texts: Vec<String> = if file.is_empty() && !extras { shadow_family(arg(6) == "full", arg_u64(3, 0)) } else { vec![] };
            texts.extend(shadow_texts.iter().cloned());
            // the Unicode-property differential and the case-insensitive literals outside ASCII
            let unicode_texts: Vec<String> = if file.is_empty() && !extras { unicode_family() } else { vec![] };
            texts.extend(unicode_texts.iter().cloned());
            let insens_texts: Vec<String> = if file.is_empty() { insens_family() } else { vec![] };
            texts.extend(insens_texts.iter().cloned());
            let lit_mode = arg(5) == "lit";
            let mode_of = |t: &str| -> u8 {
                if around_mode { 4 } else if lit_mode { 3 } else if unicode_texts.iter().any(|b| b == t) { 7 } else if insens_texts.iter().any(|b| b == t) { 8 } else if builtin_texts.iter().any(|b| b == t) { 1 } else if shadow_texts.iter().any(|b| b == t) { 5 }
                else if trivia_texts.iter().any(|b| b == t) || tag_texts.iter().any(|b| b == t) { 6 }
                else if ["NEWLINE", "ANY", "ASCII"].iter().any(|k| t.contains(k)) || UNICODE.iter().any(|k| t.contains(k)) { 2 } else { 0 }
            };
            texts.retain(|t| derive_tokens(t).ok().and_then(|ts| syn::parse2::<syn::File>(ts).ok()).is_some());
            let count = if file.is_empty() { count + texts.len() as u64 } else { 0 };
            let mut tries = 0;
            while (texts.len() as u64) < count && tries < count * 20 {
                tries += 1;
                let g = gen_c02(&mut rng, extras);
                let text = pest_grammar(&g);
                pest::set_call_limit(None);
                if !matches!(catch(|| pest_meta::parse_and_optimize(&text)), Ok(Ok(_))) { continue; }
                // the emitted code must at least be a Rust file (otherwise the whole batch would not compile; tv reports those)
                if derive_tokens(&text).ok().and_then(|ts| syn::parse2::<syn::File>(ts).ok()).is_none() { continue; }
                if !vm_terminates(&text, 4) { continue; }
                texts.push(text);
            }
            writeln!(w, "// GENERATED by `c02 batch` - {} grammars, extras={}", texts.len(), extras).unwrap();
            writeln!(w, "// FAMILIES restore_on_error={} shadowing={} per_builtin={} explicit_trivia={} node_tags={} unicode_properties={} insensitive_literals={}", texts.iter().filter(|t| restore_texts.contains(t)).count(),
                texts.iter().filter(|t| shadow_texts.contains(t)).count(), texts.iter().filter(|t| builtin_texts.contains(t)).count(),
                texts.iter().filter(|t| trivia_texts.contains(t)).count(), texts.iter().filter(|t| tag_texts.contains(t)).count(),
                texts.iter().filter(|t| unicode_texts.contains(t)).count(), texts.iter().filter(|t| insens_texts.contains(t)).count()).unwrap();
            writeln!(w, "#![allow(warnings)]\nuse pest::Parser;").unwrap();
            for (i, t) in texts.iter().enumerate() {
                writeln!(w, "mod g{} {{ #[derive(pest_derive::Parser)] #[grammar_inline = {}] pub struct P; }}", i, rust_str(t)).unwrap();
            }
            writeln!(w, "{}", include_str!("../c02_batch_main.rs.in")).unwrap();
            let mut ul: Vec<u8> = vec![];
            print_unicode(&mut ul);
            writeln!(w, "const ULINES: &str = {};", rust_str(&String::from_utf8(ul).unwrap())).unwrap();
            writeln!(w, "const NGRAMMARS: usize = {};", texts.len()).unwrap();
            writeln!(w, "fn run_all(maxlen: usize, from: usize, to: usize) {{").unwrap();
            for (i, t) in texts.iter().enumerate() {
                writeln!(w, "    if from <= {i} && {i} < to {{ run_grammar({i}, {t}, g{i}::Rule::all_rules(), &|r, inp| obs_derive(g{i}::P::parse(r, inp)), maxlen, {m}); }}", i = i, t = rust_str(t), m = mode_of(t)).unwrap();
            }
            writeln!(w, "}}").unwrap();
        }
        _ => { eprintln!("usage: c02 tv COUNT SEED | one TEXT | batch COUNT SEED | witness"); std::process::exit(2); }
    }
}
