//! C14 harness: the checked-in self-hosted parser (meta/src/grammar.rs) against its grammar file.
//!   c14 regen REPO            run the bootstrap invocation of pest_generator::derive_parser on REPO/meta/src/grammar.pest and compare
//!                             what bootstrap would write with the checked-in REPO/meta/src/grammar.rs, byte for byte
//!       REGEN\t<identical|different>\t<detail>
//!   c14 read REPO             read the checked-in grammar.rs (and the freshly generated token stream) back into Layer-C programs
//!       A\t<sexp of the AST pest_meta reads from grammar.pest>      O\t<sexp of the optimized rules>
//!       T\t0\t<ast>\t<optimized>\t<checked-in parser, read>         F\t0\t<ast>\t<optimized>\t<fresh parser, read>
//!   c14 diff REPO COUNT SEED  differential runs: checked-in parser vs pest_vm on parse_and_optimize(grammar.pest)
//!       G\tmeta\t0\t<optimized sexp>\t-
//!       D\t<rule>\t<text hex>\t<checked-in obs (through pest_meta::parser::parse)>\t<vm obs>
//!       E\t<entry>\t<rule>\t<text hex>\t<obs of that entry>\t<obs it must equal>\t<direct|vm>   only when they differ (see `observe`)
//!       S\t<entry>\t<rule>\t<text hex>\t<settings before>\t<settings after>   only when a call changed pest's process-wide settings (see `chk`)
//!     c14 diff REPO 0 0 one RULE HEX / seq FILE   one case / the cases of FILE (lines `rule TAB hex`) in this order in one process (replays)
//!   c14 readx REPO            F line of this build of the crates only (used for the build with grammar-extras)
//!   c14 large REPO SEED EPFILE PERCENT [LEAKFILE]   large texts after rejected ones, the caller's settings around every entry; follow-up of
//!                             a call limit left behind (see the mode)
//!   c14 freshsrc REPO         source of a program with a #[derive(Parser)] of grammar.pest that appends its own observation to D lines
//!   c14 freshgen REPO         the same, but the parser is the token stream the in-tree pest_generator::derive_parser returns for grammar.pest
//!                             (the bootstrap invocation), written out as source: the program depends on the repository's `pest` only
//!   c14 switches REPO COUNT SEED   the legs under pest::set_error_detail(true) and under call limits (P / L lines; see the mode)
//!   c14 target REPO NAMES MAXLEN [light] [SEED]   targeted failing-input search for the rules NAMES (see the mode)
#[path = "../genread.rs"]
mod genread;
#[path = "../c14_texts.rs"]
mod texts;
#[path = "../c14_large.rs"]
mod large;
use pvharness::gram::*;
use pvharness::prog::hex;
use pvharness::*;
use quote::quote;
use std::io::{self, BufWriter, Write};

fn grammar_path(repo: &str) -> String { format!("{}/meta/src/grammar.pest", repo.trim_end_matches('/')) }

fn fresh_tokens(repo: &str) -> proc_macro2::TokenStream {
    // bootstrap/src/main.rs
    let path = grammar_path(repo);
    let pest = quote! {
        #[grammar = #path]
        pub struct PestParser;
    };
    pest_generator::derive_parser(pest, false)
}

/// every function of a Rust source, keyed by its module path (`rules::unicode`, `rules::hidden::skip`, ..), as a token string
fn fn_bodies(src: &str) -> Option<std::collections::HashMap<String, String>> {
    use quote::ToTokens;
    use syn::visit::Visit;
    let f = syn::parse_file(src).ok()?;
    struct V(std::collections::HashMap<String, String>, Vec<String>);
    impl<'ast> Visit<'ast> for V {
        fn visit_item_fn(&mut self, i: &'ast syn::ItemFn) {
            let name = i.sig.ident.to_string();
            let mut path = self.1.clone();
            path.push(name.trim_start_matches("r#").to_string());
            self.0.insert(path.join("::"), i.to_token_stream().to_string());
            syn::visit::visit_item_fn(self, i);
        }
        fn visit_item_mod(&mut self, m: &'ast syn::ItemMod) {
            self.1.push(m.ident.to_string());
            syn::visit::visit_item_mod(self, m);
            self.1.pop();
        }
    }
    let mut v = V(Default::default(), vec![]);
    v.visit_file(&f);
    Some(v.0)
}

fn obs_err<R: std::fmt::Debug>(e: pest::error::Error<R>) -> String {
    let at = match e.location { pest::error::InputLocation::Pos(p) => p.to_string(), pest::error::InputLocation::Span((a, b)) => format!("{}-{}", a, b) };
    match e.variant {
        pest::error::ErrorVariant::ParsingError { positives, negatives } => {
            let names = |v: Vec<R>| { let mut n: Vec<String> = v.iter().map(|r| format!("{:?}", r).trim_matches('"').to_string()).collect(); n.sort(); n.dedup(); n.join(",") };
            format!("Err {} [{}] [{}]", at, names(positives), names(negatives))
        }
        pest::error::ErrorVariant::CustomError { message } => format!("Custom {}", message),
    }
}

/// One leg: (the observation every leg is compared on: token forest / error position and sets; what the result says about the TEXT it
/// was computed on: the input of the token tree must be the caller's text itself, the error carries the line and line/column of it).
fn leg<R: pest::RuleType>(res: Result<pest::iterators::Pairs<'_, R>, pest::error::Error<R>>, t: &str, name: &dyn Fn(R) -> String) -> (String, String) {
    match res {
        Ok(p) => {
            let inp = p.get_input();
            let x = if inp.as_ptr() == t.as_ptr() && inp.len() == t.len() { "input=the text".to_string() }
                else { format!("input=ANOTHER text ({} bytes, {}; the text has {} bytes)", inp.len(), if inp == t { "equal" } else { "different" }, t.len()) };
            (format!("Ok {}", forest(p, name)), x)
        }
        Err(e) => { let x = format!("line_col={:?} line={:?}", e.line_col, e.line()); (obs_err(e), x) }
    }
}

#[derive(Default)]
struct Counts { n: u64, nt: u64, diffs: u64, entry: u64, top: u64, settings: u64, leaks: u64, parts: u64 }

/// pest's process-wide settings (call limit, error detail) as a parser state created NOW sees them: the `cl=..;en=..` part of
/// ParserState::verif_dump on a state over the empty text.
fn settings() -> String {
    let mut out = String::from("unknown");
    #[cfg(pest_parser_pest_verif)]
    { let _ = pest::state::<pest_meta::parser::Rule, _>("", |s| { let d = s.verif_dump(); if let (Some(a), Some(b)) = (d.find(";cl="), d.find(";cs=")) { out = d[a + 1..b].to_string(); } Ok(s) }); }
    out
}

/// Oracle on the implementation alone: a call of a public entry of the grammar front end (on an accepted or a rejected text) leaves
/// pest's process-wide settings as they were.  `s0` = the settings before the call; an S line when they differ now.
fn chk(s0: &mut String, entry: &str, rule: &str, t: &str, c: &mut Counts, w: &mut dyn Write) {
    let s1 = settings();
    c.settings += 1;
    if s1 != *s0 {
        c.leaks += 1;
        writeln!(w, "S\t{}\t{}\t{}\t{}\t{}", entry, rule, hex(t), s0, s1).unwrap();
        *s0 = s1;
    }
}

/// canonical form of a list of errors (sorted: the order of validation errors is not part of any contract)
fn errs_sig(es: Vec<pest::error::Error<pest_meta::parser::Rule>>) -> String {
    let mut v: Vec<String> = es.into_iter().map(|e| { let loc = format!("{:?}", e.location); format!("{} @{}", obs_err(e), loc) }).collect();
    v.sort();
    format!("errors {}: {}", v.len(), v.join(" | "))
}

/// One (rule, text) case on the legs that live in this process.  The checked-in parser is run through the entry its users call,
/// `pest_meta::parser::parse` (column 4 of the D line; the compiled fresh parsers append their columns downstream), and
///   * through the generated `PestParser::parse` that entry wraps: any difference (text, spans, error) is an E line;
///   * for the top rule through `pest_meta::parse_and_optimize`, the entry on top of it: it must end in the parse error pest_vm reports
///     for the text when there is one, and in no parse error otherwise (validation errors are CustomErrors) - else an E line; and it
///     must end as its own steps do when they are called one after the other (parser::parse, validator::validate_pairs,
///     parser::consume_rules, optimizer::optimize: the same list of errors, or the same number of rules) - else an E line.
///     (`full`: also on accepted texts of more than 4000 bytes.)
/// What the results say about the text itself (see `leg`) is appended to both columns when the forests / errors agree but that differs.
/// Around every call: pest's process-wide settings must be what they were (`chk`).
fn observe(vm: &pest_vm::Vm, has_rule: bool, r: pest_meta::parser::Rule, name: &str, t: &str, full: bool, c: &mut Counts, w: &mut dyn Write) {
    use pest::Parser;
    let rn = |x: pest_meta::parser::Rule| format!("{:?}", x);
    let mut s0 = settings();
    let (mut a, xa) = catch(|| leg(pest_meta::parser::parse(r, t), t, &rn)).unwrap_or_else(|m| (format!("Panic {}", m), String::new()));
    chk(&mut s0, "pest_meta::parser::parse", name, t, c, w);
    let (mut b, xb) = if has_rule { catch(|| leg(vm.parse(name, t), t, &|x: &str| x.to_string())).unwrap_or_else(|m| (format!("Panic {}", m), String::new())) } else { ("NoSuchRule".to_string(), String::new()) };
    chk(&mut s0, "pest_vm::Vm::parse", name, t, c, w);
    let (d, xd) = catch(|| leg(pest_meta::parser::PestParser::parse(r, t), t, &rn)).unwrap_or_else(|m| (format!("Panic {}", m), String::new()));
    chk(&mut s0, "pest_meta::parser::PestParser::parse", name, t, c, w);
    c.n += 1; c.entry += 1;
    if (a.starts_with("Ok ") && a.len() > 3) || (a.starts_with("Err ") && !a.starts_with("Err 0 ")) { c.nt += 1; }
    if d != a || xd != xa {
        writeln!(w, "E\tpest_meta::parser::parse\t{}\t{}\t{} ## {}\t{} ## {}\tdirect", name, hex(t), a, xa, d, xd).unwrap();
    }
    if name == "grammar_rules" && has_rule && (full || b.starts_with("Err ") || (b.starts_with("Ok ") && t.len() <= 4000)) {
        c.top += 1;
        // the steps of the composite entry, called one after the other
        let parts = match catch(|| pest_meta::parser::parse(r, t)) {
            Err(m) => format!("Panic {}", m),
            Ok(Err(e)) => errs_sig(vec![e]),
            Ok(Ok(pairs)) => {
                let p2 = pairs.clone();
                let v = catch(|| pest_meta::validator::validate_pairs(p2).map(|d| d.len()));
                chk(&mut s0, "pest_meta::validator::validate_pairs", name, t, c, w);
                match v {
                    Err(m) => format!("Panic {}", m),
                    Ok(Err(es)) => errs_sig(es),
                    Ok(Ok(_)) => {
                        let x = catch(|| pest_meta::parser::consume_rules(pairs));
                        chk(&mut s0, "pest_meta::parser::consume_rules", name, t, c, w);
                        match x {
                            Err(m) => format!("Panic {}", m),
                            Ok(Err(es)) => errs_sig(es),
                            Ok(Ok(ast)) => { let o = catch(|| pest_meta::optimizer::optimize(ast).len()); chk(&mut s0, "pest_meta::optimizer::optimize", name, t, c, w);
                                match o { Ok(n) => format!("ok {} rules", n), Err(m) => format!("Panic {}", m) } }
                        }
                    }
                }
            }
        };
        let whole = catch(|| match pest_meta::parse_and_optimize(t) {
            Ok((_, o)) => ("no parse error".to_string(), format!("ok {} rules", o.len())),
            Err(es) => {
                let po = if es.len() == 1 && matches!(es[0].variant, pest::error::ErrorVariant::ParsingError { .. }) { obs_err(es[0].clone()) } else { "no parse error".to_string() };
                (po, errs_sig(es))
            }
        });
        chk(&mut s0, "pest_meta::parse_and_optimize", name, t, c, w);
        let (po, got) = match whole { Ok(x) => x, Err(m) => (if b.starts_with("Ok ") { "no parse error".to_string() } else { format!("Panic {}", m) }, format!("Panic {}", m)) };
        let want = if b.starts_with("Err ") { b.clone() } else { "no parse error".to_string() };
        if po != want { writeln!(w, "E\tpest_meta::parse_and_optimize\t{}\t{}\t{}\t{}\tvm", name, hex(t), po, want).unwrap(); }
        c.parts += 1;
        if got != parts { writeln!(w, "E\tpest_meta::parse_and_optimize\t{}\t{}\t{}\t{}\tparts", name, hex(t), got, parts).unwrap(); }
    }
    if a == b && xa != xb && has_rule { a = format!("{} ## {}", a, xa); b = format!("{} ## {}", b, xb); }
    if a != b { c.diffs += 1; }
    writeln!(w, "D\t{}\t{}\t{}\t{}", name, hex(t), a, b).unwrap();
}

/// Characters and sequences that a text-handling layer between a caller and a parser typically strips, normalises, folds or treats as
/// blank: byte order marks, every line-break convention, NUL / control characters, the Unicode blanks and separators, zero-width
/// characters, characters whose normal form / case folding is an ASCII character of the meta-grammar, and one character of every
/// UTF-8 width.  The meta-grammar has no place for most of them, so every leg must reject (or span) them in the same way.
const ENTRY_CHARS: [&str; 24] = ["\u{feff}", "\r\n", "\n", "\r", "\0", "\t", " ", "\u{a0}", "\u{85}", "\u{2028}", "\u{2029}", "\u{200b}", "\u{3000}", "\u{c}", "\u{1a}", "\u{7f}",
    "\u{fffe}", "\u{301}", "\u{ff5b}", "\u{212a}", "\u{e9}", "\u{20ac}", "\u{1f600}", "\u{10ffff}"];

fn mutate(r: &mut Rng, t: &str) -> String {
    let chars: Vec<char> = t.chars().collect();
    if chars.is_empty() { return "{".into(); }
    let meta = ['{', '}', '"', '\'', '~', '|', '*', '+', '?', '(', ')', '[', ']', '=', '_', '@', '$', '!', '&', '^', '#', '/', '\\', '.', ',', ' ', '\n', 'a', '0', '-'];
    let i = r.below(chars.len() as u64) as usize;
    let mut c = chars.clone();
    if r.chance(1, 5) {
        // one of the characters above: at the very start, at the very end, or at the position drawn
        let e: Vec<char> = ENTRY_CHARS[r.below(ENTRY_CHARS.len() as u64) as usize].chars().collect();
        let at = match r.below(4) { 0 => 0, 1 => c.len(), _ => i };
        for (k, x) in e.into_iter().enumerate() { c.insert(at + k, x); }
        return c.into_iter().collect();
    }
    match r.below(6) {
        0 => { c.remove(i); }
        1 => { c.insert(i, meta[r.below(meta.len() as u64) as usize]); }
        2 => { c[i] = meta[r.below(meta.len() as u64) as usize]; }
        3 => { c.truncate(i); }
        4 => { let j = r.below(chars.len() as u64) as usize; c.swap(i, j); }
        _ => { let j = (i + 1 + r.below(8) as usize).min(chars.len()); let seg: Vec<char> = chars[i..j].to_vec(); for (k, x) in seg.into_iter().enumerate() { c.insert(j + k, x); } }
    }
    c.into_iter().collect()
}

/// a random derivation from the optimized rules of the CURRENT grammar.pest (mostly-valid texts that use every alternative)
fn derive(rules: &std::collections::HashMap<String, pest_meta::optimizer::OptimizedExpr>, e: &pest_meta::optimizer::OptimizedExpr, r: &mut Rng, depth: u32, out: &mut String) {
    use pest_meta::optimizer::OptimizedExpr as O;
    if out.len() > 400 { return; }
    match e {
        O::Str(s) => out.push_str(s), O::Insens(s) => out.push_str(s),
        O::Range(a, b) => { let (a, b) = (a.chars().next().unwrap_or('a') as u32, b.chars().next().unwrap_or('a') as u32); out.push(char::from_u32(a + r.below((b.max(a) - a + 1) as u64) as u32).unwrap_or('a')); }
        O::Ident(n) => match n.as_str() {
            "ANY" => out.push(['a', 'x', ' ', '1'][r.below(4) as usize]), "SOI" | "EOI" => {}
            _ => if let Some(x) = rules.get(n) { if depth == 0 { shortest(rules, x, 6, out) } else { derive(rules, x, r, depth - 1, out) } } else { out.push('a') },
        },
        O::PosPred(_) | O::NegPred(_) => {}
        O::Seq(a, b) => { derive(rules, a, r, depth, out); if r.chance(1, 4) { out.push(' '); } derive(rules, b, r, depth, out); }
        O::Choice(a, b) => { let mut alts = vec![&**a]; let mut cur = &**b; while let O::Choice(x, y) = cur { alts.push(&**x); cur = &**y; } alts.push(cur);
            let k = r.below(alts.len() as u64) as usize; derive(rules, alts[k], r, depth, out); }
        O::Opt(x) => if depth > 0 && r.chance(1, 2) { derive(rules, x, r, depth, out) },
        O::Rep(x) => if depth > 0 { for _ in 0..r.below(3) { derive(rules, x, r, depth - 1, out); } },
        O::Skip(_) => out.push_str(["", "x", "ab "][r.below(3) as usize]),
        O::Push(x) | O::RestoreOnErr(x) => derive(rules, x, r, depth, out),
        _ => {}
    }
}
fn shortest(rules: &std::collections::HashMap<String, pest_meta::optimizer::OptimizedExpr>, e: &pest_meta::optimizer::OptimizedExpr, fuel: u32, out: &mut String) {
    use pest_meta::optimizer::OptimizedExpr as O;
    match e {
        O::Str(s) => out.push_str(s), O::Insens(s) => out.push_str(s), O::Range(a, _) => out.push_str(a),
        O::Ident(n) => match n.as_str() { "ANY" => out.push('a'), "SOI" | "EOI" => {}, _ => if fuel > 0 { if let Some(x) = rules.get(n) { shortest(rules, x, fuel - 1, out) } } else { out.push('a') } },
        O::Seq(a, b) => { shortest(rules, a, fuel, out); shortest(rules, b, fuel, out); }
        O::Choice(a, b) => { // the alternative that needs no recursion if there is one: try the last, then the first
            let mut cur = &**b; while let O::Choice(_, y) = cur { cur = &**y; }
            if fuel > 2 { shortest(rules, a, fuel - 1, out) } else { shortest(rules, cur, fuel.saturating_sub(1), out) } }
        O::Push(x) | O::RestoreOnErr(x) => shortest(rules, x, fuel, out),
        _ => {}
    }
}

/// literal characters of a rule and its callees, in the CURRENT grammar.pest (optimized rules)
fn lits_opt(rules: &std::collections::HashMap<String, pest_meta::optimizer::OptimizedExpr>, name: &str, depth: u32, seen: &mut Vec<String>, out: &mut Vec<char>) {
    use pest_meta::optimizer::OptimizedExpr as O;
    if seen.iter().any(|s| s == name) { return; }
    seen.push(name.to_string());
    let e = match rules.get(name) { Some(e) => e, None => return };
    let mut callees = vec![];
    for x in e.iter_top_down() {
        match x {
            O::Str(s) | O::Insens(s) => for c in s.chars() { if !out.contains(&c) { out.push(c); } },
            O::Range(a, b) => for c in a.chars().chain(b.chars()) { if !out.contains(&c) { out.push(c); } },
            O::Skip(ss) => for s in ss.iter() { for c in s.chars() { if !out.contains(&c) { out.push(c); } } },
            O::Ident(n) => callees.push(n.clone()),
            _ => {}
        }
    }
    if depth > 0 { for c in callees { lits_opt(rules, &c, depth - 1, seen, out); } }
}
/// the same for the function of the CHECKED-IN grammar.rs (programs read by genread)
fn lits_prog(fns: &[(String, pvharness::prog::Prog)], nrules: usize, p: &pvharness::prog::Prog, depth: u32, seen: &mut Vec<usize>, out: &mut Vec<char>) {
    use pvharness::prog::Prog::*;
    let mut add = |s: &str, out: &mut Vec<char>| for c in s.chars() { if !out.contains(&c) { out.push(c); } };
    match p {
        Str(s) | Ins(s) => add(s, out), Range(a, b) => { if !out.contains(a) { out.push(*a); } if !out.contains(b) { out.push(*b); } }
        Until(ss) => for s in ss { add(s, out) },
        Rule(_, q) | Seq(q) | Rep(q) | Opt(q) | Look(_, q) | Atomic(_, q) | Push(q) | Roe(q) => lits_prog(fns, nrules, q, depth, seen, out),
        Then(a, b) | Else(a, b) | IfNa(a, b) => { lits_prog(fns, nrules, a, depth, seen, out); lits_prog(fns, nrules, b, depth, seen, out); }
        Call(k) => if *k < nrules && depth > 0 && !seen.contains(k) { seen.push(*k); lits_prog(fns, nrules, &fns[*k].1, depth - 1, seen, out); },
        _ => {}
    }
}
/// a shortest text of `from` with a hole where `target` is derived: (before, after)
fn hole(rules: &std::collections::HashMap<String, pest_meta::optimizer::OptimizedExpr>, e: &pest_meta::optimizer::OptimizedExpr, target: &str, depth: u32) -> Option<(String, String)> {
    use pest_meta::optimizer::OptimizedExpr as O;
    match e {
        O::Ident(n) if n == target => Some((String::new(), String::new())),
        O::Ident(n) => if depth == 0 { None } else { rules.get(n).and_then(|x| hole(rules, x, target, depth - 1)) },
        O::Seq(a, b) => {
            if let Some((pre, post)) = hole(rules, a, target, depth) { let mut t = String::new(); shortest(rules, b, 6, &mut t); Some((pre, post + &t)) }
            else if let Some((pre, post)) = hole(rules, b, target, depth) { let mut t = String::new(); shortest(rules, a, 6, &mut t); Some((t + &pre, post)) } else { None }
        }
        O::Choice(a, b) => hole(rules, a, target, depth).or_else(|| hole(rules, b, target, depth)),
        O::Opt(x) | O::Rep(x) | O::Push(x) | O::RestoreOnErr(x) => hole(rules, x, target, depth),
        _ => None,
    }
}

fn pest_files(repo: &str) -> Vec<String> {
    let mut out = vec![];
    let mut stack = vec![std::path::PathBuf::from(repo)];
    while let Some(d) = stack.pop() {
        let rd = match std::fs::read_dir(&d) { Ok(x) => x, Err(_) => continue };
        for e in rd.flatten() {
            let p = e.path();
            let name = p.file_name().and_then(|s| s.to_str()).unwrap_or("").to_string();
            if p.is_dir() { if name != "target" && name != ".git" { stack.push(p); } }
            else if name.ends_with(".pest") { out.push(p.to_string_lossy().to_string()); }
        }
    }
    out.sort();
    out
}

/// fragments of the meta-language: one per construct of it
const FRAGS: [&str; 35] = ["\"a\"", "'a'..'z'", "^\"a\"", "a = { b }", "PUSH(a)", "PEEK[1..2]", "PEEK[..]", "PEEK[-1..]", "a{2,3}", "a{,3}", "a{2,}", "a{2}", "#t = a", "// c\n", "/* c */", "/// d\n", "//! d\n",
                "\"\\n\"", "\"\\x41\"", "\"\\u{1F600}\"", "'\\''", "a ~ b | c", "!a ~ &b", "(a | b)*", "a+?", "_", "a = _{ \"x\" }", "a = @{ b }", "a = ${ b }", "a = !{ b }", "PUSH_LITERAL(\"a\")", "-12", "007", "|a", "a = { | b }"];

include!("../c14_switches.rs");

fn plain_obs<R: pest::RuleType>(res: Result<pest::iterators::Pairs<'_, R>, pest::error::Error<R>>, name: &dyn Fn(R) -> String) -> String {
    match res { Ok(p) => format!("Ok {}", forest(p, name)), Err(e) => obs_err(e) }
}

#[derive(Default)]
struct SwCounts { detail: u64, detail_err: u64, limit: u64, budgets: u64, vm_far: u64 }

/// One (rule, text) case under a setting of pest's process-wide switches (see src/c14_switches.rs): `detail` -> a P line, `limit:auto`
/// / `limit:<n>` -> an L line.  The switches are put back to their defaults (no limit, no detail) afterwards.
fn observe_switch(vm: &pest_vm::Vm, r: pest_meta::parser::Rule, name: &str, t: &str, sw: &str, c: &mut SwCounts, w: &mut dyn Write) {
    let rn = |x: pest_meta::parser::Rule| format!("{:?}", x);
    let vn = |x: &str| x.to_string();
    if sw == "detail" {
        pest::set_error_detail(true);
        let r2m: pest::error::RuleToMessageFn<pest_meta::parser::Rule> = Box::new(|r: &pest_meta::parser::Rule| Some(format!("{:?}", r)));
        let a = catch(|| detail_obs(pest_meta::parser::parse(r, t), t, &rn, &r2m)).unwrap_or_else(|m| format!("Panic {}", m));
        let v2m: pest::error::RuleToMessageFn<&str> = Box::new(|r: &&str| Some(r.to_string()));
        let b = catch(|| detail_obs(vm.parse(name, t), t, &vn, &v2m)).unwrap_or_else(|m| format!("Panic {}", m));
        pest::set_error_detail(false);
        c.detail += 1;
        if a.contains(" attempts: ") { c.detail_err += 1; }
        writeln!(w, "P\t{}\t{}\t{}\t{}", name, hex(t), a, b).unwrap();
        return;
    }
    let ck = || catch(|| plain_obs(pest_meta::parser::parse(r, t), &rn)).unwrap_or_else(|m| format!("Panic {}", m));
    let vmr = || catch(|| plain_obs(vm.parse(name, t), &vn)).unwrap_or_else(|m| format!("Panic {}", m));
    c.limit += 1;
    if let Some(Ok(n)) = sw.strip_prefix("limit:").map(|x| x.parse::<usize>()) {
        let a = sw_under(n, &ck);
        let b = sw_under(n, &vmr);
        pest::set_call_limit(None);
        writeln!(w, "L\t{}\t{}\t{}\t{}\t{}", name, hex(t), n, a, b).unwrap();
        return;
    }
    let (need, a) = budget_obs(&ck, 0);
    let mut b = "vmfar=ok".to_string();
    if let Some(need) = need {
        c.budgets += 1;
        // pest_vm far from the budget of the generated parser
        let free_vm = vmr();
        let free_ck = ck();
        let hi = need * 8 + 256;
        let v = sw_under(hi, &vmr);
        c.vm_far += 1;
        if v != free_vm || v != free_ck { b = format!("vmfar=DIFF limit={} pest_vm under it: `{}`; checked-in parser and pest_vm without a limit: `{}` / `{}`", hi, v, free_ck, free_vm); }
        let lo = need / 8;
        if lo >= 1 && b == "vmfar=ok" {
            let v = sw_under(lo, &vmr);
            c.vm_far += 1;
            if v != SW_LIMITED { b = format!("vmfar=DIFF limit={} pest_vm under it: `{}`; the checked-in parser refuses every limit below {}", lo, v, need); }
        }
        pest::set_call_limit(None);
    }
    writeln!(w, "L\t{}\t{}\tauto\t{}\t{}", name, hex(t), a, b).unwrap();
}

/// every prefix of `t` that ends at a character boundary (the text itself last)
fn prefixes(t: &str) -> Vec<String> {
    let mut v: Vec<String> = t.char_indices().map(|(i, _)| t[..i].to_string()).filter(|p| !p.is_empty()).collect();
    v.push(t.to_string());
    v
}

/// lines `rule TAB hex of the text`
fn read_seq(path: &str) -> Vec<(String, String)> { read_seq3(path).into_iter().map(|(r, t, _)| (r, t)).collect() }
/// lines `rule TAB hex of the text [TAB switch]` (switch: `detail`, `limit:<n>`, `limit:auto`; see `observe_switch`)
fn read_seq3(path: &str) -> Vec<(String, String, String)> {
    std::fs::read_to_string(path).unwrap_or_default().lines().filter_map(|l| { let mut p = l.split('\t'); match (p.next(), p.next(), p.next()) { (Some(r), Some(h), sw) if !r.is_empty() => Some((r.to_string(), pvharness::prog::unhex(h), sw.unwrap_or("").trim().to_string())), _ => None } }).collect()
}

fn main() {
    quiet_panics();
    let mode = arg(1);
    let repo = arg(2);
    let stdout = io::stdout();
    let mut w = BufWriter::with_capacity(1 << 20, stdout.lock());
    match mode.as_str() {
        "regen" => {
            let derived = match catch(|| fresh_tokens(&repo)) { Ok(t) => t, Err(m) => { writeln!(w, "REGEN\tdifferent\tderive_parser panicked: {}", esc(&m)).unwrap(); return; } };
            let would_write = format!("pub struct PestParser;\n{}\n", derived);
            let checked_in = std::fs::read_to_string(format!("{}/meta/src/grammar.rs", repo.trim_end_matches('/'))).unwrap_or_default();
            if would_write == checked_in { writeln!(w, "REGEN\tidentical\t{} bytes", checked_in.len()).unwrap(); }
            else {
                let a = would_write.as_bytes(); let b = checked_in.as_bytes();
                let k = a.iter().zip(b.iter()).position(|(x, y)| x != y).unwrap_or(a.len().min(b.len()));
                let sn = |s: &[u8]| String::from_utf8_lossy(&s[k.saturating_sub(60).min(s.len())..(k + 60).min(s.len())]).to_string();
                writeln!(w, "REGEN\tdifferent\tfirst difference at byte {} (regenerated {} bytes, checked-in {} bytes): regenerated `{}` vs checked-in `{}`",
                    k, a.len(), b.len(), esc(&sn(a)), esc(&sn(b))).unwrap();
                // which functions differ (token-level, independent of the reader and of the model): the rules to search around
                if let (Some(x), Some(y)) = (fn_bodies(&would_write), fn_bodies(&checked_in)) {
                    let mut keys: Vec<&String> = x.keys().chain(y.keys()).collect();
                    keys.sort(); keys.dedup();
                    for k in keys { if x.get(k) != y.get(k) { writeln!(w, "REGENFN\t{}", k).unwrap(); } }
                }
            }
        }
        "read" => {
            let text = std::fs::read_to_string(grammar_path(&repo)).expect("grammar.pest");
            let ast = match catch(|| pest_meta::parser::parse(pest_meta::parser::Rule::grammar_rules, &text).map_err(|e| format!("{}", e)).and_then(|p| pest_meta::parser::consume_rules(p).map_err(|es| format!("{:?}", es.iter().map(|e| e.variant.message().to_string()).collect::<Vec<_>>())))) {
                Ok(Ok(a)) => a,
                Ok(Err(m)) => { writeln!(w, "GE\tthe checked-in parser rejects meta/src/grammar.pest: {}", esc(&m)).unwrap(); writeln!(w, "#SUMMARY\tevaluations=1\tdistinct_nontrivial=0").unwrap(); return; }
                Err(m) => { writeln!(w, "GE\tthe checked-in parser panics on meta/src/grammar.pest: {}", esc(&m)).unwrap(); writeln!(w, "#SUMMARY\tevaluations=1\tdistinct_nontrivial=0").unwrap(); return; }
            };
            let orig = sexp_grammar(&from_rules(&ast));
            let opt = pest_meta::optimizer::optimize(ast);
            let osexp = sexp_grammar(&from_orules(&opt));
            writeln!(w, "A\t{}", orig).unwrap();
            writeln!(w, "O\t{}", osexp).unwrap();
            let none: Vec<String> = vec![];
            let nor = |_: &str| -> Option<Vec<(char, char)>> { None };
            let src = std::fs::read_to_string(format!("{}/meta/src/grammar.rs", repo.trim_end_matches('/'))).unwrap_or_default();
            let checked = syn::parse_file(&src).map_err(|e| format!("grammar.rs is not a Rust file: {}", e)).and_then(|f| genread::read_parser(&f, &none, &nor));
            match checked { Ok(p) => writeln!(w, "T\t0\t{}\t{}\t{}", orig, osexp, genread::show(&p)).unwrap(), Err(e) => writeln!(w, "TE\t0\t{}\t{}\tmeta/src/grammar.rs", osexp, esc(&e)).unwrap() }
            let fresh = catch(|| fresh_tokens(&repo)).map_err(|m| format!("derive_parser panicked: {}", m))
                .and_then(|ts| syn::parse2::<syn::File>(ts).map_err(|e| format!("fresh code is not a Rust file: {}", e))).and_then(|f| genread::read_parser(&f, &none, &nor));
            match fresh { Ok(p) => writeln!(w, "F\t0\t{}\t{}\t{}", orig, osexp, genread::show(&p)).unwrap(), Err(e) => writeln!(w, "TE\t0\t{}\t{}\tfresh derive_parser output", osexp, esc(&e)).unwrap() }
            writeln!(w, "#SUMMARY\tevaluations=2\tdistinct_nontrivial=2").unwrap();
        }
        "diff" => {
            let count = arg_u64(3, 200); let mut rng = Rng::new(arg_u64(4, 0));
            let gtext = std::fs::read_to_string(grammar_path(&repo)).expect("grammar.pest");
            let opt = match catch(|| pest_meta::parse_and_optimize(&gtext)) { Ok(Ok((_, o))) => o, _ => { writeln!(w, "GE\tmeta/src/grammar.pest is rejected by pest_meta (the checked-in parser + validator)").unwrap(); writeln!(w, "#SUMMARY\tevaluations=1\tdistinct_nontrivial=0").unwrap(); return; } };
            writeln!(w, "G\tmeta\t0\t{}\t-", sexp_grammar(&from_orules(&opt))).unwrap();
            let names: Vec<String> = opt.iter().map(|r| r.name.clone()).collect();
            let rmap: std::collections::HashMap<String, pest_meta::optimizer::OptimizedExpr> = opt.iter().map(|r| (r.name.clone(), r.expr.clone())).collect();
            let opt_copy = opt.clone();
            let vm = pest_vm::Vm::new(opt);
            let all = pest_meta::parser::Rule::all_rules();
            let top = pest_meta::parser::Rule::grammar_rules;
            // (text, rules to start from)
            let mut cases: Vec<(String, Vec<pest_meta::parser::Rule>)> = vec![];
            let main_rules = |r: &mut Rng| -> Vec<pest_meta::parser::Rule> { let mut v = vec![top]; for _ in 0..2 { v.push(all[r.below(all.len() as u64) as usize]); } v };
            let files = pest_files(&repo);
            let mut valid: Vec<String> = vec![];
            for f in &files { if let Ok(t) = std::fs::read_to_string(f) { valid.push(t); } }
            let nfiles = valid.len();
            // (the build with grammar-extras also writes node tags and PUSH_LITERAL into the generated grammars)
            for _ in 0..count / 4 { let g = gen_grammar(&mut rng, &GenCfg { stack: true, extras: cfg!(feature = "extras"), counts: true, builtins: true }); valid.push(pest_grammar(&g)); }
            let fixed = arg(5) != "nofixed";   // the seed-independent texts are emitted by one of the parallel runs only
            for (i, t) in valid.iter().enumerate() { let rs = if i < nfiles { vec![top] } else { main_rules(&mut rng) }; if i >= nfiles || fixed { cases.push((t.clone(), rs)); } }
            // near-miss grammars
            for _ in 0..count {
                let base = &valid[rng.below(valid.len() as u64) as usize];
                let mut t: String = if base.len() > 400 { let cs: Vec<char> = base.chars().collect(); let a = rng.below(cs.len() as u64 - 300) as usize; cs[a..a + 300].iter().collect() } else { base.clone() };
                for _ in 0..1 + rng.below(3) { t = mutate(&mut rng, &t); }
                let rs = main_rules(&mut rng);
                cases.push((t, rs));
            }
            // random derivations from the rules of the current grammar.pest, for the top rule and for random sub-rules
            for i in 0..count {
                let start = if i % 3 == 0 { "grammar_rules".to_string() } else { names[rng.below(names.len() as u64) as usize].clone() };
                let mut t = String::new();
                derive(&rmap, &rmap[&start], &mut rng, 4 + (i % 3) as u32, &mut t);
                let rs: Vec<pest_meta::parser::Rule> = all.iter().cloned().filter(|r| format!("{:?}", r) == start).collect();
                if rng.chance(1, 4) { t = mutate(&mut rng, &t); }
                cases.push((t, if rs.is_empty() { vec![top] } else { rs }));
            }
            // fragments fed to every rule: short strings over the meta alphabet
            let alpha = ["a", "=", "{", "}", "\"", "'", "~", "|", "*", " ", "_", "!"];
            if fixed { for t in all_strings(&alpha, 2) { cases.push((t, all.to_vec())); } }
            let frags = FRAGS;
            for f in frags.iter() { if fixed { cases.push((f.to_string(), all.to_vec())); } let m = mutate(&mut rng, f); cases.push((m, all.to_vec())); }
            for _ in 0..count { let n = rng.range(3, 10); let t: String = (0..n).map(|_| alpha[rng.below(alpha.len() as u64) as usize]).collect(); let rs = main_rules(&mut rng); cases.push((t, rs)); }
            // the characters a layer between the caller and the generated parser typically strips or normalises (ENTRY_CHARS), through the
            // public entry like every other text: each of them alone, in front of, behind and inside a shortest spelling of EVERY rule, fed to
            // that rule; in front of / behind / inside the shipped grammars and the generated ones, fed to the top rule
            let before_entry = cases.len();
            let go = texts::G::new(&from_orules(&opt_copy));
            if fixed {
                for r in all.iter() {
                    let name = format!("{:?}", r);
                    let base = go.short.get(&name).cloned().unwrap_or_default();
                    let bounds: Vec<usize> = base.char_indices().map(|(i, _)| i).filter(|i| *i > 0).collect();
                    for e in ENTRY_CHARS.iter() {
                        let mut ts = vec![e.to_string(), format!("{}{}", e, base), format!("{}{}", base, e), format!("{} {}", e, base), format!(" {}{}", e, base), format!("{}{}{}", e, e, base)];
                        if !bounds.is_empty() { let k = bounds[rng.below(bounds.len() as u64) as usize]; ts.push(format!("{}{}{}", &base[..k], e, &base[k..])); }
                        for t in ts { cases.push((t, vec![*r])); }
                    }
                }
            }
            for (i, t) in valid.iter().enumerate() {
                let shipped = i < nfiles;
                if shipped && !fixed { continue; }
                let bounds: Vec<usize> = t.char_indices().map(|(i, _)| i).collect();
                for (k, e) in ENTRY_CHARS.iter().enumerate() {
                    if shipped || rng.chance(1, 6) { cases.push((format!("{}{}", e, t), vec![top])); }
                    if (shipped && (k + i) % 6 == 0) || rng.chance(1, 12) { cases.push((format!("{}{}", t, e), vec![top])); }
                    if !bounds.is_empty() && ((shipped && (k + i) % 6 == 3) || rng.chance(1, 12)) { let p = bounds[rng.below(bounds.len() as u64) as usize]; cases.push((format!("{}{}{}", &t[..p], e, &t[p..]), vec![top])); }
                }
            }
            let n_entry_texts = cases.len() - before_entry;
            if arg(5) == "one" { cases = vec![(pvharness::prog::unhex(&arg(7)), all.iter().cloned().filter(|r| format!("{:?}", r) == arg(6)).collect())]; }
            // `seq FILE`: the (rule, text) cases of FILE (lines `rule TAB hex`), in that order, in this one process (a replay with its history)
            let seq = arg(5) == "seq";
            let mut c = Counts::default();
            if seq {
                // (a case with a third column is run under that setting of pest's process-wide switches)
                let mut sc = SwCounts::default();
                for (rule, t, sw) in read_seq3(&arg(6)) {
                    for r in all.iter().cloned().filter(|r| format!("{:?}", r) == rule) {
                        if !names.contains(&rule) && rule != "EOI" { continue; }
                        if sw.is_empty() { observe(&vm, true, r, &rule, &t, true, &mut c, &mut w); } else if names.contains(&rule) { c.n += 1; observe_switch(&vm, r, &rule, &t, &sw, &mut sc, &mut w); }
                    }
                }
                cases.clear();
            }
            for (t, rs) in &cases {
                for r in rs {
                    let name = format!("{:?}", r);
                    if !names.contains(&name) && name != "EOI" { continue; }
                    observe(&vm, true, *r, &name, t, seq, &mut c, &mut w);
                }
            }
            writeln!(w, "#SUMMARY\tevaluations={}\tdistinct_nontrivial={}\tdirect_differences={}\tpest_files={}\tentry_vs_generated={}\tparse_and_optimize_vs_vm={}\tentry_char_texts={}\tsettings_checks={}\tsettings_changes={}\tparse_and_optimize_vs_steps={}",
                c.n, c.nt, c.diffs, nfiles, c.entry, c.top, n_entry_texts, c.settings, c.leaks, c.parts).unwrap();
        }
        "target" => {
            // targeted failing-input search for the rules named in arg(3) (comma separated; these are the rules a structural stage found to
            // differ).  The oracle is the property itself, on the real code: every text goes to the checked-in parser and to pest_vm here, and
            // to the freshly generated parser downstream.  Texts, all derived from the grammar file (src/c14_texts.rs):
            //  (a) spellings of the rule (every alternative, range endpoint, every count of a bounded repetition from min-1 to max+1, 0-3
            //      iterations otherwise), from the AST and from the optimized rules, + character-level mutations, fed to the rule;
            //  (b) the same spellings embedded in a shortest text of EVERY rule that reaches the rule, up to the top rule, fed to that rule;
            //  (c) the grammar's own trivia (spellings of WHITESPACE / COMMENT, singly and in pairs) inserted at every position of the
            //      shortest of these texts; when the rule is itself part of the trivia, its spellings are used as trivia in texts of every rule;
            //  (e) the characters a layer between the caller and the generated parser typically strips or normalises (ENTRY_CHARS) in front
            //      of, behind and inside the spellings, for the rule and embedded in its callers;
            //  (d) unless `light`: all strings up to MAXLEN over the literal alphabet of the rule and its callees (both versions), alone and
            //      in fixed contexts for the top rule.
            let targets: Vec<String> = arg(3).split(',').filter(|x| !x.is_empty()).map(|x| x.to_string()).collect();
            let maxlen = arg_u64(4, 4) as usize;
            let light = arg(5) == "light";
            let mut rng = Rng::new(arg_u64(6, 0));
            let gtext = std::fs::read_to_string(grammar_path(&repo)).expect("grammar.pest");
            let ast = catch(|| pest_meta::parser::parse(pest_meta::parser::Rule::grammar_rules, &gtext).ok().and_then(|p| pest_meta::parser::consume_rules(p).ok())).ok().flatten();
            let opt = match catch(|| pest_meta::parse_and_optimize(&gtext)) { Ok(Ok((_, o))) => o, _ => { writeln!(w, "GE\tmeta/src/grammar.pest is rejected by pest_meta (the checked-in parser + validator)").unwrap(); writeln!(w, "#SUMMARY\tevaluations=1\tdistinct_nontrivial=0").unwrap(); return; } };
            writeln!(w, "G\tmeta\t0\t{}\t-", sexp_grammar(&from_orules(&opt))).unwrap();
            let names: Vec<String> = opt.iter().map(|r| r.name.clone()).collect();
            let rmap: std::collections::HashMap<String, pest_meta::optimizer::OptimizedExpr> = opt.iter().map(|r| (r.name.clone(), r.expr.clone())).collect();
            let go = texts::G::new(&from_orules(&opt));
            let ga = ast.as_ref().map(|a| texts::G::new(&from_rules(a)));
            let gs: Vec<&texts::G> = ga.iter().chain(std::iter::once(&go)).collect();
            let vm = pest_vm::Vm::new(opt);
            let all = pest_meta::parser::Rule::all_rules();
            let none: Vec<String> = vec![];
            let nor = |_: &str| -> Option<Vec<(char, char)>> { None };
            let src = std::fs::read_to_string(format!("{}/meta/src/grammar.rs", repo.trim_end_matches('/'))).unwrap_or_default();
            let checked = syn::parse_file(&src).ok().and_then(|f| genread::read_parser(&f, &none, &nor).ok());
            let n = std::cell::Cell::new(0u64);
            let counts = std::cell::RefCell::new(Counts::default());
            let mut fed: std::collections::HashSet<(String, String)> = std::collections::HashSet::new();
            let mut stage_counts: Vec<(String, u64)> = vec![];
            let mut feed = |rule: &str, t: &str, w: &mut BufWriter<io::StdoutLock>| {
                let r = match all.iter().find(|r| format!("{:?}", r) == rule) { Some(r) => *r, None => return };
                if t.len() > 2000 || !fed.insert((rule.to_string(), t.to_string())) { return; }
                let mut c = counts.borrow_mut();
                observe(&vm, names.iter().any(|x| x == rule), r, rule, t, false, &mut c, w);
                n.set(c.n);
            };
            let spell_rule = |name: &str, depth: u32, cap: usize, rng: &mut Rng| -> Vec<String> {
                let mut v: Vec<String> = vec![];
                for g in &gs { if let Some((_, e)) = g.rules.get(name) { for s in g.spell(e, depth, cap, rng) { if !v.contains(&s) { v.push(s); } } } }
                v
            };
            // the grammar's own trivia
            let mut trivia: Vec<String> = vec![];
            for t in ["WHITESPACE", "COMMENT"] { for s in spell_rule(t, 3, 14, &mut rng) { if !s.is_empty() && !trivia.contains(&s) { trivia.push(s); } } }
            let in_trivia: Vec<String> = go.callees(&["WHITESPACE", "COMMENT"]);
            let roots: Vec<String> = { let r = gs[0].roots(); if r.is_empty() { names.iter().take(1).cloned().collect() } else { r } };
            let pairs = |ws: &[String]| -> Vec<String> { let k = ws.len().min(10); let mut v: Vec<String> = ws.to_vec(); for a in &ws[..k] { for b in &ws[..k] { v.push(format!("{}{}", a, b)); } } v };
            for tname in &targets {
                let mark = n.get();
                // (a)
                let spellings = spell_rule(tname, 3, 300, &mut rng);
                for s in &spellings { feed(tname, s, &mut w); }
                for s in &spellings { for _ in 0..2 { let m = mutate(&mut rng, s); feed(tname, &m, &mut w); } }
                stage_counts.push((format!("{}:spellings", tname), n.get() - mark));
                // (b)
                let mark = n.get();
                let g0 = gs[0];
                let dist = g0.dist_to(tname, false);
                let dist_any = g0.dist_to(tname, true);
                let mut contexts: Vec<(String, String, String, u32)> = vec![];   // (rule, before, after, distance)
                for a in &g0.order {
                    if a == tname { continue; }
                    if let Some(d) = dist.get(a) { if let Some((pre, post)) = g0.hole(a, tname, &dist) { contexts.push((a.clone(), pre, post, *d)); continue; } }
                    if dist_any.contains_key(a) { for s in spell_rule(a, 2, 60, &mut rng) { feed(a, &s, &mut w); } }
                }
                for (a, pre, post, _) in &contexts {
                    for (i, s) in spellings.iter().take(150).enumerate() {
                        feed(a, &format!("{}{}{}", pre, s, post), &mut w);
                        if i < 40 { let m = mutate(&mut rng, s); feed(a, &format!("{}{}{}", pre, m, post), &mut w); }
                    }
                }
                stage_counts.push((format!("{}:in {} calling rules", tname, contexts.len()), n.get() - mark));
                // (c)
                let mark = n.get();
                let mut buf: Vec<String> = vec![];
                if in_trivia.iter().any(|x| x == tname) {
                    let mut ws: Vec<String> = spellings.iter().filter(|s| !s.is_empty()).take(24).cloned().collect();
                    for t in &trivia { if !ws.contains(t) { ws.push(t.clone()); } }
                    let ws2 = pairs(&ws);
                    for a in &g0.order {
                        let is_root = roots.contains(a);
                        let bases: Vec<String> = if is_root { let mut b = spell_rule(a, 5, 40, &mut rng); b.sort_by_key(|s| s.len()); b.into_iter().filter(|s| !s.is_empty()).take(12).collect() }
                            else { let mut b = vec![g0.short.get(a).cloned().unwrap_or_default()]; b.extend(spell_rule(a, 2, 8, &mut rng).into_iter().take(2)); b };
                        for base in bases.iter().filter(|b| b.len() <= 40) {
                            buf.clear();
                            texts::insert_everywhere(base, if is_root && base.len() <= 24 { &ws2 } else { &ws }, &mut buf);
                            for t in &buf { feed(a, t, &mut w); }
                        }
                    }
                } else if !trivia.is_empty() {
                    let tr2 = pairs(&trivia);
                    let mut bases: Vec<(String, String)> = spellings.iter().take(6).map(|s| (tname.clone(), s.clone())).collect();
                    for (a, pre, post, d) in &contexts {
                        let k = if roots.contains(a) { 6 } else if *d == 1 { 4 } else { 1 };
                        for s in spellings.iter().take(k) { bases.push((a.clone(), format!("{}{}{}", pre, s, post))); }
                    }
                    for (a, base) in bases.iter().filter(|(_, b)| b.len() <= 60) {
                        buf.clear();
                        texts::insert_everywhere(base, if base.len() <= 16 { &tr2 } else { &trivia }, &mut buf);
                        for t in &buf { feed(a, t, &mut w); }
                    }
                }
                stage_counts.push((format!("{}:trivia at every position", tname), n.get() - mark));
                // (e) the characters a layer in front of the generated parser typically strips or normalises, around and inside the spellings
                let mark = n.get();
                for (i, s) in spellings.iter().take(60).enumerate() {
                    let bounds: Vec<usize> = s.char_indices().map(|(i, _)| i).filter(|i| *i > 0).collect();
                    for e in ENTRY_CHARS.iter() {
                        feed(tname, &format!("{}{}", e, s), &mut w);
                        feed(tname, &format!("{}{}", s, e), &mut w);
                        if i < 12 { for k in bounds.iter().take(12) { feed(tname, &format!("{}{}{}", &s[..*k], e, &s[*k..]), &mut w); } }
                    }
                }
                for (a, pre, post, _) in contexts.iter().filter(|(a, _, _, d)| roots.contains(a) || *d == 1) {
                    for s in spellings.iter().take(4) { for e in ENTRY_CHARS.iter() {
                        feed(a, &format!("{}{}{}{}", e, pre, s, post), &mut w);
                        feed(a, &format!("{}{}{}{}", pre, s, post, e), &mut w);
                        feed(a, &format!("{}{}{}{}", pre, e, s, post), &mut w);
                        feed(a, &format!("{}{}{}{}", pre, s, e, post), &mut w);
                    } }
                }
                stage_counts.push((format!("{}:{} strippable / normalisable characters around and inside", tname, ENTRY_CHARS.len()), n.get() - mark));
                if light { continue; }
                // (d)
                let mark = n.get();
                let mut alpha: Vec<char> = vec![];
                lits_opt(&rmap, tname, 3, &mut vec![], &mut alpha);
                if let Some(p) = &checked {
                    let nrules = p.variants.iter().filter(|v| *v != "EOI").count();
                    if let Some(k) = p.fns.iter().position(|(f, _)| f == tname) { lits_prog(&p.fns, nrules, &p.fns[k].1, 3, &mut vec![k], &mut alpha); }
                }
                alpha.truncate(if maxlen >= 5 { 6 } else { 5 });
                for c in [' ', '\r', '\n', 'a', '0', '-', '"'] { if !alpha.contains(&c) { alpha.push(c); } }
                let al: Vec<String> = alpha.iter().map(|c| c.to_string()).collect();
                let alr: Vec<&str> = al.iter().map(|x| x.as_str()).collect();
                for t in all_strings(&alr, maxlen) { feed(tname, &t, &mut w); }
                // contexts: fixed ones for the lexical rules of the meta-grammar, and a shortest derivation of the top rule through this rule
                let mut ctx: Vec<(String, String)> = ["a = { b }@c = { d }", "/// doc@a = { b }", "//! doc@a = { b }", "a = { PEEK[@..] }", "a = { PEEK[..@] }", "a = { @ }", "a = {@b }", "a = { \"@\" }",
                    "a = { '@'..'z' }", "a = { b{@} }", "a = { b{@,} }", "a@= { b }", "a = @{ b }", "a = { b ~ @ }", "a = { #t = @ }", "a = { PUSH(@) }", "a = { ^\"@\" }", "@"].iter()
                    .map(|c| { let k = c.find('@').unwrap(); (c[..k].to_string(), c[k + 1..].to_string()) }).collect();
                if let Some(top) = rmap.get("grammar_rules") { if let Some(h) = hole(&rmap, top, tname, 8) { ctx.push(h); } }
                for r in ["grammar_rule", "expression", "term"] { if let Some(e) = rmap.get(r) { if let Some((a, b)) = hole(&rmap, e, tname, 6) { ctx.push((format!("a = {{ {}", a), format!("{} }}", b))); } } }
                let short = all_strings(&alr, 3.min(maxlen));
                for (pre, post) in &ctx { for x in &short { let t = format!("{}{}{}", pre, x, post); feed("grammar_rules", &t, &mut w); } }
                stage_counts.push((format!("{}:all strings up to length {} over {} characters", tname, maxlen, alpha.len()), n.get() - mark));
            }
            writeln!(w, "STAGES\t{}", stage_counts.iter().map(|(k, v)| format!("{}={}", k, v)).collect::<Vec<_>>().join("; ")).unwrap();
            let c = counts.borrow();
            writeln!(w, "#SUMMARY\tevaluations={}\tdistinct_nontrivial={}\tdirect_differences={}\tpest_files=0\tentry_vs_generated={}\tparse_and_optimize_vs_vm={}\tsettings_checks={}\tsettings_changes={}\tparse_and_optimize_vs_steps={}",
                c.n, c.nt, c.diffs, c.entry, c.top, c.settings, c.leaks, c.parts).unwrap();
        }
        "readx" => {
            // the structural stage for THIS build's feature set (run for the build with grammar-extras): the token stream the in-tree generator
            // returns for grammar.pest, read back, against the generator model for the rules THIS build's optimizer prints (F line only; the
            // checked-in grammar.rs is generated without the feature and is compared behaviourally)
            let x = cfg!(feature = "extras") as u8;
            let text = std::fs::read_to_string(grammar_path(&repo)).expect("grammar.pest");
            let ast = match catch(|| pest_meta::parser::parse(pest_meta::parser::Rule::grammar_rules, &text).ok().and_then(|p| pest_meta::parser::consume_rules(p).ok())) {
                Ok(Some(a)) => a,
                _ => { writeln!(w, "#SUMMARY\tevaluations=0\tdistinct_nontrivial=0").unwrap(); return; }   // reported by `read` / `diff`
            };
            let orig = sexp_grammar(&from_rules(&ast));
            let osexp = sexp_grammar(&from_orules(&pest_meta::optimizer::optimize(ast)));
            let none: Vec<String> = vec![];
            let nor = |_: &str| -> Option<Vec<(char, char)>> { None };
            let fresh = catch(|| fresh_tokens(&repo)).map_err(|m| format!("derive_parser panicked: {}", m))
                .and_then(|ts| syn::parse2::<syn::File>(ts).map_err(|e| format!("fresh code is not a Rust file: {}", e))).and_then(|f| genread::read_parser(&f, &none, &nor));
            match fresh { Ok(p) => writeln!(w, "F\t{}\t{}\t{}\t{}", x, orig, osexp, genread::show(&p)).unwrap(), Err(e) => writeln!(w, "TE\t{}\t{}\t{}\tfresh derive_parser output", x, osexp, esc(&e)).unwrap() }
            writeln!(w, "#SUMMARY\tevaluations=1\tdistinct_nontrivial=1").unwrap();
        }
        "large" => {
            // c14 large REPO SEED EPFILE PERCENT [LEAKFILE]
            // The legs of the property share this process, and pest has process-wide settings.  (1) Every public entry of the grammar front
            // end on accepted and rejected texts while the CALLER has a call limit and error detail set: the settings must survive (S lines;
            // with the default settings this is checked around every call of every case of every mode).  (2) Large texts (sizes: PERCENT of
            // 70 / 110 / 160 / 300 kB) fed AFTER rejected texts, small and large: every leg on every one of them, parse_and_optimize against
            // its own steps.  An episode = (texts fed before, rule, text); EPFILE gets one line per episode, so that a disagreement can be
            // replayed in a fresh process with its history (`diff .. seq FILE`).
            // LEAKFILE (lines `rule TAB hex`): texts after which a call limit stays behind (found by the oracle above).  The search then
            // looks for the size at which that limit starts to bite for the checked-in parser (bisection over the number of rules of a
            // generated grammar, the texts of LEAKFILE fed before every probe) and compares the legs on grammars around that size.
            let mut rng = Rng::new(arg_u64(3, 0) ^ 0x14_1a_26e5);
            let epfile = arg(4);
            let pct = arg_u64(5, 100) as usize;
            let leakfile = arg(6);
            let extras = cfg!(feature = "extras");
            let gtext = std::fs::read_to_string(grammar_path(&repo)).expect("grammar.pest");
            let opt = match catch(|| pest_meta::parse_and_optimize(&gtext)) { Ok(Ok((_, o))) => o, _ => { writeln!(w, "GE\tmeta/src/grammar.pest is rejected by pest_meta (the checked-in parser + validator)").unwrap(); writeln!(w, "#SUMMARY\tevaluations=1\tdistinct_nontrivial=0").unwrap(); return; } };
            writeln!(w, "G\tmeta\t0\t{}\t-", sexp_grammar(&from_orules(&opt))).unwrap();
            let names: Vec<String> = opt.iter().map(|r| r.name.clone()).collect();
            let vm = pest_vm::Vm::new(opt);
            let all = pest_meta::parser::Rule::all_rules();
            let top = pest_meta::parser::Rule::grammar_rules;
            let rule_of = |n: &str| all.iter().cloned().find(|r| format!("{:?}", r) == n);
            let mut c = Counts::default();
            let rejected = ["a = {", "a = { b }", "a = { \"x\" }\na = { \"y\" }"];
            let mut episodes: Vec<(Vec<(String, String)>, String, String)> = vec![];
            let mut bytes = 0usize;
            if leakfile.is_empty() {
                // (1)
                let small: Vec<String> = ["a = { \"x\" }", "a = { a }", "WHITESPACE = _{ \" \" }\na = @{ 'a'..'z'+ ~ b? }\nb = { \"x\" ~ PUSH(a) ~ POP }"].iter().map(|s| s.to_string())
                    .chain(rejected.iter().map(|s| s.to_string())).chain(std::iter::once(gtext.clone())).collect();
                pest::set_call_limit(std::num::NonZeroUsize::new(50_000_000));
                pest::set_error_detail(true);
                let mut sink: Vec<u8> = vec![];
                for t in &small { observe(&vm, true, top, "grammar_rules", t, true, &mut c, &mut sink); }
                for t in ["a ~ b", "a ~", ""] { if let Some(r) = rule_of("expression") { observe(&vm, true, r, "expression", t, true, &mut c, &mut sink); } }
                pest::set_call_limit(None);
                pest::set_error_detail(false);
                for l in String::from_utf8_lossy(&sink).lines() { if !l.starts_with("D\t") { writeln!(w, "{}", l).unwrap(); } }
                // (2)
                let kb = |k: usize| k * 1024 * pct / 100;
                let mut files: Vec<Vec<GRule>> = vec![];
                for f in pest_files(&repo) {
                    if let Ok(t) = std::fs::read_to_string(&f) {
                        if let Ok(Some(a)) = catch(|| pest_meta::parser::parse(top, &t).ok().and_then(|p| pest_meta::parser::consume_rules(p).ok())) { files.push(from_rules(&a)); }
                    }
                }
                let t0 = large::generated(&mut rng, extras, kb(70));
                let t1 = large::shipped_renamed(&files, kb(110));
                let t2 = large::repeated(&gtext, kb(160));
                let t3 = large::generated(&mut rng, extras, kb(300));
                let x = large::long_expression(&mut rng, extras, kb(90));
                let top_n = "grammar_rules".to_string();
                let pre = |t: &str| vec![(top_n.clone(), t.to_string())];
                episodes.push((vec![], top_n.clone(), t0.clone()));
                episodes.push((pre(rejected[0]), top_n.clone(), t1.clone()));
                episodes.push((pre(rejected[1]), top_n.clone(), t2));
                episodes.push((pre(&large::cut(&t1, t1.len() * 7 / 10)), top_n.clone(), t3));
                episodes.push((pre(rejected[2]), "expression".to_string(), x));
                episodes.push((pre(&large::damaged(&t0, t0.len() / 2, "}")), top_n.clone(), t0));
            } else {
                let pre = read_seq(&leakfile);
                let mut sink: Vec<u8> = vec![];
                let mut poison = |c: &mut Counts, sink: &mut Vec<u8>| { for (pr, pt) in &pre { if let Some(r) = rule_of(pr) { observe(&vm, names.contains(pr), r, pr, pt, true, c, sink); } } sink.clear(); };
                poison(&mut c, &mut sink);
                let st = settings();
                let limit: Option<usize> = st.find("cl=Some((").and_then(|k| st[k..].find(", ").map(|j| k + j + 2)).and_then(|k| st[k..].split(')').next().and_then(|x| x.trim().parse().ok()));
                match limit {
                    None => writeln!(w, "LEAKSEARCH\tno call limit is set after the texts given (settings: {})", st).unwrap(),
                    Some(l) => {
                        let maxbytes = (l / 6).clamp(4000, 1_500_000);
                        let big = large::generated(&mut rng, extras, maxbytes);
                        let lines: Vec<&str> = big.lines().collect();
                        let mut bites = |n: usize, c: &mut Counts, sink: &mut Vec<u8>| -> bool {
                            poison(c, sink);
                            let t = large::first_rules(&lines, n);
                            matches!(catch(|| pest_meta::parser::parse(top, &t).map(|_| ())), Ok(Err(e)) if matches!(e.variant, pest::error::ErrorVariant::CustomError { .. }))
                        };
                        if !bites(lines.len(), &mut c, &mut sink) {
                            writeln!(w, "LEAKSEARCH\tcall limit {} left behind; the checked-in parser still accepts a generated grammar of {} bytes under it (no larger text tried)", l, big.len()).unwrap();
                        } else {
                            let (mut lo, mut hi) = (0usize, lines.len());
                            while hi - lo > 1 { let mid = (lo + hi) / 2; if bites(mid, &mut c, &mut sink) { hi = mid; } else { lo = mid; } }
                            let at = large::first_rules(&lines, hi).len();
                            writeln!(w, "LEAKSEARCH\tcall limit {} left behind; it stops the checked-in parser on generated grammars from {} lines / {} bytes on; legs compared on grammars of 85 .. 110 % of that size, the leaking texts fed before each", l, hi, at).unwrap();
                            let mut ns: Vec<usize> = [85, 95, 98, 100, 110].iter().map(|p| (hi * p / 100).max(1).min(lines.len())).collect();
                            ns.push(hi.saturating_sub(1).max(1));
                            ns.sort(); ns.dedup();
                            for n in ns { episodes.push((pre.clone(), "grammar_rules".to_string(), large::first_rules(&lines, n))); }
                        }
                    }
                }
            }
            let mut ep = String::new();
            for (pre, rule, t) in &episodes {
                for (pr, pt) in pre { if let Some(r) = rule_of(pr) { bytes += pt.len(); observe(&vm, names.contains(pr), r, pr, pt, true, &mut c, &mut w); } }
                if let Some(r) = rule_of(rule) { bytes += t.len(); observe(&vm, names.contains(rule), r, rule, t, true, &mut c, &mut w); }
                ep.push_str(&format!("{}\t{}\t{}\n", rule, hex(t), if pre.is_empty() { "-".to_string() } else { pre.iter().map(|(a, b)| format!("{}:{}", a, hex(b))).collect::<Vec<_>>().join(",") }));
            }
            if !epfile.is_empty() && epfile != "-" { let _ = std::fs::write(&epfile, ep); }
            writeln!(w, "#SUMMARY\tevaluations={}\tdistinct_nontrivial={}\tdirect_differences={}\tpest_files=0\tentry_vs_generated={}\tparse_and_optimize_vs_vm={}\tsettings_checks={}\tsettings_changes={}\tparse_and_optimize_vs_steps={}\tlarge_episodes={}\tlarge_bytes={}",
                c.n, c.nt, c.diffs, c.entry, c.top, c.settings, c.leaks, c.parts, episodes.len(), bytes).unwrap();
        }
        "switches" => {
            // c14 switches REPO COUNT SEED
            // The legs under the settings of pest's two process-wide switches (src/c14_switches.rs; P and L lines, the compiled fresh parser
            // appends its column downstream).  Texts, none specific to a rule: a shortest spelling of EVERY rule and the fragments of the
            // meta-language (one per construct), each with EVERY PREFIX of it (a text that ends inside a construct is where the detail of an
            // error is richest), fed to every rule; the fragments as the body of a rule and behind / in front of / inside a rule, with every
            // prefix, fed to the top rule; the shipped grammar files whole and cut at random places; random derivations from the rules of the
            // current grammar.pest and mutations of them.  With error detail: all of them.  Under call limits (about 2 x 2 log2(calls) parses
            // per leg and text): the spellings, the fragments for the top rule and their home rule, the shipped files up to 12 kB, a third of
            // the random derivations.
            let count = arg_u64(3, 150); let mut rng = Rng::new(arg_u64(4, 0) ^ 0x5_71c4e5);
            let gtext = std::fs::read_to_string(grammar_path(&repo)).expect("grammar.pest");
            let opt = match catch(|| pest_meta::parse_and_optimize(&gtext)) { Ok(Ok((_, o))) => o, _ => { writeln!(w, "#SUMMARY\tevaluations=0\tdistinct_nontrivial=0").unwrap(); return; } };   // reported by `diff`
            let names: Vec<String> = opt.iter().map(|r| r.name.clone()).collect();
            let rmap: std::collections::HashMap<String, pest_meta::optimizer::OptimizedExpr> = opt.iter().map(|r| (r.name.clone(), r.expr.clone())).collect();
            let go = texts::G::new(&from_orules(&opt));
            let vm = pest_vm::Vm::new(opt);
            let all: Vec<pest_meta::parser::Rule> = pest_meta::parser::Rule::all_rules().iter().cloned().filter(|r| names.contains(&format!("{:?}", r))).collect();
            let top = pest_meta::parser::Rule::grammar_rules;
            let rule_of = |n: &str| all.iter().cloned().find(|r| format!("{:?}", r) == n);
            let mut detail: Vec<(String, Vec<pest_meta::parser::Rule>)> = vec![];
            let mut limit: Vec<(String, Vec<pest_meta::parser::Rule>)> = vec![];
            for r in all.iter() {
                let base = go.short.get(&format!("{:?}", r)).cloned().unwrap_or_default();
                for p in prefixes(&base) { detail.push((p, vec![*r])); }
                detail.push((format!("{} ", base), vec![*r]));
                limit.push((base, vec![*r]));
            }
            let embed = ["a = { @ }", "a = { b }@", "@a = { b }", "a = @{ b }", "a = { b ~ @ }"];
            for f in FRAGS.iter() {
                for p in prefixes(f) { detail.push((p, all.clone())); }
                // the rules that accept the fragment whole are its homes
                let homes: Vec<pest_meta::parser::Rule> = all.iter().cloned().filter(|r| matches!(catch(|| pest_meta::parser::parse(*r, f).map(|_| ())), Ok(Ok(())))).collect();
                let mut rs = vec![top]; rs.extend(homes.into_iter().take(6));
                limit.push((f.to_string(), rs));
                for e in embed.iter() {
                    let k = e.find('@').unwrap();
                    let whole = format!("{}{}{}", &e[..k], f, &e[k + 1..]);
                    for p in prefixes(&whole) { if p.len() > k { detail.push((p, vec![top])); } }
                    limit.push((whole, vec![top]));
                }
            }
            let mut nfiles = 0;
            for f in pest_files(&repo) {
                if let Ok(t) = std::fs::read_to_string(&f) {
                    nfiles += 1;
                    let bounds: Vec<usize> = t.char_indices().map(|(i, _)| i).collect();
                    if t.len() <= 12_000 { limit.push((t.clone(), vec![top])); }
                    for _ in 0..3 { if !bounds.is_empty() { let k = bounds[rng.below(bounds.len() as u64) as usize]; detail.push((t[..k].to_string(), vec![top])); } }
                    detail.push((t, vec![top]));
                }
            }
            for i in 0..count {
                let start = if i % 3 == 0 { "grammar_rules".to_string() } else { names[rng.below(names.len() as u64) as usize].clone() };
                let mut t = String::new();
                derive(&rmap, &rmap[&start], &mut rng, 4 + (i % 3) as u32, &mut t);
                let rs: Vec<pest_meta::parser::Rule> = rule_of(&start).into_iter().collect();
                if rs.is_empty() { continue; }
                if i % 3 == 1 { limit.push((t.clone(), rs.clone())); }
                detail.push((t.clone(), rs.clone()));
                for _ in 0..2 { let m = mutate(&mut rng, &t); detail.push((m, rs.clone())); }
            }
            if arg(5) == "seq" { detail.clear(); limit.clear(); }
            let mut sc = SwCounts::default();
            let mut seen: std::collections::HashSet<(String, String)> = std::collections::HashSet::new();
            for (t, rs) in &detail { for r in rs { let name = format!("{:?}", r); if seen.insert((name.clone(), t.clone())) { observe_switch(&vm, *r, &name, t, "detail", &mut sc, &mut w); } } }
            seen.clear();
            for (t, rs) in &limit { for r in rs { let name = format!("{:?}", r); if seen.insert((name.clone(), t.clone())) { observe_switch(&vm, *r, &name, t, "limit:auto", &mut sc, &mut w); } } }
            writeln!(w, "#SUMMARY\tevaluations={}\tdistinct_nontrivial={}\tdetail_cases={}\tdetail_errors_with_attempts={}\tlimit_cases={}\tbudgets_found={}\tvm_far_from_budget={}\tpest_files={}",
                sc.detail + sc.limit, sc.detail_err + sc.budgets, sc.detail, sc.detail_err, sc.limit, sc.budgets, sc.vm_far, nfiles).unwrap();
        }
        "freshgen" => {
            let derived = match catch(|| fresh_tokens(&repo)) { Ok(t) => t, Err(m) => { eprintln!("derive_parser panicked: {}", m); std::process::exit(3); } };
            writeln!(w, "// GENERATED by `c14 freshgen`: what bootstrap would write to meta/src/grammar.rs for {}\n#![allow(warnings)]\nuse pest::Parser;", grammar_path(&repo)).unwrap();
            writeln!(w, "mod fresh {{\npub struct PestParser;\n{}\n}}\nuse fresh::{{PestParser as Fresh, Rule}};", derived).unwrap();
            writeln!(w, "{}", include_str!("../c14_fresh_main.rs.in")).unwrap();
            writeln!(w, "{}", include_str!("../c14_switches.rs")).unwrap();
        }
        "freshsrc" => {
            writeln!(w, "// GENERATED by `c14 freshsrc`\n#![allow(warnings)]\nuse pest::Parser;\n#[derive(pest_derive::Parser)]\n#[grammar = {:?}]\npub struct Fresh;", grammar_path(&repo)).unwrap();
            writeln!(w, "{}", include_str!("../c14_fresh_main.rs.in")).unwrap();
            writeln!(w, "{}", include_str!("../c14_switches.rs")).unwrap();
        }
        _ => { eprintln!("usage: c14 regen|read|readx|diff|large|switches|target|freshsrc|freshgen REPO [..]"); std::process::exit(2); }
    }
}
