//! C07 - the grammar reader reconstructs the grammar that was written.
//! Abstract rule sets (pvharness::gram::GE) are generated, each is written down in several concrete
//! spellings (minimal parentheses according to the precedence derived from grammar.pest, redundant
//! parentheses, random whitespace / comments / doc comments, escape forms, leading zeros, leading `|`),
//! and the REAL `pest_meta::parser::parse(Rule::grammar_rules, text)` + `consume_rules` read it back.
//! One line per spelling:
//!     x=<0|1>|c=<concrete grammar sexp>|t=<text hex> \t <result>|<token forest of the real parse>
//!   result = Ok <grammar sexp> | Syntax | Err <kind> <start> <end> | Invalid | Panic
//! plus `CONTRACT\t<case>\t<detail>` when the round trip differs from the generated AST (the property's
//! oracle, decided here on the implementation alone) outside the deliberately generated known classes,
//! `M\t<sexp>` (the real reader's AST of grammar.pest itself) and `#SUMMARY`.
use pest_meta::parser::{self, Rule};
use pvharness::gram::*;
use pvharness::prog::{hex, unhex};
use pvharness::*;
use std::collections::HashSet;
use std::io::{self, BufWriter, Write};

fn repo() -> String { std::env::var("VERIF_REPO").unwrap_or_else(|_| "/repo".to_string()) }
const EXTRAS: bool = cfg!(feature = "extras");

// ------------------------------------------------------------------------------------------------
// concrete expressions (coq/Meta/Spell.v `cexpr`)
// ------------------------------------------------------------------------------------------------
#[derive(Clone, Debug, PartialEq)]
enum CE {
    Str(String), Ins(String), Range(char, char), Id(String), Peek(Option<i32>, Option<i32>),
    Pos(Box<CE>), Neg(Box<CE>), Seq(Box<CE>, Box<CE>), Cho(Box<CE>, Box<CE>), Opt(Box<CE>), Rep(Box<CE>), Rep1(Box<CE>),
    RepX(Box<CE>, u32), RepMin(Box<CE>, u32), RepMax(Box<CE>, u32), RepMM(Box<CE>, u32, u32),
    Push(bool, Box<CE>), PushLit(String), Tag(Box<CE>, String), Paren(bool, Box<CE>),
}
#[derive(Clone, Debug)]
struct CRule { docs: usize, name: String, ty: Ty, bar: bool, body: CE }
#[derive(Clone, Debug)]
struct CG { gdocs: usize, rules: Vec<CRule>, trailing: usize }

fn abs(c: &CE) -> GE {
    let b = |x: &CE| Box::new(abs(x));
    match c {
        CE::Str(s) => GE::Str(s.clone()), CE::Ins(s) => GE::Ins(s.clone()), CE::Range(a, z) => GE::Range(*a, *z), CE::Id(n) => GE::Id(n.clone()),
        CE::Peek(i, j) => GE::Slice(i.unwrap_or(0), *j), CE::Pos(x) => GE::Pos(b(x)), CE::Neg(x) => GE::Neg(b(x)),
        CE::Seq(l, r) => GE::Seq(b(l), b(r)), CE::Cho(l, r) => GE::Cho(b(l), b(r)), CE::Opt(x) => GE::Opt(b(x)), CE::Rep(x) => GE::Rep(b(x)),
        CE::Rep1(x) => GE::Rep1(b(x)), CE::RepX(x, n) => GE::RepX(b(x), *n), CE::RepMin(x, n) => GE::RepMin(b(x), *n),
        CE::RepMax(x, n) => GE::RepMax(b(x), *n), CE::RepMM(x, m, n) => GE::RepMM(b(x), *m, *n), CE::Push(_, x) => GE::Push(b(x)),
        CE::PushLit(s) => GE::PushLit(s.clone()), CE::Tag(x, t) => GE::Tag(t.clone(), b(x)), CE::Paren(_, x) => abs(x),
    }
}
fn abs_grammar(g: &CG) -> Vec<GRule> { g.rules.iter().map(|r| GRule { name: r.name.clone(), ty: r.ty, e: abs(&r.body) }).collect() }

fn cps(s: &str) -> String { if s.is_empty() { "-".into() } else { s.chars().map(|c| (c as u32).to_string()).collect::<Vec<_>>().join(".") } }
fn oi(i: &Option<i32>) -> String { i.map(|x| x.to_string()).unwrap_or("-".into()) }
fn csexp(c: &CE) -> String {
    use CE::*;
    match c {
        Str(s) => format!("(str {})", cps(s)), Ins(s) => format!("(ins {})", cps(s)), Range(a, b) => format!("(range {} {})", *a as u32, *b as u32),
        Id(n) => format!("(id {})", n), Peek(i, j) => format!("(slice {} {})", oi(i), oi(j)),
        Pos(x) => format!("(pos {})", csexp(x)), Neg(x) => format!("(neg {})", csexp(x)),
        Seq(l, r) => format!("(seq {} {})", csexp(l), csexp(r)), Cho(l, r) => format!("(cho {} {})", csexp(l), csexp(r)),
        Opt(x) => format!("(opt {})", csexp(x)), Rep(x) => format!("(rep {})", csexp(x)), Rep1(x) => format!("(rep1 {})", csexp(x)),
        RepX(x, n) => format!("(repx {} {})", n, csexp(x)), RepMin(x, n) => format!("(repmin {} {})", n, csexp(x)),
        RepMax(x, n) => format!("(repmax {} {})", n, csexp(x)), RepMM(x, m, n) => format!("(repmm {} {} {})", m, n, csexp(x)),
        Push(b, x) => format!("(push {} {})", *b as u8, csexp(x)), PushLit(s) => format!("(pushlit {})", cps(s)),
        Tag(x, t) => format!("(tag {} {})", t, csexp(x)), Paren(b, x) => format!("(paren {} {})", *b as u8, csexp(x)),
    }
}
fn cgsexp(g: &CG) -> String {
    format!("(g {} {}{})", g.gdocs, g.trailing,
        g.rules.iter().map(|r| format!(" (r {} {} {} {} {})", r.docs, r.name, ty_char(r.ty), r.bar as u8, csexp(&r.body))).collect::<String>())
}

// ---- reading the concrete sexp back (for `one`) ----
fn tokenize(s: &str) -> Vec<String> { s.replace('(', " ( ").replace(')', " ) ").split_whitespace().map(|x| x.to_string()).collect() }
#[derive(Debug)]
enum Sx { A(String), L(Vec<Sx>) }
fn parse_sx(t: &[String], i: &mut usize) -> Sx {
    if t[*i] == "(" { *i += 1; let mut v = vec![]; while t[*i] != ")" { v.push(parse_sx(t, i)); } *i += 1; Sx::L(v) } else { *i += 1; Sx::A(t[*i - 1].clone()) }
}
fn atom(x: &Sx) -> &str { match x { Sx::A(a) => a, _ => panic!("atom expected") } }
fn uncps(a: &str) -> String { if a == "-" { String::new() } else { a.split('.').map(|n| char::from_u32(n.parse().unwrap()).unwrap()).collect() } }
fn uoi(a: &str) -> Option<i32> { if a == "-" { None } else { Some(a.parse().unwrap()) } }
fn ce_of(x: &Sx) -> CE {
    let l = match x { Sx::L(l) => l, _ => panic!("list expected") };
    let b = |i: usize| Box::new(ce_of(&l[i]));
    let n = |i: usize| atom(&l[i]).parse::<u32>().unwrap();
    match atom(&l[0]) {
        "str" => CE::Str(uncps(atom(&l[1]))), "ins" => CE::Ins(uncps(atom(&l[1]))),
        "range" => CE::Range(char::from_u32(n(1)).unwrap(), char::from_u32(n(2)).unwrap()), "id" => CE::Id(atom(&l[1]).to_string()),
        "slice" => CE::Peek(uoi(atom(&l[1])), uoi(atom(&l[2]))), "pos" => CE::Pos(b(1)), "neg" => CE::Neg(b(1)),
        "seq" => CE::Seq(b(1), b(2)), "cho" => CE::Cho(b(1), b(2)), "opt" => CE::Opt(b(1)), "rep" => CE::Rep(b(1)), "rep1" => CE::Rep1(b(1)),
        "repx" => CE::RepX(b(2), n(1)), "repmin" => CE::RepMin(b(2), n(1)), "repmax" => CE::RepMax(b(2), n(1)), "repmm" => CE::RepMM(b(3), n(1), n(2)),
        "push" => CE::Push(n(1) == 1, b(2)), "pushlit" => CE::PushLit(uncps(atom(&l[1]))), "tag" => CE::Tag(b(2), atom(&l[1]).to_string()),
        "paren" => CE::Paren(n(1) == 1, b(2)), k => panic!("bad cexpr {}", k),
    }
}
fn ty_of_char(c: &str) -> Ty { match c { "n" => Ty::Normal, "s" => Ty::Silent, "a" => Ty::Atomic, "c" => Ty::Compound, _ => Ty::NonAtomic } }
fn cg_of(s: &str) -> CG {
    let t = tokenize(s); let mut i = 0;
    let l = match parse_sx(&t, &mut i) { Sx::L(l) => l, _ => panic!("grammar") };
    let rules = l[3..].iter().map(|r| { let r = match r { Sx::L(r) => r, _ => panic!("rule") };
        CRule { docs: atom(&r[1]).parse().unwrap(), name: atom(&r[2]).to_string(), ty: ty_of_char(atom(&r[3])), bar: atom(&r[4]) == "1", body: ce_of(&r[5]) } }).collect();
    CG { gdocs: atom(&l[1]).parse().unwrap(), trailing: atom(&l[2]).parse().unwrap(), rules }
}

// ------------------------------------------------------------------------------------------------
// precedence, derived from grammar.pest:  expression = `|`? term (infix term)* ; term = tag? prefix* node postfix*
// levels: 0 `|`   1 `~`   2 `#t =`   3 `&` `!`   4 postfix   5 atoms, PUSH(..), ( .. )
// ------------------------------------------------------------------------------------------------
fn lvl(c: &CE) -> u32 {
    use CE::*;
    match c { Cho(..) => 0, Seq(..) => 1, Tag(..) => 2, Pos(_) | Neg(_) => 3, Opt(_) | Rep(_) | Rep1(_) | RepX(..) | RepMin(..) | RepMax(..) | RepMM(..) => 4, _ => 5 }
}
struct Deco { redundant: u64, bar: bool, used_bar: bool, used_redundant: bool }
/// the spelling of e: parentheses exactly where the position demands them, plus (with probability redundant/100) superfluous ones
fn decorate(e: &GE, r: &mut Rng, d: &mut Deco) -> CE {
    let mut sub = |x: &GE, need: u32, r: &mut Rng, d: &mut Deco| -> Box<CE> {
        let mut c = decorate(x, r, d);
        if lvl(&c) < need { c = CE::Paren(false, Box::new(c)); }
        while r.below(100) < d.redundant { d.used_redundant = true; c = CE::Paren(false, Box::new(c)); }
        if d.bar { if let CE::Paren(false, inner) = &c { if r.chance(1, 3) { d.used_bar = true; c = CE::Paren(true, inner.clone()); } } }
        Box::new(c)
    };
    match e {
        GE::Str(s) => CE::Str(s.clone()), GE::Ins(s) => CE::Ins(s.clone()), GE::Range(a, z) => CE::Range(*a, *z), GE::Id(n) => CE::Id(n.clone()),
        GE::Slice(i, j) => CE::Peek(if *i == 0 && r.chance(1, 2) { None } else { Some(*i) }, *j),
        GE::Pos(x) => CE::Pos(sub(x, 3, r, d)), GE::Neg(x) => CE::Neg(sub(x, 3, r, d)),
        GE::Seq(a, b) => { let l = sub(a, 1, r, d); CE::Seq(l, sub(b, 2, r, d)) }
        GE::Cho(a, b) => { let l = sub(a, 0, r, d); CE::Cho(l, sub(b, 1, r, d)) }
        GE::Opt(x) => CE::Opt(sub(x, 4, r, d)), GE::Rep(x) => CE::Rep(sub(x, 4, r, d)), GE::Rep1(x) => CE::Rep1(sub(x, 4, r, d)),
        GE::RepX(x, n) => CE::RepX(sub(x, 4, r, d), *n), GE::RepMin(x, n) => CE::RepMin(sub(x, 4, r, d), *n),
        GE::RepMax(x, n) => CE::RepMax(sub(x, 4, r, d), *n), GE::RepMM(x, m, n) => CE::RepMM(sub(x, 4, r, d), *m, *n),
        GE::Push(x) => { let inner = sub(x, 0, r, d); let bar = d.bar && r.chance(1, 3); if bar { d.used_bar = true; } CE::Push(bar, inner) }
        GE::PushLit(s) => CE::PushLit(s.clone()), GE::Tag(t, x) => CE::Tag(sub(x, 3, r, d), t.clone()),
        GE::Skip(_) | GE::Roe(_) => unreachable!("not writable"),
    }
}

// ------------------------------------------------------------------------------------------------
// abstract generator
// ------------------------------------------------------------------------------------------------
const CHARS: &[char] = &['a', 'x', 'Z', '0', ' ', '"', '\\', '\'', '\n', '\r', '\t', '\0', '\u{1}', '\u{7f}', '\u{80}', '\u{ff}', 'é', '\u{100}', '\u{7ff}',
    '\u{800}', '€', '\u{d7ff}', '\u{e000}', '\u{ffff}', '\u{10000}', '\u{10ffff}', '/', '*', '{', '}', '^', '#', '|', '~', '(', ')', '[', '=', '_', 'u', 'n', '𝒳'];
const IDENTS: &[&str] = &["a", "b", "c", "x1", "_", "__", "_a", "A_9", "PEEK", "PEEK_ALL", "PEEKx", "POP", "DROP", "PUS", "PUSh", "_PUSH", "pUSH", "ANY", "SOI", "EOI",
    "rule_with_long_name", "e", "u", "x", "n", "r", "t", "Z"];
const TAGS: &[&str] = &["t", "_", "T9", "_tag", "a_b"];
fn gen_string(r: &mut Rng) -> String {
    let n = r.weighted(&[2, 6, 5, 4, 2, 1]);
    (0..n).map(|_| if r.chance(1, 3) { *r.pick(&['a', 'b', 'x']) } else { *r.pick(CHARS) }).collect()
}
fn gen_count(r: &mut Rng, zero_ok: bool) -> u32 {
    match r.weighted(&[if zero_ok { 3 } else { 0 }, 8, 6, 2, 2, 1]) { 0 => 0, 1 => 1 + r.below(3) as u32, 2 => r.below(100000) as u32 + 1, 3 => u32::MAX, 4 => u32::MAX - 1, _ => 1 << 31 }
}
fn gen_index(r: &mut Rng) -> i32 {
    match r.weighted(&[6, 6, 3, 1, 1, 1]) { 0 => r.below(12) as i32, 1 => -(r.below(12) as i32) - 1, 2 => r.below(100000) as i32 - 50000, 3 => i32::MAX, 4 => i32::MIN, _ => 0 }
}
fn gen_leaf(r: &mut Rng) -> GE {
    match r.weighted(&[8, 3, 4, 12, 3, if EXTRAS { 2 } else { 0 }]) {
        0 => GE::Str(gen_string(r)), 1 => GE::Ins(gen_string(r)), 2 => GE::Range(*r.pick(CHARS), *r.pick(CHARS)),
        3 => GE::Id(r.pick(IDENTS).to_string()), 4 => GE::Slice(gen_index(r), if r.chance(1, 2) { None } else { Some(gen_index(r)) }),
        _ => GE::PushLit(gen_string(r)),
    }
}
fn gen_ge(r: &mut Rng, d: u32) -> GE {
    if d == 0 || r.chance(1, 5) { return gen_leaf(r); }
    let mut s = |r: &mut Rng| Box::new(gen_ge(r, d - 1));
    match r.weighted(&[10, 10, 4, 4, 3, 3, 3, 2, 2, 2, 2, 3, if EXTRAS { 3 } else { 0 }]) {
        0 => GE::Seq(s(r), s(r)), 1 => GE::Cho(s(r), s(r)), 2 => GE::Neg(s(r)), 3 => GE::Pos(s(r)), 4 => GE::Opt(s(r)), 5 => GE::Rep(s(r)), 6 => GE::Rep1(s(r)),
        7 => GE::RepX(s(r), gen_count(r, false)), 8 => GE::RepMin(s(r), gen_count(r, true)), 9 => GE::RepMax(s(r), gen_count(r, false)),
        10 => GE::RepMM(s(r), gen_count(r, true), gen_count(r, false)), 11 => GE::Push(s(r)), _ => GE::Tag(r.pick(TAGS).to_string(), s(r)),
    }
}
// mirror of validator::is_non_failing / is_non_progressing for expressions whose identifiers are not rules of the grammar
fn non_failing(e: &GE) -> bool {
    use GE::*;
    match e { Str(s) | Ins(s) => s.is_empty(), Opt(_) | Rep(_) | RepMax(..) | PushLit(_) => true, Seq(a, b) => non_failing(a) && non_failing(b), Cho(a, b) => non_failing(a) || non_failing(b),
        RepX(x, n) | RepMin(x, n) | RepMM(x, n, _) => *n == 0 || non_failing(x), Rep1(x) | Push(x) | Pos(x) | Tag(_, x) => non_failing(x), _ => false }
}
fn non_progressing(e: &GE) -> bool {
    use GE::*;
    match e { Str(s) | Ins(s) => s.is_empty(), Id(n) => n == "SOI" || n == "EOI", Seq(a, b) => non_progressing(a) && non_progressing(b), Cho(a, b) => non_progressing(a) || non_progressing(b),
        Pos(_) | Neg(_) | Rep(_) | Opt(_) | RepMax(..) | PushLit(_) => true, RepX(x, n) | RepMin(x, n) | RepMM(x, n, _) => *n == 0 || non_progressing(x),
        Push(x) | Rep1(x) | Tag(_, x) => non_progressing(x), _ => false }
}
const BUILTINS: &[&str] = &["ANY", "SOI", "EOI", "PEEK", "PEEK_ALL", "POP", "DROP"];
fn tag_target_builtin(e: &GE) -> bool {
    use GE::*;
    match e { Id(n) => BUILTINS.contains(&n.as_str()), Rep(x) | RepMM(x, ..) | RepMax(x, _) | RepMin(x, _) | Rep1(x) | RepX(x, _) | Opt(x) | Push(x) | Pos(x) | Neg(x) => tag_target_builtin(x), _ => false }
}
/// would validator::validate_ast (which consume_rules runs) reject an expression of this shape?
fn validator_rejects(e: &GE) -> bool {
    use GE::*;
    let here = match e {
        Rep(x) | Rep1(x) | RepMin(x, _) => non_failing(x) || non_progressing(x),
        Cho(l, _) => { let n = match &**l { Cho(_, rr) => rr, _ => l }; non_failing(n) }
        Tag(_, x) => tag_target_builtin(x),
        _ => false,
    };
    here || match e { Pos(x) | Neg(x) | Opt(x) | Rep(x) | Rep1(x) | RepX(x, _) | RepMin(x, _) | RepMax(x, _) | RepMM(x, ..) | Push(x) | Tag(_, x) => validator_rejects(x),
        Seq(a, b) | Cho(a, b) => validator_rejects(a) || validator_rejects(b), _ => false }
}
fn gen_body(r: &mut Rng, d: u32) -> GE {
    for _ in 0..40 { let e = gen_ge(r, d); if !validator_rejects(&e) || r.chance(1, 50) { return e; } }
    GE::Id("a".into())
}
const RULE_NAMES: &[&str] = &["rr", "rule", "_r", "R_2", "PEEKr", "POP_", "PUS_", "__r", "Q", "pushed"];
fn gen_rules(r: &mut Rng, d: u32) -> Vec<GRule> {
    let n = r.weighted(&[0, 6, 3, 2, 1]);
    let tys = [Ty::Normal, Ty::Normal, Ty::Silent, Ty::Atomic, Ty::Compound, Ty::NonAtomic];
    (0..n).map(|i| GRule { name: format!("{}{}", r.pick(RULE_NAMES), if i == 0 && r.chance(1, 2) { String::new() } else { format!("_{}", i) }), ty: *r.pick(&tys), e: gen_body(r, d) }).collect()
}

// ------------------------------------------------------------------------------------------------
// the printer: tokens separated by gaps (whitespace and comments wherever grammar.pest skips implicitly)
// ------------------------------------------------------------------------------------------------
#[derive(Default)]
struct Stats { gaps_ws: u64, comments: u64, escapes: u64, zeros: u64, hostile: u64, star_run_close: u64, eot_comment: u64 }
struct Pr<'a> { r: &'a mut Rng, out: String, layout: u64, esc: u64, insens_gap: bool, used_insens_gap: bool, st: Stats, marks: Vec<usize>, open_doc: bool }

// ---- what a gap is (coq/Meta/Text.v `gap`; grammar.pest WHITESPACE / COMMENT as the property's text reads them), written independently of
// ---- the reader under test: it decides which generated comments are legal, so that hostile comment bodies can be generated freely
/// end of the block comment that starts at p (Text.v `block_comment`): "/*", then nested block comments and characters that start neither
/// `*/` nor `/*`, then "*/".  A `/*` in the body that is not itself a complete comment makes the text no comment at all: grammar.pest would
/// try it as a nested comment against everything that follows, so whether the outer comment ends would depend on the rest of the file.
fn block_end(b: &[u8], p: usize) -> Option<usize> {
    if !b[p.min(b.len())..].starts_with(b"/*") { return None; }
    let mut q = p + 2;
    loop {
        if b[q..].starts_with(b"*/") { return Some(q + 2); }
        if b[q..].starts_with(b"/*") { q = block_end(b, q)?; continue; }
        if q >= b.len() { return None; }
        q += 1;                                     // `*` and `/` are ASCII: stepping over bytes or over characters is the same here
    }
}
/// is w exactly a sequence of blanks, newlines, block comments and line comments (each line comment with its newline; the last one may
/// end the text instead when `at_end`)?
fn is_gap(w: &str, at_end: bool) -> bool {
    let b = w.as_bytes();
    let mut p = 0;
    while p < b.len() {
        if b[p] == b' ' || b[p] == b'\t' || b[p] == b'\n' { p += 1; }
        else if b[p..].starts_with(b"\r\n") { p += 2; }
        else if let Some(e) = block_end(b, p) { p = e; }
        else if b[p..].starts_with(b"//") && !b[p + 2..].starts_with(b"/") && !b[p + 2..].starts_with(b"!") {
            match b[p..].iter().position(|&c| c == b'\n') { Some(k) => p += k + 1, None => { if at_end { p = b.len(); } else { return false; } } }
        }
        else { return false; }
    }
    true
}
// block comment texts must not create `*/` or `/*` at their borders
const COMMENT_TEXT: &[&str] = &["", "c", " a = { b } ", "\"", "\\", "'", "{ | ~ }", " * ", " / ", "^ \"x\"", "é€", " // ", "#t = ", "\\u{zz}", "* x"];
impl<'a> Pr<'a> {
    fn ws(&mut self) -> &'static str { ["", " ", " ", "\n", "\t", "\r\n", "  ", " \n "][self.r.below(8) as usize] }
    fn stars(&mut self, max: u64) -> String { "*".repeat(self.r.range(1, max) as usize) }
    /// the body of a block comment made of what its delimiters are made of: runs of `*` and `/`, `* /`, `/ *`, nested comments, newlines,
    /// with a run right after the opener and right before the terminator; kept only if the reference scanner says it is one comment
    fn hostile_block(&mut self, depth: u32) -> String {
        for _ in 0..12 {
            let mut body = String::new();
            if self.r.chance(1, 3) { let t = self.stars(3); body.push_str(&t); }
            let n = self.r.weighted(&[2, 3, 3, 2, 1]);
            for _ in 0..n {
                match self.r.below(11) {
                    0 | 1 => { let t = self.stars(4); body.push_str(&t); }
                    2 => body.push_str(&"/".repeat(self.r.range(1, 3) as usize)),
                    3 => if depth > 0 { let t = self.hostile_block(depth - 1); body.push_str(&t); } else { body.push_str("/ *") },
                    4 => body.push_str("* /"),
                    5 => body.push_str(*self.r.pick(&["\n", "\r\n", "\n * ", " "])),
                    6 => body.push_str(*self.r.pick(COMMENT_TEXT)),
                    7 => body.push_str(*self.r.pick(&["x", "a = { b }", "é", "\"", "//", "// x\n", "///", "//!"])),
                    8 => body.push_str("/*/"),
                    9 => body.push_str("*\\/"),
                    _ => body.push(' '),
                }
            }
            let close = self.r.below(3) == 0;
            if close { let t = self.stars(4); body.push_str(&t); }
            let c = format!("/*{}*/", body);
            if block_end(c.as_bytes(), 0) == Some(c.len()) {
                if close { self.st.star_run_close += 1; }
                return c;
            }
        }
        "/**/".to_string()
    }
    fn comment(&mut self) -> String {
        self.st.comments += 1;
        match self.r.below(7) {
            4 | 5 => { self.st.hostile += 1; self.hostile_block(2) }
            6 => { self.st.hostile += 1;
                   let t = *self.r.pick(&["*/", "/*", "/* x", "**/", "*", "a = { b } // c", "\"", "\r x", "\\", "x /", "/**/", "\t", " !", " /"]);
                   format!("//{}{}{}", if t.starts_with('/') || t.starts_with('!') { " " } else { "" }, t, if self.r.chance(1, 3) { "\r\n" } else { "\n" }) }
            0 => format!("/*{}*/", self.r.pick(COMMENT_TEXT)),
            1 => format!("/*{}/*{}*/{}*/", self.r.pick(COMMENT_TEXT), self.r.pick(COMMENT_TEXT), self.r.pick(COMMENT_TEXT)),
            2 => { let t = *self.r.pick(COMMENT_TEXT); format!("//{}{}\n", if t.starts_with('/') || t.starts_with('!') { " " } else { "" }, t) }
            _ => format!("// {}\r\n", self.r.pick(COMMENT_TEXT)),
        }
    }
    /// an optional gap: layout 0 = nothing, 1 = one blank, >= 2 = random blanks and (layout >= 3) comments
    fn gap(&mut self) {
        match self.layout {
            0 => {}
            1 => self.out.push(' '),
            _ => {
                let n = self.r.weighted(&[3, 4, 2, 1]);
                for _ in 0..n {
                    if self.layout >= 3 && self.r.chance(1, 4) { let c = self.comment(); self.out.push_str(&c); } else { let w = self.ws(); self.out.push_str(w); self.st.gaps_ws += 1; }
                }
            }
        }
    }
    /// `marks`: the offsets at which a token (or doc line) starts = the places where grammar.pest skips implicitly
    fn tok(&mut self, t: &str) { self.gap(); self.marks.push(self.out.len()); self.out.push_str(t); }
    fn hexdigits(&mut self, v: u32, width: usize) -> String {
        format!("{:0w$x}", v, w = width).chars().map(|c| if self.r.chance(1, 2) { c.to_ascii_uppercase() } else { c }).collect()
    }
    /// one character inside quotes q, in a random legal form (esc = percentage of escapes where a raw char would do)
    fn chr(&mut self, c: char, q: char) -> String {
        let must = c == q || c == '\\';
        if !must && self.r.below(100) >= self.esc { return c.to_string(); }
        self.st.escapes += 1;
        let named = match c { '"' => Some("\\\""), '\\' => Some("\\\\"), '\r' => Some("\\r"), '\n' => Some("\\n"), '\t' => Some("\\t"), '\0' => Some("\\0"), '\'' => Some("\\'"), _ => None };
        let v = c as u32;
        let mut forms = vec![2u8];
        if named.is_some() { forms.push(0); forms.push(0); }
        if v < 256 { forms.push(1); }
        match *self.r.pick(&forms) {
            0 => named.unwrap().to_string(),
            1 => format!("\\x{}", self.hexdigits(v, 2)),
            _ => { let min = std::cmp::max(2, format!("{:x}", v).len()); let w = min + self.r.below((6 - min + 1) as u64) as usize; format!("\\u{{{}}}", self.hexdigits(v, w)) }
        }
    }
    fn string(&mut self, s: &str) -> String { let mut o = String::from("\""); for c in s.chars() { o.push_str(&self.chr(c, '"')); } o.push('"'); o }
    fn number(&mut self, n: u32) -> String { let z = if self.layout >= 2 && self.r.chance(1, 4) { self.st.zeros += 1; self.r.range(1, 3) } else { 0 }; format!("{}{}", "0".repeat(z as usize), n) }
    fn integer(&mut self, i: i32) -> String {
        let z = if self.layout >= 2 && self.r.chance(1, 4) { self.st.zeros += 1; self.r.range(1, 3) } else { 0 } as usize;
        if i < 0 { format!("-{}{}", "0".repeat(z), (i as i64).abs()) } else { format!("{}{}", "0".repeat(z), i) }
    }
    fn inner(&mut self, bar: bool, c: &CE) { self.tok("("); if bar { self.tok("|"); } self.expr(c); self.tok(")"); }
    fn expr(&mut self, c: &CE) {
        use CE::*;
        match c {
            Str(s) => { let t = self.string(s); self.tok(&t); }
            Ins(s) => { let t = self.string(s); self.tok("^"); if self.insens_gap && self.r.chance(1, 2) { self.used_insens_gap = true; let g = if self.r.chance(1, 3) { self.comment() } else { " ".to_string() }; self.out.push_str(&g); } self.out.push_str(&t); }
            Range(a, b) => { let x = format!("'{}'", self.chr(*a, '\'')); self.tok(&x); self.tok(".."); let y = format!("'{}'", self.chr(*b, '\'')); self.tok(&y); }
            Id(n) => self.tok(n),
            Peek(i, j) => { self.tok("PEEK"); self.tok("["); if let Some(i) = i { let t = self.integer(*i); self.tok(&t); } self.tok(".."); if let Some(j) = j { let t = self.integer(*j); self.tok(&t); } self.tok("]"); }
            Pos(x) => { self.tok("&"); self.expr(x); } Neg(x) => { self.tok("!"); self.expr(x); }
            Seq(a, b) => { self.expr(a); self.tok("~"); self.expr(b); } Cho(a, b) => { self.expr(a); self.tok("|"); self.expr(b); }
            Opt(x) => { self.expr(x); self.tok("?"); } Rep(x) => { self.expr(x); self.tok("*"); } Rep1(x) => { self.expr(x); self.tok("+"); }
            RepX(x, n) => { self.expr(x); self.tok("{"); let t = self.number(*n); self.tok(&t); self.tok("}"); }
            RepMin(x, n) => { self.expr(x); self.tok("{"); let t = self.number(*n); self.tok(&t); self.tok(","); self.tok("}"); }
            RepMax(x, n) => { self.expr(x); self.tok("{"); self.tok(","); let t = self.number(*n); self.tok(&t); self.tok("}"); }
            RepMM(x, m, n) => { self.expr(x); self.tok("{"); let t = self.number(*m); self.tok(&t); self.tok(","); let t = self.number(*n); self.tok(&t); self.tok("}"); }
            Push(b, x) => { self.tok("PUSH"); self.inner(*b, x); }
            PushLit(s) => { self.tok("PUSH_LITERAL"); self.tok("("); let t = self.string(s); self.tok(&t); self.tok(")"); }
            Tag(x, t) => { let t = format!("#{}", t); self.tok(&t); self.tok("="); self.expr(x); }
            Paren(b, x) => self.inner(*b, x),
        }
    }
    fn doc(&mut self, lead: &str, last: bool) {
        self.gap();
        self.marks.push(self.out.len());
        let t = *self.r.pick(&["", " ", "doc", " a = { b }", "\tx\r", "//", " \"\\q"]);
        self.out.push_str(lead); self.out.push_str(t);
        if !(last && self.r.chance(1, 2)) { self.out.push_str(if self.r.chance(1, 4) { "\r\n" } else { "\n" }); } else { self.open_doc = true; }
    }
    fn grammar(&mut self, g: &CG) {
        for _ in 0..g.gdocs { self.doc("//!", false); }
        for (k, r) in g.rules.iter().enumerate() {
            for _ in 0..r.docs { self.doc("///", false); }
            self.tok(&r.name); self.tok("="); let m = ty_mod(r.ty); if !m.is_empty() { self.tok(m); } self.tok("{"); if r.bar { self.tok("|"); } self.expr(&r.body); self.tok("}");
            let _ = k;
        }
        for k in 0..g.trailing { self.doc("///", k + 1 == g.trailing); }
        // a final gap; a line comment at the very end of the text needs no newline
        let start = self.out.len();
        self.gap();
        if self.layout >= 3 && self.r.chance(1, 8) {
            self.st.comments += 1; self.st.eot_comment += 1;
            let t = *self.r.pick(&["", " c", " a = { b }", " */", " /*", " **/", "x\r", "\t", "*/"]);
            self.out.push_str("//"); self.out.push_str(t);
        }
        // after a last `///` line without its newline the gap continues that line up to the first newline; what follows must be a gap by itself
        if self.open_doc {
            let ok = match self.out[start..].find('\n') { None => true, Some(k) => is_gap(&self.out[start + k + 1..], true) };
            if !ok { self.out.truncate(start); }
        }
    }
}

// ------------------------------------------------------------------------------------------------
// the real reader
// ------------------------------------------------------------------------------------------------
const VALIDATOR_MESSAGES: &[&str] = &["cannot fail", "non-progressing", "left-recursive", "tags on silent rules", "tags on built-in rules"];
/// (result, forest)
fn observe(text: &str) -> (String, String) {
    let parsed = catch(|| parser::parse(Rule::grammar_rules, text));
    let pairs = match parsed { Err(_) => return ("Panic".into(), "-".into()), Ok(Err(_)) => return ("Syntax".into(), "-".into()), Ok(Ok(p)) => p };
    let fo = forest(pairs.clone(), &|r: Rule| format!("{:?}", r));
    let res = match catch(|| parser::consume_rules(pairs)) {
        Err(_) => "Panic".to_string(),
        Ok(Ok(rules)) => format!("Ok {}", sexp_grammar(&from_rules(&rules))),
        Ok(Err(errs)) => {
            let msgs: Vec<String> = errs.iter().map(|e| e.variant.message().to_string()).collect();
            if !msgs.is_empty() && msgs.iter().all(|m| VALIDATOR_MESSAGES.iter().any(|v| m.contains(v))) { "Invalid".to_string() }
            else {
                let e = &errs[0];
                let (s, t) = match e.location { pest::error::InputLocation::Span((a, b)) => (a, b), pest::error::InputLocation::Pos(p) => (p, p) };
                let k = if msgs[0].contains("overflow u32") { "overflow" } else if msgs[0].contains("repeat 0 times") { "zero" } else if msgs[0].contains("PUSH_LITERAL requires") { "pushlit" }
                        else if msgs[0].contains("escape is not a valid character") { "invalid" } else if msgs[0].contains("overflow i32") { "peekoverflow" } else { "other" };
                format!("Err {} {} {}", k, s, t)
            }
        }
    };
    (res, if fo.is_empty() { "-".into() } else { fo })
}

#[derive(Default)]
struct Tot { hostile: u64, star_run_close: u64, eot_comment: u64, esc_regular: u64, esc_model_oracle: u64, n: u64, ok: u64, invalid: u64, known: u64, contract: u64, nontrivial: u64, redundant: u64, comments: u64, escapes: u64, docs: u64, zeros: u64, bars: u64, mixed_levels: u64, same_level_nests: u64, prefix_postfix: u64 }

fn features(e: &GE, t: &mut (bool, bool, bool)) {
    use GE::*;
    match e {
        Seq(a, b) => { if matches!(**a, Cho(..)) || matches!(**b, Cho(..)) { t.0 = true; } if matches!(**a, Seq(..)) || matches!(**b, Seq(..)) { t.1 = true; } features(a, t); features(b, t); }
        Cho(a, b) => { if matches!(**a, Seq(..)) || matches!(**b, Seq(..)) { t.0 = true; } if matches!(**a, Cho(..)) || matches!(**b, Cho(..)) { t.1 = true; } features(a, t); features(b, t); }
        Pos(x) | Neg(x) => { if matches!(**x, Opt(_) | Rep(_) | Rep1(_) | RepX(..) | RepMin(..) | RepMax(..) | RepMM(..)) { t.2 = true; } features(x, t); }
        Opt(x) | Rep(x) | Rep1(x) | RepX(x, _) | RepMin(x, _) | RepMax(x, _) | RepMM(x, ..) => { if matches!(**x, Pos(_) | Neg(_)) { t.2 = true; } features(x, t); }
        Push(x) | Tag(_, x) => features(x, t),
        _ => {}
    }
}

/// which repairs does this tree have?  (fixes/C07-1, C07-2 = C09-3, C09-1, C09-2)
fn probe() -> [bool; 4] {
    let ok = |t: &str| observe(t).0.starts_with("Ok (a n (");
    let err = |t: &str| observe(t).0.starts_with("Err");
    [observe("a = { ^ \"b\" }").0 == "Ok (a n (ins 62))", ok("a = { (| b) }") && ok("a = { PUSH(| b) }"), err("a = { \"\\u{D800}\" }"), err("a = { PEEK[99999999999..] }")]
}

struct Run<'w> { w: BufWriter<io::StdoutLock<'w>>, seen: HashSet<String>, tot: Tot, fixed: [bool; 4] }
impl<'w> Run<'w> {
    /// run one spelling; `known` = the generator deliberately used one of the two known-class freedoms
    fn case(&mut self, cg: &CG, text: &str, known: bool) {
        let (res, fo) = observe(text);
        let expected = abs_grammar(cg);
        let want = format!("Ok {}", sexp_grammar(&expected));
        let case = format!("x={}|c={}|t={}", EXTRAS as u8, cgsexp(cg), hex(text));
        writeln!(self.w, "{}\t{}|{}", case, res, fo).unwrap();
        let t = &mut self.tot;
        t.n += 1;
        if res == want {
            t.ok += 1;
            let mut f = (false, false, false);
            for r in &expected { features(&r.e, &mut f); }
            if f.0 { t.mixed_levels += 1; } if f.1 { t.same_level_nests += 1; } if f.2 { t.prefix_postfix += 1; }
            if (f.0 || f.1 || f.2) && self.seen.insert(text.to_string()) { t.nontrivial += 1; }
        } else if res == "Invalid" {
            t.invalid += 1;
            // validate_ast (mirrored above for grammars whose identifiers are not rules) accepts the grammar as written: the reader built another tree
            if !known && !expected.iter().any(|r| validator_rejects(&r.e)) {
                t.contract += 1;
                writeln!(self.w, "CONTRACT\t{}\timpl Invalid (validate_ast rejects what was read, but accepts the grammar as written) expected {}", case, want).unwrap();
            }
        }
        else if known { t.known += 1; }
        else { t.contract += 1; writeln!(self.w, "CONTRACT\t{}\timpl {} expected {}", case, res, want).unwrap(); }
    }
    /// several spellings of one abstract rule set
    fn spellings(&mut self, rules: &[GRule], r: &mut Rng, per: u64, allow_known: bool) {
        for k in 0..per {
            let known_mode = allow_known && r.chance(1, 30);
            let mut d = Deco { redundant: if k == 0 { 0 } else { *r.pick(&[0, 10, 25, 40]) }, bar: known_mode && r.chance(1, 2), used_bar: false, used_redundant: false };
            let layout = if k == 0 { 1 } else { r.weighted(&[1, 1, 3, 5]) as u64 };
            let cg = CG { gdocs: if layout >= 2 && r.chance(1, 5) { r.range(1, 2) as usize } else { 0 },
                          trailing: if layout >= 2 && r.chance(1, 6) { r.range(1, 2) as usize } else { 0 },
                          rules: rules.iter().map(|g| CRule { docs: if layout >= 2 && r.chance(1, 5) { r.range(1, 2) as usize } else { 0 }, name: g.name.clone(), ty: g.ty,
                                                              bar: k > 0 && r.chance(1, 5), body: decorate(&g.e, r, &mut d) }).collect() };
            let mut p = Pr { r: &mut *r, out: String::new(), layout, esc: if k == 0 { 0 } else { *[0u64, 20, 60, 100].get(p_idx(k)).unwrap() }, insens_gap: known_mode && !d.bar, used_insens_gap: false, st: Stats::default(), marks: vec![], open_doc: false };
            p.grammar(&cg);
            let known = (d.used_bar && !self.fixed[1]) || (p.used_insens_gap && !self.fixed[0]);
            let (text, st) = (p.out, p.st);
            let t = &mut self.tot;
            if d.used_redundant { t.redundant += 1; } if st.comments > 0 { t.comments += 1; } if st.escapes > 0 { t.escapes += 1; } if st.zeros > 0 { t.zeros += 1; }
            if st.hostile > 0 { t.hostile += 1; } if st.star_run_close > 0 { t.star_run_close += 1; } if st.eot_comment > 0 { t.eot_comment += 1; }
            if cg.gdocs + cg.trailing + cg.rules.iter().map(|r| r.docs).sum::<usize>() > 0 { t.docs += 1; } if cg.rules.iter().any(|r| r.bar) { t.bars += 1; }
            self.case(&cg, &text, known);
        }
    }
}
fn p_idx(k: u64) -> usize { (k % 4) as usize }

// all expression trees of depth <= d over the operators in `ops` and one leaf
fn all_trees(d: u32, ops: &[&str]) -> Vec<GE> {
    let leaf = || GE::Id("a".into());
    if d == 0 { return vec![leaf()]; }
    let sub = all_trees(d - 1, ops);
    let mut out = vec![leaf()];
    let bx = |x: &GE| Box::new(x.clone());
    for o in ops {
        match *o {
            "seq" => for a in &sub { for b in &sub { out.push(GE::Seq(bx(a), bx(b))); } },
            "cho" => for a in &sub { for b in &sub { out.push(GE::Cho(bx(a), bx(b))); } },
            u => for a in &sub { out.push(match u { "neg" => GE::Neg(bx(a)), "pos" => GE::Pos(bx(a)), "opt" => GE::Opt(bx(a)), "rep" => GE::Rep(bx(a)), "rep1" => GE::Rep1(bx(a)),
                "repx" => GE::RepX(bx(a), 2), "repmin" => GE::RepMin(bx(a), 1), "repmax" => GE::RepMax(bx(a), 3), "repmm" => GE::RepMM(bx(a), 1, 2), "push" => GE::Push(bx(a)),
                _ => GE::Tag("t".into(), bx(a)) }); },
        }
    }
    out
}

fn main() {
    quiet_panics();
    let stdout = io::stdout();
    let fixed = probe();
    let mut run = Run { w: BufWriter::with_capacity(1 << 20, stdout.lock()), seen: HashSet::new(), tot: Tot::default(), fixed };
    match arg(1).as_str() {
        "metagrammar" => {
            let text = std::fs::read_to_string(format!("{}/meta/src/grammar.pest", repo())).unwrap();
            let r = catch(|| { let pairs = parser::parse(Rule::grammar_rules, &text).unwrap(); sexp_grammar(&from_rules(&parser::consume_rules(pairs).unwrap())) });
            writeln!(run.w, "M\t{}", r.unwrap_or_else(|_| "PANIC".into())).unwrap();
        }
        "probe" => { writeln!(run.w, "#PROBE\tfix_insens={}\tfix_bar={}\tfix_literal_err={}\tfix_peek_err={}", fixed[0] as u8, fixed[1] as u8, fixed[2] as u8, fixed[3] as u8).unwrap(); }
        "random" => {
            let count = arg_u64(2, 100); let mut rng = Rng::new(arg_u64(3, 0)); let per = arg_u64(4, 5); let depth = arg_u64(5, 4) as u32;
            for _ in 0..count { let d = 1 + rng.below(depth as u64) as u32; let rules = gen_rules(&mut rng, d); run.spellings(&rules, &mut rng, per, true); }
        }
        "exhaustive" => {
            // every tree of depth <= D over the given operators as the body of one rule: minimal parentheses, one blank between tokens;
            // plus (per > 1) random spellings of the same tree
            let d = arg_u64(2, 2) as u32; let opl = arg(3); let ops: Vec<&str> = opl.split(',').collect(); let per = arg_u64(4, 1); let mut rng = Rng::new(arg_u64(5, 0));
            let (shard, shards) = (arg_u64(6, 0), arg_u64(7, 1));
            for (i, e) in all_trees(d, &ops).into_iter().enumerate() {
                if i as u64 % shards != shard { continue; }
                run.spellings(&[GRule { name: "r".into(), ty: Ty::Normal, e }], &mut rng, per, false);
            }
        }
        "witness" => {
            // the two known deviations and a few fixed precedence examples, as complete cases
            let id = |s: &str| Box::new(CE::Id(s.into()));
            let one = |body: CE| CG { gdocs: 0, trailing: 0, rules: vec![CRule { docs: 0, name: "a".into(), ty: Ty::Normal, bar: false, body }] };
            let (ki, kb) = (!fixed[0], !fixed[1]);
            run.case(&one(CE::Ins("b".into())), "a = { ^ \"b\" }", ki);
            run.case(&one(CE::Ins("b".into())), "a = { ^/*c*/\"b\" }", ki);
            run.case(&one(CE::Ins("b".into())), "a = { ^ /* \\q */ \"b\" }", ki);
            run.case(&one(CE::Paren(true, Box::new(CE::Cho(id("b"), id("c"))))), "a = { (| b | c) }", kb);
            run.case(&one(CE::Push(true, id("b"))), "a = { PUSH(| b) }", kb);
            run.case(&one(CE::Neg(Box::new(CE::Rep(id("b"))))), "a = { !b* }", false);
            run.case(&one(CE::Seq(Box::new(CE::Pos(id("b"))), id("c"))), "a = { &b ~ c }", false);
            run.case(&one(CE::Cho(id("b"), Box::new(CE::Seq(id("c"), id("d"))))), "a = { b | c ~ d }", false);
            run.case(&one(CE::Cho(Box::new(CE::Seq(id("b"), id("c"))), id("d"))), "a = { b ~ c | d }", false);
            run.case(&one(CE::Seq(Box::new(CE::Seq(id("b"), id("c"))), id("d"))), "a = { b ~ c ~ d }", false);
            run.case(&one(CE::Seq(id("b"), Box::new(CE::Paren(false, Box::new(CE::Seq(id("c"), id("d"))))))), "a = { b ~ (c ~ d) }", false);
            if EXTRAS {
                run.case(&one(CE::Cho(Box::new(CE::Tag(id("b"), "t".into())), id("c"))), "a = { #t = b | c }", false);
                run.case(&one(CE::Tag(Box::new(CE::Neg(Box::new(CE::Rep(id("b"))))), "t".into())), "a = { #t = !b* }", false);
            }
        }
        "escalate" => {
            // escalate UNITS LEN1 LEN2 SHARD SHARDS: the search that runs after the real meta-grammar was found to differ from its transcription.
            // UNITS = comma separated hex strings (the terminals of the rules that differ, a letter, a blank, a newline). Every word of at most
            // LEN1 units is inserted at every offset of the first base spelling, every word of at most LEN2 units at every offset of the other
            // base spellings (which together use every token kind). Where the offset is a place at which grammar.pest skips implicitly and the
            // word is a gap according to the reference scanner above, the text is a legal spelling of the base grammar: an ordinary case, with
            // the written AST as the oracle. Everywhere else the line carries m=1 and the runner takes the expected reading from the
            // specification reader (transcribed grammar.pest under Peg.Spec, then the model of consume_rules).
            let units: Vec<String> = arg(2).split(',').filter(|u| !u.is_empty()).map(unhex).collect();
            let (len1, len2) = (arg_u64(3, 3) as usize, arg_u64(4, 2) as usize);
            let (shard, shards) = (arg_u64(5, 0), arg_u64(6, 1));
            let id = |s: &str| Box::new(CE::Id(s.into()));
            let rule = |ty: Ty, docs: usize, body: CE| CRule { docs, name: "a".into(), ty, bar: false, body };
            let mut bases = vec![
                CG { gdocs: 0, trailing: 0, rules: vec![rule(Ty::Normal, 0, CE::Seq(id("b"), Box::new(CE::Str("c".into()))))] },
                CG { gdocs: 0, trailing: 0, rules: vec![rule(Ty::Atomic, 0, CE::Cho(Box::new(CE::Ins("A\n".into())), Box::new(CE::Range('a', 'b'))))] },
                CG { gdocs: 0, trailing: 0, rules: vec![rule(Ty::Silent, 0, CE::Seq(Box::new(CE::Seq(Box::new(CE::RepMM(id("b"), 2, 3)), Box::new(CE::Peek(Some(-1), Some(2))))),
                                                                                  Box::new(CE::Rep(Box::new(CE::Push(false, id("c")))))))] },
                CG { gdocs: 1, trailing: 0, rules: vec![rule(Ty::Compound, 1, CE::Cho(Box::new(CE::Neg(Box::new(CE::Rep1(id("b"))))), Box::new(CE::Pos(Box::new(CE::Opt(id("c")))))))] },
            ];
            // the grammar-extras build only adds what the default build cannot read: tags and PUSH_LITERAL
            if EXTRAS { bases.clear(); bases.push(CG { gdocs: 0, trailing: 0, rules: vec![rule(Ty::NonAtomic, 0, CE::Seq(Box::new(CE::Tag(id("b"), "t".into())), Box::new(CE::PushLit("c".into()))))] }); }
            let mut words: Vec<(usize, String)> = vec![];               // (number of units, word), without duplicates
            let mut level: Vec<String> = vec![String::new()];
            let mut seen_w: HashSet<String> = HashSet::new();
            for l in 1..=std::cmp::max(len1, len2) {
                let mut next = vec![];
                for w in &level { for u in &units { let x = format!("{}{}", w, u); if seen_w.insert(x.clone()) { words.push((l, x.clone())); next.push(x); } } }
                level = next;
            }
            let mut rng = Rng::new(7);
            let mut k = 0u64;
            for (bi, cg) in bases.iter().enumerate() {
                let mut p = Pr { r: &mut rng, out: String::new(), layout: 0, esc: if bi == 0 && !EXTRAS { 0 } else { 100 }, insens_gap: false, used_insens_gap: false, st: Stats::default(), marks: vec![], open_doc: false };
                p.grammar(cg);
                let (base, mut marks) = (p.out, p.marks);
                marks.push(base.len());
                let maxl = if EXTRAS { len2 + 1 } else if bi == 0 { len1 } else { len2 };
                for off in 0..=base.len() {
                    if !base.is_char_boundary(off) { continue; }
                    for (l, w) in &words {
                        if *l > maxl { continue; }
                        k += 1;
                        if k % shards != shard { continue; }
                        let text = format!("{}{}{}", &base[..off], w, &base[off..]);
                        if marks.contains(&off) && is_gap(w, off == base.len()) {
                            run.tot.esc_regular += 1;
                            run.case(cg, &text, false);
                        } else {
                            let (res, fo) = observe(&text);
                            run.tot.n += 1; run.tot.esc_model_oracle += 1;
                            writeln!(run.w, "x={}|m=1|t={}\t{}|{}", EXTRAS as u8, hex(&text), res, fo).unwrap();
                        }
                    }
                }
            }
        }
        "one" => {
            // x=..|c=<concrete sexp>|t=<hex> : re-run exactly this spelling
            let case = arg(2);
            let f: Vec<&str> = case.split('|').collect();
            if f[1].starts_with("m=") {
                // a case of the escalated search whose expected reading comes from the specification reader (no written AST)
                let text = unhex(f[2].strip_prefix("t=").unwrap());
                let (res, fo) = observe(&text);
                writeln!(run.w, "{}\t{}|{}", case, res, fo).unwrap();
                run.tot.n += 1;
            } else {
            let cg = cg_of(f[1].strip_prefix("c=").unwrap()); let text = unhex(f[2].strip_prefix("t=").unwrap());
            run.case(&cg, &text, true);
            }
        }
        _ => { eprintln!("usage: c07 probe | metagrammar | random COUNT SEED [PER] [DEPTH] | exhaustive DEPTH OPS [PER SEED SHARD SHARDS] | witness | escalate UNITS LEN1 LEN2 [SHARD SHARDS] | one CASE"); std::process::exit(2); }
    }
    let t = &run.tot;
    writeln!(run.w, "#SUMMARY\tevaluations={}\tdistinct_nontrivial={}\tok={}\tinvalid={}\tknown_generated={}\tcontract={}\tredundant_parens={}\twith_comments={}\twith_escapes={}\twith_docs={}\tleading_zeros={}\trule_bars={}\tmixed_levels={}\tsame_level_nests={}\tprefix_postfix={}\thostile_comments={}\tstar_run_before_close={}\tline_comment_at_end_of_text={}\tescalation_written_ast_oracle={}\tescalation_model_oracle={}",
        t.n, t.nontrivial, t.ok, t.invalid, t.known, t.contract, t.redundant, t.comments, t.escapes, t.docs, t.zeros, t.bars, t.mixed_levels, t.same_level_nests, t.prefix_postfix, t.hostile, t.star_run_close, t.eot_comment, t.esc_regular, t.esc_model_oracle).unwrap();
}
