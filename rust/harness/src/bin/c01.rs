//! Grammar-level correspondence (C01 / C05 / C06 share it): random grammars are written in pest
//! syntax, compiled by the REAL pest_meta::parse_and_optimize and run by the REAL pest_vm::Vm on all
//! short inputs.  Lines:
//!   G\t<id>\t<x=0|1>\t<grammar sexp>\t<optimized grammar sexp>         one per accepted grammar
//!   <id> <rule> <input hex>\t<observation>                             one per (grammar, input)
//!   R\t<grammar sexp>\t<error text>                                    grammar rejected by pest_meta
//! observation = "Ok <forest>" | "Err <pos> <positives> <negatives>" | "Limit" | "Panic"
use pvharness::gram::*;
use pvharness::prog::hex;
use pvharness::*;
use std::io::{self, BufWriter, Write};
use std::num::NonZeroUsize;

const LIMIT: usize = 4000;

fn observe(vm: &pest_vm::Vm, rule: &str, input: &str) -> String {
    pest::set_call_limit(NonZeroUsize::new(LIMIT));
    let r = catch(|| match vm.parse(rule, input) {
        Ok(pairs) => format!("Ok {}", forest(pairs, &|r: &str| r.to_string())),
        Err(e) => {
            let at = match e.location { pest::error::InputLocation::Pos(p) => p.to_string(), pest::error::InputLocation::Span((a, b)) => format!("{}-{}", a, b) };
            match e.variant {
                pest::error::ErrorVariant::ParsingError { positives, negatives } => format!("Err {} [{}] [{}]", at, positives.join(","), negatives.join(",")),
                pest::error::ErrorVariant::CustomError { message } => if message == "call limit reached" { "Limit".to_string() } else { format!("Custom {}", message) },
            }
        }
    });
    pest::set_call_limit(None);
    r.unwrap_or_else(|_| "Panic".to_string())
}

// ------------------------------------------------------------------------------------------------
// generators local to C01 (kept here, not in gram.rs, so that the shared file stays untouched)
// ------------------------------------------------------------------------------------------------
fn bx(e: GE) -> Box<GE> { Box::new(e) }
fn seq_of(mut v: Vec<GE>) -> GE {
    let mut e = v.pop().expect("seq_of: empty");
    while let Some(x) = v.pop() { e = GE::Seq(bx(x), bx(e)); }
    e
}
/// the other case of a character as the Unicode tables see it (single-character mappings only), else the character itself
fn flip_char(c: char) -> char {
    let one = |mut it: Box<dyn Iterator<Item = char>>| { let a = it.next(); if it.next().is_none() { a } else { None } };
    if let Some(u) = one(Box::new(c.to_uppercase())) { if u != c { return u; } }
    if let Some(l) = one(Box::new(c.to_lowercase())) { if l != c { return l; } }
    c
}
fn flip_str(s: &str) -> String { s.chars().map(flip_char).collect() }

/// Case-insensitive literals over letters with a case mapping OUTSIDE ASCII (same and different UTF-8 widths, one-to-many and
/// many-to-one mappings: é/É, ä/Ä, ω/Ω, я/Я, ß/ẞ, i/İ, k/KELVIN SIGN, s/ſ, σ/Σ/ς, ǆ/ǅ) mixed with ASCII letters and digits: alone, in
/// ordered choices whose first alternative must fail on the other case, under greedy repetitions (span length), in skip-until
/// stop sets, captured and re-matched exactly, in rules of every modifier.  `^"…"` folds ASCII letters only.
fn gen_ci_grammar(r: &mut Rng) -> Vec<GRule> {
    use GE::*;
    let cased = ["é", "É", "ä", "Ä", "ω", "Ω", "я", "Я", "ß", "ẞ", "i", "İ", "k", "\u{212A}", "s", "ſ", "σ", "Σ", "ς", "ǆ", "ǅ", "à", "À"];
    let ascii = ["x", "y", "L", "1", "X"];
    let word = |r: &mut Rng| -> String {
        let n = 1 + r.weighted(&[3, 3, 1]);
        let mut s = String::new();
        let mut any = false;
        for k in 0..n {
            if r.chance(3, 5) || (k + 1 == n && !any) { s.push_str(cased[r.weighted(&[4, 3, 4, 3, 4, 3, 2, 2, 2, 1, 1, 2, 1, 2, 1, 1, 2, 2, 1, 1, 1, 2, 2])]); any = true; }
            else { s.push_str(ascii[r.below(5) as usize]); }
        }
        s
    };
    let asc = |r: &mut Rng| ascii[r.below(5) as usize].to_string();
    let w1 = word(r); let w2 = word(r);
    let atom = |r: &mut Rng| match r.weighted(&[6, 2, 1]) { 0 => Ins(word(r)), 1 => Str(word(r)), _ => Str(asc(r)) };
    let shape = match r.below(9) {
        0 => Ins(w1.clone()),
        1 => Cho(bx(Seq(bx(Ins(w1.clone())), bx(Str(asc(r))))), bx(Seq(bx(Str(flip_str(&w1))), bx(Str(asc(r)))))),       // ^"ä" ~ "x" | "Ä" ~ "y"
        2 => Rep1(bx(Ins(w1.clone()))),
        3 => Seq(bx(Rep(bx(Ins(w1.clone())))), bx(Opt(bx(Str(flip_str(&w1)))))),
        4 => { let n = 1 + r.below(3); let mut stop = atom(r); for _ in 1..n { stop = Cho(bx(atom(r)), bx(stop)); }
               Seq(bx(Rep(bx(Seq(bx(Neg(bx(stop))), bx(Id("ANY".into())))))), bx(Opt(bx(Ins(w1.clone()))))) }                 // skip-until with insensitive stops
        5 => Seq(bx(Ins(w1.clone())), bx(Ins(w2.clone()))),
        6 => Seq(bx(Push(bx(Ins(w1.clone())))), bx(Id(["PEEK", "POP"][r.below(2) as usize].into()))),                          // the capture is matched exactly
        7 => Seq(bx(Neg(bx(Ins(w1.clone())))), bx(Rep(bx(Id("ANY".into()))))),
        _ => Cho(bx(Ins(w1.clone())), bx(Cho(bx(Ins(w2.clone())), bx(Id("ANY".into()))))),
    };
    let tys = [Ty::Normal, Ty::Atomic, Ty::Compound, Ty::NonAtomic, Ty::Silent];
    let tail = |r: &mut Rng, e: GE| match r.below(4) { 0 => e, 1 | 2 => Seq(bx(e), bx(Id("EOI".into()))), _ => Seq(bx(e), bx(Str(asc(r)))) };
    let mut rules = if r.chance(1, 2) {
        vec![GRule { name: "r0".into(), ty: tys[r.below(4) as usize], e: tail(r, shape) }]
    } else {
        let e0 = match r.below(3) { 0 => Id("r1".into()), 1 => Rep(bx(Id("r1".into()))), _ => Seq(bx(Id("r1".into())), bx(Opt(bx(Id("r1".into()))))) };
        vec![GRule { name: "r0".into(), ty: tys[r.below(4) as usize], e: tail(r, e0) }, GRule { name: "r1".into(), ty: tys[r.below(5) as usize], e: shape }]
    };
    if r.chance(1, 4) { rules.push(GRule { name: "WHITESPACE".into(), ty: Ty::Silent, e: Str(" ".into()) }); }
    rules
}

/// Repetitions whose body succeeds on a zero-length match while changing the stack (DROP*, POP* over empty captures,
/// (&"x" ~ DROP)*, (POP | DROP)*, a rule that drops, with + and {n,}) below two to four pushes (some of them empty captures) and
/// followed by a reader of the stack: a repetition runs until its body FAILS, so the readers see the stack the loop left.
/// Bodies always shrink the stack, so every loop terminates.
fn gen_zrep_grammar(r: &mut Rng, extras: bool) -> Vec<GRule> {
    use GE::*;
    let lit = |r: &mut Rng| ["x", "y", "xy"][r.weighted(&[4, 4, 1])].to_string();
    let id = |s: &str| Id(s.to_string());
    let npush = 2 + r.weighted(&[2, 4, 3]);
    let mut items: Vec<GE> = vec![];
    for _ in 0..npush {
        items.push(match r.weighted(&[7, 2, 1, 1, if extras { 1 } else { 0 }]) {
            0 => Push(bx(Str(lit(r)))), 1 => Push(bx(Opt(bx(Str(lit(r)))))), 2 => Push(bx(Range('x', 'y'))), 3 => Push(bx(Str(String::new()))),
            _ => PushLit(lit(r)) });
    }
    if r.chance(1, 4) { items.push(Str(lit(r))); }
    let mut helper = false;
    let body = match r.weighted(&[6, 3, 2, 1, 2, 2, 1]) {
        0 => id("DROP"), 1 => id("POP"), 2 => Seq(bx(Pos(bx(Str(lit(r))))), bx(id("DROP"))), 3 => Seq(bx(Neg(bx(Str(lit(r))))), bx(id("DROP"))),
        4 => Cho(bx(id("POP")), bx(id("DROP"))), 5 => { helper = true; id("r1") }, _ => Seq(bx(id("DROP")), bx(Opt(bx(id("DROP"))))),
    };
    items.push(match r.weighted(&[7, 2, 1]) { 0 => Rep(bx(body)), 1 => Rep1(bx(body)), _ => RepMin(bx(body), r.range(1, 2) as u32) });
    if r.chance(1, 5) { items.push(Str(lit(r))); }
    items.push(match r.weighted(&[6, 2, 2, 2, 1, 1, 1, 1, 1]) {
        0 => id("PEEK_ALL"), 1 => id("POP_ALL"), 2 => Slice(0, None), 3 => Neg(bx(id("DROP"))), 4 => Seq(bx(id("DROP")), bx(id("PEEK_ALL"))),
        5 => Slice(0, Some(1)), 6 => Slice(-1, None), 7 => id("PEEK"), _ => Seq(bx(Opt(bx(id("POP")))), bx(id("PEEK_ALL"))) });
    match r.below(5) { 0 => {}, 1 => items.push(Rep(bx(id("ANY")))), _ => items.push(id("EOI")) }
    let tys = [Ty::Normal, Ty::Atomic, Ty::Atomic, Ty::Compound, Ty::NonAtomic, Ty::Silent];
    let mut rules = vec![GRule { name: "r0".into(), ty: tys[r.below(5) as usize], e: seq_of(items) }];
    if helper { rules.push(GRule { name: "r1".into(), ty: tys[r.below(6) as usize], e: id(["DROP", "DROP", "POP"][r.below(3) as usize]) }); }
    if r.chance(1, 4) { rules.push(GRule { name: "WHITESPACE".into(), ty: Ty::Silent, e: Str(" ".into()) }); }
    rules
}

/// input alphabet derived from the grammar: the characters of its literals and range ends, for the characters of
/// case-insensitive literals also their other case (non-ASCII ones first, they are the rarest in hand-picked alphabets)
fn derived_alphabet(g: &[GRule], cap: usize) -> Vec<String> {
    fn walk(e: &GE, strs: &mut Vec<char>, ins: &mut Vec<char>) {
        use GE::*;
        match e {
            Str(s) | PushLit(s) => strs.extend(s.chars()), Ins(s) => ins.extend(s.chars()),
            Range(a, b) => { strs.push(*a); strs.push(*b); }
            Skip(ss) => for s in ss { strs.extend(s.chars()); },
            Id(_) | Slice(_, _) => {}
            Pos(x) | Neg(x) | Opt(x) | Rep(x) | Rep1(x) | RepX(x, _) | RepMin(x, _) | RepMax(x, _) | RepMM(x, _, _) | Push(x) | Tag(_, x) | Roe(x) => walk(x, strs, ins),
            Seq(l, r) | Cho(l, r) => { walk(l, strs, ins); walk(r, strs, ins); }
        }
    }
    let (mut strs, mut ins) = (vec![], vec![]);
    for rule in g { walk(&rule.e, &mut strs, &mut ins); }
    let mut out: Vec<char> = vec![];
    let mut add = |c: char, out: &mut Vec<char>| if !out.contains(&c) { out.push(c); };
    for pass in 0..2 {
        for &c in &ins {
            if (pass == 0) == c.is_ascii() { continue; }
            add(c, &mut out);
            for v in c.to_uppercase().chain(c.to_lowercase()) { add(v, &mut out); }
            add(flip_char(c), &mut out);
            if c.is_ascii_alphabetic() { add(if c.is_ascii_lowercase() { c.to_ascii_uppercase() } else { c.to_ascii_lowercase() }, &mut out); }
        }
    }
    for &c in &strs { add(c, &mut out); add(flip_char(c), &mut out); }
    if out.len() < 2 { add('x', &mut out); add('y', &mut out); }
    out.truncate(cap);
    out.iter().map(|c| c.to_string()).collect()
}
/// all strings over the derived alphabet up to the largest length <= maxlen that keeps the number of inputs under the budget
fn derived_inputs(g: &[GRule], cap: usize, maxlen: usize, budget: usize) -> Vec<String> {
    let alpha = derived_alphabet(g, cap);
    let k = alpha.len();
    let mut len = maxlen;
    loop {
        let mut tot = 1usize; let mut layer = 1usize;
        for _ in 0..len { layer = layer.saturating_mul(k); tot = tot.saturating_add(layer); }
        if tot <= budget || len <= 2 { break; }
        len -= 1;
    }
    let refs: Vec<&str> = alpha.iter().map(|s| s.as_str()).collect();
    all_strings(&refs, len)
}

fn main() {
    quiet_panics();
    let mode = arg(1);
    let extras = cfg!(feature = "extras");
    let stdout = io::stdout();
    let mut w = BufWriter::with_capacity(1 << 20, stdout.lock());
    let (mut n, mut grammars, mut rejected, mut oks, mut nontriv, mut panics, mut limits) = (0u64, 0u64, 0u64, 0u64, 0u64, 0u64, 0u64);
    // escalation (C01_FOCUS=<file of grammar s-expressions, one per line>): the same generator run is repeated, but only the listed
    // grammars (the ones on which implementation and model differed) are executed, on more and longer inputs: the mode's own
    // alphabet two characters longer plus the alphabet derived from the grammar's literals
    let focus: Option<std::collections::HashSet<String>> = std::env::var("C01_FOCUS").ok().filter(|p| !p.is_empty())
        .map(|p| std::fs::read_to_string(&p).unwrap_or_default().lines().map(|l| l.trim().to_string()).filter(|l| !l.is_empty()).collect());
    let bump = if focus.is_some() { 2 } else { 0 };
    let mut run_grammar = |g: &Vec<GRule>, inputs: &[String], w: &mut BufWriter<io::StdoutLock>, id: u64| {
        let mut widened: Vec<String> = vec![];
        if let Some(set) = &focus {
            if !set.contains(&sexp_grammar(g)) { return; }
            let mut seen: std::collections::HashSet<String> = inputs.iter().cloned().collect();
            widened = inputs.to_vec();
            for x in derived_inputs(g, 5, 6, 4000) { if seen.insert(x.clone()) { widened.push(x); } }
        }
        let inputs: &[String] = if focus.is_some() { &widened } else { inputs };
        let text = pest_grammar(g);
        pest::set_call_limit(None);
        let compiled = catch(|| pest_meta::parse_and_optimize(&text).map(|(_, r)| r).map_err(|es| es.iter().map(|e| format!("{}", e.variant.message())).collect::<Vec<_>>().join(" / ")));
        let opt = match compiled {
            Err(_) => { writeln!(w, "R\t{}\tPANIC in parse_and_optimize", sexp_grammar(g)).unwrap(); rejected += 1; return; }
            Ok(Err(msg)) => { writeln!(w, "R\t{}\t{}", sexp_grammar(g), esc(&msg)).unwrap(); rejected += 1; return; }
            Ok(Ok(o)) => o,
        };
        grammars += 1;
        // does the (known-unsound) lister rewrite touch this grammar?  pipeline without pass 5 vs the real one
        let lister = catch(|| {
            let pairs = pest_meta::parser::parse(pest_meta::parser::Rule::grammar_rules, &text).unwrap();
            let mut ast = pest_meta::parser::consume_rules(pairs).unwrap();
            for pass in 0..5 { ast = pest_meta::optimizer::verif_apply_pass(ast, pass); }
            pest_meta::optimizer::verif_to_optimized(ast, true) != opt
        }).unwrap_or(true);
        writeln!(w, "G\t{}\t{}{}\t{}\t{}", id, extras as u8, if lister { "L" } else { "" }, sexp_grammar(g), sexp_grammar(&from_orules(&opt))).unwrap();
        let vm = pest_vm::Vm::new(opt);
        for input in inputs {
            let o = observe(&vm, "r0", input);
            n += 1;
            if o.starts_with("Ok") { oks += 1; if o.len() > 3 { nontriv += 1; } }
            if o == "Panic" { panics += 1; }
            if o == "Limit" { limits += 1; }
            writeln!(w, "{} r0 {}\t{}", id, hex(input), o).unwrap();
        }
    };
    match mode.as_str() {
        "random" => {
            let count = arg_u64(2, 200); let mut rng = Rng::new(arg_u64(3, 0)); let maxlen = arg_u64(4, 4) as usize + bump;
            let stack = arg(5) != "nostack";
            let inputs = all_strings(&["x", "y", " "], maxlen);
            for id in 0..count {
                let cfg = GenCfg { stack: stack && rng.chance(1, 2), extras, counts: rng.chance(1, 3), builtins: rng.chance(1, 4) };
                let g = gen_grammar(&mut rng, &cfg);
                run_grammar(&g, &inputs, &mut w, id);
            }
        }
        // stack-heavy grammars: two pushes followed by bodies that pop/peek/drop under choices and repetitions
        "stack" => {
            let count = arg_u64(2, 200); let mut rng = Rng::new(arg_u64(3, 0)); let maxlen = arg_u64(4, 5) as usize + bump;
            let inputs = all_strings(&["x", "y"], maxlen);
            for id in 0..count {
                let g = gen_stack_grammar(&mut rng, extras);
                run_grammar(&g, &inputs, &mut w, id);
            }
        }
        // the skip-until idiom (optimizer: skipper; runtime: skip_until with memchr fast paths)
        "skip" => {
            let count = arg_u64(2, 200); let mut rng = Rng::new(arg_u64(3, 0)); let maxlen = arg_u64(4, 5) as usize + bump;
            let inputs = all_strings(&["x", "y"], maxlen);
            for id in 0..count {
                let g = gen_skip_grammar(&mut rng);
                run_grammar(&g, &inputs, &mut w, id);
            }
        }
        // the shapes the optimizer passes rewrite, in rules of every modifier, with trivia
        "opt" => {
            let count = arg_u64(2, 200); let mut rng = Rng::new(arg_u64(3, 0)); let maxlen = arg_u64(4, 4) as usize + bump;
            let inputs = all_strings(&["x", "y", " ", "#"], maxlen);
            for id in 0..count {
                let g = gen_opt_grammar(&mut rng);
                run_grammar(&g, &inputs, &mut w, id);
            }
        }
        // random grammars on inputs with characters of every UTF-8 width (ANY, ranges, built-ins, skip-until over wide text)
        "wide" => {
            let count = arg_u64(2, 200); let mut rng = Rng::new(arg_u64(3, 0)); let maxlen = arg_u64(4, 3) as usize + bump;
            let inputs = all_strings(&["x", "é", "€", "😀", "\u{10ffff}"], maxlen);
            for id in 0..count {
                let g = if rng.chance(1, 3) { gen_skip_grammar(&mut rng) } else {
                    let cfg = GenCfg { stack: rng.chance(1, 4), extras, counts: false, builtins: rng.chance(1, 2) };
                    gen_grammar(&mut rng, &cfg) };
                run_grammar(&g, &inputs, &mut w, id);
            }
        }
        // case-insensitive literals with non-ASCII cased letters; the input alphabet is derived from the literals (both cases)
        "insens" => {
            let count = arg_u64(2, 200); let mut rng = Rng::new(arg_u64(3, 0)); let maxlen = arg_u64(4, 4) as usize + bump;
            for id in 0..count {
                let g = gen_ci_grammar(&mut rng);
                let inputs = derived_inputs(&g, 6, maxlen, 700);
                run_grammar(&g, &inputs, &mut w, id);
            }
        }
        // repetitions whose body matches the empty string and changes the stack, followed by readers of the stack
        "zrep" => {
            let count = arg_u64(2, 200); let mut rng = Rng::new(arg_u64(3, 0)); let maxlen = arg_u64(4, 5) as usize + bump;
            let inputs = all_strings(&["x", "y"], maxlen);
            for id in 0..count {
                let g = gen_zrep_grammar(&mut rng, extras);
                run_grammar(&g, &inputs, &mut w, id);
            }
        }
        // one GRAMMAR_TEXT INPUT...: a hand-written grammar in pest syntax (the AST is taken from the real reader)
        "one" => {
            let text = arg(2);
            let pairs = pest_meta::parser::parse(pest_meta::parser::Rule::grammar_rules, &text).expect("grammar does not parse");
            let ast = pest_meta::parser::consume_rules(pairs).expect("grammar rejected");
            let g = from_rules(&ast);
            let inputs: Vec<String> = std::env::args().skip(3).collect();
            run_grammar(&g, &inputs, &mut w, 0);
        }
        _ => { eprintln!("usage: c01 random COUNT SEED [MAXLEN] [nostack] | insens COUNT SEED [MAXLEN] | zrep COUNT SEED [MAXLEN] | stack COUNT SEED [MAXLEN] | skip COUNT SEED [MAXLEN] | opt COUNT SEED [MAXLEN] | wide COUNT SEED [MAXLEN] | one GRAMMAR INPUT.."); std::process::exit(2); }
    }
    writeln!(w, "#SUMMARY\tevaluations={}\tdistinct_nontrivial={}\tgrammars={}\trejected={}\tok={}\tpanics={}\tlimits={}", n, nontriv, grammars, rejected, oks, panics, limits).unwrap();
}
