//! Grammar-level correspondence (C01 / C05 / C06 share it): random grammars are written in pest
//! syntax, compiled by the REAL pest_meta::parse_and_optimize and run by the REAL pest_vm::Vm on all
//! short inputs.  Lines:
//!   G\t<id>\t<x=0|1>\t<grammar sexp>\t<optimized grammar sexp>         one per accepted grammar
//!   <id> <rule> <input hex>\t<observation>                             one per (grammar, input)
//!   R\t<grammar sexp>\t<error text>                                    grammar rejected by pest_meta
//! observation = "Ok <forest>" | "Err <pos> <positives> <negatives>" | "Limit" | "Panic"
use pvharness::gram::*;
use pvharness::prog::hex;
use pvharness::*;
use std::io::{self, BufWriter, Write};
use std::num::NonZeroUsize;

const LIMIT: usize = 4000;

fn observe(vm: &pest_vm::Vm, rule: &str, input: &str) -> String {
    pest::set_call_limit(NonZeroUsize::new(LIMIT));
    let r = catch(|| match vm.parse(rule, input) {
        Ok(pairs) => format!("Ok {}", forest(pairs, &|r: &str| r.to_string())),
        Err(e) => {
            let at = match e.location { pest::error::InputLocation::Pos(p) => p.to_string(), pest::error::InputLocation::Span((a, b)) => format!("{}-{}", a, b) };
            match e.variant {
                pest::error::ErrorVariant::ParsingError { positives, negatives } => format!("Err {} [{}] [{}]", at, positives.join(","), negatives.join(",")),
                pest::error::ErrorVariant::CustomError { message } => if message == "call limit reached" { "Limit".to_string() } else { format!("Custom {}", message) },
            }
        }
    });
    pest::set_call_limit(None);
    r.unwrap_or_else(|_| "Panic".to_string())
}

fn main() {
    quiet_panics();
    let mode = arg(1);
    let extras = cfg!(feature = "extras");
    let stdout = io::stdout();
    let mut w = BufWriter::with_capacity(1 << 20, stdout.lock());
    let (mut n, mut grammars, mut rejected, mut oks, mut nontriv, mut panics, mut limits) = (0u64, 0u64, 0u64, 0u64, 0u64, 0u64, 0u64);
    let mut run_grammar = |g: &Vec<GRule>, inputs: &[String], w: &mut BufWriter<io::StdoutLock>, id: u64| {
        let text = pest_grammar(g);
        pest::set_call_limit(None);
        let compiled = catch(|| pest_meta::parse_and_optimize(&text).map(|(_, r)| r).map_err(|es| es.iter().map(|e| format!("{}", e.variant.message())).collect::<Vec<_>>().join(" / ")));
        let opt = match compiled {
            Err(_) => { writeln!(w, "R\t{}\tPANIC in parse_and_optimize", sexp_grammar(g)).unwrap(); rejected += 1; return; }
            Ok(Err(msg)) => { writeln!(w, "R\t{}\t{}", sexp_grammar(g), esc(&msg)).unwrap(); rejected += 1; return; }
            Ok(Ok(o)) => o,
        };
        grammars += 1;
        // does the (known-unsound) lister rewrite touch this grammar?  pipeline without pass 5 vs the real one
        let lister = catch(|| {
            let pairs = pest_meta::parser::parse(pest_meta::parser::Rule::grammar_rules, &text).unwrap();
            let mut ast = pest_meta::parser::consume_rules(pairs).unwrap();
            for pass in 0..5 { ast = pest_meta::optimizer::verif_apply_pass(ast, pass); }
            pest_meta::optimizer::verif_to_optimized(ast, true) != opt
        }).unwrap_or(true);
        writeln!(w, "G\t{}\t{}{}\t{}\t{}", id, extras as u8, if lister { "L" } else { "" }, sexp_grammar(g), sexp_grammar(&from_orules(&opt))).unwrap();
        let vm = pest_vm::Vm::new(opt);
        for input in inputs {
            let o = observe(&vm, "r0", input);
            n += 1;
            if o.starts_with("Ok") { oks += 1; if o.len() > 3 { nontriv += 1; } }
            if o == "Panic" { panics += 1; }
            if o == "Limit" { limits += 1; }
            writeln!(w, "{} r0 {}\t{}", id, hex(input), o).unwrap();
        }
    };
    match mode.as_str() {
        "random" => {
            let count = arg_u64(2, 200); let mut rng = Rng::new(arg_u64(3, 0)); let maxlen = arg_u64(4, 4) as usize;
            let stack = arg(5) != "nostack";
            let inputs = all_strings(&["x", "y", " "], maxlen);
            for id in 0..count {
                let cfg = GenCfg { stack: stack && rng.chance(1, 2), extras, counts: rng.chance(1, 3), builtins: rng.chance(1, 4) };
                let g = gen_grammar(&mut rng, &cfg);
                run_grammar(&g, &inputs, &mut w, id);
            }
        }
        // stack-heavy grammars: two pushes followed by bodies that pop/peek/drop under choices and repetitions
        "stack" => {
            let count = arg_u64(2, 200); let mut rng = Rng::new(arg_u64(3, 0)); let maxlen = arg_u64(4, 5) as usize;
            let inputs = all_strings(&["x", "y"], maxlen);
            for id in 0..count {
                let g = gen_stack_grammar(&mut rng, extras);
                run_grammar(&g, &inputs, &mut w, id);
            }
        }
        // the skip-until idiom (optimizer: skipper; runtime: skip_until with memchr fast paths)
        "skip" => {
            let count = arg_u64(2, 200); let mut rng = Rng::new(arg_u64(3, 0)); let maxlen = arg_u64(4, 5) as usize;
            let inputs = all_strings(&["x", "y"], maxlen);
            for id in 0..count {
                let g = gen_skip_grammar(&mut rng);
                run_grammar(&g, &inputs, &mut w, id);
            }
        }
        // the shapes the optimizer passes rewrite, in rules of every modifier, with trivia
        "opt" => {
            let count = arg_u64(2, 200); let mut rng = Rng::new(arg_u64(3, 0)); let maxlen = arg_u64(4, 4) as usize;
            let inputs = all_strings(&["x", "y", " ", "#"], maxlen);
            for id in 0..count {
                let g = gen_opt_grammar(&mut rng);
                run_grammar(&g, &inputs, &mut w, id);
            }
        }
        // random grammars on inputs with characters of every UTF-8 width (ANY, ranges, built-ins, skip-until over wide text)
        "wide" => {
            let count = arg_u64(2, 200); let mut rng = Rng::new(arg_u64(3, 0)); let maxlen = arg_u64(4, 3) as usize;
            let inputs = all_strings(&["x", "é", "€", "😀", "\u{10ffff}"], maxlen);
            for id in 0..count {
                let g = if rng.chance(1, 3) { gen_skip_grammar(&mut rng) } else {
                    let cfg = GenCfg { stack: rng.chance(1, 4), extras, counts: false, builtins: rng.chance(1, 2) };
                    gen_grammar(&mut rng, &cfg) };
                run_grammar(&g, &inputs, &mut w, id);
            }
        }
        // one GRAMMAR_TEXT INPUT...: a hand-written grammar in pest syntax (the AST is taken from the real reader)
        "one" => {
            let text = arg(2);
            let pairs = pest_meta::parser::parse(pest_meta::parser::Rule::grammar_rules, &text).expect("grammar does not parse");
            let ast = pest_meta::parser::consume_rules(pairs).expect("grammar rejected");
            let g = from_rules(&ast);
            let inputs: Vec<String> = std::env::args().skip(3).collect();
            run_grammar(&g, &inputs, &mut w, 0);
        }
        _ => { eprintln!("usage: c01 random COUNT SEED [MAXLEN] [nostack] | stack COUNT SEED [MAXLEN] | skip COUNT SEED [MAXLEN] | opt COUNT SEED [MAXLEN] | wide COUNT SEED [MAXLEN] | one GRAMMAR INPUT.."); std::process::exit(2); }
    }
    writeln!(w, "#SUMMARY\tevaluations={}\tdistinct_nontrivial={}\tgrammars={}\trejected={}\tok={}\tpanics={}\tlimits={}", n, nontriv, grammars, rejected, oks, panics, limits).unwrap();
}
