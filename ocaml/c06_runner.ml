(* C06 runner: reads the lines of rust/harness/src/bin/c06.rs.
     V|<x>|<grammar>           \t ok | err:<kinds> | panic:..   verdict of the real parse_and_optimize
     T|<x>|<maxlen>|<grammar>  \t term <runs> | limit <rule> <hex> | overflow <rule> <hex> | died ..
   argv.(1) = model flags "<fix_lr><fix_tag>" (chosen by the driver's probe of the tree),
   argv.(2) = file with two lines: PEST_KEYWORDS and BUILTINS (translated from validator.rs + the
              Unicode property names printed by the real pest).
   Reports
     MISMATCH model  V-line: the real verdict differs from the extracted Valid.Validator.validate
     MISMATCH spec   T-line: an ACCEPTED grammar without stack built-ins does not terminate on the real
                     VM (contract violation; <expected> carries the class: leftrec / tagrep / ws / other)
     MISMATCH sem    T-line: the real VM and Layer S disagree about termination on the witness
     MISMATCH thm    a grammar accepted by the REPAIRED model, stack-free, outside the known class,
                     on which Layer S runs out of fuel (would contradict C06_termination_fixed)      *)
open Valid_model
open Runner_common
type string = Stdlib.String.t

let rec nat_of_int i = if i <= 0 then O else S (nat_of_int (i - 1))
let rec pos_of_int i = if i <= 1 then XH else if i land 1 = 0 then XO (pos_of_int (i lsr 1)) else XI (pos_of_int (i lsr 1))
let n_of_int i = if i = 0 then N0 else Npos (pos_of_int i)
let z_of_int i = if i = 0 then Z0 else if i > 0 then Zpos (pos_of_int i) else Zneg (pos_of_int (-i))
let rec int_of_pos = function XH -> 1 | XO p -> 2 * int_of_pos p | XI p -> 2 * int_of_pos p + 1
let int_of_n = function N0 -> 0 | Npos p -> int_of_pos p
let unhex (h : string) : byte list =
  if h = "-" then [] else List.init (String.length h / 2) (fun i -> n_of_int (int_of_string ("0x" ^ String.sub h (2 * i) 2)))
let bytes_of (s : string) : byte list = List.init (String.length s) (fun i -> n_of_int (Char.code s.[i]))
let string_of_bytes (l : byte list) : string = String.concat "" (List.map (fun b -> String.make 1 (Char.chr (int_of_n b))) l)

(* ---- s-expressions (exchange format of gram.rs) ---- *)
type sx = A of string | L of sx list
let tokenize (s : string) : string list =
  let b = Buffer.create (String.length s + 16) in
  String.iter (fun c -> match c with '(' -> Buffer.add_string b " ( " | ')' -> Buffer.add_string b " ) " | c -> Buffer.add_char b c) s;
  List.filter (fun x -> x <> "") (String.split_on_char ' ' (Buffer.contents b))
let rec parse_sx (t : string list) : sx * string list =
  match t with
  | "(" :: r -> let rec items acc r = (match r with ")" :: r' -> (L (List.rev acc), r') | _ -> let x, r' = parse_sx r in items (x :: acc) r') in items [] r
  | a :: r -> (A a, r)
  | [] -> failwith "eof"
let sx_of_string s = fst (parse_sx (tokenize s))
let ios = int_of_string
let rec expr_of (x : sx) : expr =
  match x with
  | L [A "str"; A h] -> EStr (unhex h) | L [A "ins"; A h] -> EInsens (unhex h)
  | L [A "range"; A a; A b] -> ERange (n_of_int (ios a), n_of_int (ios b))
  | L [A "id"; A n] -> EIdent (bytes_of n)
  | L [A "slice"; A i; A j] -> EPeekSlice (z_of_int (ios i), if j = "-" then None else Some (z_of_int (ios j)))
  | L [A "pos"; e] -> EPosPred (expr_of e) | L [A "neg"; e] -> ENegPred (expr_of e)
  | L [A "seq"; a; b] -> ESeq (expr_of a, expr_of b) | L [A "cho"; a; b] -> EChoice (expr_of a, expr_of b)
  | L [A "opt"; e] -> EOpt (expr_of e) | L [A "rep"; e] -> ERep (expr_of e) | L [A "rep1"; e] -> ERepOnce (expr_of e)
  | L [A "repx"; A n; e] -> ERepExact (expr_of e, n_of_int (ios n)) | L [A "repmin"; A n; e] -> ERepMin (expr_of e, n_of_int (ios n))
  | L [A "repmax"; A n; e] -> ERepMax (expr_of e, n_of_int (ios n))
  | L [A "repmm"; A m; A n; e] -> ERepMinMax (expr_of e, n_of_int (ios m), n_of_int (ios n))
  | L [A "push"; e] -> EPush (expr_of e) | L [A "pushlit"; A h] -> EPushLiteral (unhex h)
  | L [A "tag"; A t; e] -> ENodeTag (expr_of e, bytes_of t)
  | _ -> failwith "bad expr"
let rty_of = function "n" -> RNormal | "s" -> RSilent | "a" -> RAtomic | "c" -> RCompound | _ -> RNonAtomic
let grammar_of (s : string) : grammar =
  List.map (fun r -> match sx_of_string r with L [A n; A t; e] -> { rname = bytes_of n; rty = rty_of t; rexpr = expr_of e } | _ -> failwith "bad rule")
    (String.split_on_char ';' s)

(* ---- names ---- *)
module SS = Set.Make (String)
let read_names path =
  let ic = open_in path in
  let l1 = input_line ic in let l2 = input_line ic in close_in ic;
  let set l = List.fold_left (fun s x -> if x = "" then s else SS.add x s) SS.empty (String.split_on_char ' ' l) in
  (set l1, set l2)

let kind_of (e : verr) : string =
  let s = string_of_bytes in
  match e with
  | VKeyword n -> "kw:" ^ s n | VDup n -> "dup:" ^ s n | VUndef n -> "undef:" ^ s n | VZero -> "zero"
  | VRepNF -> "rep_nf" | VRepNP -> "rep_np" | VChoNF -> "cho_nf" | VSpNF n -> "sp_nf:" ^ s n | VSpNP n -> "sp_np:" ^ s n
  | VLeftRec c -> "lr:" ^ String.concat ">" (List.map s c) | VTagSilent -> "tag_silent" | VTagBuiltin -> "tag_builtin"
  | VFuel -> "MODEL_FUEL" | VPanic -> "MODEL_PANIC"
let verdict (es : verr list) : string =
  if es = [] then "ok" else "err:" ^ String.concat "," (List.sort compare (List.map kind_of es))

(* per-kind report caps (runner_common.report has one global cap) *)
let kind_counts : (string, int) Hashtbl.t = Hashtbl.create 8
let report kind case impl expected =
  incr mismatches;
  let c = (try Hashtbl.find kind_counts kind with Not_found -> 0) + 1 in
  Hashtbl.replace kind_counts kind c;
  (* verdict differences are the starting points of the driver's escalated search: more of them are passed on *)
  if c <= (if kind = "model" then 160 else 40) then Printf.printf "MISMATCH\t%s\t%s\t%s\t%s\n" kind case impl expected

let spec_fuel = 1500
let terminates (g : grammar) (extras : bool) (rule : string) (input : byte list) : bool =
  try (match spec_parse g extras (fun _ -> None) input (nat_of_int spec_fuel) (bytes_of rule) with SFuel -> false | _ -> true)
  with Stack_overflow -> false

(* ---- the hypotheses of (<=), decided on a concrete grammar (C06_acceptance: they imply that the grammar must be accepted) ---- *)
let rec subexprs (e : expr) : expr list =
  e :: (match e with
        | EPosPred x | ENegPred x | ERep x | ERepOnce x | ERepExact (x, _) | ERepMin (x, _) | ERepMax (x, _)
        | ERepMinMax (x, _, _) | EOpt x | EPush x | ENodeTag (x, _) -> subexprs x
        | ESeq (l, r) | EChoice (l, r) -> subexprs l @ subexprs r
        | _ -> [])
let acceptance_hyps kw builtin uprop_name (g : grammar) : bool =
  let swc e = starts_with_char_b g uprop_name (nat_of_int (List.length g + 1)) e in
  let rec ung e = match e with
    | EIdent y -> [y]
    | ESeq (l, r) -> ung l @ (if swc l then [] else ung r)
    | EChoice (l, r) -> ung l @ ung r
    | EPosPred x | ENegPred x | ERep x | ERepOnce x | ERepExact (x, _) | ERepMin (x, _) | ERepMax (x, _)
    | ERepMinMax (x, _, _) | EOpt x | EPush x | ENodeTag (x, _) -> ung x
    | _ -> [] in
  let body n = match find_rule g n with Some r -> Some r.rexpr | None -> None in
  let cyclic v =
    let seen = Hashtbl.create 8 in
    let rec go n = match body n with
      | None -> false
      | Some b -> List.exists (fun y -> y = v || (if Hashtbl.mem seen y then false else (Hashtbl.add seen y (); go y))) (ung b) in
    go v in
  validate_pairs kw builtin g = []
  && not (List.exists (fun r -> zero_count r.rexpr) g)
  && List.for_all (fun r -> List.for_all (fun n -> match n with
        | ERep x | ERepOnce x | ERepMin (x, _) -> swc x
        | EChoice (l, _) -> swc l
        | ENodeTag (x, _) -> check_silent_builtin builtin g x = []
        | _ -> true) (subexprs r.rexpr)) g
  && List.for_all (fun r -> not (is_ws_or_comment r.rname) || swc r.rexpr) g
  && not (List.exists (fun r -> cyclic r.rname) g)

let alphabet = ["x"; "y"; " "]
let rec all_strings n = if n = 0 then [""] else
  let shorter = all_strings (n - 1) in
  shorter @ List.concat_map (fun w -> if String.length w = n - 1 then List.map (fun a -> w ^ a) alphabet else []) shorter

let () =
  let flags = if Array.length Sys.argv > 1 then Sys.argv.(1) else "00" in
  let cfg = { fix_lr = flags.[0] = '1'; fix_tag = String.length flags > 1 && flags.[1] = '1' } in
  let kws, bis = if Array.length Sys.argv > 2 then read_names Sys.argv.(2) else (SS.empty, SS.empty) in
  let kw n = SS.mem (string_of_bytes n) kws and builtin n = SS.mem (string_of_bytes n) bis in
  let uprop_name n = let s = string_of_bytes n in SS.mem s bis && not (SS.mem s kws) in
  let uprop_name n = uprop_name n && (match ascii_builtin n with None -> true | Some _ -> false) && string_of_bytes n <> "NEWLINE" in
  let n = ref 0 and accepted = ref 0 and thm_checked = ref 0 and sem_checked = ref 0 and acc_checked = ref 0 in
  let classes = Hashtbl.create 8 in
  let bump k = Hashtbl.replace classes k (1 + try Hashtbl.find classes k with Not_found -> 0) in
  let inputs3 = all_strings 3 in
  read_lines (fun line ->
    if String.length line > 0 && line.[0] = '#' then print_endline line else
    match split_tab line with
    | [case; impl] when String.length case > 2 && case.[0] = 'V' ->
      incr n;
      (match String.split_on_char '|' case with
       | [_; x; gtxt] ->
         let g = grammar_of gtxt in
         let model = verdict (validate kw builtin cfg g) in
         if model = "ok" then incr accepted;
         if model <> impl then report "model" case impl model;
         (* (<=) on the real code: the hypotheses of C06_acceptance hold => the real front end must accept *)
         if acceptance_hyps kw builtin uprop_name g then begin
           incr acc_checked;
           if impl <> "ok" then begin bump "acceptance"; report "spec" case impl "ok (class=acceptance)" end
         end;
         (* the theorem for the repaired validator, tested: accepted + stack-free + readable + outside the class => Layer S terminates *)
         if validate kw builtin cfg_fixed g = [] && no_stack_builtins g && readable g && not (ws_reaches_nonatomic g) then begin
           incr thm_checked;
           List.iter (fun r ->
             List.iter (fun w -> if not (terminates g (x = "1") (string_of_bytes r.rname) (bytes_of w)) then
                 report "thm" case (Printf.sprintf "rule %s input %S: Layer S out of fuel (%d)" (string_of_bytes r.rname) w spec_fuel) "terminates") inputs3) g
         end
       | _ -> ())
    | [case; impl] when String.length case > 2 && case.[0] = 'T' ->
      incr n;
      (match String.split_on_char '|' case with
       | [_; x; _maxlen; gtxt] ->
         let g = grammar_of gtxt in
         let extras = x = "1" in
         let term = String.length impl >= 4 && String.sub impl 0 4 = "term" in
         if not term then begin
           (* contract violation on the real code: classify *)
           let cls =
             if not (no_stack_builtins g) then "stack"
             else if validate kw builtin { fix_lr = true; fix_tag = cfg.fix_tag } g <> [] && validate kw builtin { fix_lr = false; fix_tag = cfg.fix_tag } g = [] then "leftrec"
             else if validate kw builtin { fix_lr = cfg.fix_lr; fix_tag = true } g <> [] && validate kw builtin { fix_lr = cfg.fix_lr; fix_tag = false } g = [] then "tagrep"
             else if validate kw builtin cfg_fixed g <> [] then "missed-check"
             else if ws_reaches_nonatomic g then "ws" else "other" in
           bump cls;
           if cls <> "stack" then report "spec" case impl ("term (class=" ^ cls ^ ")");
           (* the witness on Layer S *)
           (match String.split_on_char ' ' impl with
            | [("limit" | "overflow" | "budget"); rule; h] ->
              incr sem_checked;
              if terminates g extras rule (unhex h) then report "sem" case impl "Layer S terminates on the witness"
            | _ -> ())
         end else begin
           (* sample: Layer S terminates too *)
           incr sem_checked;
           List.iter (fun r -> List.iter (fun w ->
               if not (terminates g extras (string_of_bytes r.rname) (bytes_of w)) then report "sem" case impl (Printf.sprintf "Layer S out of fuel on rule %s input %S" (string_of_bytes r.rname) w))
             ["x"; "xy "; " yx"]) g
         end
       | _ -> ())
    | _ -> ());
  Printf.printf "#RUNNER\tcases=%d\tmismatches=%d\tmodel_accepted=%d\tthm_checked=%d\tsem_checked=%d\tacceptance_checked=%d%s\n" !n !mismatches !accepted !thm_checked !sem_checked !acc_checked
    (Hashtbl.fold (fun k v acc -> acc ^ Printf.sprintf "\tclass/%s=%d" k v) classes "")
