(* C11 runner: reads "<ops>\t<impl trace>" lines, recomputes the trace with the extracted
   implementation model (Stack.Model, incl. internals) and the extracted naive spec,
   and reports every difference.  kinds: model (impl vs model of the code),
   spec (impl vs naive specification = the property's oracle). *)
open Stack_model
open Runner_common

let rec n2i = function O -> 0 | S n -> 1 + n2i n
let digits l = String.concat "" (List.rev_map string_of_int l)   (* model lists: head = last Vec element *)
let ret = function None -> "n" | Some x -> string_of_int x

let op_of_char c : int op option = match c with
  | '0' -> Some (Push 0) | '1' -> Some (Push 1) | 'o' -> Some Pop | 'k' -> Some Peek
  | 's' -> Some Snapshot | 'c' -> Some Clear | 'r' -> Some Restore | _ -> None

let is_push = function Push _ | Snapshot | Clear | Restore -> true | _ -> false

let () =
  let n = ref 0 in
  read_lines (fun line ->
    if String.length line > 0 && line.[0] = '#' then print_endline line else
    match split_tab line with
    | [ops; impl] ->
      incr n;
      let bm = Buffer.create 256 and bs = Buffer.create 256 in
      let s = ref (empty : int stk) and a = ref (sempty : int spec) in
      (try String.iter (fun c ->
        match op_of_char c with
        | None -> Buffer.add_string bm "PANIC"; Buffer.add_string bs "BADOP"; raise Exit
        | Some o ->
          (match step_impl !s o with
           | None -> Buffer.add_string bm "PANIC"; raise Exit
           | Some (s', out) ->
             s := s';
             let r = if is_push o then "-" else ret out in
             Buffer.add_string bm (Printf.sprintf "%s|%s|%s|%s;" (digits s'.cache) r (digits s'.popped)
               (String.concat "," (List.rev_map (fun (l, r) -> Printf.sprintf "%d.%d" (n2i l) (n2i r)) s'.lengths))));
          let (a', out) = step_spec !a o in
          a := a';
          let r = if is_push o then "-" else ret out in
          Buffer.add_string bs (Printf.sprintf "%s|%s;" (digits a'.cur) r)) ops with Exit -> ());
      let m = Buffer.contents bm in
      (* the spec never panics: finish its trace even if the model stopped *)
      let sp = Buffer.contents bs in
      (* projection of impl trace to contents|ret *)
      let proj t = String.concat ";" (List.map (fun step ->
          match String.split_on_char '|' step with c :: r :: _ -> c ^ "|" ^ r | _ -> step)
          (String.split_on_char ';' t)) in
      let sp_full =
        if Buffer.length bm >= 5 && String.sub m (String.length m - 5) 5 = "PANIC" then begin
          (* recompute the whole spec trace *)
          let b = Buffer.create 256 and a = ref (sempty : int spec) in
          String.iter (fun c -> match op_of_char c with None -> () | Some o ->
            let (a', out) = step_spec !a o in a := a';
            let r = if is_push o then "-" else ret out in
            Buffer.add_string b (Printf.sprintf "%s|%s;" (digits a'.cur) r)) ops;
          Buffer.contents b end else sp in
      if proj impl <> proj sp_full then report "spec" ops impl sp_full
      else if impl <> m then report "model" ops impl m
    | _ -> ());
  Printf.printf "#RUNNER\tcases=%d\tmismatches=%d\n" !n !mismatches
