(* Layer-C runner: reads "<case>\t<impl observation>" lines (see rust/harness/src/bin/comb.rs),
   recomputes the observation with the extracted model of parser_state.rs (Comb.Exec) and reports
   differences.  kinds:  model = impl vs model of the code;  spec = a CONTRACT line from the harness
   (the documented combinator contract failed on the real code).                                   *)
open Comb_model
open Runner_common

let rec nat_of_int i = if i <= 0 then O else S (nat_of_int (i - 1))
let rec int_of_nat = function O -> 0 | S n -> 1 + int_of_nat n
let rec pos_of_int i = if i <= 1 then XH else if i land 1 = 0 then XO (pos_of_int (i lsr 1)) else XI (pos_of_int (i lsr 1))
let n_of_int i = if i = 0 then N0 else Npos (pos_of_int i)
let z_of_int i = if i = 0 then Z0 else if i > 0 then Zpos (pos_of_int i) else Zneg (pos_of_int (-i))
let rec int_of_pos = function XH -> 1 | XO p -> 2 * int_of_pos p | XI p -> 2 * int_of_pos p + 1
let int_of_n = function N0 -> 0 | Npos p -> int_of_pos p

let unhex (h : string) : byte list =
  if h = "-" then [] else
  List.init (String.length h / 2) (fun i -> n_of_int (int_of_string ("0x" ^ String.sub h (2 * i) 2)))

(* ---- s-expression reader for progs ---- *)
let tokenize (s : string) : string list =
  let b = Buffer.create (String.length s + 16) in
  String.iter (fun c -> match c with '(' -> Buffer.add_string b " ( " | ')' -> Buffer.add_string b " ) " | c -> Buffer.add_char b c) s;
  List.filter (fun x -> x <> "") (String.split_on_char ' ' (Buffer.contents b))

let rec parse_p (t : string list) : prog * string list =
  match t with
  | "(" :: head :: rest ->
    let rec atoms acc = function
      | x :: r when x <> "(" && x <> ")" -> atoms (x :: acc) r
      | r -> (List.rev acc, r) in
    let take1 = function x :: r -> ([x], r) | [] -> failwith "eof" in
    let close = function ")" :: r -> r | _ -> failwith "expected )" in
    let ios = int_of_string in
    (match head with
     | "str" -> let a, r = atoms [] rest in (PPrim (MMatchString (unhex (List.hd a))), close r)
     | "ins" -> let a, r = atoms [] rest in (PPrim (MMatchInsens (unhex (List.hd a))), close r)
     | "range" -> let a, r = atoms [] rest in (PPrim (MMatchRange (n_of_int (ios (List.nth a 0)), n_of_int (ios (List.nth a 1)))), close r)
     | "cls" -> let a, r = atoms [] rest in
       let rec prs = function x :: y :: l -> (n_of_int (ios x), n_of_int (ios y)) :: prs l | _ -> [] in
       (PPrim (MMatchCharBy (prs a)), close r)
     | "skip" -> let a, r = atoms [] rest in (PPrim (MSkip (nat_of_int (ios (List.hd a)))), close r)
     | "until" -> let a, r = atoms [] rest in (PPrim (MSkipUntil (List.map unhex a)), close r)
     | "pushlit" -> let a, r = atoms [] rest in (PPrim (MStackPushLit (unhex (List.hd a))), close r)
     | "slice" -> let a, r = atoms [] rest in
       let j = if List.nth a 1 = "-" then None else Some (z_of_int (ios (List.nth a 1))) in
       (PPrim (MPeekSlice (z_of_int (ios (List.nth a 0)), j, if List.nth a 2 = "b2t" then BottomToTop else TopToBottom)), close r)
     | "tag" -> let a, r = atoms [] rest in (PPrim (MTagNode (nat_of_int (ios (List.hd a)))), close r)
     | "call" -> let a, r = atoms [] rest in (PCall (nat_of_int (ios (List.hd a))), close r)
     | "rule" -> let a, r = take1 rest in let p, r = parse_p r in (PRule (nat_of_int (ios (List.hd a)), p), close r)
     | "seq" -> let p, r = parse_p rest in (PSequence p, close r)
     | "rep" -> let p, r = parse_p rest in (PRepeat p, close r)
     | "opt" -> let p, r = parse_p rest in (POptional p, close r)
     | "look" -> let a, r = take1 rest in let p, r = parse_p r in (PLookahead (List.hd a = "+", p), close r)
     | "atomic" -> let a, r = take1 rest in let p, r = parse_p r in
       (PAtomic ((match List.hd a with "A" -> Atomic | "C" -> CompoundAtomic | _ -> NonAtomic), p), close r)
     | "push" -> let p, r = parse_p rest in (PStackPush p, close r)
     | "roe" -> let p, r = parse_p rest in (PRestoreOnErr p, close r)
     | "then" -> let p, r = parse_p rest in let q, r = parse_p r in (PAndThen (p, q), close r)
     | "else" -> let p, r = parse_p rest in let q, r = parse_p r in (POrElse (p, q), close r)
     | "ifna" -> let p, r = parse_p rest in let q, r = parse_p r in (PIfNonAtomic (p, q), close r)
     | h -> failwith ("bad head " ^ h))
  | a :: rest ->
    ((match a with
      | "ok" -> PPrim MOk | "err" -> PPrim MErr | "soi" -> PPrim MSoi | "eoi" -> PPrim MEoi | "peek" -> PPrim MStackPeek
      | "pop" -> PPrim MStackPop | "drop" -> PPrim MStackDrop | "mpeek" -> PPrim MStackMatchPeek | "mpop" -> PPrim MStackMatchPop
      | x -> failwith ("bad atom " ^ x)), rest)
  | [] -> failwith "empty prog"

let prog_of_string s = fst (parse_p (tokenize s))

(* ---- dump in the format of ParserState::verif_dump ---- *)
let ints l = "[" ^ String.concat ", " (List.map string_of_int l) ^ "]"
let hexs (l : byte list) = String.concat "" (List.map (fun b -> Printf.sprintf "%02x" (int_of_n b)) l)
let ptoks (l : ptoken list) =
  String.concat "" (List.rev_map (function
    | TSens s -> "S:" ^ ints (List.map int_of_n s) ^ ","
    | TInsens s -> "I:" ^ ints (List.map int_of_n s) ^ ","
    | TRange (a, b) -> Printf.sprintf "R:%d:%d," (int_of_n a) (int_of_n b)
    | TBuiltin -> "B,") l)
let opt_rule = function None -> "None" | Some r -> Printf.sprintf "Some(%d)" (int_of_nat r)

let dump (s : pst) : string =
  let b = Buffer.create 256 in
  Buffer.add_string b (Printf.sprintf "pos=%d;q=" (int_of_nat s.pos));
  List.iter (function
    | QStart (e, p) -> Buffer.add_string b (Printf.sprintf "S:%d:%d," (int_of_nat e) (int_of_nat p))
    | QEnd (st, r, tag, p) -> Buffer.add_string b (Printf.sprintf "E:%d:%d:%s:%d," (int_of_nat st) (int_of_nat r)
        (match tag with None -> "-" | Some t -> string_of_int (int_of_nat t)) (int_of_nat p))) (List.rev s.queue);
  Buffer.add_string b (Printf.sprintf ";la=%s;at=%s;pa=%s;na=%s;ap=%d;st="
    (match s.lookahead with LPos -> "Positive" | LNeg -> "Negative" | LNone -> "None")
    (match s.atomicity with Atomic -> "Atomic" | CompoundAtomic -> "CompoundAtomic" | NonAtomic -> "NonAtomic")
    (ints (List.rev_map int_of_nat s.pos_attempts)) (ints (List.rev_map int_of_nat s.neg_attempts)) (int_of_nat s.attempt_pos));
  List.iter (fun e -> Buffer.add_string b (hexs e); Buffer.add_char b ',') (List.rev s.stack.cache);
  Buffer.add_string b (Printf.sprintf ";cl=%s;en=%b;cs="
    (match s.limit with None -> "None" | Some l -> Printf.sprintf "Some((%d, %d))" (int_of_nat s.calls) (int_of_nat l)) s.pa_enabled);
  List.iter (fun c -> Buffer.add_string b (Printf.sprintf "%s/%s,"
    (match c.deepest with None -> "Token" | Some r -> Printf.sprintf "Rule(%d)" (int_of_nat r)) (opt_rule c.parent))) (List.rev s.call_stacks);
  Buffer.add_string b (Printf.sprintf ";ex=%s;un=%s;mp=%d" (ptoks s.expected) (ptoks s.unexpected) (int_of_nat s.max_position));
  Buffer.contents b

(* state() outcome in the harness format *)
let outcome_string (o : outcome) : string =
  match o with
  | OPairs q ->
    let arr = Array.of_list q in
    let b = Buffer.create 64 in
    Buffer.add_string b "OK:";
    Array.iter (function
      | QStart (e, p) ->
        let rule = (match arr.(int_of_nat e) with QEnd (_, r, _, _) -> int_of_nat r | _ -> -1) in
        Buffer.add_string b (Printf.sprintf "S%d@%d," rule (int_of_nat p))
      | QEnd (_, r, _, p) -> Buffer.add_string b (Printf.sprintf "E%d@%d," (int_of_nat r) (int_of_nat p))) arr;
    Buffer.contents b
  | OCallLimit p -> Printf.sprintf "CE:call limit reached@%d" (int_of_nat p)
  | OParsingError (ps, ns, p) -> Printf.sprintf "PE:%s:%s@%d" (ints (List.map int_of_nat ps)) (ints (List.map int_of_nat ns)) (int_of_nat p)
  | OPanic -> "Panic"
  | OOutOfFuel -> "Diverged"

let find_key (s : string) (k : string) : int =
  let n = String.length s and m = String.length k in
  let rec go i = if i + m > n then failwith ("missing " ^ k) else if String.sub s i m = k then i else go (i + 1) in
  go 0

let fixed3 = ref true
let fixedlim = ref false
let memchr_on = ref true

(* the direct executable reading of the documented contracts (coq/Comb/Ref.v rexec: position, tokens, naive stack, look-ahead,
   atomicity - no snapshots, no attempt bookkeeping, no call limit), printed as the same fields of the dump *)
let ref_obs (kind : string) (r : rst) : string =
  let b = Buffer.create 128 in
  Buffer.add_string b (Printf.sprintf "%s pos=%d;q=" kind (int_of_nat r.r_pos));
  List.iter (function
    | QStart (e, p) -> Buffer.add_string b (Printf.sprintf "S:%d:%d," (int_of_nat e) (int_of_nat p))
    | QEnd (st, ru, tag, p) -> Buffer.add_string b (Printf.sprintf "E:%d:%d:%s:%d," (int_of_nat st) (int_of_nat ru)
        (match tag with None -> "-" | Some t -> string_of_int (int_of_nat t)) (int_of_nat p))) (List.rev r.r_queue);
  Buffer.add_string b (Printf.sprintf ";la=%s;at=%s;st="
    (match r.r_look with LPos -> "Positive" | LNeg -> "Negative" | LNone -> "None")
    (match r.r_atom with Atomic -> "Atomic" | CompoundAtomic -> "CompoundAtomic" | NonAtomic -> "NonAtomic"));
  List.iter (fun e -> Buffer.add_string b (hexs e); Buffer.add_char b ',') (List.rev r.r_stack);
  Buffer.contents b

(* the same fields of an observation of the real code ("Ok pos=..;q=..;la=..;at=..;pa=..;na=..;ap=..;st=..;cl=..." or Panic / Diverged) *)
let impl_obs (impl : string) : string =
  match String.index_opt impl ' ' with
  | None -> impl
  | Some i ->
    let kind = String.sub impl 0 i in
    let rest = String.sub impl (i + 1) (String.length impl - i - 1) in
    let rest = (match String.index_opt rest '|' with Some j -> String.trim (String.sub rest 0 j) | None -> rest) in
    let fields = String.split_on_char ';' rest in
    let get k = (try List.find (fun f -> String.length f >= String.length k && String.sub f 0 (String.length k) = k) fields with Not_found -> k ^ "?") in
    Printf.sprintf "%s %s;%s;%s;%s;%s" kind (get "pos=") (get "q=") (get "la=") (get "at=") (get "st=")

(* None when the reference reading does not apply (call limit set, tag_node used) *)
let ref_case (case : string) : string option =
  let ki = find_key case " in=" and ke = find_key case " env=" and kp = find_key case " prog=" in
  let head = String.sub case 0 ki in
  if not (List.mem "lim=-" (String.split_on_char ' ' head)) then None else
  let input = unhex (String.sub case (ki + 4) (ke - ki - 4)) in
  let envs = String.sub case (ke + 5) (kp - ke - 5) in
  let envl = if envs = "-" then [||] else Array.of_list (List.map prog_of_string (String.split_on_char ';' envs)) in
  let env (f : nat) = let i = int_of_nat f in if i < Array.length envl then Some envl.(i) else None in
  let prog = prog_of_string (String.sub case (kp + 6) (String.length case - kp - 6)) in
  if not (notag prog && Array.for_all notag envl) then None else
  let cfg = { memchr = !memchr_on; fixed3 = !fixed3; fixedlim = !fixedlim } in
  Some (match rexec cfg env (nat_of_int 1200) prog (rinit input) with
      | RROk r -> ref_obs "Ok" r | RRErr r -> ref_obs "Err" r | RRPanic _ -> "Panic" | RRFuel -> "Diverged")

let eval_case (case : string) : string =
  let ki = find_key case " in=" and ke = find_key case " env=" and kp = find_key case " prog=" in
  let head = String.sub case 0 ki in
  let lim = ref None and det = ref false in
  List.iter (fun f ->
    if String.length f > 4 && String.sub f 0 4 = "lim=" then (let v = String.sub f 4 (String.length f - 4) in if v <> "-" then lim := Some (nat_of_int (int_of_string v)));
    if String.length f > 4 && String.sub f 0 4 = "det=" then det := (String.sub f 4 1 = "1")) (String.split_on_char ' ' head);
  let input = unhex (String.sub case (ki + 4) (ke - ki - 4)) in
  let envs = String.sub case (ke + 5) (kp - ke - 5) in
  let envl = if envs = "-" then [||] else Array.of_list (List.map prog_of_string (String.split_on_char ';' envs)) in
  let env (f : nat) = let i = int_of_nat f in if i < Array.length envl then Some envl.(i) else None in
  let prog = prog_of_string (String.sub case (kp + 6) (String.length case - kp - 6)) in
  let cfg = { memchr = !memchr_on; fixed3 = !fixed3; fixedlim = !fixedlim } in
  let fuel = nat_of_int 1200 in
  match run_state cfg env fuel prog input !lim !det with
  | RPanic _ -> "Panic"
  | ROutOfFuel -> "Diverged"
  | (ROk s | RErr s) as r ->
    Printf.sprintf "%s %s || %s" (match r with ROk _ -> "Ok" | _ -> "Err") (dump s) (outcome_string (outcome_of cfg r))

let () =
  Array.iter (fun a -> if a = "--unfixed3" then fixed3 := false; if a = "--fixedlim" then fixedlim := true; if a = "--no-memchr" then memchr_on := false) Sys.argv;
  let n = ref 0 in
  read_lines (fun line ->
    if String.length line > 0 && line.[0] = '#' then print_endline line else
    match split_tab line with
    | ["CONTRACT"; case; msg] -> report "spec" case msg "documented combinator contract"
    | [case; impl] ->
      incr n;
      let m = (try eval_case case with Failure e -> "RUNNER-ERROR " ^ e | Stack_overflow -> "Diverged") in
      (* the property's last clause, judged without the model of the code: the observable outcome equals the direct reading *)
      let r = (try ref_case case with Failure _ -> None | Stack_overflow -> Some "Diverged") in
      (match r with
       | Some ro when ro <> impl_obs impl ->
         report "spec" case (impl_obs impl) ("direct reading of the documented contracts (coq/Comb/Ref.v rexec) gives: " ^ ro)
       | _ ->
         (* with a call limit set, what state() makes of the final state belongs to C12 (and depends on its repair): compare the state only *)
         let limited = (match String.index_opt case ' ' with Some i -> String.sub case 0 i <> "lim=-" | None -> false) in
         let cut x = if not limited then x else
             (let n = String.length x in
              let rec go i = if i + 4 > n then x else if String.sub x i 4 = " || " then String.sub x 0 i else go (i + 1) in go 0) in
         if cut m <> cut impl then report "model" case (cut impl) (cut m))
    | _ -> ());
  Printf.printf "#RUNNER\tcases=%d\tmismatches=%d\n" !n !mismatches
