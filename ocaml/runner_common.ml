(* Shared helpers for the OCaml model runners. *)
let rec int_of_nat (n : Obj.t) : int = (* works for any extracted `nat` (O | S of nat) *)
  if Obj.is_int n then 0 else 1 + int_of_nat (Obj.field n 0)
let split_tab (s : string) : string list = String.split_on_char '\t' s
let read_lines (f : string -> unit) : unit =
  try while true do f (input_line stdin) done with End_of_file -> ()
let mismatches = ref 0
let max_report = 50
(* the print budget is per kind: differences from the model of the code must not crowd out violations of the specification *)
let reported : (string, int) Hashtbl.t = Hashtbl.create 7
let report kind case impl expected =
  incr mismatches;
  let k = (try Hashtbl.find reported kind with Not_found -> 0) + 1 in
  Hashtbl.replace reported kind k;
  if k <= max_report then
    Printf.printf "MISMATCH\t%s\t%s\t%s\t%s\n" kind case impl expected
