(* C16 runner.  usage:  c16 digests <tier> <seed> [name...] | c16_runner <dir of coq/gen> [partial]

   Reads the harness lines  <name>\t<path>\t<observation>  from stdin and recomputes every observation
   with the functions extracted from coq/Unicode/{Trie,Names,Fast}.v applied to the tables and name
   lists of coq/gen/Unicode*.v - the runner parses those generated .v files itself, so the digests are
   computed from the very literals Coq checks the theorems on.

   MISMATCH kinds:
     model  the real code and the translated model disagree (translator / model of the lookup is wrong)
     spec   the real code violates the property directly: for an advertised name the access paths
            disagree with each other, the name does not resolve, or the validator rejects it
     internal  extracted `contains` disagrees with the chunk view on a sampled code point (cannot happen
            if Trie.contains_chunk is proved; kept as a sanity check of the extraction)             *)
module U = Unicode_model
open Runner_common

(* own reporting: property violations (kind spec) are printed first and never crowded out by the cap *)
let pending : (string * string * string * string) list ref = ref []
let report kind case impl expected = pending := (kind, case, impl, expected) :: !pending
let flush_reports () =
  let all = List.rev !pending in
  let spec = List.filter (fun (k, _, _, _) -> k = "spec") all and rest = List.filter (fun (k, _, _, _) -> k <> "spec") all in
  let emit cap l = List.iteri (fun i (k, c, a, b) -> if i < cap then Printf.printf "MISMATCH\t%s\t%s\t%s\t%s\n" k c a b) l in
  emit 400 spec; emit 60 rest;
  List.length all

(* ---------------- a reader for the tiny Gallina subset written by tools/unicode2v.py ---------------- *)
type tok = Id of string | Num of string | Str of string | Sym of string

let tokenize (s : string) : tok list =
  let n = String.length s in
  let out = ref [] in
  let i = ref 0 in
  let is_id c = (c >= 'a' && c <= 'z') || (c >= 'A' && c <= 'Z') || (c >= '0' && c <= '9') || c = '_' || c = '\'' in
  while !i < n do
    let c = s.[!i] in
    if c = ' ' || c = '\t' || c = '\n' || c = '\r' then incr i
    else if c = '(' && !i + 1 < n && s.[!i + 1] = '*' then begin
      let d = ref 1 in
      i := !i + 2;
      while !d > 0 && !i < n do
        if !i + 1 < n && s.[!i] = '(' && s.[!i + 1] = '*' then (incr d; i := !i + 2)
        else if !i + 1 < n && s.[!i] = '*' && s.[!i + 1] = ')' then (decr d; i := !i + 2)
        else incr i
      done
    end
    else if c = '"' then begin
      let b = Buffer.create 16 in
      incr i;
      let fin = ref false in
      while not !fin do
        if !i >= n then failwith "unterminated string"
        else if s.[!i] = '"' then
          if !i + 1 < n && s.[!i + 1] = '"' then (Buffer.add_char b '"'; i := !i + 2) else (incr i; fin := true)
        else (Buffer.add_char b s.[!i]; incr i)
      done;
      out := Str (Buffer.contents b) :: !out
    end
    else if c >= '0' && c <= '9' then begin
      let j = ref !i in
      while !j < n && s.[!j] >= '0' && s.[!j] <= '9' do incr j done;
      out := Num (String.sub s !i (!j - !i)) :: !out;
      i := !j
    end
    else if (c >= 'a' && c <= 'z') || (c >= 'A' && c <= 'Z') || c = '_' then begin
      let j = ref !i in
      while !j < n && is_id s.[!j] do incr j done;
      out := Id (String.sub s !i (!j - !i)) :: !out;
      i := !j
    end
    else if c = ':' && !i + 1 < n && s.[!i + 1] = '=' then (out := Sym ":=" :: !out; i := !i + 2)
    else if c = '+' && !i + 1 < n && s.[!i + 1] = '+' then (out := Sym "++" :: !out; i := !i + 2)
    else (out := Sym (String.make 1 c) :: !out; incr i)
  done;
  List.rev !out

type v =
  | L of v list
  | P of v * v
  | S of string
  | N of string
  | T of string * U.trie          (* a table, with the name of its Definition *)
  | C of string                   (* constructor / boolean *)

let env : (string, v) Hashtbl.t = Hashtbl.create 512

(* decimal literal (< 2^64) -> extracted N *)
let n_of_dec (s : string) : U.n =
  let x = Int64.of_string ("0u" ^ s) in
  if x = 0L then U.N0 else begin
    (* most significant bit first *)
    let top = ref 63 in
    while Int64.logand (Int64.shift_right_logical x !top) 1L = 0L do decr top done;
    let p = ref U.XH in
    for b = !top - 1 downto 0 do
      p := if Int64.logand (Int64.shift_right_logical x b) 1L = 1L then U.XI !p else U.XO !p
    done;
    U.Npos !p
  end

let n_of_int (i : int) : U.n = n_of_dec (string_of_int i)

let rec int64_of_pos (p : U.positive) : int64 = match p with
  | U.XH -> 1L
  | U.XO q -> Int64.shift_left (int64_of_pos q) 1
  | U.XI q -> Int64.logor (Int64.shift_left (int64_of_pos q) 1) 1L
let int64_of_n = function U.N0 -> 0L | U.Npos p -> int64_of_pos p

let coq_string (s : string) : U.string =
  let r = ref U.EmptyString in
  for i = String.length s - 1 downto 0 do
    let c = Char.code s.[i] in
    let b k = (c lsr k) land 1 = 1 in
    r := U.String (U.Ascii (b 0, b 1, b 2, b 3, b 4, b 5, b 6, b 7), !r)
  done;
  !r

let rec ocaml_string (s : U.string) : string = match s with
  | U.EmptyString -> ""
  | U.String (U.Ascii (a, b, c, d, e, f, g, h), r) ->
    let bit x k = if x then 1 lsl k else 0 in
    String.make 1 (Char.chr (bit a 0 + bit b 1 + bit c 2 + bit d 3 + bit e 4 + bit f 5 + bit g 6 + bit h 7)) ^ ocaml_string r

let nlist = function L l -> List.map (function N s -> n_of_dec s | _ -> failwith "number expected") l | _ -> failwith "list expected"

(* value := term ("++" term)* ;  term := [v; ..] | (v, v) | "str" | 123 | ident term*  *)
let rec parse_value (ts : tok list) : v * tok list =
  let (a, rest) = parse_term ts in
  match rest with
  | Sym "++" :: rest' ->
    let (b, rest'') = parse_value rest' in
    (match a, b with L x, L y -> (L (x @ y), rest'') | _ -> failwith "++ on non-lists")
  | _ -> (a, rest)
and parse_term ts = match ts with
  | Sym "[" :: Sym "]" :: rest -> (L [], rest)
  | Sym "[" :: rest ->
    let rec items ts acc =
      let (x, rest) = parse_value ts in
      match rest with
      | Sym ";" :: rest' -> items rest' (x :: acc)
      | Sym "]" :: rest' -> (L (List.rev (x :: acc)), rest')
      | _ -> failwith "list: ; or ] expected" in
    items rest []
  | Sym "(" :: rest ->
    let (a, rest) = parse_value rest in
    (match rest with
     | Sym "," :: rest' ->
       let (b, rest'') = parse_value rest' in
       (match rest'' with Sym ")" :: r -> (P (a, b), r) | _ -> failwith ") expected")
     | Sym ")" :: r -> (a, r)
     | _ -> failwith ", or ) expected")
  | Str s :: rest -> (S s, rest)
  | Num s :: rest -> (N s, rest)
  | Id "mk_trie" :: rest ->
    let rec args k ts acc = if k = 0 then (List.rev acc, ts) else let (x, r) = parse_term ts in args (k - 1) r (x :: acc) in
    let (a, rest') = args 6 rest [] in
    (match List.map nlist a with
     | [a1; a2; a3; a4; a5; a6] ->
       (T ("", { U.tree1_level1 = a1; tree2_level1 = a2; tree2_level2 = a3; tree3_level1 = a4; tree3_level2 = a5; tree3_level3 = a6 }), rest')
     | _ -> failwith "mk_trie: six lists expected")
  | Id x :: rest ->
    (match Hashtbl.find_opt env x with
     | Some v -> (v, rest)
     | None -> (C x, rest))
  | _ -> failwith "value expected"

let load_file (path : string) : unit =
  let ic = open_in path in
  (try while true do
      let line = input_line ic in
      if String.length line > 11 && String.sub line 0 11 = "Definition " then begin
        match tokenize line with
        | Id "Definition" :: Id name :: rest ->
          let rec after_assign = function Sym ":=" :: r -> r | _ :: r -> after_assign r | [] -> failwith ("no := in " ^ name) in
          let (v, tail) = parse_value (after_assign rest) in
          (match tail with [Sym "."] | [] -> () | _ -> failwith ("trailing tokens in " ^ name));
          let v = match v with T ("", t) -> T (name, t) | v -> v in
          Hashtbl.replace env name v
        | _ -> failwith ("cannot read: " ^ String.sub line 0 (min 60 (String.length line)))
      end
    done with End_of_file -> ());
  close_in ic

let get name = match Hashtbl.find_opt env name with Some v -> v | None -> failwith ("generated files define no " ^ name)
let strs name = match get name with L l -> List.map (function S s -> s | _ -> failwith (name ^ ": string expected")) l | _ -> failwith (name ^ ": list expected")
let boolean name = match get name with C "true" -> true | C "false" -> false | _ -> failwith (name ^ ": bool expected")
let pairs_v = function L l -> List.map (function P (S s, T (tn, t)) -> (s, (tn, t)) | _ -> failwith "(string, table) expected") l | _ -> failwith "list expected"

(* table identity for caching: physical tries are compared by the name of their Definition *)
let table_names : (U.trie * string) list ref = ref []
let name_of_trie (t : U.trie) : string = try List.assq t !table_names with Not_found -> "?"

(* ---------------- membership vectors and digests ---------------- *)
let nwords = 0x110000 / 64

let fnv (w : int64 array) : int64 =
  let h = ref 0xcbf29ce484222325L in
  Array.iter (fun x ->
    for b = 0 to 7 do
      let byte = Int64.logand (Int64.shift_right_logical x (8 * b)) 0xFFL in
      h := Int64.mul (Int64.logxor !h byte) 0x100000001b3L
    done) w;
  !h

let popcount (x : int64) : int =
  let c = ref 0 and y = ref x in
  while !y <> 0L do y := Int64.logand !y (Int64.sub !y 1L); incr c done; !c

let words_cache : (string, int64 array option) Hashtbl.t = Hashtbl.create 512
let knums = Array.init nwords n_of_int

(* the 17408 words of a table through the extracted compile/fchunk; None if some lookup panics;
   the surrogate range (not askable through `char`) is cleared *)
let words_of (t : U.trie) : int64 array option =
  let key = name_of_trie t in
  match Hashtbl.find_opt words_cache key with
  | Some r when key <> "?" -> r
  | _ ->
    let c = U.compile t in
    let w = Array.make nwords 0L in
    let ok = ref true in
    for k = 0 to nwords - 1 do
      match U.fchunk c knums.(k) with
      | Some x -> w.(k) <- int64_of_n x
      | None -> ok := false
    done;
    for k = 0xD800 / 64 to 0xDFFF / 64 do w.(k) <- 0L done;
    let r = if !ok then Some w else None in
    Hashtbl.replace words_cache key r; r

let sample_mask (stride : int) (offset : int) (k : int) : int64 =
  if stride = 1 then (-1L) else begin
    let m = ref 0L in
    for b = 0 to 63 do if (64 * k + b) mod stride = offset then m := Int64.logor !m (Int64.shift_left 1L b) done;
    !m
  end

let obs_of (t : U.trie) (stride : int) (offset : int) : string =
  match words_of t with
  | None -> "panic"
  | Some w ->
    (* 64k mod stride determines the mask of word k *)
    let cache = Hashtbl.create 16 in
    let w' = Array.mapi (fun k x ->
      if stride = 1 then x else begin
        let r = (64 * k) mod stride in
        let m = match Hashtbl.find_opt cache r with Some m -> m | None -> let m = sample_mask stride offset k in Hashtbl.replace cache r m; m in
        Int64.logand x m end) w in
    let pop = Array.fold_left (fun a x -> a + popcount x) 0 w' in
    Printf.sprintf "%016Lx:%d" (fnv w') pop

(* ---------------- main ---------------- *)
let () =
  let dir = if Array.length Sys.argv > 1 then Sys.argv.(1) else "coq/gen" in
  (try
     List.iter (fun f -> load_file (Filename.concat dir f))
       ["UnicodeBinary.v"; "UnicodeCategory.v"; "UnicodeScript.v"; "UnicodeNames.v"]
   with Failure m | Sys_error m ->
     Printf.printf "MISMATCH\trunner\t-\tcannot read the generated Coq files: %s\t-\n#RUNNER\tcases=0\tmismatches=1\n" m; exit 0);
  Hashtbl.iter (fun name v -> match v with T (_, t) -> table_names := (t, name) :: !table_names | _ -> ()) env;
  let fns = List.map (fun (s, (_, t)) -> (coq_string s, t)) (pairs_v (get "pest_unicode_functions")) in
  let loops = match get "by_name_loops" with
    | L l -> List.map (function
        | P (C x, tbl) ->
          ((match x with "XId" -> U.XId | "XUpper" -> U.XUpper | "XLower" -> U.XLower | _ -> failwith "xform"),
           List.map (fun (s, (_, t)) -> (coq_string s, t)) (pairs_v tbl))
        | _ -> failwith "by_name_loops") l
    | _ -> failwith "by_name_loops" in
  let advertised = strs "unicode_property_names" in
  let advertised_c = List.map coq_string advertised in
  let vhard = List.map coq_string (strs "vm_hardcoded") and vfb = boolean "vm_fallback_by_name" in
  let glits = List.map coq_string (strs "generator_literals") and gloop = boolean "generator_unicode_loop" in
  let vbuiltins = U.validator_builtins (List.map coq_string (strs "validator_literals")) (boolean "validator_chains_unicode") advertised_c in

  (* sanity of the extraction: literal `contains` against the chunk view on sampled code points *)
  let internal = ref 0 in
  let rng = ref 12345 in
  let next () = rng := (!rng * 1103515245 + 12345) land 0x3FFFFFFF; !rng in
  List.iter (fun (t, name) ->
    match words_of t with
    | None -> ()
    | Some _ ->
      let c = U.compile t in
      let cps = [0; 0x7FF; 0x800; 0xFFFF; 0x10000; 0x10FFFF; 0xD7FF; 0xE000] @ List.init 24 (fun _ -> next () mod 0x110000) in
      List.iter (fun cp ->
        let bit = match U.fchunk c (n_of_int (cp / 64)) with
          | Some x -> Some (Int64.logand (Int64.shift_right_logical (int64_of_n x) (cp mod 64)) 1L = 1L) | None -> None in
        if U.contains t (n_of_int cp) <> bit then begin
          incr internal;
          report "internal" (Printf.sprintf "%s@U+%04X" name cp) "contains" "chunk bit" end) cps) !table_names;

  let cases = ref 0 in
  let seen : (string * string, string) Hashtbl.t = Hashtbl.create 2048 in   (* (name, path) -> impl observation *)
  let order = ref [] in
  let distinct = Hashtbl.create 1024 in
  let parse_path p = match String.split_on_char '/' p with
    | [k] -> (k, 1, 0) | [k; s; o] -> (k, int_of_string s, int_of_string o) | _ -> (p, 1, 0) in
  read_lines (fun line ->
    if String.length line > 0 && line.[0] = '#' then print_endline line else
    match split_tab line with
    | [name; path; impl] ->
      incr cases;
      Hashtbl.replace seen (name, path) impl;
      order := (name, path) :: !order;
      let cn = coq_string name in
      let (kind, stride, offset) = parse_path path in
      let expected =
        match kind with
        | "fn" when impl = "not-advertised" -> (match U.fn_table fns cn with Some _ -> "advertised" | None -> "not-advertised")
        | "fn" -> (match U.fn_table fns cn with Some t -> obs_of t stride offset | None -> "no-function")
        | "by_name" -> (match U.by_name loops cn with Some t -> obs_of t stride offset | None -> "unresolved")
        | "vm" -> (match U.vm_builtin vhard vfb loops cn with
            | U.VHard -> "hard" | U.VUndefined -> "panic" | U.VUnicode t -> obs_of t stride offset)
        | "validator" -> if U.mem cn vbuiltins then "accepted" else "rejected"
        | "gentext" -> (match U.gen_builtin glits gloop advertised_c cn with
            | U.GLiteral -> "literal" | U.GMissing -> "missing" | U.GUnicodeFn f -> "unicode::" ^ ocaml_string f)
        | "gen" -> (match U.gen_builtin glits gloop advertised_c cn with
            | U.GLiteral -> "literal" | U.GMissing -> "missing"
            | U.GUnicodeFn f -> (match U.fn_table fns f with Some t -> obs_of t stride offset | None -> "no-function"))
        | _ -> "unknown-path" in
      if impl <> expected then report "model" (name ^ " " ^ path) impl expected;
      (match String.index_opt impl ':' with
       | Some i when String.length impl > i + 1 && impl.[i + 1] <> ':' && (kind = "fn" || kind = "by_name" || kind = "vm" || kind = "gen") ->
         let pop = try int_of_string (String.sub impl (i + 1) (String.length impl - i - 1)) with _ -> 0 in
         if pop > 0 then Hashtbl.replace distinct (kind, stride, impl) ()
       | _ -> ())
    | _ -> ());
  (* the property itself, on the implementation's observations only *)
  let impl_adv = List.sort_uniq compare (List.filter_map (fun (n, p) -> if p = "fn" && Hashtbl.find seen (n, p) <> "not-advertised" then Some n else None) !order) in
  List.iter (fun name ->
    let find p = Hashtbl.find_opt seen (name, p) in
    let paths = List.sort_uniq compare (List.filter_map (fun (n, p) -> if n = name then Some p else None) !order) in
    let is_digest s = String.length s > 17 && s.[16] = ':' in
    (match find "fn", find "by_name" with
     | Some a, Some b when is_digest a && a = b -> ()
     | Some a, Some b -> report "spec" (name ^ " fn-vs-by_name") ("fn=" ^ a ^ " by_name=" ^ b) "the same membership vector on both paths"
     | _ -> ());
    (match find "validator" with
     | Some "accepted" | None -> ()
     | Some x -> report "spec" (name ^ " validator") x "accepted");
    (match find "gentext" with
     | None -> ()
     | Some x when x = "unicode::" ^ name -> ()
     | Some x -> report "spec" (name ^ " gentext") x ("unicode::" ^ name));
    List.iter (fun p ->
      let (kind, s, o) = parse_path p in
      if (kind = "vm" || kind = "gen") then begin
        let fnp = Printf.sprintf "fn/%d/%d" s o in
        match find p, (if s = 1 then find "fn" else find fnp) with
        | Some a, Some b when is_digest a && a = b -> ()
        | Some a, Some b -> report "spec" (name ^ " " ^ p ^ "-vs-fn") (kind ^ "=" ^ a ^ " fn=" ^ b) "the same membership vector on both paths"
        | _ -> ()
      end) paths) impl_adv;
  (* every name the model advertises must have been observed (the harness list is complete) *)
  let partial = Array.length Sys.argv > 2 && Sys.argv.(2) = "partial" in
  if not partial then
    List.iter (fun n -> if not (List.mem n impl_adv) then report "model" (n ^ " fn") "not observed by the harness" "advertised") advertised;
  let total = flush_reports () in
  Printf.printf "#RUNNER\tcases=%d\tmismatches=%d\tdistinct_nontrivial=%d\ttables=%d\tinternal_checks_failed=%d\n"
    !cases total (Hashtbl.length distinct) (List.length !table_names) !internal
