(* C10 runner: reads "<case>\t<impl observation>" lines produced by rust/harness/src/bin/c10.rs,
   recomputes every observation with the extracted MODEL of the code (Pos.Model, Pos.ErrorFmt) and
   checks it against the extracted SPECIFICATION (Pos.Spec: counting newlines / chars, lines
   meeting a span, what a rendering must show).
   MISMATCH kinds: model (impl vs model of the code), spec (impl vs specification outside the
   known classes = a property violation).  Disagreements with the specification INSIDE a known
   class (Pos.Spec.KnownClass_pos / KnownClass_span) are counted (#RUNNER known_class) and, with
   argument `showknown`, printed as MISMATCH known.  Argument `fx=<c><e>` selects the model and the
   known classes of the (partly) patched Error::new_from_span (the driver probes the tree). *)
open Pos_model
open Runner_common
type string = String.t   (* the extracted module defines its own string/char/length *)
type char = Char.t

(* ---- conversions *)
let rec nat_of_int i = if i <= 0 then O else S (nat_of_int (i - 1))
let rec n2i = function O -> 0 | S n -> 1 + n2i n
let rec pos_of_int i = if i = 1 then XH else if i land 1 = 0 then XO (pos_of_int (i lsr 1)) else XI (pos_of_int (i lsr 1))
let n_of_int i = if i = 0 then N0 else Npos (pos_of_int i)
let rec int_of_pos = function XH -> 1 | XO p -> 2 * int_of_pos p | XI p -> 2 * int_of_pos p + 1
let int_of_n = function N0 -> 0 | Npos p -> int_of_pos p

(* UTF-8 <-> code points *)
let decode (s : string) : int list =
  let n = String.length s in
  let rec go i acc =
    if i >= n then List.rev acc else
    let c = Char.code s.[i] in
    let b k = Char.code s.[i + k] land 0x3f in
    if c < 0x80 then go (i + 1) (c :: acc)
    else if c < 0xe0 then go (i + 2) ((((c land 0x1f) lsl 6) lor b 1) :: acc)
    else if c < 0xf0 then go (i + 3) ((((c land 0x0f) lsl 12) lor (b 1 lsl 6) lor b 2) :: acc)
    else go (i + 4) ((((c land 0x07) lsl 18) lor (b 1 lsl 12) lor (b 2 lsl 6) lor b 3) :: acc) in
  go 0 []
let encode (l : int list) : string =
  let b = Buffer.create 64 in
  List.iter (fun c ->
    if c < 0x80 then Buffer.add_char b (Char.chr c)
    else if c < 0x800 then (Buffer.add_char b (Char.chr (0xc0 lor (c lsr 6))); Buffer.add_char b (Char.chr (0x80 lor (c land 0x3f))))
    else if c < 0x10000 then (Buffer.add_char b (Char.chr (0xe0 lor (c lsr 12))); Buffer.add_char b (Char.chr (0x80 lor ((c lsr 6) land 0x3f))); Buffer.add_char b (Char.chr (0x80 lor (c land 0x3f))))
    else (Buffer.add_char b (Char.chr (0xf0 lor (c lsr 18))); Buffer.add_char b (Char.chr (0x80 lor ((c lsr 12) land 0x3f))); Buffer.add_char b (Char.chr (0x80 lor ((c lsr 6) land 0x3f))); Buffer.add_char b (Char.chr (0x80 lor (c land 0x3f))))) l;
  Buffer.contents b
let to_str (s : string) : str = List.map n_of_int (decode s)
let of_str (l : str) : string = encode (List.map int_of_n l)

let unesc (s : string) : string =
  let b = Buffer.create (String.length s) in
  let n = String.length s in
  let rec go i =
    if i < n then
      if s.[i] = '\\' && i + 1 < n then begin
        (match s.[i + 1] with 'n' -> Buffer.add_char b '\n' | 'r' -> Buffer.add_char b '\r' | 't' -> Buffer.add_char b '\t'
                             | '\\' -> Buffer.add_char b '\\' | c -> Buffer.add_char b '\\'; Buffer.add_char b c);
        go (i + 2) end
      else (Buffer.add_char b s.[i]; go (i + 1)) in
  go 0; Buffer.contents b
let esc (s : string) : string =
  let b = Buffer.create (String.length s) in
  String.iter (function '\\' -> Buffer.add_string b "\\\\" | '\t' -> Buffer.add_string b "\\t" | '\n' -> Buffer.add_string b "\\n"
                      | '\r' -> Buffer.add_string b "\\r" | c -> Buffer.add_char b c) s;
  Buffer.contents b

let msg : str = to_str "E"
(* model flags (argument fx=<c><e>): c = 1 tree with fixes/C10-1-continued-line-visualize.patch,
   e = 1 tree with fixes/C10-2-empty-span-at-end-line.patch *)
let fx : fixes =
  let has a = Array.exists (fun x -> x = a) Sys.argv in
  { fix_continued = has "fx=10" || has "fx=11"; fix_eoi_line = has "fx=01" || has "fx=11" }
let lc (l, c) = Printf.sprintf "%d,%d" (n2i l) (n2i c)
let rng (a, b) = Printf.sprintf "%d-%d" (n2i a) (n2i b)
let res_str f = function Ok x -> f x | Panic -> "PANIC" | Diverge -> "DIVERGE"
let lcl_s = function LPos p -> "P" ^ lc p | LSpan (a, b) -> "S" ^ lc a ^ "-" ^ lc b
let loc_s = function IPos p -> Printf.sprintf "P%d" (n2i p) | ISpan (a, b) -> Printf.sprintf "S%d-%d" (n2i a) (n2i b)
let opt_bit = function Some _ -> '1' | None -> '0'

(* ---- model observations (same text as the harness prints) *)
let model_s (s : str) : string =
  let n = n2i (blen s) + 1 in
  let b = Buffer.create 256 in
  Buffer.add_string b "pos=";
  for a = 0 to n do Buffer.add_char b (opt_bit (position_new s (nat_of_int a))) done;
  Buffer.add_string b ";span=";
  for a = 0 to n do for c = 0 to n do Buffer.add_char b (opt_bit (span_new s (nat_of_int a) (nat_of_int c))) done done;
  Buffer.contents b

let err_fields (e : error) : string =
  Printf.sprintf ";loc=%s;lcl=%s;line=%s" (loc_s e.e_location) (lcl_s e.e_line_col) (esc (of_str e.e_line))

let model_p (s : str) (a : nat) : string =
  match position_new s a with None -> "NOPOS" | Some _ ->
  let b = Buffer.create 256 in
  Buffer.add_string b ("lc=" ^ res_str lc (line_col s a));
  Buffer.add_string b (";lof=" ^ (match line_of s a with
    | Ok _ -> (match find_line_end s a with Ok e -> rng (find_line_start s a, e) | _ -> "PANIC")
    | Panic -> "PANIC" | Diverge -> "DIVERGE"));
  Buffer.add_string b (";plc=" ^ res_str lc (pair_line_col s a));
  (match new_from_pos s a msg with
   | Ok e ->
     Buffer.add_string b (err_fields e);
     Buffer.add_string b (";err=" ^ res_str (fun o -> esc (of_str o)) (format e));
     Buffer.add_string b (";errp=" ^ res_str (fun o -> esc (of_str o)) (format (with_path e (to_str "f.rs"))))
   | _ -> Buffer.add_string b ";err=PANIC");
  Buffer.contents b

let model_q (s : str) (a : nat) (bb : nat) : string =
  match span_new s a bb with None -> "NOSPAN" | Some sp ->
  let b = Buffer.create 256 in
  Buffer.add_string b ("lines=" ^ (match lines_span s sp, lines s sp with
    | Ok l, Ok _ -> String.concat "," (List.map rng l)
    | Diverge, _ | _, Diverge -> "DIVERGE" | _ -> "PANIC"));
  Buffer.add_string b (";from=" ^ (match line_col s a, line_col s bb with
    | Ok x, Ok y -> lcl_s (LSpan (x, y)) | _ -> "PANIC"));
  Buffer.add_string b (";slc=" ^ res_str lc (pair_line_col_upto s bb a));
  let d = n2i bb - n2i a in
  if d <= 6 then begin
    Buffer.add_string b ";get=";
    for x = 0 to d + 1 do for y = 0 to d + 1 do
      Buffer.add_char b (match span_get s sp (nat_of_int x) (nat_of_int y) with Ok o -> opt_bit o | _ -> 'P') done done end;
  (match new_from_span fx s sp msg with
   | Ok e ->
     Buffer.add_string b (err_fields e);
     Buffer.add_string b (";err=" ^ res_str (fun o -> esc (of_str o)) (format e))
   | _ -> Buffer.add_string b ";err=PANIC");
  Buffer.contents b

let model_m (s : str) a b c d : string =
  match span_new s a b, span_new s c d with
  | Some x, Some y -> (match merge_spans s x y with Some m -> rng m | None -> "none")
  | _ -> "NOSPAN"

(* ---- specification oracle *)
let fields (obs : string) : (string * string) list =
  List.filter_map (fun f -> match String.index_opt f '=' with
    | Some i -> Some (String.sub f 0 i, String.sub f (i + 1) (String.length f - i - 1)) | None -> None)
    (String.split_on_char ';' obs)
let field fs k = try List.assoc k fs with Not_found -> "<missing>"

type verdict = Good | Bad of string | Known of string

let spec_s (s : str) (obs : string) : verdict =
  let n = n2i (blen s) + 1 in
  let b = Buffer.create 256 in
  Buffer.add_string b "pos=";
  for a = 0 to n do Buffer.add_char b (if ordered_boundaries s (nat_of_int a) (nat_of_int a) then '1' else '0') done;
  Buffer.add_string b ";span=";
  for a = 0 to n do for c = 0 to n do Buffer.add_char b (if ordered_boundaries s (nat_of_int a) (nat_of_int c) then '1' else '0') done done;
  let e = Buffer.contents b in if e = obs then Good else Bad e

let spec_p (s : str) (a : nat) (obs : string) : verdict =
  let p = before s a and q = after s a in
  let fs = fields obs in
  let slc = lc (spec_line_col p) in
  let bad = ref [] in
  let expect k v = if field fs k <> v then bad := (k ^ "=" ^ v) :: !bad in
  expect "lc" slc; expect "plc" slc; expect "lcl" ("P" ^ slc); expect "loc" (Printf.sprintf "P%d" (n2i a));
  expect "lof" (rng (line_start p, line_end p q));
  if !bad <> [] then Bad (String.concat ";" (List.rev !bad)) else
  let out = to_str (unesc (field fs "err")) in
  if pos_render_okb p q msg out then Good
  else if knownClass_pos p q then Known "K1"
  else Bad ("err=" ^ esc (of_str (spec_pos_layout (pos_vis q) None p q msg)) ^ ";aligned=" ^ string_of_bool (text_aligned (pos_vis q) p))

let spec_q (s : str) (a : nat) (bb : nat) (obs : string) : verdict =
  let p = before s a in
  let rest = after s a in
  let mlen = nat_of_int (n2i bb - n2i a) in
  let m = before rest mlen and q = after rest mlen in
  let fs = fields obs in
  let bad = ref [] in
  let expect k v = if field fs k <> v then bad := (k ^ "=" ^ v) :: !bad in
  let la = lc (spec_line_col p) and lb = lc (spec_line_col (app p m)) in
  expect "lines" (String.concat "," (List.map rng (lines_meeting s a bb)));
  expect "from" ("S" ^ la ^ "-" ^ lb);
  expect "slc" la;
  expect "loc" (Printf.sprintf "S%d-%d" (n2i a) (n2i bb));
  let d = n2i mlen in
  if d <= 6 then begin
    let g = Buffer.create 64 in
    for x = 0 to d + 1 do for y = 0 to d + 1 do
      Buffer.add_char g (if ordered_boundaries m (nat_of_int x) (nat_of_int y) then '1' else '0') done done;
    expect "get" (Buffer.contents g) end;
  if !bad <> [] then Bad (String.concat ";" (List.rev !bad)) else
  let out = to_str (unesc (field fs "err")) in
  if span_shows p m q msg out then Good
  else if knownClass_span fx p m q then Known "Kspan"
  else Bad "err does not show line number / line text / marker column / continued line (Pos.Spec.span_shows)"

(* T: start offsets in pre-order = the numbers before each '-' of the tree text *)
let tree_starts (spec : string) : int list =
  let n = String.length spec in
  let rec go i cur acc =
    if i >= n then List.rev acc else
    match spec.[i] with
    | '0'..'9' as c -> go (i + 1) (match cur with None -> Some (Char.code c - 48) | Some x -> Some (x * 10 + Char.code c - 48)) acc
    | '-' -> go (i + 1) None (match cur with Some x -> x :: acc | None -> acc)
    | _ -> go (i + 1) None acc in
  go 0 None []
let lc_list (f : nat -> string) (starts : int list) : string =
  String.concat "|" (List.map (fun x -> Printf.sprintf "%d@%s" x (f (nat_of_int x))) starts)
let model_t (s : str) (spec : string) : string = lc_list (fun a -> res_str lc (pair_line_col s a)) (tree_starts spec)
let spec_lc_list (s : str) (starts : int list) (obs : string) : verdict =
  let e = lc_list (fun a -> lc (spec_line_col (before s a))) starts in
  if e = obs then Good else Bad e
let model_u (s : str) a c b : string = lc_list (fun x -> res_str lc (pair_line_col_upto s b x)) [n2i a; n2i c]

let spec_m a b c d (obs : string) : verdict =
  let a = n2i a and b = n2i b and c = n2i c and d = n2i d in
  let e = if b >= c && a <= d then Printf.sprintf "%d-%d" (Stdlib.min a c) (Stdlib.max b d) else "none" in
  if e = obs then Good else Bad e

let () =
  let showknown = Array.exists (fun a -> a = "showknown") Sys.argv in
  let n = ref 0 and known = ref 0 and known_shown = ref 0 in
  read_lines (fun line ->
    if String.length line > 0 && line.[0] = '#' then print_endline line else
    match split_tab line with
    | [case; impl] ->
      incr n;
      let parts k = (* split the case into k fields, the last one is the escaped string *)
        let rec go i acc s = if i = 1 then List.rev (s :: acc) else
          match String.index_opt s ':' with
          | Some j -> go (i - 1) (String.sub s 0 j :: acc) (String.sub s (j + 1) (String.length s - j - 1))
          | None -> List.rev (s :: acc) in go k [] case in
      let num x = nat_of_int (int_of_string x) in
      let model, verdict =
        (try match case.[0] with
        | 'S' -> (match parts 2 with [_; e] -> let s = to_str (unesc e) in model_s s, spec_s s impl | _ -> "BADCASE", Good)
        | 'P' -> (match parts 3 with [_; a; e] -> let s = to_str (unesc e) in model_p s (num a), spec_p s (num a) impl | _ -> "BADCASE", Good)
        | 'Q' -> (match parts 4 with [_; a; b; e] -> let s = to_str (unesc e) in model_q s (num a) (num b), spec_q s (num a) (num b) impl | _ -> "BADCASE", Good)
        | 'M' -> (match parts 6 with [_; a; b; c; d; e] -> let s = to_str (unesc e) in
                    model_m s (num a) (num b) (num c) (num d), spec_m (num a) (num b) (num c) (num d) impl | _ -> "BADCASE", Good)
        | 'T' -> (match parts 3 with [_; t; e] -> let s = to_str (unesc e) in model_t s t, spec_lc_list s (tree_starts t) impl | _ -> "BADCASE", Good)
        | 'U' -> (match parts 6 with [_; a; c; d; b; e] -> let s = to_str (unesc e) in
                    model_u s (num a) (num c) (num b), spec_lc_list s [int_of_string a; int_of_string c] impl | _ -> "BADCASE", Good)
        | _ -> "BADCASE", Good
        with Failure _ -> "BADCASE", Good) in
      (match verdict with
       | Bad e -> report "spec" case impl e
       | Known k ->
         incr known;
         if impl <> model then report "model" case impl model
         else if showknown && !known_shown < 200 then (incr known_shown; Printf.printf "MISMATCH\tknown\t%s\t%s\t%s\n" case impl k)
       | Good -> if impl <> model then report "model" case impl model)
    | _ -> ());
  Printf.printf "#RUNNER\tcases=%d\tmismatches=%d\tknown_class=%d\n" !n !mismatches !known
