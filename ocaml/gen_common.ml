(* Helpers shared by c02_runner.ml and c14_runner.ml: conversions, s-expression readers for the
   exchange formats of rust/harness/src/gram.rs, the printer of Layer-C programs in the format of
   rust/harness/src/prog.rs, observation strings of model runs.                              *)
open Runner_common
open Gen_model
type string = Stdlib.String.t

let rec nat_of_int i = if i <= 0 then O else S (nat_of_int (i - 1))
let rec int_of_nat = function O -> 0 | S n -> 1 + int_of_nat n
let rec pos_of_int i = if i <= 1 then XH else if i land 1 = 0 then XO (pos_of_int (i lsr 1)) else XI (pos_of_int (i lsr 1))
let n_of_int i = if i = 0 then N0 else Npos (pos_of_int i)
let z_of_int i = if i = 0 then Z0 else if i > 0 then Zpos (pos_of_int i) else Zneg (pos_of_int (-i))
let rec int_of_pos = function XH -> 1 | XO p -> 2 * int_of_pos p | XI p -> 2 * int_of_pos p + 1
let int_of_n = function N0 -> 0 | Npos p -> int_of_pos p
let int_of_z = function Z0 -> 0 | Zpos p -> int_of_pos p | Zneg p -> - (int_of_pos p)

let unhex (h : string) : byte list =
  if h = "-" then [] else List.init (String.length h / 2) (fun i -> n_of_int (int_of_string ("0x" ^ String.sub h (2 * i) 2)))
let hex (l : byte list) : string = if l = [] then "-" else String.concat "" (List.map (fun b -> Printf.sprintf "%02x" (int_of_n b)) l)
let bytes_of (s : string) : byte list = List.init (String.length s) (fun i -> n_of_int (Char.code s.[i]))
let string_of_bytes (l : byte list) : string = String.concat "" (List.map (fun b -> String.make 1 (Char.chr (int_of_n b))) l)

type sx = A of string | L of sx list
let tokenize (s : string) : string list =
  let b = Buffer.create (String.length s + 16) in
  String.iter (fun c -> match c with '(' -> Buffer.add_string b " ( " | ')' -> Buffer.add_string b " ) " | c -> Buffer.add_char b c) s;
  List.filter (fun x -> x <> "") (String.split_on_char ' ' (Buffer.contents b))
let rec parse_sx (t : string list) : sx * string list =
  match t with
  | "(" :: r -> let rec items acc r = (match r with ")" :: r' -> (L (List.rev acc), r') | _ -> let x, r' = parse_sx r in items (x :: acc) r') in items [] r
  | a :: r -> (A a, r)
  | [] -> failwith "eof"
let sx_of_string s = fst (parse_sx (tokenize s))
let ios = int_of_string

let rec oexpr_of (x : sx) : oexpr =
  match x with
  | L [A "str"; A h] -> OStr (unhex h) | L [A "ins"; A h] -> OInsens (unhex h)
  | L [A "range"; A a; A b] -> ORange (n_of_int (ios a), n_of_int (ios b))
  | L [A "id"; A n] -> OIdent (bytes_of n)
  | L [A "slice"; A i; A j] -> OPeekSlice (z_of_int (ios i), if j = "-" then None else Some (z_of_int (ios j)))
  | L [A "pos"; e] -> OPosPred (oexpr_of e) | L [A "neg"; e] -> ONegPred (oexpr_of e)
  | L [A "seq"; a; b] -> OSeq (oexpr_of a, oexpr_of b) | L [A "cho"; a; b] -> OChoice (oexpr_of a, oexpr_of b)
  | L [A "opt"; e] -> OOpt (oexpr_of e) | L [A "rep"; e] -> ORep (oexpr_of e) | L [A "rep1"; e] -> ORepOnce (oexpr_of e)
  | L (A "skip" :: ss) -> OSkip (List.map (function A h -> unhex h | _ -> failwith "skip") ss)
  | L [A "push"; e] -> OPush (oexpr_of e) | L [A "pushlit"; A h] -> OPushLiteral (unhex h)
  | L [A "tag"; A t; e] -> ONodeTag (oexpr_of e, bytes_of t)
  | L [A "roe"; e] -> ORestoreOnErr (oexpr_of e)
  | _ -> failwith "bad oexpr"
let rty_of = function "n" -> RNormal | "s" -> RSilent | "a" -> RAtomic | "c" -> RCompound | _ -> RNonAtomic
let ogrammar_of (s : string) : ogrammar =
  if s = "" then [] else
  List.map (fun r -> match sx_of_string r with L [A n; A t; e] -> { oname = bytes_of n; oty = rty_of t; oexpr_of = oexpr_of e } | _ -> failwith "bad rule")
    (String.split_on_char ';' s)

(* identifiers of an (unoptimized or optimized) grammar s-expression, without interpreting it *)
let idents_of_grammar (s : string) : string list =
  let acc = ref [] in
  let rec go = function L [A "id"; A n] -> if not (List.mem n !acc) then acc := n :: !acc | L l -> List.iter go l | A _ -> () in
  List.iter (fun r -> match sx_of_string r with L [A _; A _; e] -> go e | _ -> failwith "bad rule") (if s = "" then [] else String.split_on_char ';' s);
  List.rev !acc

(* ---- Layer-C programs in the format of prog.rs::Prog::show ---- *)
let show_prim (o : prim) : string =
  match o with
  | MOk -> "ok" | MErr -> "err"
  | MMatchString s -> Printf.sprintf "(str %s)" (hex s) | MMatchInsens s -> Printf.sprintf "(ins %s)" (hex s)
  | MMatchRange (a, b) -> Printf.sprintf "(range %d %d)" (int_of_n a) (int_of_n b)
  | MMatchCharBy rs -> "(cls" ^ String.concat "" (List.map (fun (a, b) -> Printf.sprintf " %d %d" (int_of_n a) (int_of_n b)) rs) ^ ")"
  | MSkip n -> Printf.sprintf "(skip %d)" (int_of_nat n)
  | MSkipUntil ss -> "(until" ^ String.concat "" (List.map (fun s -> " " ^ hex s) ss) ^ ")"
  | MSoi -> "soi" | MEoi -> "eoi"
  | MStackPushLit s -> Printf.sprintf "(pushlit %s)" (hex s)
  | MStackPeek -> "peek" | MStackPop -> "pop" | MStackDrop -> "drop" | MStackMatchPeek -> "mpeek" | MStackMatchPop -> "mpop"
  | MPeekSlice (i, j, d) ->
    Printf.sprintf "(slice %d %s %s)" (int_of_z i) (match j with None -> "-" | Some x -> string_of_int (int_of_z x)) (match d with BottomToTop -> "b2t" | TopToBottom -> "t2b")
  | MTagNode t -> Printf.sprintf "(tag %d)" (int_of_nat t)
let rec show_prog (p : prog) : string =
  match p with
  | PPrim o -> show_prim o
  | PRule (r, q) -> Printf.sprintf "(rule %d %s)" (int_of_nat r) (show_prog q)
  | PSequence q -> Printf.sprintf "(seq %s)" (show_prog q)
  | PRepeat q -> Printf.sprintf "(rep %s)" (show_prog q)
  | PRepeatLoop q -> Printf.sprintf "(reploop %s)" (show_prog q)
  | POptional q -> Printf.sprintf "(opt %s)" (show_prog q)
  | PLookahead (b, q) -> Printf.sprintf "(look %s %s)" (if b then "+" else "!") (show_prog q)
  | PAtomic (a, q) -> Printf.sprintf "(atomic %s %s)" (match a with Atomic -> "A" | CompoundAtomic -> "C" | NonAtomic -> "N") (show_prog q)
  | PStackPush q -> Printf.sprintf "(push %s)" (show_prog q)
  | PRestoreOnErr q -> Printf.sprintf "(roe %s)" (show_prog q)
  | PAndThen (a, b) -> Printf.sprintf "(then %s %s)" (show_prog a) (show_prog b)
  | POrElse (a, b) -> Printf.sprintf "(else %s %s)" (show_prog a) (show_prog b)
  | PIfNonAtomic (a, b) -> Printf.sprintf "(ifna %s %s)" (show_prog a) (show_prog b)
  | PCall f -> Printf.sprintf "(call %d)" (int_of_nat f)

let fixed_names = ["ANY"; "EOI"; "SOI"; "PEEK"; "PEEK_ALL"; "POP"; "POP_ALL"; "DROP"; "ASCII_DIGIT"; "ASCII_NONZERO_DIGIT"; "ASCII_BIN_DIGIT";
  "ASCII_OCT_DIGIT"; "ASCII_HEX_DIGIT"; "ASCII_ALPHA_LOWER"; "ASCII_ALPHA_UPPER"; "ASCII_ALPHA"; "ASCII_ALPHANUMERIC"; "ASCII"; "NEWLINE"]
let index_of x l = let rec go i = function [] -> None | y :: r -> if x = y then Some i else go (i + 1) r in go 0 l

(* ---- observation of a model run, in the format of the harness ("Ok <forest>" | "Err p [..] [..]") ---- *)
type tree = Node of int * int option * int * int * tree list
let forest_of_queue (q : qtoken list) : tree list =
  let stack = ref [] and cur = ref [] in
  List.iter (function
    | QStart (_, p) -> stack := (int_of_nat p, !cur) :: !stack; cur := []
    | QEnd (_, r, tg, p) ->
      (match !stack with
       | (sp, saved) :: rest -> stack := rest; cur := Node (int_of_nat r, (match tg with None -> None | Some t -> Some (int_of_nat t)), sp, int_of_nat p, List.rev !cur) :: saved
       | [] -> ())) q;
  List.rev !cur
let tag_string (t : int) : string =
  let rec go n acc = if n = 0 then acc else go (n / 256) (String.make 1 (Char.chr (n mod 256)) ^ acc) in go t ""
let name_of (names : string array) i = if i < Array.length names then names.(i) else "EOI"
let rec forest_string (names : string array) (f : tree list) : string =
  String.concat "" (List.map (fun (Node (r, tg, s, e, ch)) ->
    Printf.sprintf "%s%s(%d,%d)[%s]" (name_of names r) (match tg with None -> "" | Some t -> "#" ^ tag_string t) s e (forest_string names ch)) f)
let cfg = { memchr = true; fixed3 = true; fixedlim = false }
let obs_of (names : string array) (r : res) : string =
  match outcome_of cfg r with
  | OPairs q -> "Ok " ^ forest_string names (forest_of_queue q)
  | OCallLimit _ -> "Limit"
  | OParsingError (ps, ns, p) ->
    let nm l = String.concat "," (List.sort_uniq compare (List.map (fun i -> name_of names (int_of_nat i)) l)) in
    Printf.sprintf "Err %d [%s] [%s]" (int_of_nat p) (nm ps) (nm ns)
  | OPanic -> "Panic"
  | OOutOfFuel -> "Fuel"

(* ---- translation validation of one emitted parser (shared by C02 and C14) ---- *)
let utable : (byte list * (n * n) list) list ref = ref []

let split_on_bar s = String.split_on_char '|' s
let kv s = match String.index_opt s '=' with Some i -> (String.sub s 0 i, String.sub s (i + 1) (String.length s - i - 1)) | None -> (s, "")

let why_name = function 0 -> "in-H" | 1 -> "C02-shadow-builtin(fixed: unreachable)" | 2 -> "C02-ws-nonatomic" | 3 -> "C02-node-tag" | _ -> "C02-dirty-atomic-rep"

let h_counts = Array.make 5 0
let classify extras og = let k = int_of_nat (why_not_H og extras) in h_counts.(min k 4) <- h_counts.(min k 4) + 1; k

(* ---- pinpointing a structural difference: the smallest sub-expressions of the differing rule whose model translation occurs in
   the model's closure more often than in the emitted one.  They are printed in pest syntax (CULPRIT lines) so that the driver can
   build grammars AROUND the construct and search real generated parser vs real VM for a failing input. ---- *)
let count_sub (s : string) (sub : string) : int =
  let n = String.length s and m = String.length sub in
  if m = 0 then 0 else begin
    let c = ref 0 and i = ref 0 in
    while !i + m <= n do if String.sub s !i m = sub then (incr c; i := !i + m) else incr i done;
    !c
  end
let pest_lit (bs : byte list) : string =
  let b = Buffer.create 16 in
  Buffer.add_char b '"';
  List.iter (fun x -> let c = int_of_n x in
    if c = 34 then Buffer.add_string b "\\\"" else if c = 92 then Buffer.add_string b "\\\\" else if c = 10 then Buffer.add_string b "\\n"
    else if c = 13 then Buffer.add_string b "\\r" else if c = 9 then Buffer.add_string b "\\t"
    else if c < 32 || c = 127 then Buffer.add_string b (Printf.sprintf "\\x%02X" c) else Buffer.add_char b (Char.chr c)) bs;
  Buffer.add_char b '"';
  Buffer.contents b
let pest_chr (c : int) : string =
  if c = 39 then "'\\''" else if c = 92 then "'\\\\'" else if c >= 32 && c < 127 then Printf.sprintf "'%c'" (Char.chr c) else Printf.sprintf "'\\u{%X}'" c
let rec pest_of_oexpr (e : oexpr) : string =
  match e with
  | OStr s -> pest_lit s | OInsens s -> "^" ^ pest_lit s
  | ORange (a, b) -> pest_chr (int_of_n a) ^ ".." ^ pest_chr (int_of_n b)
  | OIdent n -> string_of_bytes n
  | OPeekSlice (i, j) -> Printf.sprintf "PEEK[%d..%s]" (int_of_z i) (match j with None -> "" | Some x -> string_of_int (int_of_z x))
  | OPosPred x -> "&(" ^ pest_of_oexpr x ^ ")" | ONegPred x -> "!(" ^ pest_of_oexpr x ^ ")"
  | OSeq (a, b) -> "(" ^ pest_of_oexpr a ^ " ~ " ^ pest_of_oexpr b ^ ")" | OChoice (a, b) -> "(" ^ pest_of_oexpr a ^ " | " ^ pest_of_oexpr b ^ ")"
  | OOpt x -> "(" ^ pest_of_oexpr x ^ ")?" | ORep x -> "(" ^ pest_of_oexpr x ^ ")*" | ORepOnce x -> "(" ^ pest_of_oexpr x ^ ")+"
  | OSkip ss -> "(!(" ^ String.concat " | " (List.map pest_lit ss) ^ ") ~ ANY)*"
  | OPush x -> "PUSH(" ^ pest_of_oexpr x ^ ")" | OPushLiteral s -> "PUSH_LITERAL(" ^ pest_lit s ^ ")"
  | ONodeTag (x, t) -> "(#" ^ string_of_bytes t ^ " = " ^ pest_of_oexpr x ^ ")"
  | ORestoreOnErr x -> pest_of_oexpr x
let children (e : oexpr) : oexpr list =
  match e with
  | OPosPred x | ONegPred x | OOpt x | ORep x | ORepOnce x | OPush x | ORestoreOnErr x | ONodeTag (x, _) -> [x]
  | OSeq (a, b) | OChoice (a, b) -> [a; b]
  | _ -> []
let esc_field (s : string) : string =
  let b = Buffer.create (String.length s + 8) in
  String.iter (fun c -> match c with '\\' -> Buffer.add_string b "\\\\" | '\t' -> Buffer.add_string b "\\t" | '\n' -> Buffer.add_string b "\\n"
                                     | '\r' -> Buffer.add_string b "\\r" | c -> Buffer.add_char b c) s;
  Buffer.contents b
let ty_char = function RNormal -> "n" | RSilent -> "s" | RAtomic -> "a" | RCompound -> "c" | RNonAtomic -> "x"
(* minimal suspect sub-expressions of rule r; [] when the difference is not inside any sub-expression (wrappers of the rule) *)
let suspects og u (r : orule) (impl : string) (model : string) : oexpr list =
  let suspect e =
    List.exists (fun t -> let s = show_prog t in count_sub model s > count_sub impl s) [gen_expr og u e; gen_expr_atomic og u e] in
  let rec go e : oexpr list * bool =    (* minimal suspects below or at e, and whether e or something below it is one *)
    let sub = List.map go (children e) in
    let below = List.concat (List.map fst sub) in
    if below <> [] then (below, true) else if suspect e then ([e], true) else ([], false) in
  fst (go r.oexpr_of)
let culprit_budget = ref 40
let print_culprits ~text x og u (what : string) (r : orule option) impl model =
  if text <> "" && !culprit_budget > 0 then begin
    let h = int_of_nat (why_not_H og (x = "1")) in
    let emit ty kind c = decr culprit_budget; Printf.printf "CULPRIT\t%s\t%s\t%s\t%d\t%s\t%s\t%s\n" x ty kind h what (esc_field c) text in
    match r with
    | Some r ->
      let special = is_special_name r.oname in
      (match (try suspects og u r impl model with _ -> []) with
       | [] -> emit (ty_char r.oty) (if special then "trivia" else "rule") (pest_of_oexpr r.oexpr_of)
       | l -> List.iter (fun e -> emit (ty_char r.oty) "expr" (pest_of_oexpr e)) (List.sort_uniq compare l))
    | None -> if what = "hidden::skip" then emit "n" "skip" "" else emit "n" "builtin" (String.sub what 9 (String.length what - 9))
  end

(* ---- translation validation of one emitted parser ---- *)
let check_tv ?(text = "") x orig osexp shown =
  let extras = x = "1" in
  let og = ogrammar_of osexp in
  let u = !utable in
  let case = Printf.sprintf "x=%s og=%s%s" x osexp (if text = "" then "" else " g=" ^ text) in
  let names = List.map (fun r -> string_of_bytes r.oname) og in
  let n = List.length og in
  let called = idents_of_grammar orig in
  let defaults = List.filter (fun c -> not (List.mem c names)) called in
  let uses_eoi = List.mem "EOI" defaults in
  let env = gen_env og u in
  let closure k = match env (nat_of_int k) with Some p -> show_prog p | None -> "<no closure>" in
  let unames = List.map (fun (nmb, _) -> string_of_bytes nmb) u in
  let parts = List.map kv (split_on_bar shown) in
  let get k = try List.assoc k parts with Not_found -> "<missing>" in
  let bad = ref false in
  let cmp what impl expected =
    if impl <> expected then begin
      Printf.printf "DIFF\t%s\n" what;
      if not !bad then begin bad := true; report "model" (case ^ " at=" ^ what) impl expected end
    end in
  cmp "enum" (get "enum") (String.concat "," ((if uses_eoi then ["EOI"] else []) @ names));
  cmp "all_rules" (get "all") (String.concat "," names);
  cmp "hidden::skip" (get "skip") (show_prog (gen_skip og));
  if get "skip" <> show_prog (gen_skip og) then print_culprits ~text x og u "hidden::skip" None "" "";
  let fns = List.filter_map (fun (k, v) -> if String.length k > 3 && String.sub k 0 3 = "fn:" then Some (String.sub k 3 (String.length k - 3), v) else None) parts in
  let rec firstn k l = if k = 0 then [] else match l with [] -> [] | x :: r -> x :: firstn (k - 1) r in
  let rec dropn k l = if k = 0 then l else match l with [] -> [] | _ :: r -> dropn (k - 1) r in
  let user = firstn n fns and builtin = dropn n fns in
  cmp "rule functions" (String.concat "," (List.map fst user)) (String.concat "," names);
  List.iteri (fun k (nm, body) -> cmp ("fn " ^ nm) body (closure k);
    if body <> closure k then (match List.nth_opt og k with Some r when string_of_bytes r.oname = nm -> print_culprits ~text x og u ("fn " ^ nm) (Some r) body (closure k) | _ -> ())) user;
  cmp "built-in functions" (String.concat "," (List.sort compare (List.map fst builtin))) (String.concat "," (List.sort compare defaults));
  List.iter (fun (nm, body) ->
    let k = match index_of nm fixed_names with Some i -> n + 3 + i | None -> (match index_of nm unames with Some j -> n + 22 + j | None -> -1) in
    cmp ("built-in " ^ nm) body (if k < 0 then "<not a built-in of the model>" else closure k);
    if k >= 0 && body <> closure k then print_culprits ~text x og u ("built-in " ^ nm) None "" "") builtin;
  cmp "start" (get "start") (String.concat "," (List.map (fun r -> r ^ ">" ^ r) (names @ (if uses_eoi then ["EOI"] else []))));
  ignore (classify extras og)

