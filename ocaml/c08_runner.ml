(* C08 runner: reads "<case>\t<impl observation>" lines (see rust/harness/src/bin/c08.rs).
   For every case it
     - recomputes the observation (attempt forest + state() outcome) with the extracted instrumented model
       Attempts.exec_log                                               -> MISMATCH kind `model`;
     - evaluates the extracted SPECIFICATION (max_reportable_pos, nodes_of, report_counted, report_of_log,
       KnownClass) on the attempt forest recorded by the REAL run against the REAL error
                                                                       -> MISMATCH kind `spec`;
     - the literal set reading report_of_log may differ from the real report only inside KnownClass
       (counted in #RUNNER known_class; shown as kind `known` with the argument `showknown`).
   CONTRACT lines (the Rust-side oracle failed) are reported as kind `spec`, VMDIFF lines as kind `vm`.  *)
open Attempts_model
open Runner_common

let rec nat_of_int i = if i <= 0 then O else S (nat_of_int (i - 1))
let rec int_of_nat = function O -> 0 | S n -> 1 + int_of_nat n
let rec pos_of_int i = if i <= 1 then XH else if i land 1 = 0 then XO (pos_of_int (i lsr 1)) else XI (pos_of_int (i lsr 1))
let n_of_int i = if i = 0 then N0 else Npos (pos_of_int i)
let z_of_int i = if i = 0 then Z0 else if i > 0 then Zpos (pos_of_int i) else Zneg (pos_of_int (-i))
let rec int_of_pos = function XH -> 1 | XO p -> 2 * int_of_pos p | XI p -> 2 * int_of_pos p + 1
let int_of_n = function N0 -> 0 | Npos p -> int_of_pos p

let unhex (h : string) : byte list =
  if h = "-" then [] else
  List.init (String.length h / 2) (fun i -> n_of_int (int_of_string ("0x" ^ String.sub h (2 * i) 2)))

(* ---- s-expression reader for progs ---- *)
let tokenize (s : string) : string list =
  let b = Buffer.create (String.length s + 16) in
  String.iter (fun c -> match c with '(' -> Buffer.add_string b " ( " | ')' -> Buffer.add_string b " ) " | c -> Buffer.add_char b c) s;
  List.filter (fun x -> x <> "") (String.split_on_char ' ' (Buffer.contents b))

let rec parse_p (t : string list) : prog * string list =
  match t with
  | "(" :: head :: rest ->
    let rec atoms acc = function
      | x :: r when x <> "(" && x <> ")" -> atoms (x :: acc) r
      | r -> (List.rev acc, r) in
    let take1 = function x :: r -> ([x], r) | [] -> failwith "eof" in
    let close = function ")" :: r -> r | _ -> failwith "expected )" in
    let ios = int_of_string in
    (match head with
     | "str" -> let a, r = atoms [] rest in (PPrim (MMatchString (unhex (List.hd a))), close r)
     | "ins" -> let a, r = atoms [] rest in (PPrim (MMatchInsens (unhex (List.hd a))), close r)
     | "range" -> let a, r = atoms [] rest in (PPrim (MMatchRange (n_of_int (ios (List.nth a 0)), n_of_int (ios (List.nth a 1)))), close r)
     | "cls" -> let a, r = atoms [] rest in
       let rec prs = function x :: y :: l -> (n_of_int (ios x), n_of_int (ios y)) :: prs l | _ -> [] in
       (PPrim (MMatchCharBy (prs a)), close r)
     | "skip" -> let a, r = atoms [] rest in (PPrim (MSkip (nat_of_int (ios (List.hd a)))), close r)
     | "until" -> let a, r = atoms [] rest in (PPrim (MSkipUntil (List.map unhex a)), close r)
     | "pushlit" -> let a, r = atoms [] rest in (PPrim (MStackPushLit (unhex (List.hd a))), close r)
     | "slice" -> let a, r = atoms [] rest in
       let j = if List.nth a 1 = "-" then None else Some (z_of_int (ios (List.nth a 1))) in
       (PPrim (MPeekSlice (z_of_int (ios (List.nth a 0)), j, if List.nth a 2 = "b2t" then BottomToTop else TopToBottom)), close r)
     | "tag" -> let a, r = atoms [] rest in (PPrim (MTagNode (nat_of_int (ios (List.hd a)))), close r)
     | "call" -> let a, r = atoms [] rest in (PCall (nat_of_int (ios (List.hd a))), close r)
     | "rule" -> let a, r = take1 rest in let p, r = parse_p r in (PRule (nat_of_int (ios (List.hd a)), p), close r)
     | "seq" -> let p, r = parse_p rest in (PSequence p, close r)
     | "rep" -> let p, r = parse_p rest in (PRepeat p, close r)
     | "opt" -> let p, r = parse_p rest in (POptional p, close r)
     | "look" -> let a, r = take1 rest in let p, r = parse_p r in (PLookahead (List.hd a = "+", p), close r)
     | "atomic" -> let a, r = take1 rest in let p, r = parse_p r in
       (PAtomic ((match List.hd a with "A" -> Atomic | "C" -> CompoundAtomic | _ -> NonAtomic), p), close r)
     | "push" -> let p, r = parse_p rest in (PStackPush p, close r)
     | "roe" -> let p, r = parse_p rest in (PRestoreOnErr p, close r)
     | "then" -> let p, r = parse_p rest in let q, r = parse_p r in (PAndThen (p, q), close r)
     | "else" -> let p, r = parse_p rest in let q, r = parse_p r in (POrElse (p, q), close r)
     | "ifna" -> let p, r = parse_p rest in let q, r = parse_p r in (PIfNonAtomic (p, q), close r)
     | h -> failwith ("bad head " ^ h))
  | a :: rest ->
    ((match a with
      | "ok" -> PPrim MOk | "err" -> PPrim MErr | "soi" -> PPrim MSoi | "eoi" -> PPrim MEoi | "peek" -> PPrim MStackPeek
      | "pop" -> PPrim MStackPop | "drop" -> PPrim MStackDrop | "mpeek" -> PPrim MStackMatchPeek | "mpop" -> PPrim MStackMatchPop
      | x -> failwith ("bad atom " ^ x)), rest)
  | [] -> failwith "empty prog"

let prog_of_string s = fst (parse_p (tokenize s))

(* ---- attempt forests in the exchange notation ---- *)
let rec show_forest (b : Buffer.t) (f : attempt list) : unit =
  List.iter (fun (Attempt (r, p, m, sg, at, ch)) ->
    Buffer.add_string b (Printf.sprintf "%d@%d%c%c%c[" (int_of_nat r) (int_of_nat p) (if m then 'M' else 'F')
      (match sg with LNone -> 'n' | LPos -> 'p' | LNeg -> 'g') (if at then 'a' else '-'));
    show_forest b ch; Buffer.add_char b ']') f

let parse_forest (s : string) : attempt list =
  let n = String.length s in
  let i = ref 0 in
  let num () = let j = !i in while !i < n && s.[!i] >= '0' && s.[!i] <= '9' do incr i done;
    if !i = j then failwith "forest: number expected"; int_of_string (String.sub s j (!i - j)) in
  let rec forest () =
    if !i < n && s.[!i] >= '0' && s.[!i] <= '9' then begin
      let r = num () in
      if s.[!i] <> '@' then failwith "forest: @ expected"; incr i;
      let p = num () in
      let m = (s.[!i] = 'M') in incr i;
      let sg = (match s.[!i] with 'n' -> LNone | 'p' -> LPos | 'g' -> LNeg | _ -> failwith "forest: sign") in incr i;
      let at = (s.[!i] = 'a') in incr i;
      if s.[!i] <> '[' then failwith "forest: [ expected"; incr i;
      let ch = forest () in
      if s.[!i] <> ']' then failwith "forest: ] expected"; incr i;
      let rest = forest () in
      Attempt (nat_of_int r, nat_of_int p, m, sg, at, ch) :: rest
    end else [] in
  let f = forest () in
  if !i <> n then failwith "forest: trailing text"; f

let ints l = "[" ^ String.concat ", " (List.map string_of_int l) ^ "]"
let parse_ints (s : string) : int list =           (* "[1, 2]" *)
  let s = String.sub s 1 (String.length s - 2) in
  if s = "" then [] else List.map (fun x -> int_of_string (String.trim x)) (String.split_on_char ',' s)

(* state() outcome in the harness format *)
let outcome_string (o : outcome) : string =
  match o with
  | OPairs q ->
    let arr = Array.of_list q in
    let b = Buffer.create 64 in
    Buffer.add_string b "OK:";
    Array.iter (function
      | QStart (e, p) ->
        let rule = (match arr.(int_of_nat e) with QEnd (_, r, _, _) -> int_of_nat r | _ -> -1) in
        Buffer.add_string b (Printf.sprintf "S%d@%d," rule (int_of_nat p))
      | QEnd (_, r, _, p) -> Buffer.add_string b (Printf.sprintf "E%d@%d," (int_of_nat r) (int_of_nat p))) arr;
    Buffer.contents b
  | OCallLimit p -> Printf.sprintf "CE:call limit reached@%d" (int_of_nat p)
  | OParsingError (ps, ns, p) -> Printf.sprintf "PE:%s:%s@%d" (ints (List.map int_of_nat ps)) (ints (List.map int_of_nat ns)) (int_of_nat p)
  | OPanic -> "Panic"
  | OOutOfFuel -> "Diverged"

let find_key (s : string) (k : string) : int =
  let n = String.length s and m = String.length k in
  let rec go i = if i + m > n then failwith ("missing " ^ k) else if String.sub s i m = k then i else go (i + 1) in
  go 0

let fixed3 = ref true
let memchr_on = ref true
let showknown = ref false

(* the model's observation; `fixedlim` is C12's repair of state() (Ok path) - irrelevant to failure reports,
   so an implementation observation equal to the model under either setting is accepted *)
let eval_case_fuel (case : string) (fixedlim : bool) (fuel_n : int) : string =
  let ki = find_key case " in=" and ke = find_key case " env=" and kp = find_key case " prog=" in
  let head = String.sub case 0 ki in
  let lim = ref None and det = ref false in
  List.iter (fun f ->
    if String.length f > 4 && String.sub f 0 4 = "lim=" then (let v = String.sub f 4 (String.length f - 4) in if v <> "-" then lim := Some (nat_of_int (int_of_string v)));
    if String.length f > 4 && String.sub f 0 4 = "det=" then det := (String.sub f 4 1 = "1")) (String.split_on_char ' ' head);
  let input = unhex (String.sub case (ki + 4) (ke - ki - 4)) in
  let envs = String.sub case (ke + 5) (kp - ke - 5) in
  let envl = if envs = "-" then [||] else Array.of_list (List.map prog_of_string (String.split_on_char ';' envs)) in
  let env (f : nat) = let i = int_of_nat f in if i < Array.length envl then Some envl.(i) else None in
  let prog = prog_of_string (String.sub case (kp + 6) (String.length case - kp - 6)) in
  let cfg = { memchr = !memchr_on; fixed3 = !fixed3; fixedlim = fixedlim } in
  let fuel = nat_of_int fuel_n in
  match run_state_log cfg env fuel prog input !lim !det with
  | (RPanic _, _) -> "Panic"
  | (ROutOfFuel, _) -> "Diverged"
  | ((ROk _ | RErr _) as r, log) ->
    let b = Buffer.create 128 in
    show_forest b log;
    (* the harness takes Ok/Err from the result of state(): with C12's repair an Ok closure result whose call limit
       was reached is reported as the call-limit error *)
    let o = outcome_of cfg r in
    Printf.sprintf "%s log=%s || %s" (match o with OPairs _ -> "Ok" | _ -> "Err") (Buffer.contents b) (outcome_string o)

(* fuel 500 suffices for the generated cases; a model run that exhausts it is repeated with more before it is compared *)
let eval_case (case : string) (fixedlim : bool) : string =
  let m = eval_case_fuel case fixedlim 500 in
  if m = "Diverged" then eval_case_fuel case fixedlim 5000 else m

(* ---- the specification evaluated on the implementation's own forest and error ---- *)
let known = ref 0
let spec_checked = ref 0
let skipped = ref 0

let check_spec (case : string) (impl : string) : unit =
  (* impl = "Err log=<forest> || PE:[..]:[..]@p" *)
  let k = find_key impl " || " in
  let out = String.sub impl (k + 4) (String.length impl - k - 4) in
  if String.length out > 3 && String.sub out 0 3 = "PE:" then begin
    incr spec_checked;
    (* the forest the specification is evaluated on carries the STRUCTURAL sign / atomicity (slog) when the harness gives it:
       a state whose look-ahead bookkeeping is wrong must not be judged by its own account of the sign *)
    let key = (try ignore (find_key impl " slog="); " slog=" with Failure _ -> " log=") in
    let l0 = find_key impl key + String.length key in
    let log = parse_forest (String.sub impl l0 (k - l0)) in
    let body = String.sub out 3 (String.length out - 3) in
    let a = String.rindex body '@' in
    let at = int_of_string (String.sub body (a + 1) (String.length body - a - 1)) in
    let lists = String.sub body 0 a in
    let c = find_key lists "]:[" in
    let ps = parse_ints (String.sub lists 0 (c + 1)) and ns = parse_ints (String.sub lists (c + 2) (String.length lists - c - 2)) in
    let bad = ref [] in
    let m = int_of_nat (max_reportable_pos log) in
    if m <> at then bad := Printf.sprintf "(a) position %d, max_reportable_pos %d" at m :: !bad;
    let nd = List.map (fun ((((r, p), mt), sg), atm) -> (int_of_nat r, int_of_nat p, mt, sg, atm)) (nodes_of log) in
    List.iter (fun r -> if not (List.exists (fun (r', p, mt, sg, atm) -> r' = r && p = at && not mt && sg <> LNeg && not atm) nd)
                then bad := Printf.sprintf "(b) positive %d not failed_at %d" r at :: !bad) ps;
    List.iter (fun r -> if not (List.exists (fun (r', p, mt, sg, atm) -> r' = r && p = at && mt && sg = LNeg && not atm) nd)
                then bad := Printf.sprintf "(b) negative %d not matched_negated_at %d" r at :: !bad) ns;
    let rec inc = function x :: (y :: _ as t) -> x < y && inc t | _ -> true in
    if not (inc ps && inc ns) then bad := "(c) lists not strictly increasing" :: !bad;
    let (cp, cn) = report_counted log in
    let cp = List.map int_of_nat cp and cn = List.map int_of_nat cn in
    if cp <> ps || cn <> ns then bad := Printf.sprintf "(d) report_counted = %s/%s" (ints cp) (ints cn) :: !bad;
    let (sp, sn) = report_of_log log in
    let sp = List.map int_of_nat sp and sn = List.map int_of_nat sn in
    if sp <> ps || sn <> ns then begin
      if knownClass log then begin
        incr known;
        if !showknown then Printf.printf "MISMATCH\tknown\t%s\t%s\treport_of_log (set reading) = %s/%s\n" case impl (ints sp) (ints sn)
      end else bad := Printf.sprintf "(d) report_of_log = %s/%s outside KnownClass" (ints sp) (ints sn) :: !bad
    end;
    if !bad <> [] then report "spec" case impl (String.concat "; " (List.rev !bad))
  end

let () =
  Array.iter (fun a -> if a = "--unfixed3" then fixed3 := false; if a = "--no-memchr" then memchr_on := false; if a = "showknown" then showknown := true) Sys.argv;
  let n = ref 0 in
  read_lines (fun line ->
    if String.length line > 0 && line.[0] = '#' then print_endline line else
    match split_tab line with
    | ["CONTRACT"; case; msg] -> report "spec" case msg "property oracle evaluated on the real run"
    | ["VMDIFF"; case; vm; pr] -> report "vm" case vm pr
    | [case; impl_full] ->
      incr n;
      (* the model is compared with the observation without the structural forest *)
      let impl = (match (try Some (find_key impl_full " slog=") with Failure _ -> None) with
        | None -> impl_full
        | Some a -> let b = find_key impl_full " || " in String.sub impl_full 0 a ^ String.sub impl_full b (String.length impl_full - b)) in
      (* "Diverged" on the Rust side = its closure-invocation budget ran out (nothing to compare: the model bounds depth, not work) *)
      if impl = "Diverged" then incr skipped else
      let m = (try eval_case case false with Failure e -> "RUNNER-ERROR " ^ e | Stack_overflow -> "Diverged") in
      if m <> impl then begin
        let m2 = (try eval_case case true with Failure e -> "RUNNER-ERROR " ^ e | Stack_overflow -> "Diverged") in
        if m2 <> impl then report "model" case impl m
      end;
      (try if String.length impl_full > 4 && String.sub impl_full 0 4 = "Err " then check_spec case impl_full
       with Failure e -> report "spec" case impl ("RUNNER-ERROR " ^ e) | Not_found -> report "spec" case impl "RUNNER-ERROR parse")
    | _ -> ());
  Printf.printf "#RUNNER\tcases=%d\tmismatches=%d\tspec_checked=%d\tknown_class=%d\tbudget_skipped=%d\n" !n !mismatches !spec_checked !known !skipped
